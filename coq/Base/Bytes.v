(* Base/Bytes.v — byte strings (list N, one element per byte) for the tag/language model (C18):
   the string-literal helper used by the generated tables and the rule syntax of the
   complex-language matcher. Definitions only. *)
From Coq Require Import List NArith String Ascii.
Import ListNotations.

Definition bytes := list N.

Fixpoint s (x : string) : bytes :=
  match x with
  | EmptyString => []
  | String a r => N_of_ascii a :: s r
  end.

(* conditions of tags_from_complex_language rules (see Model/Tag.v for their meaning) *)
Inductive ccond :=
| CSub (sub : bytes)                       (* subtag_matches(language, sub) *)
| CExact (rest : bytes)                    (* &language[1..] == rest *)
| CLang (spec : bytes)                     (* lang_matches(&language[1..], spec) *)
| CStrn (p : bytes) (n : N) (sub : bytes). (* strncmp(&language[1..], p, n) && subtag_matches(language, sub) *)
