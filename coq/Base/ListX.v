(* Base/ListX.v — small list / range utilities shared by the models (stdlib only). *)
From Coq Require Import List NArith Arith Lia Bool.
Import ListNotations.

Definition nrange (n : nat) : list N := map N.of_nat (seq 0 n).

Lemma nrange_In (n : nat) (x : N) : In x (nrange n) <-> (x < N.of_nat n)%N.
Proof.
  unfold nrange. rewrite in_map_iff. split.
  - intros [k [Hk Hin]]. apply in_seq in Hin. subst x. lia.
  - intros H. exists (N.to_nat x). split; [apply N2Nat.id|]. apply in_seq. lia.
Qed.

Lemma forallb_nrange (n : nat) (f : N -> bool) :
  forallb f (nrange n) = true -> forall x, (x < N.of_nat n)%N -> f x = true.
Proof.
  intros H x Hx. rewrite forallb_forall in H. apply H. apply nrange_In. exact Hx.
Qed.
