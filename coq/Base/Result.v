(* Base/Result.v — explicit error values: a Rust panic is never a default value in the models. *)
Inductive err := Oob | AssertFail | UnwrapNone | Overflow | CharBoundary | OutOfFuel.

Inductive result (A : Type) := Ok (a : A) | Error (e : err).
Arguments Ok {A} a.
Arguments Error {A} e.

Definition bind {A B} (r : result A) (f : A -> result B) : result B :=
  match r with Ok a => f a | Error e => Error e end.

Notation "'do' x <- r ; k" := (bind r (fun x => k)) (at level 200, x name, r at level 100, k at level 200).

Definition is_ok {A} (r : result A) : bool := match r with Ok _ => true | Error _ => false end.

(* numeric code of an error class, for correspondence with the harness's panic classes *)
Definition err_code (e : err) : nat :=
  match e with Oob => 1 | AssertFail => 2 | UnwrapNone => 3 | Overflow => 4 | CharBoundary => 5 | OutOfFuel => 6 end.
