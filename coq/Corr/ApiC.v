(* Corr/ApiC.v — replays observed histories of the public buffer API on Model/Api.v. *)
From Coq Require Import List NArith Bool.
From RB Require Import Gen.Flags Model.Api Corr.Common.
Import ListNotations.
Local Open Scope N_scope.

Inductive aop := APush (k : N) | AShape | AClear.
(* observed: len max_len max_ops successful have_output have_positions idx out_len serial scratch info.len() pos.len();
   the model's content list is the whole storage: a UnicodeBuffer never holds entries past len *)
Definition aobs := list N.

Fixpoint push_n (b : abuf) (k : nat) (i : N) : abuf :=
  match k with O => b | S k' => push_n (a_add b 65 i) k' (i + 1) end.

Definition nthN (l : list N) (i : nat) : N := nth i l 0.
Definition b2n (x : bool) : N := if x then 1 else 0.

Definition step_a (b : abuf) (o : aop) : abuf :=
  match o with
  | APush k => push_n b (N.to_nat k) 0
  | AShape => snd (a_shape unit (fun _ _ _ => tt) tt shape_with_plan_leave_unconditional b)
  | AClear => a_clear b
  end.

Definition matches (o : aop) (b : abuf) (ob : aobs) : bool :=
  match o with
  | APush _ =>
      (N.of_nat (length (a_text b)) =? nthN ob 0) && (a_max_len b =? nthN ob 1) && (a_max_ops b =? nthN ob 2)
      && (b2n (a_successful b) =? nthN ob 3)
      && (N.of_nat (length (a_text b)) =? nthN ob 10) && (N.of_nat (length (a_text b)) =? nthN ob 11)
  | AShape => (a_max_len b =? nthN ob 1) && (a_max_ops b =? nthN ob 2) && (a_serial b =? nthN ob 8)
  | AClear =>
      (N.of_nat (length (a_text b)) =? nthN ob 0) && (a_max_len b =? nthN ob 1) && (a_max_ops b =? nthN ob 2)
      && (b2n (a_successful b) =? nthN ob 3) && (b2n (a_have_output b) =? nthN ob 4) && (b2n (a_have_positions b) =? nthN ob 5)
      && (a_idx b =? nthN ob 6) && (a_out_len b =? nthN ob 7) && (a_serial b =? nthN ob 8) && (a_scratch b =? nthN ob 9)
      && (N.of_nat (length (a_text b)) =? nthN ob 10) && (N.of_nat (length (a_text b)) =? nthN ob 11)
  end.

Fixpoint run_hist (b : abuf) (steps : list (aop * aobs)) (k : N) : N :=
  match steps with
  | [] => 0
  | (o, ob) :: t => let b' := step_a b o in if matches o b' ob then run_hist b' t (k + 1) else k + 1
  end.

Definition check_hist (h : list (aop * aobs)) : N := run_hist a_new h 0.

Fixpoint check_hists_aux (hs : list (list (aop * aobs))) (i : N) (limit : nat) (acc : list N) : list N :=
  match hs, limit with
  | [], _ => rev acc
  | _, O => rev acc
  | h :: t, S k => let r := check_hist h in
                   if r =? 0 then check_hists_aux t (i + 1) limit acc else check_hists_aux t (i + 1) k (i * 1000 + r :: acc)
  end.
Definition check_hists (hs : list (list (aop * aobs))) : list N := check_hists_aux hs 0 10%nat [].
