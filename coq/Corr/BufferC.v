(* Corr/BufferC.v — correspondence evaluator: replays an operation sequence observed on the real
   hb_buffer_t (hook) on the zipper model and compares the logical state after every step. *)
From Coq Require Import List NArith Bool Arith.
From RB Require Import Base.Result Model.Buffer Corr.Common.
Import ListNotations.
Local Open Scope N_scope.

Inductive bop :=
| ONextGlyph | ONextGlyphs (n : nat) | OSkip | OReplaceGlyph (g : N) | OReplaceGlyphs (num_in : nat) (gs : list N)
| OOutputGlyph (g : N) | OOutputInfo (i : info) | OCopyGlyph | ODeleteGlyph | OMoveTo (i : nat)
| OMergeClusters (s e : nat) | OMergeOut (s e : nat)
| OUnsafeToBreak (s e : option nat) | OUnsafeToConcat (s e : option nat)
| OUnsafeToBreakOut (s e : option nat) | OUnsafeToConcatOut (s e : option nat)
| OClearOutput | OSync | OReverse | OReverseRange (s e : nat) | OReverseGroups (merge : bool)
| OResetMasks (m : N) | OSetMasks (v m cs ce : N) | OSort (s e : nat) | ODeleteInplace.

(* observed state after a step: panicked? ret mode idx ok scratch pre rest *)
Record obs := mkObs { o_panic : bool; o_ret : bool; o_mode : bool; o_idx : nat; o_ok : bool; o_scratch : N;
                      o_pre : list info; o_rest : list info }.

(* the harness's closures *)
Definition grp_cont (x y : info) : bool := negb (N.land (var2 y) 128 =? 0).
Definition cmp_v1 (x y : info) : bool := N.land (var1 y) 255 <? N.land (var1 x) 255.
Definition flt_odd (i : info) : bool := N.odd (gid i).

(* model step: result of (ret, state); None = content unspecified from here on *)
Definition step (b : zbuf) (o : bop) : result (option (bool * zbuf)) :=
  let r (x : result zbuf) := match x with Ok b' => Ok (Some (true, b')) | Error e => Error e end in
  match o with
  | ONextGlyph => r (next_glyph b)
  | ONextGlyphs n => r (next_glyphs b n)
  | OSkip => r (skip_glyph b)
  | OReplaceGlyph g => if out_mode b then r (replace_glyph b g) else Error AssertFail
  | OReplaceGlyphs n gs => if out_mode b then r (replace_glyphs b n gs) else Error AssertFail
  | OOutputGlyph g => if out_mode b then r (output_glyph b g) else Error AssertFail
  | OOutputInfo i => if out_mode b then r (output_info b i) else Error AssertFail
  | OCopyGlyph => if out_mode b then r (copy_glyph b) else Error AssertFail
  | ODeleteGlyph => r (delete_glyph b)
  | OMoveTo i => match move_to b i with Ok (ret, b') => Ok (Some (ret, b')) | Error e => Error e end
  | OMergeClusters s e => if (e <? s)%nat then Error Overflow else if (blen b <? e)%nat then Error Oob else r (merge_clusters_full b s e)
  | OMergeOut s e => if (e <? s)%nat then Error Overflow else if negb (out_mode b) then Error AssertFail else r (merge_out_clusters b s e)
  | OUnsafeToBreak s e => r (unsafe_to_break b s e)
  | OUnsafeToConcat s e => r (unsafe_to_concat b s e)
  | OUnsafeToBreakOut s e => r (unsafe_to_break_from_outbuffer b s e)
  | OUnsafeToConcatOut s e => r (unsafe_to_concat_from_outbuffer b s e)
  | OClearOutput => if out_mode b then Error AssertFail (* dead prefix not represented *) else Ok (Some (true, clear_output b))
  | OSync => match sync b with
             | Ok (Some b') => Ok (Some (true, b'))
             | Ok None => Ok None
             | Error e => Error e
             end
  | OReverse => if out_mode b then Error AssertFail else r (reverse b)
  | OReverseRange s e => if out_mode b then Error AssertFail else if (e <? s)%nat then Error Overflow else r (reverse_range b s e)
  | OReverseGroups m => if out_mode b then Error AssertFail else r (reverse_groups grp_cont m b)
  | OResetMasks m => if out_mode b then Error AssertFail else Ok (Some (true, reset_masks b m))
  | OSetMasks v m cs ce => if out_mode b then Error AssertFail else Ok (Some (true, set_masks b v m cs ce))
  | OSort s e => if out_mode b then Error AssertFail else r (sort cmp_v1 b s e)
  | ODeleteInplace =>
      if out_mode b then Error AssertFail
      else let '(a, touched) := delete_glyphs_inplace (level b) flt_odd (arr b) in
           (* len = j; idx is left as it was *)
           Ok (Some (true, add_scratch (with_pr b (firstn (dead b) a) (skipn (dead b) a) (dead b)) touched))
  end.

Definition info_eqb (a b : info) : bool :=
  (gid a =? gid b) && (mask a =? mask b) && (cluster a =? cluster b) && (var1 a =? var1 b) && (var2 a =? var2 b).

Fixpoint infos_eqb (a b : list info) : bool :=
  match a, b with
  | [], [] => true
  | x :: a', y :: b' => info_eqb x y && infos_eqb a' b'
  | _, _ => false
  end.

Definition state_matches (ret : bool) (b : zbuf) (o : obs) : bool :=
  Bool.eqb ret (o_ret o) && Bool.eqb (out_mode b) (o_mode o) && (dead b =? o_idx o)%nat
  && Bool.eqb (ok b) (o_ok o) && (scratch b =? o_scratch o)
  && infos_eqb (pre b) (o_pre o) && infos_eqb (rest b) (o_rest o).

(* returns 0 when every step agrees, else 1 + index of the first disagreeing step.
   Model Error: the real code is allowed anything (panic or garbage) — the case ends, agreeing.
   Model Ok but real panic: disagreement. *)
Fixpoint run_case (b : zbuf) (steps : list (bop * obs)) (k : N) : N :=
  match steps with
  | [] => 0
  | (o, ob) :: t =>
    match step b o with
    | Error _ => 0
    | Ok None => 0
    | Ok (Some (ret, b')) =>
        if o_panic ob then k + 1
        else if state_matches ret b' ob then run_case b' t (k + 1) else k + 1
    end
  end.

Record bcase := mkCase { c_level : N; c_flags : N; c_maxlen : N; c_init : list info; c_steps : list (bop * obs) }.

Definition init_case (c : bcase) : zbuf :=
  mkZ [] (c_init c) O false (c_level c) (c_flags c) true (c_maxlen c) 0.

Definition check_case (c : bcase) : N := run_case (init_case c) (c_steps c) 0.

(* list of (case index * 1000 + failing step), at most 10 *)
Fixpoint check_cases_aux (cs : list bcase) (i : N) (limit : nat) (acc : list N) : list N :=
  match cs, limit with
  | [], _ => rev acc
  | _, O => rev acc
  | c :: t, S k => let r := check_case c in
                   if r =? 0 then check_cases_aux t (i + 1) limit acc
                   else check_cases_aux t (i + 1) k (i * 1000 + r :: acc)
  end.
Definition check_cases (cs : list bcase) : list N := check_cases_aux cs 0 10%nat [].

(* how many steps of a case the model followed before its domain ended (for coverage statistics) *)
Fixpoint followed (b : zbuf) (steps : list (bop * obs)) (k : N) : N :=
  match steps with
  | [] => k
  | (o, ob) :: t => match step b o with
                    | Ok (Some (_, b')) => if o_panic ob then k else followed b' t (k + 1)
                    | _ => k
                    end
  end.
Definition followed_total (cs : list bcase) : N :=
  fold_left (fun a c => a + followed (init_case c) (c_steps c) 0) cs 0.
