(* Corr/BufferC.v — correspondence evaluator: replays an operation sequence observed on the real
   hb_buffer_t (hook) on the zipper model and compares the logical state after every step. *)
From Coq Require Import List NArith Bool Arith.
From RB Require Import Base.Result Model.Buffer Model.BufferOps Corr.Common.
Import ListNotations.
Local Open Scope N_scope.

(* observed state after a step: panicked? ret mode idx ok scratch pre rest *)
Record obs := mkObs { o_panic : bool; o_ret : bool; o_mode : bool; o_idx : nat; o_ok : bool; o_scratch : N;
                      o_pre : list info; o_rest : list info }.

Definition info_eqb (a b : info) : bool :=
  (gid a =? gid b) && (mask a =? mask b) && (cluster a =? cluster b) && (var1 a =? var1 b) && (var2 a =? var2 b).

Fixpoint infos_eqb (a b : list info) : bool :=
  match a, b with
  | [], [] => true
  | x :: a', y :: b' => info_eqb x y && infos_eqb a' b'
  | _, _ => false
  end.

Definition state_matches (ret : bool) (b : zbuf) (o : obs) : bool :=
  Bool.eqb ret (o_ret o) && Bool.eqb (out_mode b) (o_mode o) && (dead b =? o_idx o)%nat
  && Bool.eqb (ok b) (o_ok o) && (scratch b =? o_scratch o)
  && infos_eqb (pre b) (o_pre o) && infos_eqb (rest b) (o_rest o).

(* returns 0 when every step agrees, else 1 + index of the first disagreeing step.
   Model Error: the real code is allowed anything (panic or garbage) — the case ends, agreeing.
   Model Ok but real panic: disagreement. *)
Fixpoint run_case (b : zbuf) (steps : list (bop * obs)) (k : N) : N :=
  match steps with
  | [] => 0
  | (o, ob) :: t =>
    match step b o with
    | Error _ => 0
    | Ok None => 0
    | Ok (Some (ret, b')) =>
        if o_panic ob then k + 1
        else if state_matches ret b' ob then run_case b' t (k + 1) else k + 1
    end
  end.

Record bcase := mkCase { c_level : N; c_flags : N; c_maxlen : N; c_init : list info; c_steps : list (bop * obs) }.

Definition init_case (c : bcase) : zbuf :=
  mkZ [] (c_init c) O false (c_level c) (c_flags c) true (c_maxlen c) 0.

Definition check_case (c : bcase) : N := run_case (init_case c) (c_steps c) 0.

(* list of (case index * 1000 + failing step), at most 10 *)
Fixpoint check_cases_aux (cs : list bcase) (i : N) (limit : nat) (acc : list N) : list N :=
  match cs, limit with
  | [], _ => rev acc
  | _, O => rev acc
  | c :: t, S k => let r := check_case c in
                   if r =? 0 then check_cases_aux t (i + 1) limit acc
                   else check_cases_aux t (i + 1) k (i * 1000 + r :: acc)
  end.
Definition check_cases (cs : list bcase) : list N := check_cases_aux cs 0 10%nat [].

(* how many steps of a case the model followed before its domain ended (for coverage statistics) *)
Fixpoint followed (b : zbuf) (steps : list (bop * obs)) (k : N) : N :=
  match steps with
  | [] => k
  | (o, ob) :: t => match step b o with
                    | Ok (Some (_, b')) => if o_panic ob then k else followed b' t (k + 1)
                    | _ => k
                    end
  end.
Definition followed_total (cs : list bcase) : N :=
  fold_left (fun a c => a + followed (init_case c) (c_steps c) 0) cs 0.
