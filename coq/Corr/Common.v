(* Corr/Common.v — helpers for the correspondence evaluators (executable; evaluated by vm_compute
   inside generated cases files). Tail-recursive so that long case lists do not exhaust the stack. *)
From Coq Require Import List NArith Bool.
Import ListNotations.
Local Open Scope N_scope.

(* indices (from i) of the elements on which f is false; at most `limit` of them, in order *)
Fixpoint failing_aux {A} (f : A -> bool) (l : list A) (i : N) (limit : nat) (acc : list N) : list N :=
  match l, limit with
  | [], _ => rev acc
  | _, O => rev acc
  | x :: t, S k => if f x then failing_aux f t (i + 1) limit acc
                   else failing_aux f t (i + 1) k (i :: acc)
  end.

Definition failing {A} (f : A -> bool) (l : list A) : list N := failing_aux f l 0 10%nat [].

Fixpoint list_eqb (a b : list N) : bool :=
  match a, b with
  | [], [] => true
  | x :: a', y :: b' => (x =? y) && list_eqb a' b'
  | _, _ => false
  end.

(* compare an implementation-supplied list with a model function of the index *)
Fixpoint diff_fun_aux (f : N -> N) (l : list N) (i : N) (limit : nat) (acc : list N) : list N :=
  match l, limit with
  | [], _ => rev acc
  | _, O => rev acc
  | x :: t, S k => if x =? f i then diff_fun_aux f t (i + 1) limit acc
                   else diff_fun_aux f t (i + 1) k (i :: acc)
  end.

Definition diff_fun (f : N -> N) (l : list N) : list N := diff_fun_aux f l 0 10%nat [].
