(* Corr/DigestC.v — correspondence evaluators for the digest (C10). *)
From Coq Require Import List NArith Bool.
From RB Require Import Model.Digest Corr.Common.
Import ListNotations.
Local Open Scope N_scope.

(* exhaustive: bit position set by `add g` in pattern with shift s, for g = 0,1,2,... *)
Definition model_pos (s g : N) : N := N.log2 (mask_for s g).
Definition check_pos (s : N) (impl : list N) : list N := diff_fun (model_pos s) impl.

(* add_range cases: (masks, a, b, observed) ; observed = Some (ret, masks') or None for a panic *)
Definition range_case := (list N * N * N * option (bool * list N))%type.

Definition check_range_rel (shifts : list N) (c : range_case) : bool :=
  let '(m, a, b, obs) := c in
  match obs with
  | Some (ret, r) => let '(ret', r') := d_add_range shifts m a b in Bool.eqb ret ret' && list_eqb r r'
  | None => false
  end.

Definition check_range_chk (shifts : list N) (c : range_case) : bool :=
  let '(m, a, b, obs) := c in
  match obs, d_add_range_chk shifts m a b with
  | Some (ret, r), Some (ret', r') => Bool.eqb ret ret' && list_eqb r r'
  | None, None => true
  | _, _ => false
  end.

Inductive dstep :=
| SAdd (g : N) (res : list N)
| SArray (gs : list N) (res : list N)
| SRange (a b : N) (ret : bool) (res : list N)
| SQGlyph (g : N) (r : bool)
| SQMay (o : list N) (r : bool).

Fixpoint run_steps (shifts : list N) (d : digest) (steps : list dstep) : bool :=
  match steps with
  | [] => true
  | SAdd g res :: t => let d' := d_add shifts d g in list_eqb d' res && run_steps shifts d' t
  | SArray gs res :: t => let d' := d_add_array shifts d gs in list_eqb d' res && run_steps shifts d' t
  | SRange a b ret res :: t =>
      let '(ret', d') := d_add_range shifts d a b in
      Bool.eqb ret ret' && list_eqb d' res && run_steps shifts d' t
  | SQGlyph g r :: t => Bool.eqb r (d_may_have_glyph shifts d g) && run_steps shifts d t
  | SQMay o r :: t => Bool.eqb r (d_may_have d o) && run_steps shifts d t
  end.

Definition check_ops (shifts : list N) (c : list N * list dstep) : bool := run_steps shifts (fst c) (snd c).
