(* Corr/FeatureC.v — correspondence evaluators for the user-feature model (C14).
   Each checker takes what the harness observed on the real implementation and answers whether the model
   computes the same; `Corr.Common.failing` turns a case list into the list of failing indices. *)
From Coq Require Import List NArith Bool.
From RB Require Import Gen.FeatureConsts Model.Feature Corr.Common.
Import ListNotations.
Local Open Scope N_scope.

(* ---- Feature::new: (form, a, b, observed (start, end)); form 0 a..b 1 a..=b 2 ..b 3 ..=b 4 a.. 5 .. *)
Definition rform_of (form a b : N) : rform :=
  match form with
  | 0 => RHalf a b | 1 => RIncl a b | 2 => RTo b | 3 => RToIncl b | 4 => RFrom a | _ => RFull
  end.

Definition new_case := (N * N * N * option (N * N))%type.

Definition check_new (c : new_case) : bool :=
  let '(form, a, b, obs) := c in
  match obs with
  | Some (s, e) => let f := feature_new 0 1 (rform_of form a b) in (f_start f =? s) && (f_end f =? e)
  | None => false      (* the model never panics *)
  end.

(* ---- Feature::from_str: (bytes, observed Some (tag, value, start, end) | None) *)
Definition parse_case := (list N * option (N * N * N * N))%type.

Definition check_parse (c : parse_case) : bool :=
  let '(s, obs) := c in
  match parse_feature s, obs with
  | Some f, Some (t, v, st, en) => (f_tag f =? t) && (f_value f =? v) && (f_start f =? st) && (f_end f =? en)
  | None, None => true
  | _, _ => false
  end.

(* ---- set_masks: (value, mask, start, end, glyphs (cluster, mask), observed masks) *)
Definition sm_case := (N * N * N * N * list (N * N) * list N)%type.

Definition check_sm (c : sm_case) : bool :=
  let '(value, mask, cs, ce, gl, obs) := c in
  list_eqb (map snd (set_masks value mask cs ce gl)) obs.

(* ---- plan: (simple, infos, observed global mask, observed features, observed get_mask of user tags) *)
Definition info_t := (N * N * N * N * N * bool)%type.        (* tag seq max flags default found *)
Definition plan_case := (bool * list info_t * N * list (N * N * N * N) * list (N * N * N))%type.

Definition mk_info (i : info_t) : finfo :=
  let '(t, s, m, f, d, fd) := i in mkInfo t s m f d fd.

Fixpoint maps_eqb (a : list fmap) (b : list (N * N * N * N)) : bool :=
  match a, b with
  | [], [] => true
  | x :: a', (t, s, m, o) :: b' =>
      (m_tag x =? t) && (m_shift x =? s) && (m_mask x =? m) && (m_one x =? o) && maps_eqb a' b'
  | _, _ => false
  end.

(* get_mask in the implementation is a binary search by tag; the map is ordered by tag whenever the
   search is used on it (sorted infos, or sorted map when simple), so the first match is the answer *)
Definition check_plan (c : plan_case) : bool :=
  let '(simple, infos, gm, feats, um) := c in
  let '(fs, g) := compile_map simple (map mk_info infos) in
  maps_eqb fs feats && (g =? gm) &&
  forallb (fun u => let '(t, m, s) := u in let '(m', s') := get_mask fs t in (m =? m') && (s =? s')) um.

(* ---- model-side prediction used by the driver for the generated-font cross check: the field value
   a glyph of cluster c ends with, for one ranged user feature allocated at (shift, mask) *)
Definition field_after (value mask shift cs ce c m0 : N) : N :=
  match set_masks (shl32 value shift) mask cs ce [(c, m0)] with
  | g :: _ => alt_index (snd g) mask
  | [] => 0
  end.
