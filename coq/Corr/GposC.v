(* Corr/GposC.v — correspondence evaluators for C07: the whole model pipeline (Model/PosPipe.v) against
   glyph ids, clusters and positions observed from rustybuzz::shape on the same generated font. *)
From Coq Require Import List NArith ZArith Bool.
From RB Require Import Base.Result Model.Buffer Model.Font Model.Gpos Model.Attach Model.Kern Model.PosPipe Corr.Common.
Import ListNotations.

Definition out_eqb (a b : glyph_out) : bool :=
  N.eqb (o_gid a) (o_gid b) && N.eqb (o_cluster a) (o_cluster b) &&
  Z.eqb (o_xa a) (o_xa b) && Z.eqb (o_ya a) (o_ya b) && Z.eqb (o_xo a) (o_xo b) && Z.eqb (o_yo a) (o_yo b).

Fixpoint outs_eqb (a b : list glyph_out) : bool :=
  match a, b with
  | [], [] => true
  | x :: a', y :: b' => out_eqb x y && outs_eqb a' b'
  | _, _ => false
  end.

(* observed: Some glyphs, or None for a panic of the implementation *)
Definition gpos_case := (font * request * option (list glyph_out))%type.

Definition check_with (shape : font -> request -> result (list glyph_out)) (c : gpos_case) : bool :=
  let '(f, r, obs) := c in
  match shape f r, obs with
  | Ok m, Some o => outs_eqb m o
  | Error _, None => true
  | _, _ => false
  end.

(* the model of the current (repaired) code *)
Definition check_case : gpos_case -> bool := check_with shape_model.
(* the model with the unpaired reversal of the kern subtable loop (the shape before the repair) *)
Definition check_case_unpaired : gpos_case -> bool := check_with shape_model_unpaired.

(* the model's answer, for diagnostics in replays *)
Definition model_answer (c : gpos_case) : result (list glyph_out) := let '(f, r, _) := c in shape_model f r.
