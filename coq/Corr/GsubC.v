(* Corr/GsubC.v — correspondence evaluator for C06: the model's shaping result (glyph id, cluster, glyph
   flags) against the result observed from rustybuzz::shape on the same generated font and request. *)
From Coq Require Import List NArith ZArith Bool Arith.
From RB Require Import Base.Result Model.Buffer Model.Font Model.Skip Model.OtMap Model.Gsub Model.GsubPipe Corr.Common.
Import ListNotations.
Local Open Scope N_scope.

Definition glyph := (N * N * N)%type.   (* glyph id, cluster, flags *)

(* observed: None = the implementation panicked *)
Definition gcase := (request * option (list glyph))%type.

Fixpoint gc_eqb (a b : list glyph) : bool :=
  match a, b with
  | [], [] => true
  | (g, c, _) :: a', (g', c', _) :: b' => (g =? g') && (c =? c') && gc_eqb a' b'
  | _, _ => false
  end.

Fixpoint fl_eqb (a b : list glyph) : bool :=
  match a, b with
  | [], [] => true
  | (_, _, x) :: a', (_, _, y) :: b' => (x =? y) && fl_eqb a' b'
  | _, _ => false
  end.

(* per-cluster OR of the flags (runs of equal cluster) *)
Fixpoint run_or (c : N) (l : list glyph) (acc : N) : N * list glyph :=
  match l with
  | (g, c', x) :: t => if c' =? c then run_or c t (N.lor acc x) else (acc, l)
  | [] => (acc, [])
  end.
Fixpoint run_set (c : N) (l : list glyph) (v : N) : list glyph :=
  match l with
  | (g, c', x) :: t => if c' =? c then (g, c', v) :: run_set c t v else []
  | [] => []
  end.
Fixpoint cluster_or_aux (fuel : nat) (l : list glyph) : list glyph :=
  match fuel with
  | O => l
  | S k =>
    match l with
    | [] => []
    | (g, c, x) :: _ =>
      let '(v, rest) := run_or c l 0 in
      run_set c l v ++ cluster_or_aux k rest
    end
  end.
Definition cluster_or_g (l : list glyph) : list glyph := cluster_or_aux (length l) l.

(* result codes: 0 agree; 1 glyph ids / clusters differ; 2 only the flags differ; 3 model: content
   unspecified (buffer could not grow); 4 model error (a panic in the Rust semantics) but the implementation
   returned; 5 unmapped character (outside the domain); 6 implementation panicked, model did not;
   7 both panicked *)
Definition check_case (f : font) (c : gcase) : N :=
  let '(rq, obs) := c in
  match shape_model f rq, obs with
  | OutGlyphs m, Some o =>
      if negb (gc_eqb m o) then 1
      else if negb (N.land (rq_flags rq) PRODUCE_UNSAFE_TO_CONCAT_BIT =? 0)
           then (if fl_eqb (cluster_or_g m) (cluster_or_g o) then 0 else 2)
           else (if fl_eqb m o then 0 else 2)
  | OutGlyphs _, None => 6
  | OutUnspecified, _ => 3
  | OutUnmapped, _ => 5
  | OutError _, Some _ => 4
  | OutError _, None => 7
  end.

Definition check_font (f : font) (cs : list gcase) : list N := map (check_case f) cs.

(* what the model computes, for replays and diagnostics *)
Definition model_glyphs (f : font) (rq : request) : list N :=
  match shape_model f rq with
  | OutGlyphs m => flat_map (fun '(g, c, x) => [g; c; x]) m
  | OutUnspecified => [999999; 3]
  | OutUnmapped => [999999; 5]
  | OutError e => [999999; 4; N.of_nat (err_code e)]
  end.
