(* Corr/HangulC.v — correspondence evaluators for property C12 (Hangul).
   The generated font of a variant is described on both sides by the same four numbers; `font_has` and
   `font_zw` interpret them exactly as harness/src/c12.rs `Variant::has` and its hmtx do. *)
From Coq Require Import List NArith Bool.
From RB Require Import Gen.HangulConsts Model.Hangul Corr.Common.
Import ListNotations.
Local Open Scope N_scope.

(* kind (0 all, 1 jamo only, 2 syllables only, 3 mixed), seed, tone (0 absent, 1 advance 1000, 2 advance 0), dotted circle *)
Definition fontv := (N * N * N * bool)%type.

Definition mix (seed cp : N) : N :=
  ((((cp + (seed * 7919) mod 4294967296) mod 4294967296) * 2654435761) mod 4294967296 / 1048576) mod 4.

Definition v_is_jamo (c : N) : bool :=
  in_range 4352 4607 c || in_range 43360 43388 c || in_range 55216 55238 c || in_range 55243 55291 c.
Definition v_is_syl (c : N) : bool := in_range 44032 55203 c.
Definition v_is_tone (c : N) : bool := in_range 12334 12335 c.

Definition font_has (f : fontv) (c : N) : bool :=
  let '(kind, seed, tone, dotted) := f in
  if in_range 97 101 c then true
  else if c =? 9676 then dotted
  else if v_is_tone c then negb (tone =? 0)
  else if v_is_jamo c then
    (if (kind =? 0) || (kind =? 1) then true else if kind =? 2 then false else negb (mix seed c =? 0))
  else if v_is_syl c then
    (if (kind =? 0) || (kind =? 2) then true else if kind =? 1 then false else (mix seed c) mod 2 =? 0)
  else false.

Definition font_zw (f : fontv) (c : N) : bool :=
  let '(kind, seed, tone, dotted) := f in v_is_tone c && (tone =? 2).

(* ---- preprocess_text_hangul cases: level, DO_NOT_INSERT_DOTTED_CIRCLE, input (cp, cluster),
   observed (cp, cluster, feature, glyph flags set) or None for a panic *)
Definition obs := list (N * N * N * bool).
Definition hcase := (N * bool * list (N * N) * option obs)%type.

Fixpoint obs_eqb (a b : obs) : bool :=
  match a, b with
  | [], [] => true
  | (c1, k1, f1, u1) :: a', (c2, k2, f2, u2) :: b' =>
      (c1 =? c2) && (k1 =? k2) && (f1 =? f2) && Bool.eqb u1 u2 && obs_eqb a' b'
  | _, _ => false
  end.

Definition model_obs (f : fontv) (lvl : N) (nd : bool) (input : list (N * N)) : option obs :=
  match run (font_has f) (font_zw f) lvl nd (mk_input input) with
  | Some o => Some (observe o)
  | None => None
  end.

Definition check_case (f : fontv) (c : hcase) : bool :=
  let '(lvl, nd, input, o) := c in
  match model_obs f lvl nd input, o with
  | Some m, Some i => obs_eqb m i
  | _, _ => false
  end.

(* ---- range predicates: the hook's exhaustive sweep, as maximal ranges, against the model's ranges *)
Fixpoint insert_range (r : N * N) (l : list (N * N)) : list (N * N) :=
  match l with
  | [] => [r]
  | x :: t => if fst r <=? fst x then r :: l else x :: insert_range r t
  end.
Fixpoint merge_sorted (l : list (N * N)) : list (N * N) :=
  match l with
  | x :: t =>
      match merge_sorted t with
      | y :: t' => if fst y <=? snd x + 1 then (fst x, N.max (snd x) (snd y)) :: t' else x :: y :: t'
      | [] => [x]
      end
  | [] => []
  end.
Definition norm_ranges (l : list (N * N)) : list (N * N) :=
  merge_sorted (fold_right insert_range [] (filter (fun r => fst r <=? snd r) l)).
Fixpoint ranges_eqb (a b : list (N * N)) : bool :=
  match a, b with
  | [], [] => true
  | x :: a', y :: b' => (fst x =? fst y) && (snd x =? snd y) && ranges_eqb a' b'
  | _, _ => false
  end.
Definition model_pred_ranges (k : N) : list (N * N) :=
  nth (N.to_nat k)
      [is_combining_l_ranges; is_combining_v_ranges; is_combining_t_ranges; is_combined_s_ranges;
       is_l_ranges; is_v_ranges; is_t_ranges; is_hangul_tone_ranges] [].
(* cases: (predicate number, observed maximal ranges) *)
Definition check_pred (c : N * list (N * N)) : bool :=
  ranges_eqb (norm_ranges (model_pred_ranges (fst c))) (snd c).

(* ---- unicode.rs: (s, a, b) with a = 0 for None; (a, b, r) with r = 0 for None *)
Definition check_dec (c : N * N * N) : bool :=
  let '(s, a, b) := c in
  match u_decompose_hangul s with
  | Some (a', b') => (a =? a') && (b =? b')
  | None => a =? 0
  end.
Definition check_comp (c : N * N * N) : bool :=
  let '(a, b, r) := c in
  match u_compose_hangul a b with
  | Some r' => r =? r'
  | None => r =? 0
  end.
