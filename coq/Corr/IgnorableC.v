(* Corr/IgnorableC.v — correspondence evaluators for property C13 (executable; run by vm_compute in
   generated cases files). Depends on the models only, never on proofs. *)
From Coq Require Import List NArith ZArith Bool.
From RB Require Import Gen.Ignorable Model.Ignorable Corr.Common.
Import ListNotations.
Local Open Scope N_scope.

(* ---- classification: a function over all code points vs. the implementation's answer, given as
   the sorted list of disjoint inclusive ranges on which the implementation says `true`.
   Returns the code points (at most `limit`) on which they differ. One pass over 0 .. 0x10FFFF. *)
Record sweep_state := mkSt { st_cp : N; st_rs : list (N * N); st_bad : list N; st_left : nat }.

Fixpoint drop_below (cp : N) (rs : list (N * N)) : list (N * N) :=
  match rs with
  | (lo, hi) :: t => if hi <? cp then drop_below cp t else rs
  | [] => []
  end.

Definition sweep_step (f : N -> bool) (s : sweep_state) : sweep_state :=
  let cp := st_cp s in
  let rs := drop_below cp (st_rs s) in
  let impl := match rs with (lo, _) :: _ => lo <=? cp | [] => false end in
  if Bool.eqb (f cp) impl then mkSt (cp + 1) rs (st_bad s) (st_left s)
  else match st_left s with
       | O => mkSt (cp + 1) rs (st_bad s) O
       | S k => mkSt (cp + 1) rs (cp :: st_bad s) k
       end.

Definition diff_ranges (f : N -> bool) (impl : list (N * N)) (limit : nat) : list N :=
  rev (st_bad (N.iter 0x110000 (sweep_step f) (mkSt 0 impl [] limit))).

(* the same sweep with both sides given as range lists (specification vs. implementation) *)
Record sweep2_state := mkSt2 { s2_cp : N; s2_a : list (N * N); s2_b : list (N * N); s2_bad : list N; s2_left : nat }.

Definition sweep2_step (s : sweep2_state) : sweep2_state :=
  let cp := s2_cp s in
  let a := drop_below cp (s2_a s) in
  let b := drop_below cp (s2_b s) in
  let ina := match a with (lo, _) :: _ => lo <=? cp | [] => false end in
  let inb := match b with (lo, _) :: _ => lo <=? cp | [] => false end in
  if Bool.eqb ina inb then mkSt2 (cp + 1) a b (s2_bad s) (s2_left s)
  else match s2_left s with
       | O => mkSt2 (cp + 1) a b (s2_bad s) O
       | S k => mkSt2 (cp + 1) a b (cp :: s2_bad s) k
       end.

Definition diff_lists (a b : list (N * N)) (limit : nat) : list N :=
  rev (s2_bad (N.iter 0x110000 sweep2_step (mkSt2 0 a b [] limit))).

(* flat form of a range list, for printing *)
Definition flat_ranges (rs : list (N * N)) : list N := flat_map (fun r => [fst r; snd r]) rs.

(* well-formedness of the implementation's list (sorted, disjoint, non-adjacent, below 0x110000) *)
Fixpoint ranges_wf (prev : N) (first : bool) (rs : list (N * N)) : bool :=
  match rs with
  | [] => true
  | (lo, hi) :: t => (lo <=? hi) && (hi <? 0x110000) && (first || (prev + 1 <? lo)) && ranges_wf hi false t
  end.

(* ---- glyph lists *)
Definition glyph_eqb (a b : glyph) : bool :=
  (gid a =? gid b) && (cluster a =? cluster b) && (mask a =? mask b) && (uprops a =? uprops b) && (gprops a =? gprops b).
Definition gpos_eqb (a b : gpos) : bool :=
  (xa a =? xa b)%Z && (ya a =? ya b)%Z && (xo a =? xo b)%Z && (yo a =? yo b)%Z.
Definition slot_eqb (a b : slot) : bool := glyph_eqb (fst a) (fst b) && gpos_eqb (snd a) (snd b).
Fixpoint slots_eqb (a b : list slot) : bool :=
  match a, b with
  | [], [] => true
  | x :: a', y :: b' => slot_eqb x y && slots_eqb a' b'
  | _, _ => false
  end.

(* hook correspondence: the real delete_glyphs_inplace with the real filter *)
Definition delete_case : Type := N * list slot * list slot.   (* level, input, observed *)
Definition check_delete (c : delete_case) : bool :=
  let '(level, input, obs) := c in slots_eqb (delete_glyphs_inplace is_ign level input) obs.

(* hook correspondence: zero_width_default_ignorables; hide_default_ignorables *)
Definition passes_case : Type := env * list slot * list slot.
Definition check_passes (c : passes_case) : bool :=
  let '(e, input, obs) := c in slots_eqb (passes e input) obs.

(* ---- API correspondence on generated cmap-only fonts: glyph ids, positions and (levels 1, 2)
   clusters of the simple pipeline vs. rustybuzz::shape, left-to-right *)
Definition cmap_groups : Type := list (N * N * N).    (* format-12 groups: first, last, first glyph *)
Fixpoint cmap_lookup (gs : cmap_groups) (cp : N) : N :=
  match gs with
  | [] => 0
  | (lo, hi, g0) :: t => if (lo <=? cp) && (cp <=? hi) then g0 + (cp - lo) else cmap_lookup t cp
  end.

Definition mk_font (gs : cmap_groups) (adv : N -> Z) (space : option N) : font :=
  mkFont (cmap_lookup gs) adv space.

Definition out_glyph : Type := N * N * gpos.   (* gid, cluster, position *)
Definition out_eqb (with_clusters with_pos : bool) (s : slot) (o : out_glyph) : bool :=
  let '(g, c, p) := o in
  (gid (fst s) =? g) && (negb with_clusters || (cluster (fst s) =? c)) && (negb with_pos || gpos_eqb (snd s) p).
Fixpoint outs_eqb (wc wp : bool) (a : list slot) (b : list out_glyph) : bool :=
  match a, b with
  | [], [] => true
  | x :: a', y :: b' => out_eqb wc wp x y && outs_eqb wc wp a' b'
  | _, _ => false
  end.

(* flags, level, text, the marks of the text (gc Mc/Me/Mn by the real init_unicode_props), observed.
   Clusters are compared at levels 1 and 2 (level 0 merges marks into their base before shaping, which
   the simple model does not do); positions are compared when every mark of the text is hidden
   according to the model (a mark that stays visible is positioned by the fallback mark positioning,
   outside the model); glyph ids and the glyph count are always compared. *)
Definition api_case : Type := N * N * list N * list N * list out_glyph.
Definition check_api (ft : font) (c : api_case) : bool :=
  let '(flags, level, text, marks, obs) := c in
  outs_eqb (negb (level =? 0))
           (forallb (fun m => ign_cp m && negb (has_bit flags FLAG_PRESERVE_DEFAULT_IGNORABLES)) marks)
           (simple_shape ft flags level text) obs.
