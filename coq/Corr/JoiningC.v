(* Corr/JoiningC.v — correspondence evaluators for C11 (joining).  Executable only; evaluated by
   vm_compute inside generated cases files.  Depends on Gen + Model only (not on Proofs), so it still
   runs when a proof breaks.
   - model vs implementation: `joining_codes` (Model/JoiningGen.v) on the joining-type codes the
     implementation reports, against the actions it stored;
   - property predicate (specification vs implementation): the feature the implementation attaches to
     each character (ARABIC_FEATURES[stored action], read through the hook) against the feature of the
     specified form;
   - model vs specification search (used by the driver when the proof no longer checks). *)
From Coq Require Import List NArith ZArith Bool Uint63.
From RB Require Import Gen.JoiningTable Gen.JoiningTypes Model.Joining Model.JoiningGen Corr.Common.
Import ListNotations.
Local Open Scope N_scope.

(* ---- decoding *)
Definition decode (c : N) : option jt := find (fun x => jcode gen_enc x =? c) [U; L; R; D; A; DR; T].
Fixpoint decode_all (l : list N) : option (list jt) :=
  match l with
  | [] => Some []
  | c :: r => match decode c, decode_all r with Some x, Some xs => Some (x :: xs) | _, _ => None end
  end.

Definition oN_eqb (a b : option N) : bool :=
  match a, b with Some x, Some y => x =? y | None, None => true | _, _ => false end.

(* ---- the two predicates *)
Definition chk_model (pre text post obs : list N) : bool :=
  match joining_codes pre text post with Some r => list_eqb r obs | None => false end.

(* F: the implementation's ARABIC_FEATURES[a] for a = 0, 1, ... (None beyond the array) *)
Definition impl_feat (F : list (option N)) (a : N) : option N := nth (N.to_nat a) F None.

Fixpoint feats_agree (F : list (option N)) (sp : list action) (obs : list N) : bool :=
  match sp, obs with
  | [], [] => true
  | a :: sp', o :: obs' => oN_eqb (feature_tag a) (impl_feat F o) && feats_agree F sp' obs'
  | _, _ => false
  end.

(* the property's domain: contexts of up to 5 characters act as if part of the text *)
Definition chk_spec (F : list (option N)) (pre text post : list jt) (obs : list N) : bool :=
  feats_agree F (spec_actions (lastn 5 pre) text (firstn 5 post)) obs.

(* random cases: (pre classes, text classes, post classes, observed actions; [] with flag = panic) *)
Definition rcase := (list N * list N * list N * option (list N))%type.
Definition check_rand_model (c : rcase) : bool :=
  let '(pre, text, post, obs) := c in
  match obs with Some o => chk_model pre text post o | None => false end.
Definition check_rand_spec (F : list (option N)) (c : rcase) : bool :=
  let '(pre, text, post, obs) := c in
  match obs, decode_all pre, decode_all text, decode_all post with
  | Some o, Some p, Some t, Some q => chk_spec F p t q o
  | _, _, _, _ => false
  end.

(* masks: (mask_array, pre, text, post, masks before, masks after) *)
Definition mcase := (list N * list N * list N * list N * list N * option (list N))%type.
Definition check_mask (c : mcase) : bool :=
  let '(marr, pre, text, post, init, obs) := c in
  match obs, masks_codes marr pre text post init with
  | Some o, Some r => list_eqb r o
  | _, _ => false
  end.

(* joining types: run (lo, hi, table type, gc is Mn/Me/Cf, final type) of the implementation *)
Definition tcase := (N * N * N * N * N)%type.
Definition check_type (c : tcase) : bool :=
  let '(lo, hi, raw, flag, final) := c in
  match run_lookup joining_runs lo with
  | Some (_, h, r) => (hi <=? h) && (r =? raw) && (final =? get_joining_type gen_enc raw (negb (flag =? 0)))
  | None => false
  end.

(* ---- exhaustive blocks: all sequences start .. start+count-1 of length n over `alphabet` (index =
   base-8 numeral, most significant digit first) with contexts pre/post (0 = none, k = alphabet[k-1]);
   observed actions packed 20 per word, 3 bits each, first action in the lowest bits *)
(* a 3-bit value as N, without the 63-step to_Z loop *)
Definition small_of_int (x : int) : N :=
  if Uint63.eqb x 0 then 0 else if Uint63.eqb x 1 then 1 else if Uint63.eqb x 2 then 2
  else if Uint63.eqb x 3 then 3 else if Uint63.eqb x 4 then 4 else if Uint63.eqb x 5 then 5
  else if Uint63.eqb x 6 then 6 else 7.

Fixpoint unpack_word (k : nat) (w : int) : list N :=
  match k with
  | O => []
  | S k' => small_of_int (Uint63.land w 7) :: unpack_word k' (Uint63.lsr w 3)
  end.

Fixpoint take_stream (n : nat) (buf : list N) (ws : list int) : list N * (list N * list int) :=
  match n with
  | O => ([], (buf, ws))
  | S k =>
      match buf with
      | a :: buf' => let '(r, s) := take_stream k buf' ws in (a :: r, s)
      | [] =>
          match ws with
          | w :: ws' =>
              match unpack_word 20 w with
              | a :: buf' => let '(r, s) := take_stream k buf' ws' in (a :: r, s)
              | [] => ([], ([], ws'))
              end
          | [] => ([], ([], []))
          end
      end
  end.

Fixpoint digits (n : nat) (idx : N) (acc : list jt) : list jt :=
  match n with
  | O => acc
  | S k => digits k (idx / 8) (nth (N.to_nat (idx mod 8)) alphabet T :: acc)
  end.

(* the same enumeration as an odometer: least significant digit first *)
Fixpoint lsd_digits (n : nat) (idx : N) : list N :=
  match n with
  | O => []
  | S k => idx mod 8 :: lsd_digits k (idx / 8)
  end.
Fixpoint odo_next (l : list N) : list N :=
  match l with
  | [] => []
  | d :: r => if d =? 7 then 0 :: odo_next r else (d + 1) :: r
  end.
Definition jt_of_digit (d : N) : jt :=
  match d with 0 => U | 1 => L | 2 => R | 3 => D | 4 => C | 5 => T | 6 => A | _ => DR end.
Definition odo_seq (l : list N) : list jt := rev_append (map jt_of_digit l) [].

(* context index: 0 = none, 1..8 = one character, 9..72 = two characters (logical order) *)
Definition ctx_of (k : N) : list jt :=
  if k =? 0 then []
  else if k <=? 8 then [nth (N.to_nat (k - 1)) alphabet T]
  else [nth (N.to_nat ((k - 9) / 8)) alphabet T; nth (N.to_nat ((k - 9) mod 8)) alphabet T].

Definition blockT := (N * N * N * N * N * list int)%type.
(* index, odometer, unpacked buffer, remaining words, remaining failure budget, failures found.
   A failure is recorded as 2*index (first predicate) or 2*index+1 (second predicate). *)
Definition bstate := (N * list N * list N * list int * nat * list N)%type.

Definition bstep (chk1 chk2 : list jt -> list N -> bool) (n : nat) (s : bstate) : bstate :=
  let '(idx, odo, buf, ws, lim, acc) := s in
  match lim with
  | O => s
  | S lim' =>
      let '(obs, (buf', ws')) := take_stream n buf ws in
      let t := odo_seq odo in
      let ok1 := chk1 t obs in
      let ok2 := chk2 t obs in
      let acc1 := if ok1 then acc else (2 * idx) :: acc in
      let acc2 := if ok2 then acc1 else (2 * idx + 1) :: acc1 in
      (idx + 1, odo_next odo, buf', ws', (if ok1 && ok2 then lim else lim'), acc2)
  end.

Definition check_block (chk1 chk2 : list jt -> list jt -> list jt -> list N -> bool) (b : blockT) : list N :=
  let '(n, pre, post, start, count, ws) := b in
  let p := ctx_of pre in
  let q := ctx_of post in
  let '(_, _, _, _, _, acc) :=
    N.iter count (bstep (fun t o => chk1 p t q o) (fun t o => chk2 p t q o) (N.to_nat n))
           (start, lsd_digits (N.to_nat n) start, [], ws, 5%nat, []) in
  rev acc.

(* answer: flat list [block number; 2*index+which; block number; 2*index+which; ...] *)
Fixpoint check_blocks (chk1 chk2 : list jt -> list jt -> list jt -> list N -> bool) (bs : list blockT) (i : N) : list N :=
  match bs with
  | [] => []
  | b :: r => flat_map (fun x => [i; x]) (check_block chk1 chk2 b) ++ check_blocks chk1 chk2 r (i + 1)
  end.

Definition blk_model (pre text post : list jt) (obs : list N) : bool :=
  chk_model (codes pre) (codes text) (codes post) obs.
Definition blk_spec (F : list (option N)) (pre text post : list jt) (obs : list N) : bool :=
  chk_spec F pre text post obs.

(* ---- model vs specification: first disagreement, shortest text first, smallest contexts first *)
Definition agree (pre text post : list jt) : bool :=
  match joining pre text post with
  | Some r => list_eqb r (acodes (spec_actions (lastn clen pre) text (firstn clen post)))
  | None => false
  end.

Definition sstep (pre post : list jt) (n : nat) (s : N * option N) : N * option N :=
  match s with
  | (idx, Some f) => s
  | (idx, None) => if agree pre (digits n idx []) post then (idx + 1, None) else (idx + 1, Some idx)
  end.

Definition search_block (n pre post : N) : option N :=
  snd (N.iter (8 ^ n) (sstep (ctx_of pre) (ctx_of post) (N.to_nat n)) (0, None)).

Definition ctx_pairs : list (N * N) :=
  flat_map (fun p => map (fun q => (p, q)) [0; 1; 2; 3; 4; 5; 6; 7; 8]) [0; 1; 2; 3; 4; 5; 6; 7; 8].

Fixpoint search_pairs (n : N) (ps : list (N * N)) : list N :=
  match ps with
  | [] => []
  | (p, q) :: r => match search_block n p q with Some idx => [n; p; q; idx] | None => search_pairs n r end
  end.

(* [n; pre; post; idx] of the first disagreement with text length in lens, or [] *)
Fixpoint search_lens (lens : list N) : list N :=
  match lens with
  | [] => []
  | n :: r => match search_pairs n ctx_pairs with [] => search_lens r | found => found end
  end.

(* the class codes of the alphabet, for the driver to compare with the implementation's answer *)
Definition alphabet_codes : list N := codes alphabet.

(* what the specification prescribes for a sequence given by class codes (for replays) *)
Definition spec_codes (pre text post : list N) : list N :=
  match decode_all pre, decode_all text, decode_all post with
  | Some p, Some t, Some q => acodes (spec_actions (lastn 5 p) t (firstn 5 q))
  | _, _, _ => [999]
  end.
Definition model_codes (pre text post : list N) : list N :=
  match joining_codes pre text post with Some r => r | None => [998] end.
