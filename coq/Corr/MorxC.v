(* Corr/MorxC.v — correspondence evaluator for C17: the model (Model/MorxPipe.v shape_morx) against
   (glyph id, cluster) lists observed from rustybuzz::shape on generated fonts.
   `summary` returns one flat list:
     [k; i_1 .. i_k]            failing global case indices (at most 10)
     ++ [cases; agree; outside_domain_table; outside_domain_alloc; both_fail; evaluation_abandoned]
     ++ [ran_0; chg_0; ran_1; chg_1; ran_2; chg_2; ran_4; chg_4; ran_5; chg_5]   per subtable kind
     ++ [cases whose glyph string differs from the plain cmap mapping] *)
From Coq Require Import List NArith ZArith Bool.
From RB Require Import Base.Result Model.Buffer Model.Font Model.Morx Model.MorxFeat Model.MorxPipe.
Import ListNotations.
Local Open Scope N_scope.

(* what the implementation did: panic, the (gid, cluster) list, or for long outputs (length, digest) *)
Inductive expect := EPanic | EFull (l : list (N * N)) | EDigest (len h : N).
Record mcase := mkCase { c_dir : dir; c_level : N; c_text : list (N * N); c_feats : list ufeature; c_out : expect;
                         c_cap : nat (* evaluation cut (iterations of a streaming subtable), 0 = none *) }.
(* a generated font: the `font` term and its `feat` table (not a field of `font`) *)
Definition gfont := (font * option feat_table)%type.

(* mirrors harness/src/c17.rs `digest` *)
Definition out_digest (l : list (N * N)) : N :=
  fold_left (fun h p => (h * 1000003 + fst p * 131 + snd p + 1) mod 4294967296) l 0.

Fixpoint pairs_eqb (a b : list (N * N)) : bool :=
  match a, b with
  | [], [] => true
  | (x1, x2) :: a', (y1, y2) :: b' => (x1 =? y1) && (x2 =? y2) && pairs_eqb a' b'
  | _, _ => false
  end.

(* 0 agree, 1 disagree, 2 outside domain (table), 3 outside domain (alloc), 4 both fail (model Error, impl panic) *)
Definition case_code (gf : gfont) (c : mcase) : N * list event * bool :=
  let f := fst gf in
  match shape_morx_feat_cap (c_cap c) f (snd gf) (c_feats c) (c_dir c) (c_level c) (c_text c) with
  | Ok sh =>
      let plain := map (fun '(cp, _) => match cmap_lookup f cp with Some g => g | None => 0 end) (c_text c) in
      let moved := negb (nlist_eqb (map fst (sh_glyphs sh)) (if dir_backward (c_dir c) then rev plain else plain)) in
      if has (sh_amb sh) AMB_TABLE then (2, sh_events sh, moved)
      else if has (sh_amb sh) AMB_ALLOC then (3, sh_events sh, moved)
      else match c_out c with
           | EFull o => ((if pairs_eqb (sh_glyphs sh) o then 0 else 1), sh_events sh, moved)
           | EDigest n h => ((if (N.of_nat (length (sh_glyphs sh)) =? n) && (out_digest (sh_glyphs sh) =? h) then 0 else 1),
                             sh_events sh, moved)
           | EPanic => (1, sh_events sh, moved)
           end
  | Error OutOfFuel => (5, [], false)      (* evaluation abandoned at the cut (c_cap): not compared *)
  | Error _ => match c_out c with EPanic => (4, [], false) | _ => (1, [], false) end
  end.

Record acc := mkAcc { a_idx : N; a_fail : list N; a_nfail : nat; a_counts : list N (* 5 *); a_kinds : list N (* 10 *); a_moved : N }.

Fixpoint bump (l : list N) (i : nat) : list N :=
  match l, i with
  | [], _ => []
  | x :: t, O => (x + 1) :: t
  | x :: t, S i => x :: bump t i
  end.

Definition kind_slot (k : N) : nat :=
  if k =? 0 then 0%nat else if k =? 1 then 2%nat else if k =? 2 then 4%nat else if k =? 4 then 6%nat else 8%nat.

Definition add_events (ks : list N) (es : list event) : list N :=
  fold_left (fun (ks : list N) (e : event) =>
               let ks1 := bump ks (kind_slot (fst e)) in if snd e then bump ks1 (S (kind_slot (fst e))) else ks1) es ks.

Definition step (f : gfont) (a : acc) (c : mcase) : acc :=
  let '(code, es, moved) := case_code f c in
  let fail := code =? 1 in
  let slot := if code =? 0 then 1%nat else if code =? 2 then 2%nat else if code =? 3 then 3%nat
              else if code =? 4 then 4%nat else if code =? 5 then 5%nat else 6%nat in
  mkAcc (a_idx a + 1)
        (if (fail && (a_nfail a <? 10)%nat)%bool then a_idx a :: a_fail a else a_fail a)
        (if fail then S (a_nfail a) else a_nfail a)
        (bump (bump (a_counts a) 0) slot)
        (add_events (a_kinds a) es)
        (if moved then a_moved a + 1 else a_moved a).

Definition acc0 : acc := mkAcc 0 [] O [0; 0; 0; 0; 0; 0; 0] [0; 0; 0; 0; 0; 0; 0; 0; 0; 0] 0.

Definition run_font (a : acc) (fc : gfont * list mcase) : acc := fold_left (step (fst fc)) (snd fc) a.

Definition summary (l : list (gfont * list mcase)) : list N :=
  let a := fold_left run_font l acc0 in
  (N.of_nat (length (a_fail a)) :: rev (a_fail a)) ++ firstn 6 (a_counts a) ++ a_kinds a ++ [a_moved a].

(* single-case diagnosis for replays: model output (gid, cluster flattened), ambiguity flags *)
Definition diagnose (gf : gfont) (c : mcase) : list N :=
  match shape_morx_feat_cap (c_cap c) (fst gf) (snd gf) (c_feats c) (c_dir c) (c_level c) (c_text c) with
  | Ok sh => 1 :: sh_amb sh :: concat (map (fun '(g, cl) => [g; cl]) (sh_glyphs sh))
  | Error e => [0; N.of_nat (err_code e)]
  end.
