(* Corr/NormalizeC.v — correspondence evaluators for the normalizer (C09).  Every function takes data
   observed on the implementation and returns the indices of the failing cases. *)
From Coq Require Import List NArith Bool.
From RB Require Import Gen.NormTables Gen.UnicodeSpec Model.Normalize Corr.Common.
Import ListNotations.
Local Open Scope N_scope.

Definition hasl (l : list N) (c : N) : bool := existsb (N.eqb c) l.

Fixpoint pairs_eqb (a b : list (N * N)) : bool :=
  match a, b with
  | [], [] => true
  | (x, y) :: a', (x', y') :: b' => (x =? x') && (y =? y') && pairs_eqb a' b'
  | _, _ => false
  end.

(* the model of shaping a text on a cmap-only font with the given repertoire, Unicode data from the spec side *)
Definition model_shape (rep text : list N) : list (N * N) :=
  shape_chars (hasl rep) spec_is_mark spec_is_space spec_ccc (form_clusters spec_is_mark text).

(* (repertoire, text, observed (character of glyph, cluster) list; None = panic) *)
Definition shape_case := (list N * list N * option (list (N * N)))%type.

Definition check_shape (c : shape_case) : bool :=
  let '(rep, text, obs) := c in
  match obs with
  | Some o => in_domain text && pairs_eqb o (model_shape rep text)
  | None => false
  end.

(* unicode::decompose observed on every scalar value: the listed (ab, a, b) are exactly the Some answers *)
Definition check_decomp (c : N * N * N) : bool :=
  let '(ab, a, b) := c in
  match decompose_fn ab with
  | Some (a', b') => (a =? a') && (b =? b')
  | None => false
  end.

Fixpoint strictly_increasing (l : list N) : bool :=
  match l with
  | x :: ((y :: _) as t) => (x <? y) && strictly_increasing t
  | _ => true
  end.

(* [number of listed characters that are NOT Hangul syllables; 1 if the keys are strictly increasing].
   Together with check_decomp on every row: the implementation's domain is the model's domain iff the first
   number equals the table length and all S_COUNT syllables are listed. *)
Definition decomp_domain (rows : list (N * N * N)) : list N :=
  let keys := map (fun r => fst (fst r)) rows in
  let nonh := filter (fun k => match decompose_hangul k with Some _ => false | None => true end) keys in
  [N.of_nat (length nonh); N.of_nat (length DECOMPOSITION_TABLE); N.of_nat (length keys - length nonh); S_COUNT;
   if strictly_increasing keys then 1 else 0].

Definition check_compose (c : N * N * option N) : bool :=
  let '(a, b, r) := c in
  match compose_fn a b, r with
  | Some x, Some y => x =? y
  | None, None => true
  | _, _ => false
  end.

(* (c, is_mark, stored mcc, is_space, has space fallback, raw modified_combining_class) *)
Definition props_case := (N * bool * N * bool * bool * N)%type.

Definition model_props (c : N) : props_case :=
  let x := inp spec_is_mark spec_is_space spec_ccc c 0 in
  (c, mk_ x, mcc x, sp_ x, in_space_fallback c, mcc_fn spec_ccc c).

Definition props_eqb (a b : props_case) : bool :=
  let '(c, m, k, s, f, r) := a in
  let '(c', m', k', s', f', r') := b in
  (c =? c') && Bool.eqb m m' && (k =? k') && Bool.eqb s s' && Bool.eqb f f' && (r =? r').

Definition check_props (c : props_case) : bool :=
  let '(u, _, _, _, _, _) := c in props_eqb c (model_props u).

Definition nontrivial_props (c : N) : bool :=
  let '(_, m, k, s, f, r) := model_props c in m || negb (k =? 0) || s || f || negb (r =? 0).

(* how many characters the model gives non-default properties: marks, spaces, fallback spaces, special cases
   (deduplicated by construction: the candidate sets are disjoint except spaces, handled by the filter) *)
Definition model_props_count : N :=
  let cands := map fst SPEC_MARKS
               ++ flat_map (fun r => map (fun k => fst r + N.of_nat k) (seq 0 (N.to_nat (snd r - fst r + 1)))) SPEC_SPACES
               ++ filter (fun c => negb (spec_is_space c) && negb (spec_is_mark c)) SPACE_FALLBACK
               ++ filter (fun c => negb (spec_is_space c) && negb (spec_is_mark c) && negb (in_space_fallback c)) (map fst MCC_SPECIAL) in
  N.of_nat (length (filter nontrivial_props cands)).
