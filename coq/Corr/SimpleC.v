(* Corr/SimpleC.v — correspondence evaluators for Model/Simple.v (property C16).
   A case is what the harness observed for one request on one generated font: the model is run on the
   same font description and request and must give exactly the observed glyph list. *)
From Coq Require Import List NArith ZArith Bool.
From RB Require Import Model.Font Model.Simple Corr.Common.
Import ListNotations.
Local Open Scope N_scope.

(* oracle from the tables printed by the harness: (code point, general category, ignorable) for the
   characters of the text, and the mirroring / vertical-form tables of the generator's alphabet *)
Fixpoint gc_lookup (l : list (N * N * bool)) (c : N) : N * bool :=
  match l with
  | [] => (2, false) (* unassigned *)
  | (k, gc, ign) :: t => if k =? c then (gc, ign) else gc_lookup t c
  end.

Definition mk_oracle (mir vert : list (N * N)) (gcs : list (N * N * bool)) : oracle :=
  mkOracle (fun c => fst (gc_lookup gcs c)) (fun c => snd (gc_lookup gcs c)) (fun c => assoc c mir) (fun c => assoc c vert).

Definition outg_eqb (a b : outg) : bool :=
  let '(g1, c1, xa1, ya1, xo1, yo1) := a in
  let '(g2, c2, xa2, ya2, xo2, yo2) := b in
  (g1 =? g2) && (c1 =? c2) && (xa1 =? xa2)%Z && (ya1 =? ya2)%Z && (xo1 =? xo2)%Z && (yo1 =? yo2)%Z.

Fixpoint outs_eqb (a b : list outg) : bool :=
  match a, b with
  | [], [] => true
  | x :: a', y :: b' => outg_eqb x y && outs_eqb a' b'
  | _, _ => false
  end.

(* (font, request, gc table, text, observed output; None = the implementation panicked) *)
Definition scase := (font * request * list (N * N * bool) * list (N * N) * option (list outg))%type.

Definition case_in_domain (mir vert : list (N * N)) (c : scase) : bool :=
  let '(f, r, gcs, text, _) := c in in_domain f (mk_oracle mir vert gcs) r text.

Definition check_case (mir vert : list (N * N)) (c : scase) : bool :=
  let '(f, r, gcs, text, obs) := c in
  match obs with
  | Some o => outs_eqb (shape_simple f (mk_oracle mir vert gcs) r text) o
  | None => false
  end.

(* for diagnostics: what the model says *)
Definition model_out (mir vert : list (N * N)) (c : scase) : list outg :=
  let '(f, r, gcs, text, _) := c in shape_simple f (mk_oracle mir vert gcs) r text.
