(* Corr/TagC.v — correspondence evaluators for script / language tag selection (C18).
   Each takes implementation-observed data (hook output) and says whether the model agrees. *)
From Coq Require Import List NArith Bool Arith.
From RB Require Import Base.Bytes Gen.LangTable Model.Tag Corr.Common.
Import ListNotations.
Local Open Scope N_scope.

Definition opt_eqb {A} (e : A -> A -> bool) (a b : option A) : bool :=
  match a, b with
  | Some x, Some y => e x y
  | None, None => true
  | _, _ => false
  end.

Definition pair_eqb (a b : list N * list N) : bool := list_eqb (fst a) (fst b) && list_eqb (snd a) (snd b).

(* hook `tags(script, language)`: observed = None for a panic *)
Definition tags_case := (option bytes * option bytes * option (list N * list N))%type.
Definition check_tags (c : tags_case) : bool :=
  let '(sc, lg, obs) := c in opt_eqb pair_eqb (tags sc lg) obs.

(* hook `lang_cmp`: 0 = Less, 1 = Equal, 2 = Greater *)
Definition cmp_code (c : comparison) : N := match c with Lt => 0 | Eq => 1 | Gt => 2 end.
Definition check_langcmp (c : bytes * bytes * option N) : bool :=
  let '(a, b, obs) := c in opt_eqb N.eqb (option_map cmp_code (lang_cmp a b)) obs.

(* hook `complex` *)
Definition check_complex (c : bytes * option (option (list N))) : bool :=
  let '(l, obs) := c in opt_eqb (opt_eqb list_eqb) (complex l) obs.

(* hook `script_tag`: 0 = rejected *)
Definition check_script (c : bytes * N) : bool :=
  let '(raw, obs) := c in
  match script_of raw with Some t => t =? obs | None => obs =? 0 end.

(* the compiled registry equals the translated one *)
Fixpoint rows_eqb (a b : list (bytes * N)) : bool :=
  match a, b with
  | [], [] => true
  | (l, t) :: a', (l', t') :: b' => list_eqb l l' && (t =? t') && rows_eqb a' b'
  | _, _ => false
  end.
Definition check_registry (impl : list (bytes * N)) : list N :=
  if rows_eqb impl lang_table then [] else [1].

(* hook `select` + `find_feature` on a generated table:
   observed = None when no script was selected, else
   (found, script index, chosen tag, language index, required (index, tag), index of each queried feature) *)
Definition sel_obs := option (bool * N * N * option N * option (N * N) * list (option N)).
Definition select_case := (layout * list N * list N * list N * sel_obs)%type.

Definition natN_eqb (a : option nat) (b : option N) : bool :=
  match a, b with
  | Some x, Some y => N.of_nat x =? y
  | None, None => true
  | _, _ => false
  end.

Fixpoint all2 {A B} (f : A -> B -> bool) (a : list A) (b : list B) : bool :=
  match a, b with
  | [], [] => true
  | x :: a', y :: b' => f x y && all2 f a' b'
  | _, _ => false
  end.

Definition check_select (c : select_case) : bool :=
  let '(ly, st, lt, ft, obs) := c in
  match select_script ly st, obs with
  | None, None => true
  | Some (found, sidx, tag), Some (found', sidx', tag', lidx', req', fs') =>
      let lidx := select_script_language ly sidx lt in
      Bool.eqb found found' && (N.of_nat sidx =? sidx') && (tag =? tag') && natN_eqb lidx lidx'
      && (match required_feature ly sidx lidx, req' with
          | Some (i, t), Some (i', t') => (N.of_nat i =? i') && (t =? t')
          | None, None => true
          | _, _ => false
          end)
      && all2 natN_eqb (map (find_language_feature ly sidx lidx) ft) fs'
  | _, _ => false
  end.

(* public API on a generated font whose feature k substitutes glyph (base + k) by (sub + k) (GSUB) or
   adds k + 1 to its advance (GPOS): observed = the sorted feature indices whose effect happened *)
Fixpoint nat_list_eqb (a : list nat) (b : list N) : bool :=
  match a, b with
  | [], [] => true
  | x :: a', y :: b' => (N.of_nat x =? y) && nat_list_eqb a' b'
  | _, _ => false
  end.

Fixpoint insert_sorted (x : nat) (l : list nat) : list nat :=
  match l with
  | [] => [x]
  | y :: t => if (x <? y)%nat then x :: l else if Nat.eqb x y then l else y :: insert_sorted x t
  end.
Definition sort_dedup (l : list nat) : list nat := fold_right insert_sorted [] l.

(* script tags and language tags are computed by the model from the script / language strings *)
Definition api_case := (layout * option bytes * option bytes * list N * list N)%type.
Definition check_api (c : api_case) : bool :=
  let '(ly, sc, lg, requested, obs) := c in
  match tags sc lg with
  | None => false
  | Some (st, lt) => nat_list_eqb (sort_dedup (active_features ly st lt requested)) obs
  end.

(* model-level search used by the driver when a proof of Props/C18.v no longer checks:
   1 = the model panics, 0 = no language tag, otherwise the first language tag *)
Definition model_first (l : bytes) : N :=
  match tags None (Some l) with
  | None => 1
  | Some (_, []) => 0
  | Some (_, t :: _) => t
  end.
