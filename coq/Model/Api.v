(* Model/Api.v — the public buffer API (UnicodeBuffer / GlyphBuffer / shape / shape_with_plan) as a
   state machine over the fields that survive between calls (C05).  The shaping core is a Section
   variable: it reads the observable request fields and the budgets that enter() computes, nothing
   else (that frame is what the history correspondence checks).  `leave_unconditional` is the code-shape
   fact from Gen/Flags.v: shape_with_plan pairs enter() with a leave() on every path. *)
From Coq Require Import List NArith ZArith Bool.
Import ListNotations.
Local Open Scope N_scope.

Definition MAX_LEN_DEFAULT : N := 1073741823.
Definition MAX_OPS_DEFAULT : N := 536870911.
Definition MAX_LEN_FACTOR : N := 64.
Definition MAX_LEN_MIN : N := 16384.
Definition MAX_OPS_FACTOR : N := 1024.
Definition MAX_OPS_MIN : N := 16384.
Definition USIZE_MAX : N := 18446744073709551615.
Definition I32_MAX : N := 2147483647.

(* observable request: what the caller supplies *)
Record request := mkReq {
  r_text : list (N * N);        (* code point, cluster *)
  r_pre : list N; r_post : list N;
  r_dir : N; r_script : N; r_lang : list N;   (* 0 = unset *)
  r_flags : N; r_level : N; r_nfvs : option N
}.

(* buffer state between calls *)
Record abuf := mkA {
  a_text : list (N * N); a_pre : list N; a_post : list N;
  a_dir : N; a_script : N; a_lang : list N;
  a_flags : N; a_level : N; a_nfvs : option N;
  a_max_len : N; a_max_ops : N; a_serial : N; a_scratch : N;
  a_have_output : bool; a_have_positions : bool; a_successful : bool; a_idx : N; a_out_len : N
}.

Definition a_new : abuf :=
  mkA [] [] [] 0 0 [] 0 0 None MAX_LEN_DEFAULT MAX_OPS_DEFAULT 0 0 false false true 0 0.

(* hb_buffer_t::clear(): everything but flags (and invisible, shaping_failed, budgets) *)
Definition a_clear (b : abuf) : abuf :=
  mkA [] [] [] 0 0 [] (a_flags b) 0 None (a_max_len b) (a_max_ops b) 0 0 false false true 0 0.

(* add(c, cluster): ensure(len + 1) fails when len + 1 > max_len: the character is dropped *)
Definition a_add (b : abuf) (cp cl : N) : abuf :=
  let n := N.of_nat (length (a_text b)) in
  if a_max_len b <? n + 1 then
    mkA (a_text b) (a_pre b) (a_post b) (a_dir b) (a_script b) (a_lang b) (a_flags b) (a_level b) (a_nfvs b)
        (a_max_len b) (a_max_ops b) (a_serial b) (a_scratch b) (a_have_output b) (a_have_positions b) false (a_idx b) (a_out_len b)
  else
    mkA (a_text b ++ [(cp, cl)]) (a_pre b) (a_post b) (a_dir b) (a_script b) (a_lang b) (a_flags b) (a_level b) (a_nfvs b)
        (a_max_len b) (a_max_ops b) (a_serial b) (a_scratch b) (a_have_output b) (a_have_positions b) (a_successful b) (a_idx b) (a_out_len b).

Definition a_add_all (b : abuf) (t : list (N * N)) : abuf := fold_left (fun b x => a_add b (fst x) (snd x)) t b.

Definition a_set_request_fields (b : abuf) (r : request) : abuf :=
  mkA (a_text b) (r_pre r) (r_post r) (r_dir r) (r_script r) (r_lang r) (r_flags r) (r_level r) (r_nfvs r)
      (a_max_len b) (a_max_ops b) (a_serial b) (a_scratch b) (a_have_output b) (a_have_positions b) (a_successful b) (a_idx b) (a_out_len b).

(* fill a buffer with a request the way a caller does: add every character, then set every property *)
Definition a_fill (b : abuf) (r : request) : abuf := a_set_request_fields (a_add_all b (r_text r)) r.

(* enter(): budgets from the current length *)
Definition enter_max_len (n cur : N) : N := if n * MAX_LEN_FACTOR <=? USIZE_MAX then N.max (n * MAX_LEN_FACTOR) MAX_LEN_MIN else cur.
Definition enter_max_ops (n cur : N) : N :=
  if n <=? I32_MAX then (if n * MAX_OPS_FACTOR <=? I32_MAX then N.max (n * MAX_OPS_FACTOR) MAX_OPS_MIN else cur) else cur.

Section Shape.
(* the shaping core: result as a function of the observable request and the budgets of this call *)
Variable result : Type.
Variable core : request -> N (* max_len *) -> N (* max_ops *) -> result.
Variable empty_result : result.
Variable leave_unconditional : bool.

Definition request_of (b : abuf) : request :=
  mkReq (a_text b) (a_pre b) (a_post b) (a_dir b) (a_script b) (a_lang b) (a_flags b) (a_level b) (a_nfvs b).

(* shape / shape_with_plan: enter; core if non-empty; leave (unconditionally iff leave_unconditional);
   returns the result and the GlyphBuffer state; GlyphBuffer::clear gives the next UnicodeBuffer *)
Definition a_shape (b : abuf) : result * abuf :=
  let n := N.of_nat (length (a_text b)) in
  let ml := enter_max_len n (a_max_len b) in
  let mo := enter_max_ops n (a_max_ops b) in
  let res := if n =? 0 then empty_result else core (request_of b) ml mo in
  let left := (leave_unconditional || negb (n =? 0))%bool in
  (res, mkA (a_text b) (a_pre b) (a_post b) (a_dir b) (a_script b) (a_lang b) (a_flags b) (a_level b) (a_nfvs b)
            (if left then MAX_LEN_DEFAULT else ml) (if left then MAX_OPS_DEFAULT else mo) 0 0 false true true 0 0).

(* one use of a recycled buffer: fill, shape, clear *)
Definition use_once (b : abuf) (r : request) : result * abuf :=
  let '(res, g) := a_shape (a_fill b r) in (res, a_clear g).

Fixpoint history (b : abuf) (rs : list request) : abuf :=
  match rs with [] => b | r :: t => history (snd (use_once b r)) t end.

Definition fresh_result (r : request) : result := fst (use_once a_new r).

End Shape.

(* the state every call starts from: budgets at their defaults, nothing in progress, empty content *)
Definition Idle (b : abuf) : Prop :=
  a_max_len b = MAX_LEN_DEFAULT /\ a_max_ops b = MAX_OPS_DEFAULT /\ a_serial b = 0 /\ a_scratch b = 0 /\
  a_have_output b = false /\ a_have_positions b = false /\ a_successful b = true /\ a_idx b = 0 /\ a_out_len b = 0 /\
  a_text b = [] /\ a_pre b = [] /\ a_post b = [] /\ a_dir b = 0 /\ a_script b = 0 /\ a_lang b = [] /\ a_level b = 0 /\ a_nfvs b = None.
