(* Model/Attach.v — propagate_attachment_offsets and GPOS::position_finish_offsets
   (src/hb/ot_layout_gpos_table.rs), with the nesting bound (MAX_NESTING_LEVEL = 64, as HarfBuzz's
   HB_MAX_NESTING_LEVEL) and, separately, the unbounded recursion the unrepaired code had (as a
   depth-counting variant, so that "recursion depth = chain length" can be stated).
   No proofs in this file. *)
From Coq Require Import List NArith ZArith Bool Arith.
From RB Require Import Model.Buffer Model.Font Model.Gpos.
Import ListNotations.
Local Open Scope Z_scope.

Definition MAX_NESTING_LEVEL : nat := 64.

(* sum of advances of ps[a .. b) as a pair (x, y) *)
Fixpoint adv_sum (ps : list pos) (a : nat) (n : nat) : Z * Z :=
  match n with
  | O => (0, 0)
  | S n' => let '(sx, sy) := adv_sum ps (S a) n' in (xa (getp ps a) + sx, ya (getp ps a) + sy)
  end.

(* the accumulation step once the parent j is resolved *)
Definition attach_accumulate (d : direction) (ps : list pos) (i j : nat) (kind : N) : list pos :=
  let pi := getp ps i in
  let pj := getp ps j in
  if (kind =? ATTACH_MARK)%N then
    let '(sx, sy) := if is_forward d then adv_sum ps j (i - j) else adv_sum ps (S j) (i - j) in
    if is_forward d
    then upd ps i (set_yo (set_xo pi (xo pi + xo pj - sx)) (yo pi + yo pj - sy))
    else upd ps i (set_yo (set_xo pi (xo pi + xo pj + sx)) (yo pi + yo pj + sy))
  else if (kind =? ATTACH_CURSIVE)%N then
    if is_horizontal d then upd ps i (set_yo pi (yo pi + yo pj)) else upd ps i (set_xo pi (xo pi + xo pj))
  else ps.

(* the parent index `(i as isize + chain) as usize`: a negative value wraps to a huge usize, i.e. >= len *)
Definition parent_index (ps : list pos) (i : nat) : option nat :=
  let j := Z.of_nat i + chain (getp ps i) in
  if (j <? 0) || (Z.of_nat (length ps) <=? j) then None else Some (Z.to_nat j).

(* propagate_attachment_offsets(pos, len, i, direction, nesting_level); `None` = the Rust
   `assert!(j < i)` for a mark attached forwards fails (panic) *)
Fixpoint propagate (nesting : nat) (d : direction) (ps : list pos) (i : nat) : option (list pos) :=
  let c := chain (getp ps i) in
  let kind := atype (getp ps i) in
  if c =? 0 then Some ps
  else
    let ps1 := upd ps i (set_chain (getp ps i) 0) in
    match parent_index ps i with
    | None => Some ps1
    | Some j =>
      match nesting with
      | O => Some ps1
      | S n =>
        match propagate n d ps1 j with
        | None => None
        | Some ps2 =>
            if (kind =? ATTACH_MARK)%N && negb (j <? i)%nat then None
            else Some (attach_accumulate d ps2 i j kind)
        end
      end
    end.

Fixpoint propagate_all (d : direction) (ps : list pos) (is : list nat) : option (list pos) :=
  match is with
  | [] => Some ps
  | i :: t => match propagate MAX_NESTING_LEVEL d ps i with Some ps1 => propagate_all d ps1 t | None => None end
  end.

(* GPOS::position_finish_offsets *)
Definition position_finish_offsets (d : direction) (attach : bool) (ps : list pos) : option (list pos) :=
  if attach then propagate_all d ps (seq 0 (length ps)) else Some ps.

(* ---- the unrepaired shape: no nesting parameter.  Fuel only makes the definition structural (a
   chain visits each glyph at most once because its link is cleared first, so `length ps` suffices);
   the second component is the recursion depth reached below this call. ---- *)
Fixpoint propagate_unbounded (fuel : nat) (d : direction) (ps : list pos) (i : nat) : option (list pos * nat) :=
  match fuel with
  | O => Some (ps, O)
  | S fuel =>
    let c := chain (getp ps i) in
    let kind := atype (getp ps i) in
    if c =? 0 then Some (ps, O)
    else
      let ps1 := upd ps i (set_chain (getp ps i) 0) in
      match parent_index ps i with
      | None => Some (ps1, O)
      | Some j =>
        match propagate_unbounded fuel d ps1 j with
        | None => None
        | Some (ps2, depth) =>
            if (kind =? ATTACH_MARK)%N && negb (j <? i)%nat then None
            else Some (attach_accumulate d ps2 i j kind, S depth)
        end
      end
  end.

(* recursion depth of the bounded version (number of nested calls below the top call) *)
Fixpoint propagate_depth (nesting : nat) (ps : list pos) (i : nat) : nat :=
  let c := chain (getp ps i) in
  if c =? 0 then O
  else
    match parent_index ps i with
    | None => O
    | Some j =>
      match nesting with
      | O => O
      | S n => S (propagate_depth n (upd ps i (set_chain (getp ps i) 0)) j)
      end
    end.

(* ---- pen semantics for the final visual-order array ---- *)

(* pen position before glyph k: sum of the advances of glyphs 0..k-1 *)
Definition pen (ps : list pos) (k : nat) : Z * Z := adv_sum ps 0 k.
Definition origin (ps : list pos) (k : nat) : Z * Z :=
  (fst (pen ps k) + xo (getp ps k), snd (pen ps k) + yo (getp ps k)).
Definition anchor_abs (ps : list pos) (k : nat) (a : anchor) : Z * Z :=
  (fst (origin ps k) + fst a, snd (origin ps k) + snd a).
