(* Model/Buffer.v — executable model of hb_buffer_t (src/hb/buffer.rs) at the LOGICAL level.

   The buffer is a zipper.  In output mode (`have_output`) `pre` is the out-buffer
   (out_info[0..out_len)) and `rest` is info[idx..len); `dead` is the Rust `idx` (input glyphs
   already consumed; info[0..idx) is no longer meaningful).  In in-place mode `pre ++ rest` is
   info[0..len) and `dead = length pre = idx`.  Physical layout (aliasing of the out-buffer with
   info, separate storage in `pos`, Vec lengths) is NOT represented here — see Model/BufferA.v; the
   correspondence check compares this model with the real hb_buffer_t through that abstraction.

   Indices: `nat`.  Data: `N`.  A Rust panic is `Error _`.  No proofs in this file. *)
From Coq Require Import List NArith Bool Arith.
From RB Require Import Base.Result.
Import ListNotations.
Local Open Scope N_scope.

Record info := mkInfo { gid : N; mask : N; cluster : N; var1 : N; var2 : N }.

Definition set_gid (i : info) (g : N) : info := mkInfo g (mask i) (cluster i) (var1 i) (var2 i).
Definition set_mask (i : info) (m : N) : info := mkInfo (gid i) m (cluster i) (var1 i) (var2 i).

(* glyph_flag::* — compared with Gen/Consts.v in Props *)
Definition UNSAFE_TO_BREAK : N := 1.
Definition UNSAFE_TO_CONCAT : N := 2.
Definition SAFE_TO_INSERT_TATWEEL : N := 4.
Definition GLYPH_FLAGS_DEFINED : N := 7.
Definition PRODUCE_UNSAFE_TO_CONCAT_BIT : N := 64.   (* BufferFlags; see Gen/Consts.v *)
Definition SCRATCH_HAS_GLYPH_FLAGS : N := 32.
Definition U32_MAX : N := 4294967295.

(* hb_buffer_t::set_cluster *)
Definition set_cluster (i : info) (c m : N) : info :=
  if cluster i =? c then i
  else mkInfo (gid i) (N.lor (N.ldiff (mask i) GLYPH_FLAGS_DEFINED) (N.land m GLYPH_FLAGS_DEFINED)) c (var1 i) (var2 i).

Definition or_mask (m : N) (i : info) : info := set_mask i (N.lor (mask i) m).

Record zbuf := mkZ {
  pre : list info;
  rest : list info;
  dead : nat;            (* Rust idx *)
  out_mode : bool;       (* have_output *)
  level : N;             (* cluster_level 0/1/2 *)
  bflags : N;            (* BufferFlags bits *)
  ok : bool;             (* successful *)
  max_len : N;
  scratch : N
}.

Definition with_pr (b : zbuf) (p r : list info) (d : nat) : zbuf :=
  mkZ p r d (out_mode b) (level b) (bflags b) (ok b) (max_len b) (scratch b).
Definition with_ok (b : zbuf) (o : bool) : zbuf :=
  mkZ (pre b) (rest b) (dead b) (out_mode b) (level b) (bflags b) o (max_len b) (scratch b).
Definition with_scratch (b : zbuf) (s : N) : zbuf :=
  mkZ (pre b) (rest b) (dead b) (out_mode b) (level b) (bflags b) (ok b) (max_len b) s.
Definition with_mode (b : zbuf) (m : bool) : zbuf :=
  mkZ (pre b) (rest b) (dead b) m (level b) (bflags b) (ok b) (max_len b) (scratch b).

(* Rust `len` *)
Definition blen (b : zbuf) : nat := (dead b + length (rest b))%nat.
Definition out_len (b : zbuf) : nat := if out_mode b then length (pre b) else O.

(* ---------- list helpers ---------- *)

Fixpoint map_range {A} (f : A -> A) (s e : nat) (l : list A) {struct l} : list A :=
  match l with
  | [] => []
  | x :: t =>
    match e with
    | O => l
    | S e' => match s with
              | O => f x :: map_range f O e' t
              | S s' => x :: map_range f s' e' t
              end
    end
  end.

Definition min_cluster_list (l : list info) (init : N) : N :=
  fold_left (fun c i => N.min c (cluster i)) l init.

(* number of leading elements whose cluster equals c *)
Fixpoint run_len (c : N) (l : list info) : nat :=
  match l with
  | x :: t => if cluster x =? c then S (run_len c t) else O
  | [] => O
  end.

(* apply f to the maximal suffix of l all of whose clusters equal c *)
Definition map_suffix_run (f : info -> info) (c : N) (l : list info) : list info :=
  let k := run_len c (rev l) in
  firstn (length l - k) l ++ map f (skipn (length l - k) l).

Definition slice {A} (l : list A) (s e : nat) : list A := firstn (e - s) (skipn s l).

(* ---------- ensure / make_room_for (logical part: the length budget) ---------- *)

(* ensure(size): true without test if size < len; else fails iff size > max_len *)
Definition ensure (b : zbuf) (size : nat) : bool * zbuf :=
  if (size <? blen b)%nat then (true, b)
  else if max_len b <? N.of_nat size then (false, with_ok b false)
  else (true, b).

(* make_room_for(num_in, num_out): ensure(out_len + num_out); the switch to separate storage is physical *)
Definition make_room_for (b : zbuf) (num_out : nat) : bool * zbuf :=
  ensure b (out_len b + num_out).

(* ---------- merge_clusters ---------- *)

(* merge on a flat array with absolute indices s < e <= length l; returns the new array and,
   when the merged range starts at `s` with a cluster different from the minimum, the pair
   (old cluster of l[s], new cluster) needed for the continuation into the out-buffer *)
Definition merge_array (l : list info) (s e : nat) : result (list info * N * N) :=
  match nth_error l s, nth_error l (e - 1) with
  | Some first, Some last =>
      let c := min_cluster_list (slice l (S s) e) (cluster first) in
      let e' := if c =? cluster last then e else (e + run_len (cluster last) (skipn e l))%nat in
      Ok (map_range (fun i => set_cluster i c 0) s e' l, cluster first, c)
  | _, _ => Error Oob
  end.

(* merge_clusters(start, end): absolute indices as in the Rust (in output mode start >= idx) *)
Definition merge_clusters (b : zbuf) (s e : nat) : result zbuf :=
  if (e - s <? 2)%nat then Ok b
  else if level b =? 2 then Ok b   (* level 2: unsafe_to_break(start,end) — handled by caller below *)
  else
    if out_mode b then
      if (s <? dead b)%nat then Error Oob   (* callers never merge dead input in output mode *)
      else
        do r <- merge_array (rest b) (s - dead b) (e - dead b);
        let '(rest', c0, c) := r in
        let pre' := if ((s =? dead b)%nat && negb (c0 =? c))%bool
                    then map_suffix_run (fun i => set_cluster i c 0) c0 (pre b) else pre b in
        Ok (with_pr b pre' rest' (dead b))
    else
      do r <- merge_array (pre b ++ rest b) s e;
      let '(arr, _, _) := r in
      Ok (with_pr b (firstn (dead b) arr) (skipn (dead b) arr) (dead b)).

(* ---------- glyph flags ---------- *)

(* _infos_find_min_cluster over l[s..e) *)
Definition find_min_cluster (lvl : N) (l : list info) (s e : nat) (init : N) : result N :=
  if (s =? e)%nat then Ok init
  else
    match nth_error l s, nth_error l (e - 1) with
    | Some first, Some last =>
        let c := if lvl =? 1 then min_cluster_list (slice l s e) init else init in
        Ok (N.min c (N.min (cluster first) (cluster last)))
    | _, _ => Error Oob
    end.

(* _infos_set_glyph_flags on l[s..e); returns the list and whether a flag was applied *)
Fixpoint flag_while_ne_fwd (c stop m : N) (l : list info) : list info * bool :=
  match l with
  | [] => ([], false)
  | x :: t =>
    if cluster x =? stop then (l, false)
    else let '(t', a) := flag_while_ne_fwd c stop m t in
         if cluster x =? c then (x :: t', a) else (or_mask m x :: t', true)
  end.

Definition flag_all_ne (c m : N) (l : list info) : list info * bool :=
  (map (fun x => if cluster x =? c then x else or_mask m x) l,
   existsb (fun x => negb (cluster x =? c)) l).

Definition infos_set_glyph_flags (lvl : N) (l : list info) (s e : nat) (c m : N) : result (list info * bool) :=
  if (s =? e)%nat then Ok (l, false)
  else
    match nth_error l s, nth_error l (e - 1) with
    | Some first, Some last =>
        let a := firstn s l in
        let mid := slice l s e in
        let z := skipn e l in
        if ((lvl =? 2) || (negb (c =? cluster first) && negb (c =? cluster last)))%bool then
          let '(mid', ap) := flag_all_ne c m mid in Ok (a ++ mid' ++ z, ap)
        else if c =? cluster first then
          (* from the end backwards while cluster <> cluster_first *)
          let '(r, ap) := flag_while_ne_fwd c (cluster first) m (rev mid) in Ok (a ++ rev r ++ z, ap)
        else
          let '(mid', ap) := flag_while_ne_fwd c (cluster last) m mid in Ok (a ++ mid' ++ z, ap)
    | _, _ => Error Oob
    end.

Definition add_scratch (b : zbuf) (ap : bool) : zbuf :=
  if ap then with_scratch b (N.lor (scratch b) SCRATCH_HAS_GLYPH_FLAGS) else b.

(* _set_glyph_flags(mask, start, end, interior, from_out_buffer).
   `s`,`e`: as passed (None => 0 / len); in output mode with from_out_buffer, `s` indexes the
   out-buffer and `e` is an absolute input index (>= idx). *)
Definition set_glyph_flags (b : zbuf) (m : N) (s : option nat) (e : option nat)
           (interior from_out : bool) : result zbuf :=
  let s := match s with Some x => x | None => O end in
  let e := Nat.min (match e with Some x => x | None => blen b end) (blen b) in
  (* `end - start` is evaluated only when interior && !from_out_buffer (it underflows for end < start);
     with from_out_buffer in output mode `start` indexes the out-buffer and `end` the input, so
     start > end is routine there (after 1->k growth).  Other end < start combinations are outside
     the callers' domain. *)
  if ((e <? s)%nat && interior && negb from_out)%bool then Error Overflow
  else if ((e <? s)%nat && negb interior && negb from_out)%bool
       then Ok (with_scratch b (N.lor (scratch b) SCRATCH_HAS_GLYPH_FLAGS))
  else if ((e <? s)%nat && negb (out_mode b) && negb interior)%bool
       then Ok (with_scratch b (N.lor (scratch b) SCRATCH_HAS_GLYPH_FLAGS))   (* from_out_buffer without output: empty loops *)
  else if ((e <? s)%nat && negb (out_mode b))%bool then Error Oob
  else if (interior && negb from_out && (e - s <? 2)%nat)%bool then Ok b
  else
    let b := with_scratch b (N.lor (scratch b) SCRATCH_HAS_GLYPH_FLAGS) in
    if (negb from_out || negb (out_mode b))%bool then
      (* acts on info[s..e) *)
      if out_mode b then
        if (s <? dead b)%nat then Error Oob else
        let s' := (s - dead b)%nat in let e' := (e - dead b)%nat in
        if negb interior then
          Ok (with_pr b (pre b) (map_range (or_mask m) s' e' (rest b)) (dead b))
        else
          do c <- find_min_cluster (level b) (rest b) s' e' U32_MAX;
          do r <- infos_set_glyph_flags (level b) (rest b) s' e' c m;
          Ok (add_scratch (with_pr b (pre b) (fst r) (dead b)) (snd r))
      else
        let arr := pre b ++ rest b in
        if negb interior then
          let arr' := map_range (or_mask m) s e arr in
          Ok (with_pr b (firstn (dead b) arr') (skipn (dead b) arr') (dead b))
        else
          do c <- find_min_cluster (level b) arr s e U32_MAX;
          do r <- infos_set_glyph_flags (level b) arr s e c m;
          Ok (add_scratch (with_pr b (firstn (dead b) (fst r)) (skipn (dead b) (fst r)) (dead b)) (snd r))
    else
      (* from out-buffer: out[s..out_len) and info[idx..e) *)
      if (length (pre b) <? s)%nat then Error AssertFail
      else if (e <? dead b)%nat then Error AssertFail
      else
        let e' := (e - dead b)%nat in
        let ol := length (pre b) in
        if negb interior then
          Ok (with_pr b (map_range (or_mask m) s ol (pre b)) (map_range (or_mask m) O e' (rest b)) (dead b))
        else
          do c1 <- find_min_cluster (level b) (rest b) O e' U32_MAX;
          do c <- find_min_cluster (level b) (pre b) s ol c1;
          do r1 <- infos_set_glyph_flags (level b) (pre b) s ol c m;
          do r2 <- infos_set_glyph_flags (level b) (rest b) O e' c m;
          Ok (add_scratch (add_scratch (with_pr b (fst r1) (fst r2) (dead b)) (snd r1)) (snd r2)).

Definition BREAK_CONCAT : N := 3.  (* UNSAFE_TO_BREAK | UNSAFE_TO_CONCAT *)

Definition unsafe_to_break (b : zbuf) (s e : option nat) : result zbuf :=
  set_glyph_flags b BREAK_CONCAT s e true false.
Definition unsafe_to_break_from_outbuffer (b : zbuf) (s e : option nat) : result zbuf :=
  set_glyph_flags b BREAK_CONCAT s e true true.
Definition produce_concat (b : zbuf) : bool := negb (N.land (bflags b) PRODUCE_UNSAFE_TO_CONCAT_BIT =? 0).
Definition unsafe_to_concat (b : zbuf) (s e : option nat) : result zbuf :=
  if produce_concat b then set_glyph_flags b UNSAFE_TO_CONCAT s e false false else Ok b.
Definition unsafe_to_concat_from_outbuffer (b : zbuf) (s e : option nat) : result zbuf :=
  if produce_concat b then set_glyph_flags b UNSAFE_TO_CONCAT s e false true else Ok b.

(* merge_clusters at level 2 calls unsafe_to_break(start,end) *)
Definition merge_clusters_full (b : zbuf) (s e : nat) : result zbuf :=
  if (e - s <? 2)%nat then Ok b
  else if level b =? 2 then unsafe_to_break b (Some s) (Some e)
  else merge_clusters b s e.

(* merge_out_clusters(start, end): indices into the out-buffer *)
Definition merge_out_clusters (b : zbuf) (s e : nat) : result zbuf :=
  if level b =? 2 then Ok b
  else if (e - s <? 2)%nat then Ok b
  else
    match nth_error (pre b) s, nth_error (pre b) (e - 1) with
    | Some first, Some last =>
        let c := min_cluster_list (slice (pre b) (S s) e) (cluster first) in
        (* extend start: while start != 0 && out[start-1].cluster == out[start].cluster *)
        let s' := (s - run_len (cluster first) (rev (firstn s (pre b))))%nat in
        (* extend end *)
        let e' := (e + run_len (cluster last) (skipn e (pre b)))%nat in
        let rest' := if (e' =? length (pre b))%nat
                     then (let k := run_len (cluster last) (rest b) in
                           map (fun i => set_cluster i c 0) (firstn k (rest b)) ++ skipn k (rest b))
                     else rest b in
        Ok (with_pr b (map_range (fun i => set_cluster i c 0) s' e' (pre b)) rest' (dead b))
    | _, _ => Error Oob
    end.

(* ---------- streaming operations (output mode) ---------- *)

Definition next_glyph (b : zbuf) : result zbuf :=
  match rest b with
  | [] => Error Oob
  | x :: t =>
    if out_mode b then
      let '(okk, b') := make_room_for b 1 in
      if okk then Ok (with_pr b' (pre b ++ [x]) t (S (dead b))) else Ok b'
    else Ok (with_pr b (pre b ++ [x]) t (S (dead b)))
  end.

Definition next_glyphs (b : zbuf) (n : nat) : result zbuf :=
  if (length (rest b) <? n)%nat then Error Oob
  else if out_mode b then
    let '(okk, b') := make_room_for b n in
    if okk then Ok (with_pr b' (pre b ++ firstn n (rest b)) (skipn n (rest b)) (dead b + n)) else Ok b'
  else Ok (with_pr b (pre b ++ firstn n (rest b)) (skipn n (rest b)) (dead b + n)).

Definition skip_glyph (b : zbuf) : result zbuf :=
  match rest b with
  | [] => Error Oob
  | x :: t => Ok (with_pr b (if out_mode b then pre b else pre b ++ [x]) t (S (dead b)))
  end.

Definition replace_glyph (b : zbuf) (g : N) : result zbuf :=
  match rest b with
  | [] => Error Oob
  | x :: t =>
    let '(okk, b') := make_room_for b 1 in
    if okk then Ok (with_pr b' (pre b ++ [set_gid x g]) t (S (dead b))) else Ok b'
  end.

Definition replace_glyphs (b : zbuf) (num_in : nat) (gs : list N) : result zbuf :=
  let '(okk, b') := make_room_for b (length gs) in
  if negb okk then Ok b'
  else if (length (rest b) <? num_in)%nat then Error AssertFail
  else
    do b1 <- merge_clusters_full b (dead b) (dead b + num_in);
    match rest b1 with
    | [] => Error Oob
    | orig :: _ =>
      Ok (with_pr b1 (pre b1 ++ map (set_gid orig) gs) (skipn num_in (rest b1)) (dead b1 + num_in))
    end.

Definition output_glyph (b : zbuf) (g : N) : result zbuf :=
  let '(okk, b') := make_room_for b 1 in
  if negb okk then Ok b'
  else
    match rest b, rev (pre b) with
    | [], [] => Ok b
    | x :: _, _ => Ok (with_pr b (pre b ++ [set_gid x g]) (rest b) (dead b))
    | [], l :: _ => Ok (with_pr b (pre b ++ [set_gid l g]) (rest b) (dead b))
    end.

Definition output_info (b : zbuf) (i : info) : result zbuf :=
  let '(okk, b') := make_room_for b 1 in
  if negb okk then Ok b' else Ok (with_pr b (pre b ++ [i]) (rest b) (dead b)).

Definition copy_glyph (b : zbuf) : result zbuf :=
  let '(okk, b') := make_room_for b 1 in
  if negb okk then Ok b'
  else match rest b with
       | [] => Error Oob
       | x :: _ => Ok (with_pr b (pre b ++ [x]) (rest b) (dead b))
       end.

Definition last_cluster (l : list info) : option N :=
  match rev l with x :: _ => Some (cluster x) | [] => None end.

Definition delete_glyph (b : zbuf) : result zbuf :=
  match rest b with
  | [] => Error Oob
  | x :: t =>
    let c := cluster x in
    let next_same := match t with y :: _ => cluster y =? c | [] => false end in
    let prev_same := match last_cluster (pre b) with Some pc => (0 <? length (pre b))%nat && (pc =? c) | None => false end in
    if (next_same || (out_mode b && prev_same))%bool then skip_glyph b
    else if (out_mode b && (0 <? length (pre b))%nat)%bool then
      match last_cluster (pre b) with
      | Some old =>
          let pre' := if c <? old then map_suffix_run (fun i => set_cluster i c (mask x)) old (pre b) else pre b in
          skip_glyph (with_pr b pre' (rest b) (dead b))
      | None => Error Oob
      end
    else
      match t with
      | _ :: _ => do b1 <- merge_clusters_full b (dead b) (dead b + 2); skip_glyph b1
      | [] => skip_glyph b
      end
  end.

(* move_to(i) *)
Definition move_to (b : zbuf) (i : nat) : result (bool * zbuf) :=
  if negb (out_mode b) then
    if (blen b <? i)%nat then Error AssertFail
    else let arr := pre b ++ rest b in Ok (true, with_pr b (firstn i arr) (skipn i arr) i)
  else if negb (ok b) then Ok (false, b)
  else
    let ol := length (pre b) in
    if (ol + length (rest b) <? i)%nat then Error AssertFail
    else if (ol <? i)%nat then
      let count := (i - ol)%nat in
      let '(okk, b') := make_room_for b count in
      if negb okk then Ok (false, b')
      else Ok (true, with_pr b (pre b ++ firstn count (rest b)) (skipn count (rest b)) (dead b + count))
    else if (i <? ol)%nat then
      let count := (ol - i)%nat in
      (* shift_forward(count - idx) when idx < count: ensure(len + count - idx) may fail; move_to
         then returns false (before fix 9debd70 the following assert!(idx >= count) panicked) *)
      if (dead b <? count)%nat then
        let '(okk, b') := ensure b (blen b + (count - dead b)) in
        if negb okk then Ok (false, b')
        else Ok (true, with_pr b (firstn i (pre b)) (skipn i (pre b) ++ rest b) O)
      else Ok (true, with_pr b (firstn i (pre b)) (skipn i (pre b) ++ rest b) (dead b - count))
    else Ok (true, b).

Definition clear_output (b : zbuf) : zbuf :=
  (* idx = 0, out_len = 0: the whole info array is input again *)
  if out_mode b then mkZ [] (rest b) O true (level b) (bflags b) (ok b) (max_len b) (scratch b)  (* dead prefix is not recoverable logically; callers only call this in in-place mode *)
  else mkZ [] (pre b ++ rest b) O true (level b) (bflags b) (ok b) (max_len b) (scratch b).

(* sync: None = content unspecified (allocation failure path) *)
Definition sync (b : zbuf) : result (option zbuf) :=
  if negb (out_mode b) then Error AssertFail
  else if negb (ok b) then Ok None
  else
    do b1 <- next_glyphs b (length (rest b));
    if negb (ok b1) then Ok None   (* next_glyphs failed: nothing advanced; the Rust still swaps/sets len = out_len *)
    else Ok (Some (mkZ [] (pre b1) O false (level b) (bflags b) (ok b1) (max_len b) (scratch b1))).

(* ---------- in-place operations ---------- *)

Definition arr (b : zbuf) : list info := pre b ++ rest b.
Definition of_arr (b : zbuf) (a : list info) : zbuf := with_pr b (firstn (dead b) a) (skipn (dead b) a) (dead b).

Definition reverse_range (b : zbuf) (s e : nat) : result zbuf :=
  if (e - s <? 2)%nat then Ok b
  else if (length (arr b) <? e)%nat then Error Oob
  else let a := arr b in Ok (of_arr b (firstn s a ++ rev (slice a s e) ++ skipn e a)).

Definition reverse (b : zbuf) : result zbuf := reverse_range b O (blen b).

Definition reset_masks (b : zbuf) (m : N) : zbuf := of_arr b (map (fun i => set_mask i m) (arr b)).

Definition set_masks (b : zbuf) (value msk cs ce : N) : zbuf :=
  if msk =? 0 then b
  else
    let v := N.land value msk in
    let f := fun i => set_mask i (N.lor (N.ldiff (mask i) msk) v) in
    if ((cs =? 0) && (ce =? U32_MAX))%bool then of_arr b (map f (arr b))
    else of_arr b (map (fun i => if ((cs <=? cluster i) && (cluster i <? ce))%bool then f i else i) (arr b)).

(* group boundaries by equal cluster: reverse_groups(_cluster_group_func, merge) used by reverse_clusters *)
Fixpoint groups_aux (l : list info) (cur : list info) (acc : list (list info)) : list (list info) :=
  match l with
  | [] => match cur with [] => rev acc | _ => rev (rev cur :: acc) end
  | x :: t =>
    match cur with
    | [] => groups_aux t [x] acc
    | y :: _ => if cluster y =? cluster x then groups_aux t (x :: cur) acc
                else groups_aux t [x] (rev cur :: acc)
    end
  end.
Definition cluster_groups (l : list info) : list (list info) := groups_aux l [] [].

(* reverse_groups with the cluster group function and merge_clusters = false (reverse_clusters):
   each group is reversed in place, then the whole buffer is reversed *)
Definition reverse_clusters (b : zbuf) : zbuf :=
  of_arr b (rev (concat (map (@rev info) (cluster_groups (arr b))))).

(* reverse_groups(group, merge_clusters): literal loop *)
Fixpoint rg_loop (grp : info -> info -> bool) (merge : bool) (b : zbuf) (start : nat) (is : list nat) : result zbuf :=
  match is with
  | [] =>
      do b1 <- (if merge then merge_clusters_full b start (blen b) else Ok b);
      do b2 <- reverse_range b1 start (blen b1);
      reverse b2
  | i :: t =>
      match nth_error (arr b) (i - 1), nth_error (arr b) i with
      | Some x, Some y =>
          if grp x y then rg_loop grp merge b start t
          else
            do b1 <- (if merge then merge_clusters_full b start i else Ok b);
            do b2 <- reverse_range b1 start i;
            rg_loop grp merge b2 i t
      | _, _ => Error Oob
      end
  end.

Definition reverse_groups (grp : info -> info -> bool) (merge : bool) (b : zbuf) : result zbuf :=
  if (blen b =? 0)%nat then Ok b else rg_loop grp merge b O (seq 1 (blen b - 1)).

(* sort(start, end, cmp): literal insertion sort with merge_clusters(j, i+1) before each move.
   cmp a b = true means a must come after b (the Rust moves i left while cmp(info[j-1], info[i])). *)
Fixpoint find_j (cmp : info -> info -> bool) (a : list info) (x : info) (start j : nat) : nat :=
  match j with
  | O => O
  | S j' => if (start <? j)%nat then
              match nth_error a j' with
              | Some y => if cmp y x then find_j cmp a x start j' else j
              | None => j
              end
            else j
  end.

Definition move_elem (a : list info) (i j : nat) : list info :=
  (* t = a[i]; shift a[j..i) right by one; a[j] = t *)
  match nth_error a i with
  | Some t => firstn j a ++ [t] ++ slice a j i ++ skipn (S i) a
  | None => a
  end.

Fixpoint sort_loop (cmp : info -> info -> bool) (b : zbuf) (start : nat) (is : list nat) : result zbuf :=
  match is with
  | [] => Ok b
  | i :: t =>
    match nth_error (arr b) i with
    | None => Error Oob
    | Some x =>
      let j := find_j cmp (arr b) x start i in
      if (i =? j)%nat then sort_loop cmp b start t
      else
        do b1 <- merge_clusters_full b j (S i);
        sort_loop cmp (of_arr b1 (move_elem (arr b1) i j)) start t
    end
  end.

Definition sort (cmp : info -> info -> bool) (b : zbuf) (s e : nat) : result zbuf :=
  sort_loop cmp b s (seq (S s) (e - S s)).

(* delete_glyphs_inplace(filter): literal j/i compaction with cluster merging.
   State: kept (reversed output so far = info[0..j)), remaining input. *)
Fixpoint dgi_loop (fuel : nat) (lvl : N) (filter : info -> bool) (kept_rev : list info) (l : list info)
         (touched : bool) : list info * bool :=
  match fuel with O => (rev kept_rev ++ l, touched) | S fuel =>
  match l with
  | [] => (rev kept_rev, touched)
  | x :: t =>
    if filter x then
      let c := cluster x in
      let back (kept_rev : list info) :=
        match kept_rev with
        | k :: _ => if c <? cluster k
                    then (let n := run_len (cluster k) kept_rev in
                          map (fun i => set_cluster i c (mask x)) (firstn n kept_rev) ++ skipn n kept_rev)
                    else kept_rev
        | [] => kept_rev
        end in
      match t with
      | y :: _ =>
          if cluster y =? c then dgi_loop fuel lvl filter kept_rev t touched   (* cluster survives *)
          else
            match kept_rev with
            | _ :: _ => dgi_loop fuel lvl filter (back kept_rev) t touched     (* merge backward *)
            | [] =>
              (* merge forward: merge_clusters(i, i+2) *)
              if lvl =? 2 then
                (* unsafe_to_break(i, i+2): flags the one whose cluster is not the minimum; sets the scratch flag *)
                dgi_loop fuel lvl filter kept_rev (if c <? cluster y then or_mask BREAK_CONCAT y :: tl t else t) true
              else
                let cm := N.min c (cluster y) in
                let n := if cm =? cluster y then 1%nat else S (run_len (cluster y) (tl t)) in
                dgi_loop fuel lvl filter kept_rev (map (fun i => set_cluster i cm 0) (firstn n t) ++ skipn n t) touched
            end
      | [] => dgi_loop fuel lvl filter (back kept_rev) t touched
      end
    else dgi_loop fuel lvl filter (x :: kept_rev) t touched
  end end.

Definition delete_glyphs_inplace (lvl : N) (filter : info -> bool) (l : list info) : list info * bool :=
  dgi_loop (length l) lvl filter [] l false.

(* ---------- enter / leave (budgets) ---------- *)

Definition MAX_LEN_FACTOR : N := 64.
Definition MAX_LEN_MIN : N := 16384.
Definition MAX_LEN_DEFAULT : N := 1073741823. (* 0x3FFFFFFF *)
Definition USIZE_MAX : N := 18446744073709551615.

Definition enter_max_len (len cur : N) : N :=
  if len * MAX_LEN_FACTOR <=? USIZE_MAX then N.max (len * MAX_LEN_FACTOR) MAX_LEN_MIN else cur.

Definition init_buf (l : list info) (lvl fl : N) : zbuf :=
  mkZ [] l O false lvl fl true (enter_max_len (N.of_nat (length l)) MAX_LEN_DEFAULT) 0.
