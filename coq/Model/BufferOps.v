(* Model/BufferOps.v — the operation alphabet of hb_buffer_t as a datatype, and its one-step
   semantics over the zipper model.  Theorems that say "for every finite sequence of buffer operations"
   quantify over `list bop`; the correspondence check replays sequences observed on the real buffer
   through the same `step`.  The three closures (group predicate, comparison, filter) are the ones the
   harness passes to reverse_groups / sort / delete_glyphs_inplace. *)
From Coq Require Import List NArith Bool Arith.
From RB Require Import Base.Result Model.Buffer.
Import ListNotations.
Local Open Scope N_scope.

Inductive bop :=
| ONextGlyph | ONextGlyphs (n : nat) | OSkip | OReplaceGlyph (g : N) | OReplaceGlyphs (num_in : nat) (gs : list N)
| OOutputGlyph (g : N) | OOutputInfo (i : info) | OCopyGlyph | ODeleteGlyph | OMoveTo (i : nat)
| OMergeClusters (s e : nat) | OMergeOut (s e : nat)
| OUnsafeToBreak (s e : option nat) | OUnsafeToConcat (s e : option nat)
| OUnsafeToBreakOut (s e : option nat) | OUnsafeToConcatOut (s e : option nat)
| OClearOutput | OSync | OReverse | OReverseRange (s e : nat) | OReverseGroups (merge : bool)
| OResetMasks (m : N) | OSetMasks (v m cs ce : N) | OSort (s e : nat) | ODeleteInplace.

(* the harness's closures *)
Definition grp_cont (x y : info) : bool := negb (N.land (var2 y) 128 =? 0).
Definition cmp_v1 (x y : info) : bool := N.land (var1 y) 255 <? N.land (var1 x) 255.
Definition flt_odd (i : info) : bool := N.odd (gid i).

(* model step: result of (ret, state); None = content unspecified from here on *)
Definition step (b : zbuf) (o : bop) : result (option (bool * zbuf)) :=
  let r (x : result zbuf) := match x with Ok b' => Ok (Some (true, b')) | Error e => Error e end in
  match o with
  | ONextGlyph => r (next_glyph b)
  | ONextGlyphs n => r (next_glyphs b n)
  | OSkip => r (skip_glyph b)
  | OReplaceGlyph g => if out_mode b then r (replace_glyph b g) else Error AssertFail
  | OReplaceGlyphs n gs => if out_mode b then r (replace_glyphs b n gs) else Error AssertFail
  | OOutputGlyph g => if out_mode b then r (output_glyph b g) else Error AssertFail
  | OOutputInfo i => if out_mode b then r (output_info b i) else Error AssertFail
  | OCopyGlyph => if out_mode b then r (copy_glyph b) else Error AssertFail
  | ODeleteGlyph => r (delete_glyph b)
  | OMoveTo i => match move_to b i with Ok (ret, b') => Ok (Some (ret, b')) | Error e => Error e end
  | OMergeClusters s e => if (e <? s)%nat then Error Overflow else if (blen b <? e)%nat then Error Oob else r (merge_clusters_full b s e)
  | OMergeOut s e => if (e <? s)%nat then Error Overflow else if negb (out_mode b) then Error AssertFail else r (merge_out_clusters b s e)
  | OUnsafeToBreak s e => r (unsafe_to_break b s e)
  | OUnsafeToConcat s e => r (unsafe_to_concat b s e)
  | OUnsafeToBreakOut s e => r (unsafe_to_break_from_outbuffer b s e)
  | OUnsafeToConcatOut s e => r (unsafe_to_concat_from_outbuffer b s e)
  | OClearOutput => if out_mode b then Error AssertFail (* dead prefix not represented *) else Ok (Some (true, clear_output b))
  | OSync => match sync b with
             | Ok (Some b') => Ok (Some (true, b'))
             | Ok None => Ok None
             | Error e => Error e
             end
  | OReverse => if out_mode b then Error AssertFail else r (reverse b)
  | OReverseRange s e => if out_mode b then Error AssertFail else if (e <? s)%nat then Error Overflow else r (reverse_range b s e)
  | OReverseGroups m => if out_mode b then Error AssertFail else r (reverse_groups grp_cont m b)
  | OResetMasks m => if out_mode b then Error AssertFail else Ok (Some (true, reset_masks b m))
  | OSetMasks v m cs ce => if out_mode b then Error AssertFail else Ok (Some (true, set_masks b v m cs ce))
  | OSort s e => if out_mode b then Error AssertFail else r (sort cmp_v1 b s e)
  | ODeleteInplace =>
      if out_mode b then Error AssertFail
      else let '(a, touched) := delete_glyphs_inplace (level b) flt_odd (arr b) in
           (* len = j; idx is left as it was *)
           Ok (Some (true, add_scratch (with_pr b (firstn (dead b) a) (skipn (dead b) a) (dead b)) touched))
  end.


(* run a whole sequence; None = content unspecified after an allocation failure in sync *)
Fixpoint run (b : zbuf) (ops : list bop) : result (option zbuf) :=
  match ops with
  | [] => Ok (Some b)
  | o :: t => match step b o with
              | Error e => Error e
              | Ok None => Ok None
              | Ok (Some (_, b')) => run b' t
              end
  end.
