(* Model/CopyLoop.v — the abstract element-wise copy loop (property C08).

   Every hand-written glyph-moving loop of /repo/src/hb has the shape
       for k in 0..n [.rev()] { x[k + a] = x[k + b]; }            (one array, or two distinct arrays)
   `copy_loop d n a b x` is that loop, literally: a fold over k in the order given by `d`, each step reading
   the CURRENT array.  `memmove n a b x` is the simultaneous copy (all reads from the original array).
   An out-of-range index is a Rust panic; here the step leaves the array unchanged and the theorems carry the
   in-range hypothesis.  `loop_ok` is the decidable criterion evaluated over the regenerated site list
   Gen/CopyLoops.v.  No proofs in this file. *)
From Coq Require Import String List Arith Bool NArith.
From RB Require Import Gen.CopyLoops.
Import ListNotations.

Section CopyLoop.
  Context {T : Type}.

  (* x[i] := v *)
  Fixpoint set_nth (i : nat) (v : T) (l : list T) {struct l} : list T :=
    match l with
    | [] => []
    | h :: t => match i with O => v :: t | S i' => h :: set_nth i' v t end
    end.

  (* dst[k + a] := src[k + b] *)
  Definition write_from (a b : nat) (src dst : list T) (k : nat) : list T :=
    match nth_error src (k + b) with Some v => set_nth (k + a) v dst | None => dst end.

  Definition order (d : cl_dir) (n : nat) : list nat :=
    match d with Fwd => seq 0 n | Bwd => rev (seq 0 n) end.

  (* the loop over one array: every step reads the array as left by the previous steps *)
  Definition copy_steps (a b : nat) (ks : list nat) (x : list T) : list T :=
    fold_left (fun acc k => write_from a b acc acc k) ks x.
  Definition copy_loop (d : cl_dir) (n a b : nat) (x : list T) : list T := copy_steps a b (order d n) x.

  (* reads from a fixed source array *)
  Definition copy_from (a b : nat) (ks : list nat) (src dst : list T) : list T :=
    fold_left (fun acc k => write_from a b src acc k) ks dst.

  (* simultaneous copy: all reads before all writes *)
  Definition memmove (n a b : nat) (x : list T) : list T := copy_from a b (seq 0 n) x x.

  (* the loop between two distinct arrays (cannot overlap) *)
  Definition copy_loop2 (d : cl_dir) (n a b : nat) (src dst : list T) : list T := copy_from a b (order d n) src dst.
End CopyLoop.

(* the decidable criterion: direction against the sign of (destination offset - source offset) *)
Definition loop_ok (s : cl_site) : bool :=
  match cl_rel_ s, cl_dir_ s with
  | REq, _ => true
  | RDisjoint, _ => negb (cl_same_array s)
  | RLt, Fwd | RLe, Fwd => true
  | RGe, Bwd | RGt, Bwd => true
  | _, _ => false
  end.

(* what a relation tag says about concrete offsets a (destination) and b (source) *)
Definition rel_holds (r : cl_rel) (a b : nat) : Prop :=
  match r with
  | RLt => a < b | RLe => a <= b | REq => a = b | RGe => a >= b | RGt => a > b
  | RDisjoint => True | RUnknown => True
  end.

Definition bad_loops : list cl_site := filter (fun s => negb (loop_ok s)) copy_loops.
