(* Model/Digest.v — executable model of src/hb/set_digest.rs (no proofs here).
   mask_t = u64; every arithmetic step of the Rust is written with its wrap (release flavour) or
   its trap (checked flavour: overflow-checks / debug-assertions builds). *)
From Coq Require Import List NArith Bool.
Import ListNotations.
Local Open Scope N_scope.

Definition MASK_BITS : N := 64.
Definition M64 : N := 2 ^ 64.
Definition MAX64 : N := M64 - 1.

Definition wrap (x : N) : N := x mod M64.
(* u64 wrapping_sub *)
Definition wsub (x y : N) : N := (x + M64 - y) mod M64.

(* 1 << ((g >> shift) & (mask_bits - 1)) *)
Definition mask_for (s g : N) : N := N.shiftl 1 (N.land (N.shiftr g s) (MASK_BITS - 1)).

Definition add (s m g : N) : N := N.lor m (mask_for s g).

Definition add_array (s m : N) (gs : list N) : N := fold_left (add s) gs m.

(* release build: every u64 operation wraps *)
Definition range_bits_rel (ma mb : N) : N :=
  wsub (wrap (mb + wsub mb ma)) (if mb <? ma then 1 else 0).

Definition add_range_rel (s m a b : N) : bool * N :=
  if m =? MAX64 then (false, m)
  else if MASK_BITS - 1 <=? wsub (N.shiftr b s) (N.shiftr a s) then (false, MAX64)
  else (true, N.lor m (range_bits_rel (mask_for s a) (mask_for s b))).

(* checked build: `-` and `+` trap (None) instead of wrapping; wrapping_sub still wraps (the distance
   (b >> s) - (a >> s) is a wrapping_sub in the source) *)
Definition csub (x y : N) : option N := if y <=? x then Some (x - y) else None.
Definition cadd (x y : N) : option N := if x + y <? M64 then Some (x + y) else None.

Definition add_range_chk (s m a b : N) : option (bool * N) :=
  if m =? MAX64 then Some (false, m)
  else match Some (wsub (N.shiftr b s) (N.shiftr a s)) with   (* wrapping_sub since fix 'add_range a > b' *)
       | None => None
       | Some d =>
         if MASK_BITS - 1 <=? d then Some (false, MAX64)
         else
           let ma := mask_for s a in
           let mb := mask_for s b in
           match cadd mb (wsub mb ma) with
           | None => None
           | Some t =>
             match csub t (if mb <? ma then 1 else 0) with
             | None => None
             | Some r => Some (true, N.lor m r)
             end
           end
       end.

Definition may_have (m o : N) : bool := negb (N.land m o =? 0).
Definition may_have_glyph (s m g : N) : bool := negb (N.land m (mask_for s g) =? 0).

(* The combined digest: one mask per shift, in the structural order of the Rust type
   (head, tail.head, tail.tail).  The shifts come from Gen/Consts.v. *)
Definition digest := list N.

Definition d_new (shifts : list N) : digest := map (fun _ => 0) shifts.
Definition d_full (shifts : list N) : digest := map (fun _ => MAX64) shifts.

Fixpoint d_add (shifts : list N) (d : digest) (g : N) : digest :=
  match shifts, d with
  | s :: ss, m :: ms => add s m g :: d_add ss ms g
  | _, _ => []
  end.

Definition d_add_array (shifts : list N) (d : digest) (gs : list N) : digest :=
  fold_left (d_add shifts) gs d.

Fixpoint d_add_range (shifts : list N) (d : digest) (a b : N) : bool * digest :=
  match shifts, d with
  | s :: ss, m :: ms =>
      let '(r1, m') := add_range_rel s m a b in
      let '(r2, ms') := d_add_range ss ms a b in
      (r1 || r2, m' :: ms')
  | _, _ => (false, [])
  end.

Fixpoint d_add_range_chk (shifts : list N) (d : digest) (a b : N) : option (bool * digest) :=
  match shifts, d with
  | s :: ss, m :: ms =>
      match add_range_chk s m a b with
      | None => None
      | Some (r1, m') =>
        match d_add_range_chk ss ms a b with
        | None => None
        | Some (r2, ms') => Some (r1 || r2, m' :: ms')
        end
      end
  | _, _ => Some (false, [])
  end.

Fixpoint d_may_have (d o : digest) : bool :=
  match d, o with
  | m :: ms, x :: xs => may_have m x && d_may_have ms xs
  | _, _ => true
  end.

Fixpoint d_may_have_glyph (shifts : list N) (d : digest) (g : N) : bool :=
  match shifts, d with
  | s :: ss, m :: ms => may_have_glyph s m g && d_may_have_glyph ss ms g
  | _, _ => true
  end.
