(* Model/Feature.v — executable model of the user-feature machinery (property C14). No proofs here.
   Sources modelled, statement by statement:
     src/hb/common.rs        Feature::new (RangeBounds<usize> -> start/end), Feature::is_global,
                             impl FromStr for Feature (with src/hb/text_parser.rs)
     src/hb/buffer.rs        hb_buffer_t::set_masks
     src/hb/ot_map.rs        dedup_feature_infos, collect_feature_maps (mask-bit allocation), get_mask
     src/hb/ot/layout/GSUB/alternate_set.rs   alternate index from the glyph mask
   Numbers are N; u32 operations carry their truncation explicitly (as_u32); usize is an arbitrary N
   (the code clamps with `.min(u32::MAX)` before every cast, so its width never matters). *)
From Coq Require Import List NArith Bool.
From RB Require Import Gen.FeatureConsts.
Import ListNotations.
Local Open Scope N_scope.

Definition U32MAX : N := 4294967295.
Definition as_u32 (x : N) : N := x mod 4294967296.

(* ---------------------------------------------------------------- Feature, Feature::new *)

Record feature := mkFeature { f_tag : N; f_value : N; f_start : N; f_end : N }.

(* core::ops::Bound<&usize> *)
Inductive bound := Included (n : N) | Excluded (n : N) | Unbounded.

(*  let max = u32::MAX as usize;
    start: Included(i) => i.min(max) as u32 | Excluded(e) => e.min(max - 1) as u32 + 1 | Unbounded => 0
    end:   Included(i) => i.min(max) as u32 | Excluded(e) => e.saturating_sub(1).min(max) as u32
           | Unbounded => max as u32                                                              *)
Definition new_start (b : bound) : N :=
  match b with
  | Included i => as_u32 (N.min i U32MAX)
  | Excluded e => as_u32 (as_u32 (N.min e (U32MAX - 1)) + 1)
  | Unbounded => 0
  end.

Definition new_end (b : bound) : N :=
  match b with
  | Included i => as_u32 (N.min i U32MAX)
  | Excluded e => as_u32 (N.min (e - 1) U32MAX)      (* N subtraction saturates at 0 *)
  | Unbounded => as_u32 U32MAX
  end.

Definition feature_new_bounds (tag value : N) (s e : bound) : feature :=
  mkFeature tag value (new_start s) (new_end e).

(* the range forms Rust's syntax can write *)
Inductive rform :=
| RHalf (a b : N)      (* a..b  *)
| RIncl (a b : N)      (* a..=b *)
| RTo (b : N)          (* ..b   *)
| RToIncl (b : N)      (* ..=b  *)
| RFrom (a : N)        (* a..   *)
| RFull.               (* ..    *)

Definition rform_bounds (r : rform) : bound * bound :=
  match r with
  | RHalf a b => (Included a, Excluded b)
  | RIncl a b => (Included a, Included b)
  | RTo b => (Unbounded, Excluded b)
  | RToIncl b => (Unbounded, Included b)
  | RFrom a => (Included a, Unbounded)
  | RFull => (Unbounded, Unbounded)
  end.

Definition feature_new (tag value : N) (r : rform) : feature :=
  feature_new_bounds tag value (fst (rform_bounds r)) (snd (rform_bounds r)).

(* RangeBounds::contains *)
Definition in_rangeb (r : rform) (c : N) : bool :=
  match r with
  | RHalf a b => (a <=? c) && (c <? b)
  | RIncl a b => (a <=? c) && (c <=? b)
  | RTo b => c <? b
  | RToIncl b => c <=? b
  | RFrom a => a <=? c
  | RFull => true
  end.

Definition bounded_end (r : rform) : bool :=
  match r with RFrom _ | RFull => false | _ => true end.

(* Feature::is_global and the cluster test of set_masks: which clusters a (start,end) pair acts on *)
Definition is_global (s e : N) : bool := (s =? feat_global_start) && (e =? feat_global_end).
Definition covers_se (s e c : N) : bool := is_global s e || ((s <=? c) && (c <? e)).
Definition covers (f : feature) (c : N) : bool := covers_se (f_start f) (f_end f) c.

(* ---------------------------------------------------------------- TextParser / Feature::from_str
   Input: the bytes of the &str. Each consume_* returns (result, rest). *)

Definition is_space (b : N) : bool := (b =? 32) || (b =? 9) || (b =? 10) || (b =? 12) || (b =? 13).
Definition is_digit (b : N) : bool := (48 <=? b) && (b <=? 57).
Definition is_upper (b : N) : bool := (65 <=? b) && (b <=? 90).
Definition is_lower (b : N) : bool := (97 <=? b) && (b <=? 122).
Definition is_alpha (b : N) : bool := is_upper b || is_lower b.
Definition is_tagch (b : N) : bool := is_alpha b || is_digit b || (b =? 95).
Definition to_lower (b : N) : N := if is_upper b then b + 32 else b.

(* consume_bytes / skip_bytes: longest prefix satisfying p *)
Fixpoint span (p : N -> bool) (l : list N) : list N * list N :=
  match l with
  | [] => ([], [])
  | x :: t => if p x then let '(a, r) := span p t in (x :: a, r) else ([], l)
  end.

Definition skip_spaces (l : list N) : list N := snd (span is_space l).

Definition consume_byte (c : N) (l : list N) : option (list N) :=
  match l with
  | x :: t => if x =? c then Some t else None
  | [] => None
  end.

Definition consume_quote (l : list N) : option N * list N :=
  match l with
  | x :: t => if (x =? 39) || (x =? 34) then (Some x, t) else (None, l)
  | [] => (None, l)
  end.

(* Tag::from_bytes_lossy on at most 4 bytes: empty -> 0, else padded with ' ' *)
Definition tag_of_bytes (bs : list N) : N :=
  match bs with
  | [] => 0
  | _ => let g i := nth i bs 32 in ((g 0%nat * 256 + g 1%nat) * 256 + g 2%nat) * 256 + g 3%nat
  end.

Definition consume_tag (l : list N) : option N * list N :=
  let '(t, r) := span is_tagch l in
  if (4 <? N.of_nat (length t)) then (None, r) else (Some (tag_of_bytes t), r).

Definition undec (ds : list N) : N := fold_left (fun a d => 10 * a + (d - 48)) ds 0.

(* str::parse::<i32>() of sign ++ digits, result already cast `as u32` *)
Definition parse_i32 (neg : bool) (ds : list N) : option N :=
  match ds with
  | [] => None
  | _ => let v := undec ds in
         if neg then (if v <=? 2147483648 then Some (as_u32 (4294967296 - v)) else None)
         else (if v <=? 2147483647 then Some v else None)
  end.

(* consume_i32: an optional sign and the digits are consumed even when the conversion fails *)
Definition consume_i32 (l : list N) : option N * list N :=
  let '(neg, l1) := match l with
                    | x :: t => if x =? 45 then (true, t) else if x =? 43 then (false, t) else (false, l)
                    | [] => (false, l)
                    end in
  let '(ds, l2) := span is_digit l1 in
  (parse_i32 neg ds, l2).

Definition consume_bool (l : list N) : option bool * list N :=
  let '(w, r) := span is_alpha (skip_spaces l) in
  match map to_lower w with
  | [111; 110] => (Some true, r)
  | [111; 102; 102] => (Some false, r)
  | _ => (None, r)
  end.

(* the `[start:end]` part, entered after '[' was consumed *)
Definition parse_indices (l : list N) : option (N * N * list N) :=
  let '(start_opt, l1) := consume_i32 l in
  let start := match start_opt with Some s => s | None => 0 end in
  let '(e, l2) :=
    match l1 with
    | x :: t =>
        if (x =? 58) || (x =? 59) then
          let '(eo, l2) := consume_i32 t in
          (match eo with Some e => e | None => U32MAX end, l2)
        else
          (match start_opt with
           | Some _ => if start =? U32MAX then U32MAX else start + 1
           | None => U32MAX
           end, l1)
    | [] =>
        (match start_opt with
         | Some _ => if start =? U32MAX then U32MAX else start + 1
         | None => U32MAX
         end, l1)
    end in
  match consume_byte 93 l2 with
  | Some l3 => Some (start, e, l3)
  | None => None
  end.

Definition parse_postfix (value0 : N) (l : list N) : option N :=
  let '(had_equal, l1) := match consume_byte 61 l with Some t => (true, t) | None => (false, l) end in
  let '(v1, l2) :=
    match consume_i32 l1 with
    | (Some v, r) => (Some v, r)
    | (None, r) => match consume_bool r with
                   | (Some b, r') => (Some (if b then 1 else 0), r')
                   | (None, r') => (None, r')
                   end
    end in
  if had_equal && (match v1 with None => true | Some _ => false end) then None
  else
    let value := match v1 with Some v => v | None => value0 end in
    match skip_spaces l2 with
    | [] => Some value
    | _ => None
    end.

Definition parse_feature (s : list N) : option feature :=
  match s with
  | [] => None
  | c :: t =>
      let '(value0, l0) := if c =? 45 then (0, t) else if c =? 43 then (1, t) else (1, s) in
      let l1 := skip_spaces l0 in
      let '(quote, l2) := consume_quote l1 in
      match consume_tag l2 with
      | (None, _) => None
      | (Some tag, l3) =>
          let after_quote := match quote with
                             | Some q => consume_byte q l3
                             | None => Some l3
                             end in
          match after_quote with
          | None => None
          | Some l4 =>
              let l5 := skip_spaces l4 in
              let idx := match consume_byte 91 l5 with
                         | Some l6 => parse_indices l6
                         | None => Some (0, U32MAX, l5)
                         end in
              match idx with
              | None => None
              | Some (st, en, l7) =>
                  match parse_postfix value0 l7 with
                  | Some v => Some (mkFeature tag v st en)
                  | None => None
                  end
              end
          end
      end
  end.

(* canonical printer (tag of exactly 4 bytes): tag[start:end]=value, end omitted when it is u32::MAX *)
Fixpoint dec_aux (fuel : nat) (n : N) (acc : list N) : list N :=
  match fuel with
  | O => acc
  | S f => let acc' := (48 + n mod 10) :: acc in
           if n / 10 =? 0 then acc' else dec_aux f (n / 10) acc'
  end.
Definition dec (n : N) : list N := dec_aux 11 n [].

Definition tag_bytes (t : N) : list N :=
  [t / 16777216 mod 256; t / 65536 mod 256; t / 256 mod 256; t mod 256].

Definition print_feature (f : feature) : list N :=
  tag_bytes (f_tag f) ++ 91 :: dec (f_start f) ++ 58 ::
    (if f_end f =? U32MAX then [] else dec (f_end f)) ++ 93 :: 61 :: dec (f_value f).

(* ---------------------------------------------------------------- hb_buffer_t::set_masks
   a glyph is (cluster, mask) *)

Definition lnot32 (m : N) : N := N.lxor m U32MAX.     (* !m on u32 *)

Definition set_masks (value mask cstart cend : N) (l : list (N * N)) : list (N * N) :=
  if mask =? 0 then l
  else
    let not_mask := lnot32 mask in
    let value := N.land value mask in
    if (cstart =? 0) && (cend =? U32MAX) then
      map (fun g => (fst g, N.lor (N.land (snd g) not_mask) value)) l
    else
      map (fun g => if (cstart <=? fst g) && (fst g <? cend)
                    then (fst g, N.lor (N.land (snd g) not_mask) value) else g) l.

(* setup_masks: `set_masks(feature.value << shift, mask, start, end)` with (mask, shift) = get_mask(tag) *)
Definition shl32 (v s : N) : N := as_u32 (N.shiftl v s).

(* ---------------------------------------------------------------- ot_map: feature infos -> fields *)

Record finfo := mkInfo {
  fi_tag : N; fi_seq : N; fi_max : N; fi_flags : N; fi_default : N;
  fi_found : bool          (* the font's answer: found in the chosen langsys (or by global search) *)
}.

Definition has_flag (flags f : N) : bool := negb (N.land flags f =? 0).

(* feature_infos.sort(): derived Ord starts with (tag, seq); seq is unique, so this is the order *)
Definition info_le (a b : finfo) : bool :=
  (fi_tag a <? fi_tag b) || ((fi_tag a =? fi_tag b) && (fi_seq a <=? fi_seq b)).

Fixpoint insert_info (x : finfo) (l : list finfo) : list finfo :=
  match l with
  | [] => [x]
  | y :: t => if info_le x y then x :: l else y :: insert_info x t
  end.
Definition sort_infos (l : list finfo) : list finfo := fold_right insert_info [] l.

(* the merge arm of dedup_feature_infos: info i folded into the kept entry j *)
Definition merge_info (j i : finfo) : finfo :=
  let '(flags, mx, df) :=
    if has_flag (fi_flags i) ff_global then
      (N.lor (fi_flags j) ff_global, fi_max i, fi_default i)
    else
      ((if has_flag (fi_flags j) ff_global then N.lxor (fi_flags j) ff_global else fi_flags j),
       N.max (fi_max j) (fi_max i), fi_default j) in
  mkInfo (fi_tag j) (fi_seq j) mx (N.lor flags (N.land (fi_flags i) ff_has_fallback)) df (fi_found j).

(* dedup over an already ordered list: `cur` is feature_infos[j]; `done` the finished prefix, reversed *)
Fixpoint dedup_go (cur : finfo) (rest : list finfo) (done : list finfo) : list finfo :=
  match rest with
  | [] => rev (cur :: done)
  | i :: t => if fi_tag i =? fi_tag cur then dedup_go (merge_info cur i) t done
              else dedup_go i t (cur :: done)
  end.

Definition dedup_infos (simple : bool) (l : list finfo) : list finfo :=
  match (if simple then l else sort_infos l) with
  | [] => []
  | x :: t => dedup_go x t []
  end.

(* 8 * size_of_val(&v) - v.leading_zeros() = number of significant bits *)
Definition bit_storage (v : N) : N := N.size v.

Definition uses_global_bit (i : finfo) : bool := has_flag (fi_flags i) ff_global && (fi_max i =? 1).

Definition bits_needed (i : finfo) : N :=
  if uses_global_bit i then 0 else N.min feat_max_bits (bit_storage (fi_max i)).

(* a compiled feature_map_t, restricted to what C14 reads *)
Record fmap := mkMap { m_tag : N; m_shift : N; m_mask : N; m_one : N }.

Definition GLOBAL_BIT_MASK : N := N.shiftl 1 feat_global_bit.

Definition field_mask (shift bits : N) : N := N.shiftl 1 (shift + bits) - N.shiftl 1 shift.

(* the loop of collect_feature_maps; returns the map features (push order), next_bit and global_mask *)
Fixpoint alloc (infos : list finfo) (next_bit gmask : N) : list fmap * N * N :=
  match infos with
  | [] => ([], next_bit, gmask)
  | i :: t =>
      let bn := bits_needed i in
      if (fi_max i =? 0) || (feat_global_bit <=? next_bit + bn) then alloc t next_bit gmask
      else if negb (fi_found i) && negb (has_flag (fi_flags i) ff_has_fallback) then alloc t next_bit gmask
      else if uses_global_bit i then
        let '(r, nb, gm) := alloc t next_bit gmask in
        (mkMap (fi_tag i) feat_global_bit GLOBAL_BIT_MASK
               (N.land (N.shiftl 1 feat_global_bit) GLOBAL_BIT_MASK) :: r, nb, gm)
      else
        let shift := next_bit in
        let mask := field_mask next_bit bn in
        let gm' := N.lor gmask (N.land (shl32 (fi_default i) shift) mask) in
        let '(r, nb, gm) := alloc t (next_bit + bn) gm' in
        (mkMap (fi_tag i) shift mask (N.land (N.shiftl 1 shift) mask) :: r, nb, gm)
  end.

(* map_features.sort() when is_simple: stable, by tag *)
Fixpoint insert_map (x : fmap) (l : list fmap) : list fmap :=
  match l with
  | [] => [x]
  | y :: t => if m_tag x <=? m_tag y then x :: l else y :: insert_map x t
  end.
Definition sort_maps (l : list fmap) : list fmap := fold_right insert_map [] l.

Definition compile_map (simple : bool) (infos : list finfo) : list fmap * N :=
  let '(r, _, gm) := alloc (dedup_infos simple infos) feat_first_bit GLOBAL_BIT_MASK in
  (if simple then sort_maps r else r, gm).

(* hb_ot_map_t::get_mask: (mask, shift) of the feature with that tag, (0,0) when absent *)
Fixpoint get_mask (fs : list fmap) (tag : N) : N * N :=
  match fs with
  | [] => (0, 0)
  | f :: t => if m_tag f =? tag then (m_mask f, m_shift f) else get_mask t tag
  end.

(* ---------------------------------------------------------------- lookups and alternates *)

(* apply loops: a lookup is tried on a glyph only when `info.mask & lookup_mask != 0` *)
Definition lookup_applies (glyph_mask lookup_mask : N) : bool := negb (N.land glyph_mask lookup_mask =? 0).

(* u32::trailing_zeros *)
Fixpoint ctz_pos (p : positive) : N :=
  match p with
  | xO q => 1 + ctz_pos q
  | _ => 0
  end.
Definition ctz32 (m : N) : N := match m with N0 => 32 | Npos p => ctz_pos p end.

Definition alt_index (glyph_mask lookup_mask : N) : N :=
  N.shiftr (N.land lookup_mask glyph_mask) (ctz32 lookup_mask).

(* AlternateSet::apply: Some g = the glyph is replaced by g, None = not applied.
   `random` / `rnd`: the lookup's random flag and the next value of the generator. *)
Definition alternate_apply (alts : list N) (glyph_mask lookup_mask : N) (random : bool) (rnd : N) : option N :=
  match alts with
  | [] => None
  | _ =>
      let ai := alt_index glyph_mask lookup_mask in
      let ai := if (ai =? feat_max_value) && random then rnd mod N.of_nat (length alts) + 1 else ai in
      if 65536 <=? ai then None
      else if ai =? 0 then None
      else nth_error alts (N.to_nat (ai - 1))
  end.

(* ================================================================ specification vocabulary
   (predicates the theorems of Props/C14.v are stated with; definitions only) *)

(* the set of cluster indices a Rust range contains (RangeBounds::contains) *)
Definition In_range (r : rform) (c : N) : Prop :=
  match r with
  | RHalf a b => a <= c /\ c < b
  | RIncl a b => a <= c /\ c <= b
  | RTo b => c < b
  | RToIncl b => c <= b
  | RFrom a => a <= c
  | RFull => True
  end.

(* what set_masks does to one glyph *)
Definition set_one (value mask cs ce : N) (g : N * N) : N * N :=
  if negb (mask =? 0) && covers_se cs ce (fst g)
  then (fst g, N.lor (N.land (snd g) (lnot32 mask)) (N.land value mask)) else g.

(* glyph g' is glyph g after set_masks: same cluster; bit n is value's bit when n is a mask bit and the
   cluster is covered, the old bit otherwise *)
Definition set_masks_post (value mask cs ce : N) (g g' : N * N) : Prop :=
  fst g' = fst g /\
  forall n, N.testbit (snd g') n =
            if N.testbit mask n && covers_se cs ce (fst g) then N.testbit value n else N.testbit (snd g) n.

(* a compiled feature that rides on the global bit *)
Definition is_global_map (f : fmap) : Prop := m_shift f = feat_global_bit /\ m_mask f = GLOBAL_BIT_MASK.

(* a compiled feature with a field of its own: w bits (1 <= w <= MAX_BITS) at m_shift, inside [lo, hi) *)
Definition field_within (lo hi : N) (f : fmap) : Prop :=
  is_global_map f \/
  exists w, 1 <= w /\ w <= feat_max_bits /\ lo <= m_shift f /\ m_mask f = field_mask (m_shift f) w /\
            m_shift f + w <= hi.

(* two compiled features never share a bit, except that all global-bit features share that one bit *)
Definition masks_compatible (f g : fmap) : Prop :=
  N.land (m_mask f) (m_mask g) = 0 \/ (is_global_map f /\ is_global_map g).

(* features the canonical printer is defined for: 4 tag characters, value and start below 2^31 (from_str
   reads numbers as i32), end below 2^31 or "to the end" *)
Definition printable (t0 t1 t2 t3 : N) (f : feature) : Prop :=
  is_tagch t0 = true /\ is_tagch t1 = true /\ is_tagch t2 = true /\ is_tagch t3 = true /\
  f_tag f = tag_of_bytes [t0; t1; t2; t3] /\
  f_value f <= 2147483647 /\ f_start f <= 2147483647 /\ (f_end f <= 2147483647 \/ f_end f = U32MAX).
