(* Model/Flags.v — propagate_flags (src/hb/ot_shape.rs) over the glyph list, and the gating of the
   flag-setting buffer calls.  `writeback_always` is the code-shape fact extracted by the translator:
   true  = the per-cluster write-back loop runs unconditionally (current code),
   false = it runs only when PRODUCE_UNSAFE_TO_CONCAT is off (the defect fixed by fc95bd8). *)
From Coq Require Import List NArith Bool.
From RB Require Import Model.Buffer.
Import ListNotations.
Local Open Scope N_scope.

Definition group_mask (grp : list info) : N :=
  fold_left (fun a i => N.lor a (N.land (mask i) GLYPH_FLAGS_DEFINED)) grp 0.

Definition adjust_mask (flip_tatweel clear_concat : bool) (m : N) : N :=
  let m1 := if flip_tatweel then
              (let m' := if N.testbit m 0 then N.ldiff m SAFE_TO_INSERT_TATWEEL else m in
               if N.testbit m' 2 then N.lor m' BREAK_CONCAT else m')
            else m in
  if clear_concat then N.ldiff m1 UNSAFE_TO_CONCAT else m1.

Definition propagate_group (writeback_always flip_tatweel clear_concat : bool) (grp : list info) : list info :=
  let m := adjust_mask flip_tatweel clear_concat (group_mask grp) in
  if (writeback_always || clear_concat)%bool then map (fun i => set_mask i m) grp else grp.

(* buffer flags -> the two booleans *)
Definition flip_tatweel_of (bflags tatweel_bit : N) : bool := negb (N.land bflags tatweel_bit =? 0).
Definition clear_concat_of (bflags concat_bit : N) : bool := N.land bflags concat_bit =? 0.

Definition propagate_flags (writeback_always : bool) (concat_bit tatweel_bit : N) (bflags scratch : N)
           (l : list info) : list info :=
  if N.land scratch SCRATCH_HAS_GLYPH_FLAGS =? 0 then l
  else concat (map (propagate_group writeback_always (flip_tatweel_of bflags tatweel_bit) (clear_concat_of bflags concat_bit))
                   (cluster_groups l)).

(* what the public API exposes of a glyph's mask *)
Definition exposed (i : info) : N := N.land (mask i) GLYPH_FLAGS_DEFINED.
