(* Model/Font.v — the parsed view of a font that the interpreters (GSUB, GPOS, kern, morx, simple
   pipeline) start from.  It mirrors harness/src/fontgen::FontSpec field by field; the harness prints a
   FontSpec as a term of type `font` (fontgen/coq.rs), so the same description is given to the real
   code (as sfnt bytes through ttf-parser) and to the model.  Plain data, no proofs.
   Glyph ids, code points, tags (big-endian u32), flags: N.  Signed font values (i16): Z. *)
From Coq Require Import List NArith ZArith Bool.
Import ListNotations.

Inductive coverage := CovGlyphs (gs : list N) | CovRanges (rs : list (N * N)).
Inductive classdef := ClassFmt1 (start : N) (classes : list N) | ClassFmt2 (ranges : list (N * N * N)).

(* (sequence_index, lookup_index) *)
Definition seq_lookup := (N * N)%type.

Record ligature := mkLig { lig_glyph : N; lig_components : list N (* from the 2nd glyph *) }.
Record seq_rule := mkSeqRule { sr_input : list N (* from the 2nd *); sr_lookups : list seq_lookup }.
Record chain_rule := mkChainRule { cr_backtrack : list N (* font order: nearest first *); cr_input : list N;
                                   cr_lookahead : list N; cr_lookups : list seq_lookup }.

Inductive subst_subtable :=
| SSingle1 (cov : coverage) (delta : Z)
| SSingle2 (cov : coverage) (substitutes : list N)
| SMultiple (cov : coverage) (sequences : list (list N))
| SAlternate (cov : coverage) (alternates : list (list N))
| SLigature (cov : coverage) (sets : list (list ligature))
| SContext1 (cov : coverage) (rule_sets : list (list seq_rule))
| SContext2 (cov : coverage) (cd : classdef) (rule_sets : list (option (list seq_rule)))
| SContext3 (covs : list coverage) (lookups : list seq_lookup)
| SChain1 (cov : coverage) (rule_sets : list (list chain_rule))
| SChain2 (cov : coverage) (bcd icd lcd : classdef) (rule_sets : list (option (list chain_rule)))
| SChain3 (backtrack input lookahead : list coverage) (lookups : list seq_lookup)
| SReverse (cov : coverage) (backtrack lookahead : list coverage) (substitutes : list N).

Record value_record := mkVR { vr_xp : Z; vr_yp : Z; vr_xa : Z; vr_ya : Z }.
Definition anchor := (Z * Z)%type.

(* vf_all: true = all four fields present in the written value format, false = only the non-zero ones *)
Inductive pos_subtable :=
| PSingle1 (cov : coverage) (v : value_record) (vf_all : bool)
| PSingle2 (cov : coverage) (vs : list value_record) (vf_all : bool)
| PPair1 (cov : coverage) (pair_sets : list (list (N * value_record * value_record))) (vf_all : bool)
| PPair2 (cov : coverage) (cd1 cd2 : classdef) (records : list (list (value_record * value_record))) (vf_all : bool)
| PCursive (cov : coverage) (entry_exit : list (option anchor * option anchor))
| PMarkBase (mark_cov base_cov : coverage) (class_count : N) (marks : list (N * anchor)) (bases : list (list (option anchor)))
| PMarkLig (mark_cov lig_cov : coverage) (class_count : N) (marks : list (N * anchor)) (ligs : list (list (list (option anchor))))
| PMarkMark (mark1_cov mark2_cov : coverage) (class_count : N) (marks : list (N * anchor)) (mark2s : list (list (option anchor)))
| PContext1 (cov : coverage) (rule_sets : list (list seq_rule))
| PContext2 (cov : coverage) (cd : classdef) (rule_sets : list (option (list seq_rule)))
| PContext3 (covs : list coverage) (lookups : list seq_lookup)
| PChain1 (cov : coverage) (rule_sets : list (list chain_rule))
| PChain2 (cov : coverage) (bcd icd lcd : classdef) (rule_sets : list (option (list chain_rule)))
| PChain3 (backtrack input lookahead : list coverage) (lookups : list seq_lookup).

Record lookup (S : Type) := mkLookup { lk_flags : N (* as written: bit 0x10 set iff a filtering set is given *);
                                       lk_mark_filtering_set : option N; lk_subtables : list S }.
Arguments mkLookup {S}. Arguments lk_flags {S}. Arguments lk_mark_filtering_set {S}. Arguments lk_subtables {S}.

Record langsys := mkLangSys { ls_required : option N; ls_features : list N }.
Record script_record := mkScript { sc_tag : N; sc_default : option langsys; sc_langsys : list (N * langsys) }.
Record layout (S : Type) := mkLayout { ly_scripts : list script_record; ly_features : list (N * list N);
                                       ly_lookups : list (lookup S) }.
Arguments mkLayout {S}. Arguments ly_scripts {S}. Arguments ly_features {S}. Arguments ly_lookups {S}.

Record gdef := mkGdef { gd_classes : list (N * N); gd_mark_attach : list (N * N); gd_mark_sets : list (list N) }.

Record kern_subtable := mkKern { k_horizontal : bool; k_minimum : bool; k_cross_stream : bool; k_override : bool;
                                 k_pairs : list (N * N * Z) }.

(* AAT *)
Record aat_lookup := mkAatLookup { al_format : N; al_map : list (N * N); al_fill : option N }.
Record state_table (E : Type) := mkStateTable { st_nclasses : N; st_class_lookup : aat_lookup;
                                                st_states : list (list N); st_entries : list E }.
Arguments mkStateTable {E}. Arguments st_nclasses {E}. Arguments st_class_lookup {E}. Arguments st_states {E}. Arguments st_entries {E}.
Record rearr_entry := mkRearr { re_new_state : N; re_flags : N }.
Record ctx_entry := mkCtx { ce_new_state : N; ce_flags : N; ce_mark_index : N; ce_current_index : N }.
Record lig_entry := mkLigE { le_new_state : N; le_flags : N; le_action_index : N }.
Record ins_entry := mkIns { ie_new_state : N; ie_flags : N; ie_current_index : N; ie_marked_index : N }.
Inductive morx_kind :=
| MRearrangement (t : state_table rearr_entry)
| MContextual (t : state_table ctx_entry) (substitutions : list aat_lookup)
| MLigature (t : state_table lig_entry) (lig_actions : list N) (components : list N) (ligatures : list N)
| MNonContextual (l : aat_lookup)
| MInsertion (t : state_table ins_entry) (glyphs : list N).
Record morx_subtable := mkMorxSub { ms_coverage : N (* flags in the high byte *); ms_sub_feature_flags : N; ms_kind : morx_kind }.
Record morx_feature := mkMorxFeat { mf_type : N; mf_setting : N; mf_enable : N; mf_disable : N }.
Record morx_chain := mkMorxChain { mc_default_flags : N; mc_features : list morx_feature; mc_subtables : list morx_subtable }.
Record morx := mkMorx { mx_version : N; mx_chains : list morx_chain }.

Record vmetrics := mkVMetrics { vm_ascender : Z; vm_descender : Z; vm_line_gap : Z; vm_vadv : list N }.

Record font := mkFont {
  f_num_glyphs : N; f_upem : N; f_ascender : Z; f_descender : Z; f_line_gap : Z;
  f_hadv : list N; f_vmetrics : option vmetrics;
  f_cmap : list (N * N); f_cmap14 : list (N * N * N);
  f_gdef : option gdef;
  f_gsub : option (layout subst_subtable);
  f_gpos : option (layout pos_subtable);
  f_kern : option (list kern_subtable);
  f_morx : option morx
}.

(* ---- generic accessors shared by the interpreters ---- *)
Local Open Scope N_scope.
Local Open Scope bool_scope.

Fixpoint index_of_aux (g : N) (l : list N) (i : N) : option N :=
  match l with [] => None | x :: t => if x =? g then Some i else index_of_aux g t (i + 1) end.

Fixpoint ranges_index (g : N) (rs : list (N * N)) (base : N) : option N :=
  match rs with
  | [] => None
  | (s, e) :: t => if (s <=? g) && (g <=? e) then Some (base + (g - s)) else ranges_index g t (base + (e - s + 1))
  end.

(* coverage index of a glyph (position in the expanded, sorted glyph list) *)
Definition coverage_index (c : coverage) (g : N) : option N :=
  match c with
  | CovGlyphs gs => index_of_aux g gs 0
  | CovRanges rs => ranges_index g rs 0
  end.

Fixpoint range_glyphs (s : N) (n : nat) : list N :=
  match n with O => [] | S k => s :: range_glyphs (s + 1) k end.

Definition coverage_glyphs (c : coverage) : list N :=
  match c with
  | CovGlyphs gs => gs
  | CovRanges rs => concat (map (fun '(s, e) => if s <=? e then range_glyphs s (N.to_nat (e - s + 1)) else []) rs)
  end.

Fixpoint class_ranges (g : N) (rs : list (N * N * N)) : N :=
  match rs with
  | [] => 0
  | (s, e, c) :: t => if (s <=? g) && (g <=? e) then c else class_ranges g t
  end.

Definition class_of (cd : classdef) (g : N) : N :=
  match cd with
  | ClassFmt1 start classes => if start <=? g then nth (N.to_nat (g - start)) classes 0 else 0
  | ClassFmt2 rs => class_ranges g rs
  end.

Fixpoint assoc (g : N) (l : list (N * N)) : option N :=
  match l with [] => None | (k, v) :: t => if k =? g then Some v else assoc g t end.

Definition gdef_class (f : font) (g : N) : N :=
  match f_gdef f with Some gd => match assoc g (gd_classes gd) with Some c => c | None => 0 end | None => 0 end.
Definition gdef_mark_attach_class (f : font) (g : N) : N :=
  match f_gdef f with Some gd => match assoc g (gd_mark_attach gd) with Some c => c | None => 0 end | None => 0 end.
Definition gdef_in_mark_set (f : font) (set g : N) : bool :=
  match f_gdef f with
  | Some gd => existsb (N.eqb g) (nth (N.to_nat set) (gd_mark_sets gd) [])
  | None => false
  end.

Definition cmap_lookup (f : font) (cp : N) : option N := assoc cp (f_cmap f).
Definition hadv_of (f : font) (g : N) : N := nth (N.to_nat g) (f_hadv f) 0.

(* tag from four bytes, big endian *)
Definition tag4 (a b c d : N) : N := ((a * 256 + b) * 256 + c) * 256 + d.
