(* Model/Gpos.v — executable model of the GPOS interpreter of rustybuzz
   (src/hb/ot_layout_gpos_table.rs, src/hb/ot/layout/GPOS/*.rs, the parts of ot_layout.rs /
   ot_layout_gsubgpos.rs that GPOS uses: apply_forward, check_glyph_property, the skipping iterator).

   Domain (stated, not hidden): every feature is global, so every `info.mask & lookup_mask` test is
   true and masks are not represented; no default-ignorable / hidden / ZWJ / ZWNJ glyphs (the
   skipping iterator's may_skip is then SKIP_YES or SKIP_NO only); no device / variation deltas
   (anchor format 1, plain value records); context / chained-context lookups are not modelled here.
   i32 arithmetic is modelled in Z: font values are i16 and texts are <= 64 glyphs, so every
   intermediate stays far inside i32 (|v| <= 64 * 4 * 65535 * 64 < 2^31); attach_chain is an i16 in
   the code and |chain| < 64 here.

   Positions: record of Z (x_advance y_advance x_offset y_offset attach_chain) + attach_type.
   No proofs in this file. *)
From Coq Require Import List NArith ZArith Bool Arith.
From RB Require Import Model.Buffer Model.Font.
Import ListNotations.

Inductive direction := LTR | RTL | TTB | BTT.

Definition is_horizontal (d : direction) : bool := match d with LTR | RTL => true | _ => false end.
Definition is_forward (d : direction) : bool := match d with LTR | TTB => true | _ => false end.
Definition is_backward (d : direction) : bool := negb (is_forward d).
Definition dir_reverse (d : direction) : direction :=
  match d with LTR => RTL | RTL => LTR | TTB => BTT | BTT => TTB end.

Record pos := mkPos { xa : Z; ya : Z; xo : Z; yo : Z; chain : Z; atype : N }.

Definition pos0 : pos := mkPos 0 0 0 0 0 0.
Definition ATTACH_MARK : N := 1.
Definition ATTACH_CURSIVE : N := 2.

Definition set_xa (p : pos) (v : Z) := mkPos v (ya p) (xo p) (yo p) (chain p) (atype p).
Definition set_ya (p : pos) (v : Z) := mkPos (xa p) v (xo p) (yo p) (chain p) (atype p).
Definition set_xo (p : pos) (v : Z) := mkPos (xa p) (ya p) v (yo p) (chain p) (atype p).
Definition set_yo (p : pos) (v : Z) := mkPos (xa p) (ya p) (xo p) v (chain p) (atype p).
Definition set_chain (p : pos) (c : Z) := mkPos (xa p) (ya p) (xo p) (yo p) c (atype p).
Definition set_atype (p : pos) (t : N) := mkPos (xa p) (ya p) (xo p) (yo p) (chain p) t.

(* ---------- list update / access ---------- *)

Fixpoint upd {A} (l : list A) (i : nat) (x : A) : list A :=
  match l, i with
  | [], _ => []
  | _ :: t, O => x :: t
  | h :: t, S k => h :: upd t k x
  end.

Definition getp (ps : list pos) (i : nat) : pos := nth i ps pos0.
Definition info0 : info := mkInfo 0 0 0 0 0.
Definition geti (l : list info) (i : nat) : info := nth i l info0.

(* ---------- glyph properties (var1: glyph_props u16 | lig_props u8 << 16 | syllable u8 << 24) ---------- *)

Local Open Scope N_scope.

Definition GP_BASE : N := 2.
Definition GP_LIGATURE : N := 4.
Definition GP_MARK : N := 8.
Definition GP_SUBSTITUTED : N := 16.
Definition GP_LIGATED : N := 32.
Definition GP_MULTIPLIED : N := 64.
Definition GP_PRESERVE : N := 112.

Definition gprops (i : info) : N := N.land (var1 i) 65535.
Definition ligprops (i : info) : N := N.land (N.shiftr (var1 i) 16) 255.
Definition mk_var1 (gp lp : N) : N := N.lor (N.land gp 65535) (N.shiftl (N.land lp 255) 16).
Definition set_gprops (i : info) (gp : N) : info := mkInfo (gid i) (mask i) (cluster i) (mk_var1 gp (ligprops i)) (var2 i).
Definition set_ligprops (i : info) (lp : N) : info := mkInfo (gid i) (mask i) (cluster i) (mk_var1 (gprops i) lp) (var2 i).

Definition lig_id (i : info) : N := N.shiftr (ligprops i) 5.
Definition ligated_internal (i : info) : bool := N.testbit (ligprops i) 4.
Definition lig_comp (i : info) : N := if ligated_internal i then 0 else N.land (ligprops i) 15.
Definition is_mark (i : info) : bool := N.testbit (gprops i) 3.
Definition is_base_glyph (i : info) : bool := N.testbit (gprops i) 1.
Definition is_ligature (i : info) : bool := N.testbit (gprops i) 2.
Definition is_multiplied (i : info) : bool := N.testbit (gprops i) 6.
Definition lig_num_comps (i : info) : N :=
  if is_ligature i && ligated_internal i then N.land (ligprops i) 15 else 1.

(* hb_font_t::glyph_props: from GDEF glyph class (+ mark attachment class in the high byte) *)
Definition face_glyph_props (f : font) (g : N) : N :=
  match f_gdef f with
  | None => 0
  | Some _ =>
    match gdef_class f g with
    | 1 => GP_BASE
    | 2 => GP_LIGATURE
    | 3 => N.lor (N.shiftl (gdef_mark_attach_class f g) 8) GP_MARK
    | _ => 0
    end
  end.

(* GDEF has a glyph class definition (fontgen writes a NULL offset for an empty list) *)
Definition has_glyph_classes (f : font) : bool :=
  match f_gdef f with Some gd => match gd_classes gd with [] => false | _ => true end | None => false end.

(* lookup flags *)
Definition LF_RIGHT_TO_LEFT : N := 1.
Definition LF_IGNORE_MARKS : N := 8.
Definition LF_IGNORE_FLAGS : N := 14.
Definition LF_USE_MARK_FILTERING_SET : N := 16.
Definition LF_MARK_ATTACHMENT_TYPE_MASK : N := 65280.

(* lookup_props: low 16 bits = flags, high 16 = filtering set (only when the flag bit is set: ttf-parser) *)
Definition lookup_props {S} (lk : lookup S) : N :=
  match lk_mark_filtering_set lk with
  | Some s => if N.testbit (lk_flags lk) 4 then N.lor (lk_flags lk) (N.shiftl s 16) else lk_flags lk
  | None => lk_flags lk
  end.

(* hb_ot_apply_context_t::check_glyph_property *)
Definition check_glyph_property (f : font) (i : info) (mp : N) : bool :=
  let gp := gprops i in
  let lf := N.land mp 65535 in
  if negb (N.land (N.land gp lf) LF_IGNORE_FLAGS =? 0) then false
  else if is_mark i then
    if N.testbit lf 4 then gdef_in_mark_set f (N.shiftr mp 16) (gid i)
    else if negb (N.land lf LF_MARK_ATTACHMENT_TYPE_MASK =? 0)
         then N.land lf LF_MARK_ATTACHMENT_TYPE_MASK =? N.land gp LF_MARK_ATTACHMENT_TYPE_MASK
         else true
  else true.

(* ---------- skipping iterator on the stated domain: the next / previous glyph that passes
   check_glyph_property (match_ = MATCH iff not skipped; never NOT_MATCH) ---------- *)

Fixpoint find_fwd (f : font) (mp : N) (l : list info) (base : nat) : option nat :=
  match l with
  | [] => None
  | x :: t => if check_glyph_property f x mp then Some base else find_fwd f mp t (S base)
  end.

(* skipping_iterator_t::next from index i: smallest j > i, j < len, not skipped *)
Definition skip_next (f : font) (mp : N) (infos : list info) (i : nat) : option nat :=
  find_fwd f mp (skipn (S i) infos) (S i).

(* l is the reversed prefix: its head has index `top` *)
Fixpoint find_bwd (f : font) (mp : N) (l : list info) (top : nat) : option nat :=
  match l with
  | [] => None
  | x :: t => if check_glyph_property f x mp then Some top else find_bwd f mp t (pred top)
  end.

(* skipping_iterator_t::prev from index i: largest j < i not skipped *)
Definition skip_prev (f : font) (mp : N) (infos : list info) (i : nat) : option nat :=
  find_bwd f mp (rev (firstn i infos)) (pred i).

Local Close Scope N_scope.
Local Open Scope Z_scope.

(* ---------- value records ---------- *)

Definition vr_is_empty (v : value_record) : bool :=
  (vr_xp v =? 0) && (vr_yp v =? 0) && (vr_xa v =? 0) && (vr_ya v =? 0).

(* ValueRecordExt::apply_to_pos (a zero field adds nothing, exactly as the `!= 0` guards) *)
Definition apply_vr (d : direction) (v : value_record) (p : pos) : pos :=
  mkPos (if is_horizontal d then xa p + vr_xa v else xa p)
        (if is_horizontal d then ya p else ya p - vr_ya v)
        (xo p + vr_xp v) (yo p + vr_yp v) (chain p) (atype p).

(* ---------- apply state ---------- *)

Record gstate := mkG {
  g_ps : list pos;
  g_idx : nat;
  g_last_base : option nat;     (* ctx.last_base (None = -1) *)
  g_last_base_until : nat;      (* ctx.last_base_until *)
  g_attach : bool               (* HB_BUFFER_SCRATCH_FLAG_HAS_GPOS_ATTACHMENT *)
}.

Definition with_ps (s : gstate) (ps : list pos) (idx : nat) : gstate :=
  mkG ps idx (g_last_base s) (g_last_base_until s) (g_attach s).

(* ---------- single adjustment ---------- *)

Definition single_record (st : pos_subtable) (g : N) : option value_record :=
  match st with
  | PSingle1 cov v _ => match coverage_index cov g with Some _ => Some v | None => None end
  | PSingle2 cov vs _ => match coverage_index cov g with Some k => nth_error vs (N.to_nat k) | None => None end
  | _ => None
  end.

Definition apply_single (d : direction) (st : pos_subtable) (infos : list info) (s : gstate) : option gstate :=
  match single_record st (gid (geti infos (g_idx s))) with
  | Some v => Some (with_ps s (upd (g_ps s) (g_idx s) (apply_vr d v (getp (g_ps s) (g_idx s)))) (S (g_idx s)))
  | None => None
  end.

(* ---------- pair adjustment ---------- *)

Fixpoint pair_set_find (l : list (N * value_record * value_record)) (g2 : N) : option (value_record * value_record) :=
  match l with
  | [] => None
  | (g, v1, v2) :: t => if N.eqb g g2 then Some (v1, v2) else pair_set_find t g2
  end.

(* the pair of records selected for (first, second); None = this subtable does not apply *)
Definition pair_records (st : pos_subtable) (g1 g2 : N) : option (value_record * value_record) :=
  match st with
  | PPair1 cov sets _ =>
      match coverage_index cov g1 with
      | Some k => match nth_error sets (N.to_nat k) with Some set => pair_set_find set g2 | None => None end
      | None => None
      end
  | PPair2 cov cd1 cd2 records _ =>
      match coverage_index cov g1 with
      | Some _ =>
          let c1 := class_of cd1 g1 in
          let c2 := class_of cd2 g2 in
          let ncols := match records with r :: _ => length r | [] => O end in
          if (N.to_nat c2 <? ncols)%nat
          then match nth_error records (N.to_nat c1) with Some row => nth_error row (N.to_nat c2) | None => None end
          else None
      | None => None
      end
  | _ => None
  end.

Definition pair_covered (st : pos_subtable) (g1 : N) : bool :=
  match st with
  | PPair1 cov _ _ | PPair2 cov _ _ _ _ => match coverage_index cov g1 with Some _ => true | None => false end
  | _ => false
  end.

(* the effect on positions once (i, j, v1, v2) are known *)
Definition pair_adjust (d : direction) (ps : list pos) (i j : nat) (v1 v2 : value_record) : list pos :=
  let ps1 := if vr_is_empty v1 then ps else upd ps i (apply_vr d v1 (getp ps i)) in
  if vr_is_empty v2 then ps1 else upd ps1 j (apply_vr d v2 (getp ps1 j)).

Definition apply_pair (f : font) (mp : N) (d : direction) (st : pos_subtable) (infos : list info) (s : gstate) : option gstate :=
  let i := g_idx s in
  if negb (pair_covered st (gid (geti infos i))) then None else
  match skip_next f mp infos i with
  | None => None
  | Some j =>
      match pair_records st (gid (geti infos i)) (gid (geti infos j)) with
      | None => None
      | Some (v1, v2) =>
          Some (with_ps s (pair_adjust d (g_ps s) i j v1 v2) (if vr_is_empty v2 then j else S j))
      end
  end.

(* ---------- cursive attachment ---------- *)

(* reverse_cursive_minor_offset(pos, i, direction, new_parent); fuel = buffer length (a chain of
   distinct glyphs cannot be longer; the chain link of every visited glyph is cleared first) *)
Fixpoint reverse_cursive_minor_offset (fuel : nat) (d : direction) (ps : list pos) (i new_parent : nat) : list pos :=
  match fuel with
  | O => ps
  | S fuel =>
    let c := chain (getp ps i) in
    let t := atype (getp ps i) in
    if (c =? 0) || negb (N.testbit t 1) then ps
    else
      let ps1 := upd ps i (set_chain (getp ps i) 0) in
      let j := Z.to_nat (Z.of_nat i + c) in
      if (j =? new_parent)%nat then ps1
      else
        let ps2 := reverse_cursive_minor_offset fuel d ps1 j new_parent in
        let pj := getp ps2 j in
        let pj1 := if is_horizontal d then set_yo pj (- yo (getp ps2 i)) else set_xo pj (- xo (getp ps2 i)) in
        upd ps2 j (set_atype (set_chain pj1 (- c)) t)
  end.

(* main-direction adjustment of CursiveAdjustment::apply; i = previous glyph, j = this glyph *)
Definition cursive_main (d : direction) (ps : list pos) (i j : nat) (exit_a entry_a : anchor) : list pos :=
  let '(exit_x, exit_y) := exit_a in
  let '(entry_x, entry_y) := entry_a in
  match d with
  | LTR =>
      let ps1 := upd ps i (set_xa (getp ps i) (exit_x + xo (getp ps i))) in
      let dd := entry_x + xo (getp ps1 j) in
      upd ps1 j (set_xo (set_xa (getp ps1 j) (xa (getp ps1 j) - dd)) (xo (getp ps1 j) - dd))
  | RTL =>
      let dd := exit_x + xo (getp ps i) in
      let ps1 := upd ps i (set_xo (set_xa (getp ps i) (xa (getp ps i) - dd)) (xo (getp ps i) - dd)) in
      upd ps1 j (set_xa (getp ps1 j) (entry_x + xo (getp ps1 j)))
  | TTB =>
      let ps1 := upd ps i (set_ya (getp ps i) (exit_y + yo (getp ps i))) in
      let dd := entry_y + yo (getp ps1 j) in
      upd ps1 j (set_yo (set_ya (getp ps1 j) (ya (getp ps1 j) - dd)) (yo (getp ps1 j) - dd))
  | BTT =>
      let dd := exit_y + yo (getp ps i) in
      let ps1 := upd ps i (set_yo (set_ya (getp ps i) (ya (getp ps i) - dd)) (yo (getp ps i) - dd)) in
      upd ps1 j (set_ya (getp ps1 j) entry_y)
  end.

(* cross-direction attachment: child/parent selection by the RightToLeft flag, re-rooting, the
   2-cycle separation *)
Definition cursive_cross (d : direction) (rtl_flag : bool) (ps : list pos) (i j : nat) (exit_a entry_a : anchor) : list pos :=
  let '(exit_x, exit_y) := exit_a in
  let '(entry_x, entry_y) := entry_a in
  let child := if rtl_flag then i else j in
  let parent := if rtl_flag then j else i in
  let x_off := if rtl_flag then entry_x - exit_x else exit_x - entry_x in
  let y_off := if rtl_flag then entry_y - exit_y else exit_y - entry_y in
  let ps1 := reverse_cursive_minor_offset (length ps) d ps child parent in
  let pc := set_chain (set_atype (getp ps1 child) ATTACH_CURSIVE) (Z.of_nat parent - Z.of_nat child) in
  let pc := if is_horizontal d then set_yo pc y_off else set_xo pc x_off in
  let ps2 := upd ps1 child pc in
  if chain (getp ps2 parent) =? - chain (getp ps2 child) then
    let pp := set_chain (getp ps2 parent) 0 in
    upd ps2 parent (if is_horizontal d then set_yo pp 0 else set_xo pp 0)
  else ps2.

Definition cursive_connect (d : direction) (rtl_flag : bool) (ps : list pos) (i j : nat) (exit_a entry_a : anchor) : list pos :=
  cursive_cross d rtl_flag (cursive_main d ps i j exit_a entry_a) i j exit_a entry_a.

Definition cursive_entry_exit (st : pos_subtable) (g : N) : option (option anchor * option anchor) :=
  match st with
  | PCursive cov ee => match coverage_index cov g with Some k => nth_error ee (N.to_nat k) | None => None end
  | _ => None
  end.

Definition apply_cursive (f : font) (mp : N) (d : direction) (st : pos_subtable) (infos : list info) (s : gstate) : option gstate :=
  let j := g_idx s in
  match cursive_entry_exit st (gid (geti infos j)) with
  | Some (Some entry_a, _) =>
      match skip_prev f mp infos j with
      | None => None
      | Some i =>
          match cursive_entry_exit st (gid (geti infos i)) with
          | Some (_, Some exit_a) =>
              let rtl_flag := N.testbit mp 0 in
              Some (mkG (cursive_connect d rtl_flag (g_ps s) i j exit_a entry_a) (S j)
                        (g_last_base s) (g_last_base_until s) true)
          | _ => None
          end
      end
  | _ => None
  end.

(* ---------- mark attachment ---------- *)

(* AnchorMatrix::get(row, col): flat index row * cols + col (no col < cols test in ttf-parser) *)
Definition matrix_get (cols : N) (m : list (list (option anchor))) (row col : N) : option anchor :=
  match nth_error (concat m) (N.to_nat (row * cols + col)) with
  | Some (Some a) => Some a
  | _ => None
  end.

(* MarkArrayExt::apply *)
Definition mark_attach (ps : list pos) (idx glyph_pos : nat) (mark_a base_a : anchor) : list pos :=
  let p := getp ps idx in
  upd ps idx (mkPos (xa p) (ya p) (fst base_a - fst mark_a) (snd base_a - snd mark_a)
                    (Z.of_nat glyph_pos - Z.of_nat idx) ATTACH_MARK).

Definition mark_array_apply (s : gstate) (marks : list (N * anchor)) (cols : N) (m : list (list (option anchor)))
           (mark_index row : N) (glyph_pos : nat) : option gstate :=
  match nth_error marks (N.to_nat mark_index) with
  | None => None
  | Some (cls, mark_a) =>
      match matrix_get cols m row cls with
      | None => None
      | Some base_a =>
          Some (mkG (mark_attach (g_ps s) (g_idx s) glyph_pos mark_a base_a) (S (g_idx s))
                    (g_last_base s) (g_last_base_until s) true)
      end
  end.

(* mark_base_pos.rs: accept() *)
Definition mb_accept (infos : list info) (idx : nat) : bool :=
  let x := geti infos idx in
  negb (is_multiplied x)
  || (lig_comp x =? 0)%N
  || (idx =? 0)%nat
  || (let p := geti infos (idx - 1) in
      is_mark p || negb (is_multiplied p) || negb (lig_id x =? lig_id p)%N
      || negb (lig_comp x =? lig_comp p + 1)%N).

(* the backward search `while j > last_base_until` of MarkToBase / MarkToLigature.
   `n` counts the remaining iterations (j - last_base_until); returns the new last_base *)
Fixpoint base_search (f : font) (infos : list info) (ok : nat -> bool) (j : nat) (n : nat) (cur : option nat) : option nat :=
  match n with
  | O => cur
  | S n' =>
      let k := (j - 1)%nat in
      if check_glyph_property f (geti infos k) 8%N && ok k then Some k
      else base_search f infos ok k n' cur
  end.

(* common prologue: reset of the cache when idx moved backwards, then the search *)
Definition find_base (f : font) (infos : list info) (ok : nat -> bool) (s : gstate) : gstate :=
  let idx := g_idx s in
  let '(lb, lbu) := if (idx <? g_last_base_until s)%nat then (None, O) else (g_last_base s, g_last_base_until s) in
  let lb' := base_search f infos ok idx (idx - lbu) lb in
  mkG (g_ps s) idx lb' idx (g_attach s).

Definition cov_contains (c : coverage) (g : N) : bool :=
  match coverage_index c g with Some _ => true | None => false end.

(* the state is returned even on failure: last_base / last_base_until persist in ctx *)
Definition apply_mark_base (f : font) (st : pos_subtable) (infos : list info) (s : gstate) : gstate * bool :=
  match st with
  | PMarkBase mcov bcov cc marks bases =>
      match coverage_index mcov (gid (geti infos (g_idx s))) with
      | None => (s, false)
      | Some mi =>
          let s1 := find_base f infos (fun k => mb_accept infos k || cov_contains bcov (gid (geti infos k))) s in
          match g_last_base s1 with
          | None => (s1, false)
          | Some b =>
              match coverage_index bcov (gid (geti infos b)) with
              | None => (s1, false)
              | Some bi =>
                  match mark_array_apply s1 marks cc bases mi bi b with
                  | Some s2 => (s2, true)
                  | None => (s1, false)
                  end
              end
          end
      end
  | _ => (s, false)
  end.

Definition apply_mark_lig (f : font) (st : pos_subtable) (infos : list info) (s : gstate) : gstate * bool :=
  match st with
  | PMarkLig mcov lcov cc marks ligs =>
      match coverage_index mcov (gid (geti infos (g_idx s))) with
      | None => (s, false)
      | Some mi =>
          let s1 := find_base f infos (fun _ => true) s in
          match g_last_base s1 with
          | None => (s1, false)
          | Some b =>
              match coverage_index lcov (gid (geti infos b)) with
              | None => (s1, false)
              | Some li =>
                  match nth_error ligs (N.to_nat li) with
                  | None => (s1, false)
                  | Some lig_attach =>
                      let comp_count := N.of_nat (length lig_attach) in
                      if (comp_count =? 0)%N then (s1, false)
                      else
                        let lg := geti infos b in
                        let mk := geti infos (g_idx s1) in
                        let matches := negb (lig_id lg =? 0)%N && (lig_id lg =? lig_id mk)%N && (0 <? lig_comp mk)%N in
                        let comp_index := ((if matches then N.min (lig_comp mk) comp_count else comp_count) - 1)%N in
                        match mark_array_apply s1 marks cc lig_attach mi comp_index b with
                        | Some s2 => (s2, true)
                        | None => (s1, false)
                        end
                  end
              end
          end
      end
  | _ => (s, false)
  end.

Definition apply_mark_mark (f : font) (mp : N) (st : pos_subtable) (infos : list info) (s : gstate) : option gstate :=
  match st with
  | PMarkMark m1cov m2cov cc marks mark2s =>
      match coverage_index m1cov (gid (geti infos (g_idx s))) with
      | None => None
      | Some m1i =>
          (* lookup_props & !IGNORE_FLAGS *)
          let mp' := N.ldiff mp LF_IGNORE_FLAGS in
          match skip_prev f mp' infos (g_idx s) with
          | None => None
          | Some k =>
              let a := geti infos (g_idx s) in
              let b := geti infos k in
              if negb (is_mark b) then None else
              let id1 := lig_id a in let id2 := lig_id b in
              let c1 := lig_comp a in let c2 := lig_comp b in
              let matches :=
                if (id1 =? id2)%N then (id1 =? 0)%N || (c1 =? c2)%N
                else ((0 <? id1)%N && (c1 =? 0)%N) || ((0 <? id2)%N && (c2 =? 0)%N) in
              if negb matches then None else
              match coverage_index m2cov (gid b) with
              | None => None
              | Some m2i => mark_array_apply s marks cc mark2s m1i m2i k
              end
          end
      end
  | _ => None
  end.

(* ---------- subtable / lookup / string ---------- *)

(* returns (state, applied); the state may change (last_base cache) even when not applied *)
Definition apply_subtable (f : font) (mp : N) (d : direction) (infos : list info) (st : pos_subtable) (s : gstate) : gstate * bool :=
  let lift (o : option gstate) := match o with Some s' => (s', true) | None => (s, false) end in
  match st with
  | PSingle1 _ _ _ | PSingle2 _ _ _ => lift (apply_single d st infos s)
  | PPair1 _ _ _ | PPair2 _ _ _ _ _ => lift (apply_pair f mp d st infos s)
  | PCursive _ _ => lift (apply_cursive f mp d st infos s)
  | PMarkBase _ _ _ _ _ => apply_mark_base f st infos s
  | PMarkLig _ _ _ _ _ => apply_mark_lig f st infos s
  | PMarkMark _ _ _ _ _ => lift (apply_mark_mark f mp st infos s)
  | _ => (s, false)   (* context / chain context: outside the modelled domain *)
  end.

Fixpoint apply_subtables (f : font) (mp : N) (d : direction) (infos : list info) (sts : list pos_subtable) (s : gstate) : gstate * bool :=
  match sts with
  | [] => (s, false)
  | st :: t =>
      let '(s1, ok) := apply_subtable f mp d infos st s in
      if ok then (s1, true) else apply_subtables f mp d infos t s1
  end.

(* apply_forward: fuel = len (idx strictly increases in every iteration) *)
Fixpoint apply_forward (fuel : nat) (f : font) (mp : N) (d : direction) (infos : list info) (sts : list pos_subtable) (s : gstate) : gstate :=
  match fuel with
  | O => s
  | S fuel =>
      if (length infos <=? g_idx s)%nat then s
      else
        if check_glyph_property f (geti infos (g_idx s)) mp then
          let '(s1, ok) := apply_subtables f mp d infos sts s in
          if ok then apply_forward fuel f mp d infos sts s1
          else apply_forward fuel f mp d infos sts (with_ps s1 (g_ps s1) (S (g_idx s1)))
        else apply_forward fuel f mp d infos sts (with_ps s (g_ps s) (S (g_idx s)))
  end.

(* apply_string for one GPOS lookup: idx = 0, set_lookup_mask resets the last_base cache *)
Definition apply_lookup_string (f : font) (d : direction) (infos : list info) (lk : lookup pos_subtable) (ps : list pos) (attach : bool) : list pos * bool :=
  match infos with
  | [] => (ps, attach)
  | _ =>
      let s := apply_forward (length infos) f (lookup_props lk) d infos (lk_subtables lk) (mkG ps O None O attach) in
      (g_ps s, g_attach s)
  end.

(* ---------- the lookup list of the plan: features enabled, found in the default LangSys of the
   first script (DFLT), lookups sorted by index and de-duplicated (one stage: GPOS has no pauses
   with the default shaper) ---------- *)

Local Close Scope Z_scope.
Local Open Scope N_scope.

Fixpoint insert_sorted (x : N) (l : list N) : list N :=
  match l with
  | [] => [x]
  | y :: t => if x <? y then x :: l else if x =? y then l else y :: insert_sorted x t
  end.

Definition sort_dedup (l : list N) : list N := fold_left (fun acc x => insert_sorted x acc) l [].

(* find_language_feature(script, lang, tag): first feature index of the LangSys whose record has the tag *)
Fixpoint find_language_feature {S} (ly : layout S) (fis : list N) (tag : N) : option (list N) :=
  match fis with
  | [] => None
  | fi :: t =>
      match nth_error (ly_features ly) (N.to_nat fi) with
      | Some (tg, lks) => if tg =? tag then Some lks else find_language_feature ly t tag
      | None => find_language_feature ly t tag
      end
  end.

Definition default_langsys_features {S} (ly : layout S) : list N :=
  match ly_scripts ly with
  | sc :: _ => match sc_default sc with Some ls => ls_features ls | None => [] end
  | [] => []
  end.

Definition has_feature {S} (ly : layout S) (tag : N) : bool :=
  match find_language_feature ly (default_langsys_features ly) tag with Some _ => true | None => false end.

Definition plan_lookups {S} (ly : layout S) (enabled : list N) : list N :=
  sort_dedup (concat (map (fun tag => match find_language_feature ly (default_langsys_features ly) tag with
                                      | Some lks => lks | None => [] end) enabled)).

(* ot_layout_gpos_table::position = apply_layout_table over the plan's lookups *)
Fixpoint gpos_apply_lookups (f : font) (d : direction) (infos : list info) (lks : list (lookup pos_subtable))
         (idxs : list N) (ps : list pos) (attach : bool) : list pos * bool :=
  match idxs with
  | [] => (ps, attach)
  | k :: t =>
      match nth_error lks (N.to_nat k) with
      | Some lk =>
          let '(ps1, a1) := apply_lookup_string f d infos lk ps attach in
          gpos_apply_lookups f d infos lks t ps1 a1
      | None => gpos_apply_lookups f d infos lks t ps attach
      end
  end.

Definition gpos_position (f : font) (d : direction) (enabled : list N) (infos : list info) (ps : list pos) (attach : bool) : list pos * bool :=
  match f_gpos f with
  | Some ly => gpos_apply_lookups f d infos (ly_lookups ly) (plan_lookups ly enabled) ps attach
  | None => (ps, attach)
  end.
