(* Model/Gsub.v — the GSUB interpreter over the zipper buffer (Model/Buffer.v).  Executable, no proofs.
   Sources modelled statement by statement (loop order, early returns, flag calls at the same sites):
     src/hb/ot_layout.rs            apply_string, apply_forward, apply_backward
     src/hb/ot_layout_gsubgpos.rs   match_input, match_backtrack, match_lookahead, ligate_input, apply_lookup,
                                    context / chain context formats 1..3, recurse, set_glyph_class,
                                    replace_glyph / replace_glyph_inplace / replace_glyph_with_ligature /
                                    output_glyph_for_component
     src/hb/ot/layout/GSUB/*.rs     single, multiple (sequence), alternate, ligature, reverse chain
   Indices are ABSOLUTE as in the Rust (buffer.idx = `dead b`; info[i] = nth (i - dead b) (rest b);
   out_info[j] = nth j (pre b)).  usize/isize arithmetic of apply_lookup is done in Z with explicit
   wrap-around (usz).  Loops: `recurse` is structural on the nesting level (64), apply_lookup on the record
   list, matching on the rule, ligate_input on the match positions; the only fuel is the `while` of
   apply_forward (Error OutOfFuel when exhausted).
   Not modelled: the set-digest prefilters (property C10 shows them transparent). *)
From Coq Require Import List NArith ZArith Bool Arith.
From RB Require Import Base.Result Model.Buffer Model.Font Model.Skip.
Import ListNotations.
Local Open Scope N_scope.

Definition MAX_NESTING_LEVEL : nat := 64.
Definition MAX_CONTEXT_LENGTH : nat := 64.

(* ---------- apply context ---------- *)

Record actx := mkCtx {
  buf : zbuf;
  max_ops : Z;          (* buffer.max_ops : i32 *)
  serial : N;           (* buffer.serial : u8 *)
  rstate : N;           (* random_state *)
  failed : bool         (* buffer.shaping_failed *)
}.
Definition with_buf (c : actx) (b : zbuf) : actx := mkCtx b (max_ops c) (serial c) (rstate c) (failed c).

(* what apply_layout_table sets per lookup_map_t *)
Record lenv := mkEnv { le_mask : N; le_auto_zwnj : bool; le_auto_zwj : bool; le_random : bool; le_per_syllable : bool }.

Definition recurse_t := N -> actx -> result (bool * actx).

(* ---------- buffer helpers on top of Buffer.v ---------- *)

Definition cur (b : zbuf) : result info := match rest b with x :: _ => Ok x | [] => Error Oob end.
Definition map_cur (fn : info -> info) (b : zbuf) : result zbuf :=
  match rest b with x :: t => Ok (with_pr b (pre b) (fn x :: t) (dead b)) | [] => Error Oob end.
Definition info_at (b : zbuf) (i : nat) : result info :=
  if (i <? dead b)%nat then Error Oob
  else match nth_error (rest b) (i - dead b) with Some x => Ok x | None => Error Oob end.
Definition backtrack_len (b : zbuf) : nat := if out_mode b then length (pre b) else dead b.
Definition lookahead_len (b : zbuf) : nat := length (rest b).
(* in-place mode: buffer.idx = i *)
Definition set_idx (b : zbuf) (i : nat) : zbuf := let a := arr b in with_pr b (firstn i a) (skipn i a) i.

(* _set_glyph_flags as in Buffer.v, except that `end - start` is evaluated only where the Rust evaluates it
   (`interior && !from_out_buffer && end - start < 2`): with end < start the other cases run empty loops. *)
Definition set_glyph_flags' (b : zbuf) (m : N) (s e : nat) (interior from_out : bool) : result zbuf :=
  let e := Nat.min e (blen b) in
  if (interior && negb from_out && (e <? s)%nat)%bool then Error Overflow
  else if (interior && negb from_out && (e - s <? 2)%nat)%bool then Ok b
  else
    let b := with_scratch b (N.lor (scratch b) SCRATCH_HAS_GLYPH_FLAGS) in
    if (negb from_out || negb (out_mode b))%bool then
      if out_mode b then
        if (s <? dead b)%nat then Error Oob else
        let s' := (s - dead b)%nat in let e' := (e - dead b)%nat in
        if negb interior then
          Ok (with_pr b (pre b) (map_range (or_mask m) s' e' (rest b)) (dead b))
        else
          do c <- find_min_cluster (level b) (rest b) s' e' U32_MAX;
          do r <- infos_set_glyph_flags (level b) (rest b) s' e' c m;
          Ok (add_scratch (with_pr b (pre b) (fst r) (dead b)) (snd r))
      else
        let a := pre b ++ rest b in
        if negb interior then
          let a' := map_range (or_mask m) s e a in
          Ok (with_pr b (firstn (dead b) a') (skipn (dead b) a') (dead b))
        else
          do c <- find_min_cluster (level b) a s e U32_MAX;
          do r <- infos_set_glyph_flags (level b) a s e c m;
          Ok (add_scratch (with_pr b (firstn (dead b) (fst r)) (skipn (dead b) (fst r)) (dead b)) (snd r))
    else
      if (length (pre b) <? s)%nat then Error AssertFail
      else if (e <? dead b)%nat then Error AssertFail
      else
        let e' := (e - dead b)%nat in
        let ol := length (pre b) in
        if negb interior then
          Ok (with_pr b (map_range (or_mask m) s ol (pre b)) (map_range (or_mask m) O e' (rest b)) (dead b))
        else
          do c1 <- find_min_cluster (level b) (rest b) O e' U32_MAX;
          do c <- find_min_cluster (level b) (pre b) s ol c1;
          do r1 <- infos_set_glyph_flags (level b) (pre b) s ol c m;
          do r2 <- infos_set_glyph_flags (level b) (rest b) O e' c m;
          Ok (add_scratch (add_scratch (with_pr b (fst r1) (fst r2) (dead b)) (snd r1)) (snd r2)).

Definition utb (b : zbuf) (s e : nat) : result zbuf := set_glyph_flags' b BREAK_CONCAT s e true false.
Definition utb_out (b : zbuf) (s e : nat) : result zbuf := set_glyph_flags' b BREAK_CONCAT s e true true.
Definition utc (b : zbuf) (s e : nat) : result zbuf :=
  if produce_concat b then set_glyph_flags' b UNSAFE_TO_CONCAT s e false false else Ok b.
Definition utc_out (b : zbuf) (s e : nat) : result zbuf :=
  if produce_concat b then set_glyph_flags' b UNSAFE_TO_CONCAT s e false true else Ok b.

(* ---------- set_glyph_class and the replace/output wrappers ---------- *)

Definition set_glyph_class (f : font) (i : info) (g : N) (class_guess : N) (ligature component : bool) : info :=
  let props := N.lor (glyph_props i) GP_SUBSTITUTED in
  let props := if ligature then N.ldiff (N.lor props GP_LIGATED) GP_MULTIPLIED else props in
  let props := if component then N.lor props GP_MULTIPLIED else props in
  if has_glyph_classes f then set_glyph_props i (N.lor (N.land props GP_PRESERVE) (face_glyph_props f g))
  else if negb (class_guess =? 0) then set_glyph_props i (N.lor (N.land props GP_PRESERVE) class_guess)
  else set_glyph_props i props.

Definition ctx_replace_glyph (f : font) (b : zbuf) (g : N) : result zbuf :=
  do b1 <- map_cur (fun i => set_glyph_class f i g 0 false false) b; replace_glyph b1 g.
Definition ctx_replace_glyph_inplace (f : font) (b : zbuf) (g : N) : result zbuf :=
  map_cur (fun i => set_gid (set_glyph_class f i g 0 false false) g) b.
Definition ctx_replace_glyph_with_ligature (f : font) (b : zbuf) (g class_guess : N) : result zbuf :=
  do b1 <- map_cur (fun i => set_glyph_class f i g class_guess true false) b; replace_glyph b1 g.
Definition ctx_output_glyph_for_component (f : font) (b : zbuf) (g class_guess : N) : result zbuf :=
  do b1 <- map_cur (fun i => set_glyph_class f i g class_guess false true) b; output_glyph b1 g.

(* ---------- single / multiple / alternate ---------- *)

Definition u16_add (g : N) (d : Z) : N := Z.to_N ((Z.of_N g + d) mod 65536).

Definition apply_single1 (f : font) (cov : coverage) (delta : Z) (c : actx) : result (bool * actx) :=
  do x <- cur (buf c);
  match coverage_index cov (gid x) with
  | None => Ok (false, c)
  | Some _ => do b <- ctx_replace_glyph f (buf c) (u16_add (gid x) delta); Ok (true, with_buf c b)
  end.

Definition apply_single2 (f : font) (cov : coverage) (subs : list N) (c : actx) : result (bool * actx) :=
  do x <- cur (buf c);
  match coverage_index cov (gid x) with
  | None => Ok (false, c)
  | Some k => match nth_error subs (N.to_nat k) with
              | None => Ok (false, c)
              | Some g => do b <- ctx_replace_glyph f (buf c) g; Ok (true, with_buf c b)
              end
  end.

(* Sequence::apply, the general arm: component i gets lig_comp i (when not attached to a ligature) *)
Fixpoint output_components (f : font) (b : zbuf) (lid class : N) (gs : list N) (i : N) : result zbuf :=
  match gs with
  | [] => Ok b
  | g :: t =>
    do b1 <- (if lid =? 0 then map_cur (fun x => set_lig_props_for_component x (N.land i 255)) b else Ok b);
    do b2 <- ctx_output_glyph_for_component f b1 g class;
    output_components f b2 lid class t (i + 1)
  end.

Definition apply_sequence (f : font) (gs : list N) (b : zbuf) : result zbuf :=
  match gs with
  | [] => delete_glyph b
  | [g] => ctx_replace_glyph f b g
  | _ =>
    do x <- cur b;
    let class := if is_ligature x then GP_BASE else 0 in
    do b1 <- output_components f b (lig_id x) class gs 0;
    skip_glyph b1
  end.

Definition apply_multiple (f : font) (cov : coverage) (seqs : list (list N)) (c : actx) : result (bool * actx) :=
  do x <- cur (buf c);
  match coverage_index cov (gid x) with
  | None => Ok (false, c)
  | Some k => match nth_error seqs (N.to_nat k) with
              | None => Ok (false, c)
              | Some gs => do b <- apply_sequence f gs (buf c); Ok (true, with_buf c b)
              end
  end.

Fixpoint ctz_pos (p : positive) : N := match p with xO q => 1 + ctz_pos q | _ => 0 end.
Definition ctz32 (m : N) : N := match m with N0 => 32 | Npos p => ctz_pos p end.

(* random_number: wrapping u32 multiplication, then mod 2147483647 *)
Definition random_number (s : N) : N := ((s * 48271) mod 4294967296) mod 2147483647.

Definition apply_alternate (f : font) (e : lenv) (cov : coverage) (sets : list (list N)) (c : actx) : result (bool * actx) :=
  do x <- cur (buf c);
  match coverage_index cov (gid x) with
  | None => Ok (false, c)
  | Some k =>
    match nth_error sets (N.to_nat k) with
    | None => Ok (false, c)
    | Some [] => Ok (false, c)
    | Some alts =>
      let ai := N.shiftr (N.land (le_mask e) (mask x)) (ctz32 (le_mask e)) in
      do r <- (if (ai =? 255) && le_random e then
                 do b <- utb (buf c) O (blen (buf c));
                 let s := random_number (rstate c) in
                 Ok (s mod N.of_nat (length alts) + 1, mkCtx b (max_ops c) (serial c) s (failed c))
               else Ok (ai, c));
      let '(ai, c) := r in
      if (65536 <=? ai) || (ai =? 0) then Ok (false, c)
      else match nth_error alts (N.to_nat (ai - 1)) with
           | None => Ok (false, c)
           | Some g => do b <- ctx_replace_glyph f (buf c) g; Ok (true, with_buf c b)
           end
    end
  end.

(* ---------- matching ---------- *)

Definition input_cfg (e : lenv) (props : N) (syl : N) : iter_cfg :=
  mkIter props false (le_auto_zwj e) false (le_mask e) syl.
Definition context_cfg (e : lenv) (props : N) : iter_cfg :=
  mkIter props (le_auto_zwnj e) true false 4294967295 0.

(* scan the out-buffer backwards for the base of the ligature the first glyph is attached to *)
Fixpoint find_ligbase (l : list info) (id : N) : option info :=
  match l with
  | [] => None
  | x :: t => if lig_id x =? id then (if lig_comp x =? 0 then Some x else find_ligbase t id) else None
  end.

Inductive minput :=
| MIok (positions : list nat) (match_end : nat) (total_comps : N)
| MIfail (end_position : option nat).   (* None: *end_position left as the caller initialised it *)

(* the `for position in match_positions[1..count]` loop; l = info[i..], acc = positions so far (reversed) *)
Fixpoint match_input_go (f : font) (cfg : iter_cfg) (out_rev : list info) (first : info) (preds : list (N -> bool))
         (l : list info) (i : nat) (ligbase : option bool) (total : N) (acc : list nat) : minput :=
  match preds with
  | [] => MIok (rev acc) i total
  | p :: ps =>
    match iter_next f cfg (Some p) l i with
    | inr u => MIfail (Some u)
    | inl pos =>
      match nth_error l (pos - i) with
      | None => MIfail None  (* unreachable: iter_next returns an index inside l *)
      | Some this =>
        let continue_ lb := match_input_go f cfg out_rev first ps (skipn (S (pos - i)) l) (S pos) lb
                                           (total + lig_num_comps this) (pos :: acc) in
        if negb (lig_id first =? 0) && negb (lig_comp first =? 0) then
          if negb (lig_id first =? lig_id this) || negb (lig_comp first =? lig_comp this) then
            let lb := match ligbase with
                      | Some v => v
                      | None => match find_ligbase out_rev (lig_id first) with
                                | Some base => match may_skip f cfg base with SKIP_YES => true | _ => false end
                                | None => false
                                end
                      end in
            if lb then continue_ (Some lb) else MIfail None
          else continue_ ligbase
        else
          if negb (lig_id this =? 0) && negb (lig_comp this =? 0) && negb (lig_id this =? lig_id first)
          then MIfail None
          else continue_ ligbase
      end
    end
  end.

Definition match_input (f : font) (e : lenv) (props : N) (b : zbuf) (preds : list (N -> bool)) : result minput :=
  if (MAX_CONTEXT_LENGTH <? S (length preds))%nat then Ok (MIfail None)
  else
    match rest b with
    | [] => Error Oob
    | first :: l =>
      let syl := if le_per_syllable e then syllable first else 0 in
      Ok (match match_input_go f (input_cfg e props syl) (rev (pre b)) first preds
                               l (S (dead b)) None 0 [dead b] with
          | MIok ps en total => MIok ps en ((total + lig_num_comps first) mod 256)
          | r => r
          end)
    end.

(* match_lookahead(start_index): inl end_index (matched) / inr end_index (failed) *)
Fixpoint match_lookahead_go (f : font) (cfg : iter_cfg) (preds : list (N -> bool)) (l : list info) (i : nat) : nat + nat :=
  match preds with
  | [] => inl i
  | p :: ps => match iter_next f cfg (Some p) l i with
               | inr u => inr u
               | inl pos => match_lookahead_go f cfg ps (skipn (S (pos - i)) l) (S pos)
               end
  end.
Definition match_lookahead (f : font) (e : lenv) (props : N) (b : zbuf) (preds : list (N -> bool)) (start : nat) : nat + nat :=
  match_lookahead_go f (context_cfg e props) preds (skipn (start - dead b) (rest b)) start.

(* match_backtrack: inl match_start / inr match_start (failed) *)
Fixpoint match_backtrack_go (f : font) (cfg : iter_cfg) (preds : list (N -> bool)) (l : list info) (n : nat) : nat + nat :=
  match preds with
  | [] => inl n
  | p :: ps => match iter_prev f cfg (Some p) l n with
               | inr u => inr u
               | inl pos => match_backtrack_go f cfg ps (skipn (n - pos) l) pos
               end
  end.
Definition match_backtrack (f : font) (e : lenv) (props : N) (b : zbuf) (preds : list (N -> bool)) : nat + nat :=
  match_backtrack_go f (context_cfg e props) preds (rev (pre b)) (length (pre b)).

(* ---------- ligatures ---------- *)

Definition next_serial (s : N) : N := let s' := (s + 1) mod 256 in if s' =? 0 then 1 else s'.
Fixpoint allocate_lig_id (fuel : nat) (s : N) : N * N :=
  let s1 := next_serial s in
  if N.land s1 7 =? 0 then match fuel with O => (s1, 0) | S k => allocate_lig_id k s1 end
  else (s1, N.land s1 7).

Fixpoint infos_at (b : zbuf) (ps : list nat) : result (list info) :=
  match ps with
  | [] => Ok []
  | p :: t => do x <- info_at b p; do r <- infos_at b t; Ok (x :: r)
  end.

(* `while buffer.idx < match_positions[i] && buffer.successful` *)
Fixpoint lig_advance (n : nat) (b : zbuf) (p : nat) (is_lig : bool) (lid last_num comps : N) : result zbuf :=
  match n with
  | O => Ok b
  | S k =>
    if ((dead b <? p)%nat && ok b)%bool then
      do b1 <- (if is_lig then
                  map_cur (fun x => let tc := lig_comp x in
                                    let tc := if tc =? 0 then last_num else tc in
                                    set_lig_props_for_mark x lid (comps - last_num + N.min tc last_num)) b
                else Ok b);
      do b2 <- next_glyph b1;
      lig_advance k b2 p is_lig lid last_num comps
    else Ok b
  end.

(* `for i in 1..count`; state (last_lig_id, last_num_comps, comps_so_far) *)
Fixpoint ligate_components (b : zbuf) (ps : list nat) (is_lig : bool) (lid : N) (st : N * N * N) : result (zbuf * (N * N * N)) :=
  match ps with
  | [] => Ok (b, st)
  | p :: t =>
    let '(_, last_num, comps) := st in
    do b1 <- lig_advance (p - dead b) b p is_lig lid last_num comps;
    do x <- cur b1;
    let last_num' := lig_num_comps x in
    do b2 <- skip_glyph b1;
    ligate_components b2 t is_lig lid (lig_id x, last_num', (comps + last_num') mod 256)
  end.

(* re-adjust components of the marks following the ligature *)
Fixpoint lig_trailing (l : list info) (last_id lid last_num comps : N) : list info :=
  match l with
  | [] => []
  | x :: t =>
    if negb (last_id =? lig_id x) then l
    else if lig_comp x =? 0 then l
    else set_lig_props_for_mark x lid (comps - last_num + N.min (lig_comp x) last_num) :: lig_trailing t last_id lid last_num comps
  end.

Definition ligate_input (f : font) (c : actx) (mps : list nat) (match_end : nat) (total : N) (lig_glyph : N) : result actx :=
  let b := buf c in
  do b1 <- merge_clusters_full b (dead b) match_end;
  match mps with
  | [] => Error Oob
  | p0 :: ps =>
    do first0 <- info_at b1 p0;
    do others <- infos_at b1 ps;
    let all_marks := forallb is_mark others in
    let is_base_lig := is_base_glyph first0 && all_marks in
    let is_mark_lig := is_mark first0 && all_marks in
    let is_lig := negb is_base_lig && negb is_mark_lig in
    let class := if is_lig then GP_LIGATURE else 0 in
    let '(ser, lid) := if is_lig then allocate_lig_id 3 (serial c) else (serial c, 0) in
    do first <- cur b1;
    let st := (lig_id first, lig_num_comps first, lig_num_comps first) in
    do b2 <- (if is_lig then
                map_cur (fun x => let x1 := set_lig_props_for_ligature x lid total in
                                  if general_category x1 =? GC_NON_SPACING_MARK
                                  then set_unicode_props x1 (N.lor GC_OTHER_LETTER (N.land (unicode_props x1) (N.land 255 (N.lxor 65535 UP_GENERAL_CATEGORY))))
                                  else x1) b1
              else Ok b1);
    do b3 <- ctx_replace_glyph_with_ligature f b2 lig_glyph class;
    do r <- ligate_components b3 ps is_lig lid st;
    let '(b4, (last_id, last_num, comps)) := r in
    let b5 := if negb is_mark_lig && negb (last_id =? 0)
              then with_pr b4 (pre b4) (lig_trailing (rest b4) last_id lid last_num comps) (dead b4)
              else b4 in
    Ok (mkCtx b5 (max_ops c) ser (rstate c) (failed c))
  end.

Definition apply_ligature_rule (f : font) (e : lenv) (props : N) (lg : ligature) (c : actx) : result (bool * actx) :=
  match lig_components lg with
  | [] => do b <- ctx_replace_glyph f (buf c) (lig_glyph lg); Ok (true, with_buf c b)
  | comps =>
    do m <- match_input f e props (buf c) (map (fun v g => g =? v) comps);
    match m with
    | MIfail en =>
        do b <- utc (buf c) (dead (buf c)) (match en with Some x => x | None => O end);
        Ok (false, with_buf c b)
    | MIok ps en total =>
        do c' <- ligate_input f c ps en total (lig_glyph lg); Ok (true, c')
    end
  end.

(* first rule of the list that applies (`for x in set { if x.apply(ctx).is_some() { return Some } }`) *)
Fixpoint first_apply {A} (ap : A -> actx -> result (bool * actx)) (l : list A) (c : actx) : result (bool * actx) :=
  match l with
  | [] => Ok (false, c)
  | x :: t => do r <- ap x c; if fst r then Ok r else first_apply ap t (snd r)
  end.

Definition apply_ligature (f : font) (e : lenv) (props : N) (cov : coverage) (sets : list (list ligature)) (c : actx)
  : result (bool * actx) :=
  do x <- cur (buf c);
  match coverage_index cov (gid x) with
  | None => Ok (false, c)
  | Some k => match nth_error sets (N.to_nat k) with
              | None => Ok (false, c)
              | Some set => first_apply (apply_ligature_rule f e props) set c
              end
  end.

(* ---------- apply_lookup ---------- *)

Definition USZ : Z := 18446744073709551616%Z.
Definition usz (z : Z) : Z := (z mod USZ)%Z.

Definition nthZ (l : list Z) (i : nat) : Z := nth i l 0%Z.

Fixpoint z_run (start : Z) (n : nat) : list Z := match n with O => [] | S k => start :: z_run (start + 1) k end.

(* move_to on a usize target *)
Definition move_to_z (b : zbuf) (z : Z) : result (bool * zbuf) :=
  if (Z.of_nat (length (pre b) + length (rest b)) <? z)%Z then
    (if out_mode b then (if ok b then Error AssertFail else Ok (false, b)) else Error AssertFail)
  else move_to b (Z.to_nat z).

(* the `for record in lookups` loop. Returns (ctx, end). `stop` = a `break` was taken. *)
Fixpoint apply_lookup_records (rec : recurse_t) (recs : list seq_lookup) (c : actx) (mp : list Z) (count : nat) (en : Z)
  : result (actx * Z) :=
  match recs with
  | [] => Ok (c, en)
  | (seq_idx, lookup_idx) :: t =>
    if negb (ok (buf c)) then Ok (c, en)
    else
      let idx := N.to_nat seq_idx in
      if (count <=? idx)%nat then apply_lookup_records rec t c mp count en
      else
        let orig_len := Z.of_nat (backtrack_len (buf c) + lookahead_len (buf c)) in
        if (orig_len <=? nthZ mp idx)%Z then apply_lookup_records rec t c mp count en
        else
          do mv <- move_to_z (buf c) (nthZ mp idx);
          let '(okk, b1) := mv in
          let c1 := with_buf c b1 in
          if negb okk then Ok (c1, en)
          else if (max_ops c1 <=? 0)%Z then Ok (c1, en)
          else
            do r <- rec lookup_idx c1;
            let '(applied, c2) := r in
            if negb applied then apply_lookup_records rec t c2 mp count en
            else
              let new_len := Z.of_nat (backtrack_len (buf c2) + lookahead_len (buf c2)) in
              let delta := (new_len - orig_len)%Z in
              if (delta =? 0)%Z then apply_lookup_records rec t c2 mp count en
              else
                (* `end` is compared as a SIGNED value (HarfBuzz: `int end`): a recursed lookup that deletes more
                   glyphs than `end` clips `end` to the current match position *)
                let en1 := (en + delta)%Z in
                let '(delta, en2) := if (en1 <? nthZ mp idx)%Z then ((delta + (nthZ mp idx - en1))%Z, nthZ mp idx) else (delta, en1) in
                if (0 <? delta)%Z then
                  if (Z.of_nat MAX_CONTEXT_LENGTH <? delta + Z.of_nat count)%Z then Ok (c2, en2)
                  else
                    let mp' := firstn (S idx) mp ++ z_run (nthZ mp idx + 1) (Z.to_nat delta)
                               ++ map (fun z => usz (z + delta)) (skipn (S idx) mp) in
                    apply_lookup_records rec t c2 mp' (count + Z.to_nat delta) en2
                else
                  let delta := Z.max delta (Z.of_nat (S idx) - Z.of_nat count) in
                  let k := Z.to_nat (- delta) in
                  let mp' := firstn (S idx) mp ++ map (fun z => usz (z + delta)) (skipn (S idx + k) mp) in
                  apply_lookup_records rec t c2 mp' (count - k) en2
  end.

Definition apply_lookup (rec : recurse_t) (c : actx) (positions : list nat) (match_end : nat) (recs : list seq_lookup)
  : result actx :=
  let b := buf c in
  let bl := Z.of_nat (backtrack_len b) in
  let delta := (bl - Z.of_nat (dead b))%Z in
  let mp := map (fun p => usz (Z.of_nat p + delta)) positions in
  let en := (bl + Z.of_nat match_end - Z.of_nat (dead b))%Z in
  do r <- apply_lookup_records rec recs c mp (length positions) en;
  let '(c1, en') := r in
  do mv <- move_to_z (buf c1) en';
  Ok (with_buf c1 (snd mv)).

(* ---------- context / chain context ---------- *)

Definition preds_glyph (vs : list N) : list (N -> bool) := map (fun v g => g =? v) vs.
Definition preds_class (cd : classdef) (vs : list N) : list (N -> bool) := map (fun v g => class_of cd g =? v) vs.
Definition preds_cov (cs : list coverage) : list (N -> bool) :=
  map (fun cv g => match coverage_index cv g with Some _ => true | None => false end) cs.

(* apply_context; concat_on_fail: unsafe_to_concat(idx, match_end) when the input fails - every format since /repo
   a48a496 (before that fix only format 3 did; the parameter is kept so that the lemmas stay general) *)
Definition apply_context (f : font) (e : lenv) (props : N) (rec : recurse_t) (concat_on_fail : bool)
           (preds : list (N -> bool)) (recs : list seq_lookup) (c : actx) : result (bool * actx) :=
  do m <- match_input f e props (buf c) preds;
  match m with
  | MIok ps en _ =>
      do b <- utb (buf c) (dead (buf c)) en;
      do c' <- apply_lookup rec (with_buf c b) ps en recs;
      Ok (true, c')
  | MIfail en =>
      if concat_on_fail then
        do b <- utc (buf c) (dead (buf c)) (match en with Some x => x | None => O end);
        Ok (false, with_buf c b)
      else Ok (false, c)
  end.

Definition apply_chain_context (f : font) (e : lenv) (props : N) (rec : recurse_t)
           (back inp ahead : list (N -> bool)) (recs : list seq_lookup) (c : actx) : result (bool * actx) :=
  let b := buf c in
  do m <- match_input f e props b inp;
  let fail_la (end_index : nat) := do b' <- utc b (dead b) end_index; Ok (false, with_buf c b') in
  match m with
  (* on an input mismatch end_index = match_end when that lies beyond idx (since /repo cce4fb5; before, idx) *)
  | MIfail en => fail_la (match en with Some x => if (dead b <? x)%nat then x else dead b | None => dead b end)
  | MIok ps match_end _ =>
    match match_lookahead f e props b ahead match_end with
    | inr end_index => fail_la end_index
    | inl end_index =>
      match match_backtrack f e props b back with
      | inr start_index => do b' <- utc_out b start_index end_index; Ok (false, with_buf c b')
      | inl start_index =>
        do b' <- utb_out b start_index end_index;
        do c' <- apply_lookup rec (with_buf c b') ps match_end recs;
        Ok (true, c')
      end
    end
  end.

Definition opt_rules {A} (o : option (option (list A))) : list A :=
  match o with Some (Some l) => l | _ => [] end.

(* ---------- reverse chain ---------- *)

Definition apply_reverse (f : font) (e : lenv) (props : N) (nest : nat) (cov : coverage) (back ahead : list coverage)
           (subs : list N) (c : actx) : result (bool * actx) :=
  let b := buf c in
  do x <- cur b;
  match coverage_index cov (gid x) with
  | None => Ok (false, c)
  | Some k =>
    match nth_error subs (N.to_nat k) with
    | None => Ok (false, c)
    | Some g =>
      if negb (nest =? MAX_NESTING_LEVEL)%nat then Ok (false, c)
      else
        match match_backtrack f e props b (preds_cov back) with
        | inr start_index => do b' <- utc_out b start_index O; Ok (false, with_buf c b')
        | inl start_index =>
          match match_lookahead f e props b (preds_cov ahead) (S (dead b)) with
          | inr end_index => do b' <- utc_out b start_index end_index; Ok (false, with_buf c b')
          | inl end_index =>
            do b1 <- utb_out b start_index end_index;
            do b2 <- ctx_replace_glyph_inplace f b1 g;
            Ok (true, with_buf c b2)
          end
        end
    end
  end.

(* ---------- subtable / lookup dispatch ---------- *)

Definition subtable_apply (f : font) (e : lenv) (props : N) (nest : nat) (rec : recurse_t) (st : subst_subtable) (c : actx)
  : result (bool * actx) :=
  match st with
  | SSingle1 cov d => apply_single1 f cov d c
  | SSingle2 cov subs => apply_single2 f cov subs c
  | SMultiple cov seqs => apply_multiple f cov seqs c
  | SAlternate cov sets => apply_alternate f e cov sets c
  | SLigature cov sets => apply_ligature f e props cov sets c
  | SContext1 cov rule_sets =>
      do x <- cur (buf c);
      match coverage_index cov (gid x) with
      | None => Ok (false, c)
      | Some k => first_apply (fun r => apply_context f e props rec true (preds_glyph (sr_input r)) (sr_lookups r))
                              (match nth_error rule_sets (N.to_nat k) with Some l => l | None => [] end) c
      end
  | SContext2 cov cd rule_sets =>
      do x <- cur (buf c);
      match coverage_index cov (gid x) with
      | None => Ok (false, c)
      | Some _ => first_apply (fun r => apply_context f e props rec true (preds_class cd (sr_input r)) (sr_lookups r))
                              (opt_rules (nth_error rule_sets (N.to_nat (class_of cd (gid x))))) c
      end
  | SContext3 covs recs =>
      match covs with
      | [] => Ok (false, c)
      | cov :: more =>
        do x <- cur (buf c);
        match coverage_index cov (gid x) with
        | None => Ok (false, c)
        | Some _ => apply_context f e props rec true (preds_cov more) recs c
        end
      end
  | SChain1 cov rule_sets =>
      do x <- cur (buf c);
      match coverage_index cov (gid x) with
      | None => Ok (false, c)
      | Some k => first_apply (fun r => apply_chain_context f e props rec (preds_glyph (cr_backtrack r)) (preds_glyph (cr_input r))
                                                            (preds_glyph (cr_lookahead r)) (cr_lookups r))
                              (match nth_error rule_sets (N.to_nat k) with Some l => l | None => [] end) c
      end
  | SChain2 cov bcd icd lcd rule_sets =>
      do x <- cur (buf c);
      match coverage_index cov (gid x) with
      | None => Ok (false, c)
      | Some _ => first_apply (fun r => apply_chain_context f e props rec (preds_class bcd (cr_backtrack r)) (preds_class icd (cr_input r))
                                                            (preds_class lcd (cr_lookahead r)) (cr_lookups r))
                              (opt_rules (nth_error rule_sets (N.to_nat (class_of icd (gid x))))) c
      end
  | SChain3 back inp ahead recs =>
      match inp with
      | [] => Ok (false, c)
      | cov :: more =>
        do x <- cur (buf c);
        match coverage_index cov (gid x) with
        | None => Ok (false, c)
        | Some _ => apply_chain_context f e props rec (preds_cov back) (preds_cov more) (preds_cov ahead) recs c
        end
      end
  | SReverse cov back ahead subs => apply_reverse f e props nest cov back ahead subs c
  end.

(* SubstLookup::apply: first subtable that applies *)
Definition lookup_apply (f : font) (e : lenv) (props : N) (nest : nat) (rec : recurse_t) (lk : lookup subst_subtable) (c : actx)
  : result (bool * actx) :=
  first_apply (subtable_apply f e props nest rec) (lk_subtables lk) c.

Definition gsub_lookups (f : font) : list (lookup subst_subtable) :=
  match f_gsub f with Some l => ly_lookups l | None => [] end.

Definition set_failed (c : actx) : actx := mkCtx (buf c) (max_ops c) (serial c) (rstate c) true.

(* hb_ot_apply_context_t::recurse with `n` = nesting_level_left *)
Fixpoint recurse_n (f : font) (e : lenv) (n : nat) : recurse_t :=
  fun li c =>
    match n with
    | O => Ok (false, set_failed c)
    | S k =>
      let c1 := mkCtx (buf c) (max_ops c - 1)%Z (serial c) (rstate c) (failed c) in
      if (max_ops c1 <? 0)%Z then Ok (false, set_failed c1)
      else match nth_error (gsub_lookups f) (N.to_nat li) with
           | None => Ok (false, c1)
           | Some lk => lookup_apply f e (lookup_props_of lk) k (recurse_n f e k) lk c1
           end
    end.

(* ---------- apply_forward / apply_backward / apply_string ---------- *)

Definition top_apply (f : font) (e : lenv) (lk : lookup subst_subtable) (c : actx) : result (bool * actx) :=
  lookup_apply f e (lookup_props_of lk) MAX_NESTING_LEVEL (recurse_n f e MAX_NESTING_LEVEL) lk c.

Definition glyph_enabled (f : font) (e : lenv) (props : N) (x : info) : bool :=
  negb (N.land (mask x) (le_mask e) =? 0) && check_glyph_property f x props.

Fixpoint apply_forward (fuel : nat) (f : font) (e : lenv) (lk : lookup subst_subtable) (c : actx) : result actx :=
  match rest (buf c) with
  | [] => Ok c
  | x :: _ =>
    if negb (ok (buf c)) then Ok c
    else
      match fuel with
      | O => Error OutOfFuel
      | S k =>
        do r <- (if glyph_enabled f e (lookup_props_of lk) x then top_apply f e lk c else Ok (false, c));
        let '(applied, c1) := r in
        if applied then apply_forward k f e lk c1
        else do b <- next_glyph (buf c1); apply_forward k f e lk (with_buf c1 b)
      end
  end.

(* the loop runs for idx = n, n-1, ..., 0 *)
Fixpoint apply_backward (n : nat) (f : font) (e : lenv) (lk : lookup subst_subtable) (c : actx) : result actx :=
  let c0 := with_buf c (set_idx (buf c) n) in
  do x <- cur (buf c0);
  do r <- (if glyph_enabled f e (lookup_props_of lk) x then top_apply f e lk c0 else Ok (false, c0));
  match n with
  | O => Ok (snd r)
  | S k => apply_backward k f e lk (snd r)
  end.

Definition st_is_reverse (st : subst_subtable) : bool := match st with SReverse _ _ _ _ => true | _ => false end.
Definition lookup_is_reverse (lk : lookup subst_subtable) : bool :=
  match lk_subtables lk with [] => false | l => forallb st_is_reverse l end.

(* the fuel given to apply_forward: one iteration per glyph of input suffices when every successful
   application shortens the lookahead (see Proofs/GsubP.v); doubled, plus slack, for the tie *)
Definition forward_fuel (b : zbuf) : nat := (2 * length (pre b ++ rest b) + 16)%nat.

(* apply_string; None = the buffer content is unspecified (allocation-failure path of sync) *)
Definition apply_string (f : font) (e : lenv) (lk : lookup subst_subtable) (c : actx) : result (option actx) :=
  let b := buf c in
  if ((blen b =? 0)%nat || (le_mask e =? 0))%bool then Ok (Some c)
  else if negb (lookup_is_reverse lk) then
    if out_mode b then Error AssertFail
    else
      let b0 := clear_output b in
      do c1 <- apply_forward (forward_fuel b0) f e lk (with_buf c b0);
      do s <- sync (buf c1);
      match s with
      | Some b2 => Ok (Some (with_buf c1 b2))
      | None => Ok None
      end
  else
    if out_mode b then Error AssertFail
    else do c1 <- apply_backward (blen b - 1) f e lk c; Ok (Some c1).
