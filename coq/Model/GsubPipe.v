(* Model/GsubPipe.v — the part of shape() that determines glyph ids, clusters and glyph flags for the
   DEFAULT shaper on private-use text (gc = Co: not a mark, not ignorable, no decomposition, no mirror):
     src/hb/shape.rs        shape: guess_segment_properties (script stays None), plan, enter
     src/hb/ot_shape.rs     shape_internal: initialize_masks, (set_unicode_props, form_clusters: no-ops here),
                            rotate_chars (RTL: rtlm mask), normalize (glyph_index := cmap), setup_masks (user
                            feature ranges), map_glyphs_fast, hb_ot_layout_substitute_start,
                            hb_synthesize_glyph_classes, GSUB (apply_layout_table), position: final reverse for
                            RTL, propagate_flags
   Executable, no proofs. *)
From Coq Require Import List NArith ZArith Bool Arith.
From RB Require Import Base.Result Model.Buffer Model.Font Model.Skip Model.OtMap Model.Gsub.
Import ListNotations.
Local Open Scope N_scope.

Record request := mkReq {
  rq_text : list (N * N);        (* (code point, cluster) *)
  rq_rtl : bool;                 (* direction RightToLeft, else LeftToRight *)
  rq_level : N;                  (* cluster level 0/1/2 *)
  rq_flags : N;                  (* BufferFlags bits *)
  rq_features : list ufeature
}.

Inductive outcome :=
| OutGlyphs (gs : list (N * N * N))   (* (glyph id, cluster, glyph flags) *)
| OutUnspecified                      (* the buffer failed to grow: content not defined by the logical model *)
| OutUnmapped                         (* a character without cmap entry: outside the domain *)
| OutError (e : err).

Definition MAX_OPS_FACTOR : Z := 1024.
Definition MAX_OPS_MIN : Z := 16384.

(* ---------- initial infos ---------- *)

Fixpoint initial_infos (f : font) (gmask : N) (t : list (N * N)) : option (list info) :=
  match t with
  | [] => Some []
  | (cp, cl) :: r =>
    match cmap_lookup f cp, initial_infos f gmask r with
    | Some g, Some l => Some (mkInfo g gmask cl g GC_PRIVATE_USE :: l)   (* var1 = glyph_index, var2 = unicode_props *)
    | _, _ => None
    end
  end.

(* setup_masks: the non-global user features, in order *)
Definition setup_user_masks (pl : plan) (feats : list ufeature) (b : zbuf) : zbuf :=
  fold_left (fun b u =>
               if uf_is_global u then b
               else let '(msk, shift) := get_mask (pl_features pl) (uf_tag u) in
                    set_masks b (u32 (N.shiftl (uf_value u) shift)) msk (uf_start u) (uf_end u))
            feats b.

(* hb_ot_layout_substitute_start + hb_synthesize_glyph_classes *)
Definition start_props (f : font) (i : info) : info :=
  let i1 := set_lig_props (set_glyph_props i (face_glyph_props f (gid i))) 0 in
  if has_glyph_classes f then i1
  else set_glyph_props i1 (if negb (general_category i1 =? GC_NON_SPACING_MARK) || is_default_ignorable i1 then GP_BASE else GP_MARK).

(* ---------- apply_layout_table (GSUB) ---------- *)

Definition env_of (m : lookup_map) : lenv :=
  mkEnv (lm_mask m) (lm_auto_zwnj m) (lm_auto_zwj m) (lm_random m) (lm_per_syllable m).

Fixpoint run_lookups (f : font) (ms : list lookup_map) (c : actx) : result (option actx) :=
  match ms with
  | [] => Ok (Some c)
  | m :: t =>
    match nth_error (gsub_lookups f) (N.to_nat (lm_index m)) with
    | None => run_lookups f t c
    | Some lk =>
      do r <- apply_string f (env_of m) lk c;
      match r with
      | Some c1 => run_lookups f t c1
      | None => Ok None
      end
    end
  end.

Fixpoint run_stages (f : font) (stages : list (list lookup_map)) (c : actx) : result (option actx) :=
  match stages with
  | [] => Ok (Some c)
  | s :: t =>
    do r <- run_lookups f s c;
    match r with
    | Some c1 => run_stages f t c1
    | None => Ok None
    end
  end.

(* ---------- propagate_flags ---------- *)

Definition PRODUCE_SAFE_TO_INSERT_TATWEEL_BIT : N := 64.   (* the source defines both PRODUCE_* bits as 0x40 *)

(* OR of the defined glyph flags over each run of equal clusters, written to every glyph of the run.
   (The source writes back only when PRODUCE_UNSAFE_TO_CONCAT is off; the comparison with the implementation
   is done on this per-cluster OR, which both variants determine.) *)
Definition cluster_or (l : list info) : list info :=
  concat (map (fun g => let m := fold_left (fun a x => N.lor a (N.land (mask x) GLYPH_FLAGS_DEFINED)) g 0 in
                        map (fun x => set_mask x m) g)
              (cluster_groups l)).

Definition propagate_flags (b : zbuf) (l : list info) : list info :=
  if N.land (scratch b) SCRATCH_HAS_GLYPH_FLAGS =? 0 then l
  else if produce_concat b then l   (* clear_concat = false: nothing is written back *)
  else map (fun x => set_mask x (N.ldiff (mask x) UNSAFE_TO_CONCAT)) (cluster_or l).

(* ---------- the pipeline ---------- *)

Definition run_gsub (f : font) (rq : request) : result (option (zbuf * plan)) + unit :=
  let pl := compile_plan f (rq_rtl rq) (rq_features rq) in
  match initial_infos f (pl_global_mask pl) (rq_text rq) with
  | None => inr tt
  | Some infos =>
    let n := Z.of_nat (length infos) in
    let b := init_buf infos (rq_level rq) (rq_flags rq) in
    (* rotate_chars: no PUA character has a mirror image *)
    let b := if rq_rtl rq then of_arr b (map (or_mask (get_1_mask (pl_features pl) T_rtlm)) (arr b)) else b in
    let b := setup_user_masks pl (rq_features rq) b in
    let b := of_arr b (map (start_props f) (arr b)) in
    let c := mkCtx b (Z.max (n * MAX_OPS_FACTOR) MAX_OPS_MIN) 0 1 false in
    inl (match f_gsub f with
         | None => Ok (Some (b, pl))
         | Some _ =>
           do r <- run_stages f (pl_stages pl) c;
           match r with
           | Some c1 => Ok (Some (buf c1, pl))
           | None => Ok None
           end
         end)
  end.

Definition shape_model (f : font) (rq : request) : outcome :=
  match rq_text rq with
  | [] => OutGlyphs []
  | _ =>
    match run_gsub f rq with
    | inr _ => OutUnmapped
    | inl (Error e) => OutError e
    | inl (Ok None) => OutUnspecified
    | inl (Ok (Some (b, _))) =>
      let l := arr b in
      let l := if rq_rtl rq then rev l else l in
      OutGlyphs (map (fun x => (gid x, cluster x, N.land (mask x) GLYPH_FLAGS_DEFINED)) (propagate_flags b l))
    end
  end.
