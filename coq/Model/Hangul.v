(* Model/Hangul.v — executable model of src/hb/ot_shaper_hangul.rs `preprocess_text_hangul`, of the
   buffer primitives it calls (src/hb/buffer.rs: next_glyph, replace_glyphs with merge_clusters,
   merge_out_clusters, unsafe_to_break, unsafe_to_break_from_outbuffer, set_cluster) and of
   `compose_hangul` / `decompose_hangul` (src/hb/unicode.rs).  No proofs here.

   Representation.  The buffer between `clear_output` and `sync` is a zipper:
     rout = out_info[0 .. out_len)   REVERSED (head = out_info[out_len-1], the newest glyph)
     rest = info[idx .. len)
   `start` / `end` of the function are kept as absolute out-buffer indices (nat), exactly as in the code.
   An info carries the code point (glyph_id before cmap), the cluster, `hangul_shaping_feature`
   (numbers LJMO/VJMO/TJMO of Gen/HangulConsts.v), one bit for the glyph flags
   UNSAFE_TO_BREAK|UNSAFE_TO_CONCAT (always set together here, cleared together by set_cluster), and a
   GHOST bit `cont` (no counterpart in the code): "this glyph belongs to the same recognized syllable
   as the glyph before it in the out-buffer".  It is set exactly where the code assigns
   `end = start + n` (n >= 2) and where the tone mark is rotated in front of its syllable.

   Font: two oracles, `has c` = face.has_glyph(c) and `zw c` = is_zero_width_char(face, c)
   (glyph present and horizontal advance 0).  Buffer parameters: `lvl` = cluster level (0,1,2) and
   `nd` = BufferFlags::DO_NOT_INSERT_DOTTED_CIRCLE.
   Not modelled: allocation failure (`make_room_for` needs out_len+3 <= max_len >= 16384*..; the
   function at most triples the length), the scratch flags. Arithmetic is in N; every subtraction of
   the code is guarded by a range test that makes it exact (no wrap), see the comments at each site. *)
From Coq Require Import List NArith Bool Arith.
From RB Require Import Gen.HangulConsts.
Import ListNotations.
Local Open Scope N_scope.

(* ------------------------------------------------------------------ range predicates *)
Definition in_range (lo hi u : N) : bool := (lo <=? u) && (u <=? hi).
Definition in_ranges (rs : list (N * N)) (u : N) : bool :=
  existsb (fun r => in_range (fst r) (snd r) u) rs.

Definition is_combining_l := in_ranges is_combining_l_ranges.
Definition is_combining_v := in_ranges is_combining_v_ranges.
Definition is_combining_t := in_ranges is_combining_t_ranges.
Definition is_combined_s := in_ranges is_combined_s_ranges.
Definition is_l := in_ranges is_l_ranges.
Definition is_v := in_ranges is_v_ranges.
Definition is_t := in_ranges is_t_ranges.
Definition is_hangul_tone := in_ranges is_hangul_tone_ranges.

(* ------------------------------------------------------------------ arithmetic *)
(* let s = S_BASE + (l - L_BASE) * N_COUNT + (v - V_BASE) * T_COUNT + tindex; *)
Definition compose_s (l v tindex : N) : N := S_BASE + (l - L_BASE) * N_COUNT + (v - V_BASE) * T_COUNT + tindex.
Definition lindex_of (s : N) : N := (s - S_BASE) / N_COUNT.
Definition nindex_of (s : N) : N := (s - S_BASE) mod N_COUNT.
Definition vindex_of (s : N) : N := nindex_of s / T_COUNT.
Definition tindex_of (s : N) : N := nindex_of s mod T_COUNT.

(* unicode.rs, with that file's own constants *)
Definition u_compose_hangul (a b : N) : option N :=
  if (U_L_BASE <=? a) && (a <? U_L_BASE + U_L_COUNT) && (U_V_BASE <=? b) && (b <? U_V_BASE + U_V_COUNT)
  then Some (U_S_BASE + (a - U_L_BASE) * U_N_COUNT + (b - U_V_BASE) * U_T_COUNT)
  else if (U_S_BASE <=? a) && (a <=? U_S_BASE + U_S_COUNT - U_T_COUNT) && (U_T_BASE <=? b)
          && (b <? U_T_BASE + U_T_COUNT) && ((a - U_S_BASE) mod U_T_COUNT =? 0)
  then Some (a + (b - U_T_BASE))
  else None.

(* `wrapping_sub` then `si >= S_COUNT`: for ab < S_BASE the wrapped value is >= 2^32 - S_BASE > S_COUNT *)
Definition u_decompose_hangul (ab : N) : option (N * N) :=
  if ab <? U_S_BASE then None else
  let si := ab - U_S_BASE in
  if U_S_COUNT <=? si then None else
  if negb (si mod U_T_COUNT =? 0)
  then Some (U_S_BASE + (si / U_T_COUNT) * U_T_COUNT, U_T_BASE + si mod U_T_COUNT)
  else Some (U_L_BASE + si / U_N_COUNT, U_V_BASE + (si mod U_N_COUNT) / U_T_COUNT).

(* ------------------------------------------------------------------ infos *)
Record info := mkI { cp : N; cl : N; feat : N; utb : bool; cont : bool }.

Definition dflt : info := mkI 0 0 0 false false.
Definition UMAX : N := 4294967295.

(* buffer.rs set_cluster(info, cluster, mask = 0): a changed cluster clears the glyph flags *)
Definition set_cluster (c : N) (x : info) : info :=
  if cl x =? c then x else mkI (cp x) c (feat x) false (cont x).
Definition flag (x : info) : info := mkI (cp x) (cl x) (feat x) true (cont x).
Definition flag_if_ne (c : N) (x : info) : info := if cl x =? c then x else flag x.
Definition set_feat (f : N) (x : info) : info := mkI (cp x) (cl x) f (utb x) (cont x).
Definition set_cont (b : bool) (x : info) : info := mkI (cp x) (cl x) (feat x) (utb x) b.
Definition with_cp (g : N) (x : info) : info := mkI g (cl x) (feat x) (utb x) (cont x).

Definition min_cl (d : N) (l : list info) : N := fold_left (fun m x => N.min m (cl x)) l d.

(* set the cluster of the leading elements whose cluster is k (a `while` over neighbours with equal cluster) *)
Fixpoint set_while (k c : N) (l : list info) : list info :=
  match l with
  | x :: t => if cl x =? k then set_cluster c x :: set_while k c t else l
  | [] => []
  end.
(* same, also telling whether the whole list was consumed *)
Fixpoint set_while_all (k c : N) (l : list info) : list info * bool :=
  match l with
  | x :: t => if cl x =? k then let '(t', b) := set_while_all k c t in (set_cluster c x :: t', b) else (l, false)
  | [] => ([], true)
  end.
Fixpoint flag_while_ne (stop c : N) (l : list info) : list info :=
  match l with
  | x :: t => if cl x =? stop then l else flag_if_ne c x :: flag_while_ne stop c t
  | [] => []
  end.

Fixpoint upd_nth (i : nat) (f : info -> info) (l : list info) : list info :=
  match l, i with
  | [], _ => []
  | x :: t, O => f x :: t
  | x :: t, S j => x :: upd_nth j f t
  end.

Section WithFont.
Variable has : N -> bool.     (* face.has_glyph *)
Variable zw : N -> bool.      (* is_zero_width_char *)
Variable lvl : N.             (* buffer.cluster_level *)
Variable nd : bool.           (* DO_NOT_INSERT_DOTTED_CIRCLE *)

(* ------------------------------------------------------------------ glyph flags (buffer.rs ~1060-1411) *)
(* _infos_find_min_cluster over the slice l = infos[start..end), initial value `init` *)
Definition find_min_cluster (init : N) (l : list info) : N :=
  match l with
  | [] => init
  | first :: _ =>
      let c := if lvl =? LEVEL_MONOTONE_CHARACTERS then min_cl init l else init in
      N.min c (N.min (cl first) (cl (last l first)))
  end.

(* _infos_set_glyph_flags on the slice l (forward order) *)
Definition set_glyph_flags_slice (c : N) (l : list info) : list info :=
  match l with
  | [] => []
  | first :: _ =>
      let cf := cl first in
      let clast := cl (last l first) in
      if (lvl =? LEVEL_CHARACTERS) || (negb (c =? cf) && negb (c =? clast)) then map (flag_if_ne c) l
      else if c =? cf then rev (flag_while_ne cf c (rev l))
      else flag_while_ne clast c l
  end.

(* unsafe_to_break(Some(idx), Some(idx + n)) : interior, in-buffer; end = min(end, len) *)
Definition unsafe_to_break_in (n : nat) (re : list info) : list info :=
  let seg := firstn n re in
  if (length seg <? 2)%nat then re
  else set_glyph_flags_slice (find_min_cluster UMAX seg) seg ++ skipn n re.

(* unsafe_to_break_from_outbuffer(Some(start), Some(idx)): the in-buffer part [idx, idx) is empty *)
Definition utb_from_out (start : nat) (ro : list info) : list info :=
  let k := (length ro - start)%nat in
  let seg := rev (firstn k ro) in
  rev (set_glyph_flags_slice (find_min_cluster UMAX seg) seg) ++ skipn k ro.

(* ------------------------------------------------------------------ cluster merging *)
(* merge_clusters(idx, idx + n) as called by replace_glyphs (buffer.rs 863-909); start = idx *)
Definition merge_clusters (n : nat) (ro re : list info) : list info * list info :=
  if (n <? 2)%nat then (ro, re) else
  match re with
  | [] => (ro, re)
  | first :: _ =>
      if lvl =? LEVEL_CHARACTERS then (ro, unsafe_to_break_in n re) else
      let seg := firstn n re in
      let after := skipn n re in
      let c := min_cl (cl first) seg in
      let last_cl := cl (last seg first) in
      (* Extend end *)
      let after' := if negb (c =? last_cl) then set_while last_cl c after else after in
      (* `Extend start` is `while end < start ..`: never runs.  Continue in out-buffer: *)
      let ro' := if negb (cl first =? c) then set_while (cl first) c ro else ro in
      (ro', map (set_cluster c) seg ++ after')
  end.

(* merge_out_clusters(start, end) (buffer.rs 911-949); out_info[i] = nth (length ro - 1 - i) ro *)
Definition merge_out_clusters (start end_ : nat) (ro re : list info) : list info * list info :=
  if lvl =? LEVEL_CHARACTERS then (ro, re) else
  if (end_ - start <? 2)%nat then (ro, re) else
  let n := length ro in
  let newer := firstn (n - end_) ro in
  let r1 := skipn (n - end_) ro in
  let seg := firstn (end_ - start) r1 in
  let older := skipn (end_ - start) r1 in
  match seg with
  | [] => (ro, re)
  | e :: _ =>
      let c := min_cl (cl e) seg in
      let cl_s := cl (last seg e) in          (* out_info[start].cluster *)
      let cl_e := cl e in                     (* out_info[end-1].cluster *)
      let older' := set_while cl_s c older in (* Extend start *)
      let '(nw, all) := set_while_all cl_e c (rev newer) in  (* Extend end *)
      let re' := if all then set_while cl_e c re else re in  (* end == out_len: continue in buffer *)
      (rev nw ++ map (set_cluster c) seg ++ older', re')
  end.

(* ------------------------------------------------------------------ moving glyphs *)
Definition next_glyph (ro re : list info) : option (list info * list info) :=
  match re with
  | x :: t => Some (x :: ro, t)
  | [] => None
  end.

(* replace_glyphs(num_in, data.len(), data): asserts idx + num_in <= len *)
Definition replace_glyphs (n : nat) (data : list N) (ro re : list info) : option (list info * list info) :=
  if (length re <? n)%nat then None else
  let '(ro1, re1) := merge_clusters n ro re in
  match re1 with
  | [] => None
  | orig :: _ => Some (rev (map (fun g => with_cp g orig) data) ++ ro1, skipn n re1)
  end.

(* cur_mut(0).set_hangul_shaping_feature(f); next_glyph() *)
Definition tag_next (f : N) (ro re : list info) : option (list info * list info) :=
  match re with
  | x :: t => Some (set_feat f x :: ro, t)
  | [] => None
  end.

(* out_info_mut()[i].set_hangul_shaping_feature(f), i an absolute out index *)
Definition set_feat_out (i : nat) (f : N) (ro : list info) : list info :=
  upd_nth (length ro - 1 - i) (set_feat f) ro.

(* ghost: the k newest out glyphs form one syllable: all but the oldest of them continue it *)
Definition mark_syl (k : nat) (ro : list info) : list info :=
  map (set_cont true) (firstn (k - 1) ro) ++ skipn (k - 1) ro.

(* the tone mark (newest out glyph) moves in front of the k glyphs before it:
     tone = out[end]; for i in (0..end-start).rev() { out[i+start+1] = out[i+start] }; out[start] = tone
   ghost: the former first glyph of the syllable now continues the tone mark *)
Definition rotate_tone (k : nat) (ro : list info) : list info :=
  match ro with
  | tone :: l => mark_syl (S k) (firstn k l ++ [set_cont false tone]) ++ skipn k l
  | [] => []
  end.

Definition cur_cp (i : nat) (re : list info) : N := cp (nth i re dflt).

Record st := mkS { rout : list info; rest : list info; sstart : nat; send : nat }.

Definition bind {A B} (o : option A) (f : A -> option B) : option B :=
  match o with Some a => f a | None => None end.

(* the final `buffer.next_glyph()` of the loop body: no syllable; `start` was set, `end` is stale *)
Definition plain_next (s : st) : option st :=
  bind (next_glyph (rout s) (rest s)) (fun p => Some (mkS (fst p) (snd p) (length (rout s)) (send s))).

(* ------------------------------------------------------------------ one iteration of the while loop *)
Definition step (s : st) : option st :=
  let ro := rout s in
  let re := rest s in
  let len := length re in                 (* buffer.len - buffer.idx *)
  let u := cur_cp 0 re in
  if is_hangul_tone u then
    if (sstart s <? send s)%nat && (send s =? length ro)%nat then
      (* Tone mark follows a valid syllable; move it in front, unless it's zero width. *)
      let ro1 := utb_from_out (sstart s) ro in
      bind (next_glyph ro1 re) (fun p =>
      let '(ro3, re3) :=
        if negb (zw u) then
          let '(ro2, re2) := merge_out_clusters (sstart s) (send s + 1) (fst p) (snd p) in
          (rotate_tone (send s - sstart s) ro2, re2)
        else p in
      Some (mkS ro3 re3 (length ro3) (length ro3)))
    else
      (* No valid syllable as base for tone mark; try to insert dotted circle. *)
      bind (if negb nd && has DOTTED_CIRCLE
            then replace_glyphs 1 (if negb (zw u) then [u; DOTTED_CIRCLE] else [DOTTED_CIRCLE; u]) ro re
            else next_glyph ro re)
           (fun p => Some (mkS (fst p) (snd p) (length (fst p)) (length (fst p))))
  else
  let start := length ro in
  if is_l u && (1 <? len)%nat then
    let l := u in
    let v := cur_cp 1 re in
    if is_v v then
      (* Have <L,V> or <L,V,T>.  t - T_BASE: is_t t gives t >= 0x11A8 > T_BASE *)
      let t := if (2 <? len)%nat && is_t (cur_cp 2 re) then cur_cp 2 re else 0 in
      let tindex := if (2 <? len)%nat && is_t (cur_cp 2 re) then cur_cp 2 re - T_BASE else 0 in
      let n := if t =? 0 then 2%nat else 3%nat in
      let re1 := unsafe_to_break_in n re in
      if is_combining_l l && is_combining_v v && ((t =? 0) || is_combining_t t)
         && has (compose_s l v tindex)
      then
        bind (replace_glyphs n [compose_s l v tindex] ro re1) (fun p =>
        Some (mkS (fst p) (snd p) start (start + 1)))
      else
        (* Set jamo features on the individual glyphs, and advance past them. *)
        bind (tag_next LJMO ro re1) (fun p1 =>
        bind (tag_next VJMO (fst p1) (snd p1)) (fun p2 =>
        bind (if t =? 0 then Some p2 else tag_next TJMO (fst p2) (snd p2)) (fun p3 =>
        let end_ := (start + n)%nat in
        let '(ro4, re4) := if lvl =? HANGUL_MERGE_LEVEL
                           then merge_out_clusters start end_ (fst p3) (snd p3) else p3 in
        Some (mkS (mark_syl n ro4) re4 start end_))))
    else plain_next s
  else if is_combined_s u then
    (* Have <LV>, <LVT>, or <LV,T> *)
    let sy := u in
    let has_glyph := has sy in
    let lindex := lindex_of sy in
    let vindex := vindex_of sy in
    let tindex := tindex_of sy in
    let t1 := cur_cp 1 re in
    let try_lvt := (tindex =? 0) && (1 <? len)%nat && is_combining_t t1 in
    let new_s := sy + (t1 - T_BASE) in      (* is_combining_t t1 gives t1 > T_BASE *)
    if try_lvt && has new_s then
      bind (replace_glyphs 2 [new_s] ro re) (fun p => Some (mkS (fst p) (snd p) start (start + 1)))
    else
    (* Mark unsafe between LV and T. *)
    let re1 := if try_lvt then unsafe_to_break_in 2 re else re in
    let d0 := L_BASE + lindex in
    let d1 := V_BASE + vindex in
    let d2 := T_BASE + tindex in
    if (negb has_glyph || ((tindex =? 0) && (1 <? len)%nat && is_t t1))
       && (has d0 && has d1 && ((tindex =? 0) || has d2))
    then
      let data := if tindex =? 0 then [d0; d1] else [d0; d1; d2] in
      bind (replace_glyphs 1 data ro re1) (fun p =>
      (* If we decomposed an LV because of a non-combining T following, include this T. *)
      let with_t := has_glyph && (tindex =? 0) in
      bind (if with_t then next_glyph (fst p) (snd p) else Some p) (fun p2 =>
      let s_len := (length data + (if with_t then 1 else 0))%nat in
      let end_ := (start + s_len)%nat in
      let ro3 := set_feat_out (start + 0) LJMO (fst p2) in
      let ro4 := set_feat_out (start + 1) VJMO ro3 in
      let ro5 := if (start + 2 <? end_)%nat then set_feat_out (start + 2) TJMO ro4 else ro4 in
      let '(ro6, re6) := if lvl =? HANGUL_MERGE_LEVEL
                         then merge_out_clusters start end_ ro5 (snd p2) else (ro5, snd p2) in
      Some (mkS (mark_syl s_len ro6) re6 start end_)))
    else
    (* `else if tindex == 0 && buffer.idx + 1 > buffer.len && is_t(..)`: idx + 1 > len is len - idx < 1 *)
    let re2 := if (negb has_glyph || ((tindex =? 0) && (1 <? len)%nat && is_t t1))
                  && (tindex =? 0) && (len <? 1)%nat && is_t t1
               then unsafe_to_break_in 2 re1 else re1 in
    if has_glyph then
      (* We didn't decompose the S, so just advance past it. *)
      bind (next_glyph ro re2) (fun p => Some (mkS (fst p) (snd p) start (start + 1)))
    else
      bind (next_glyph ro re2) (fun p => Some (mkS (fst p) (snd p) start (send s)))
  else plain_next s.

(* while buffer.idx < buffer.len { .. }; fuel = number of remaining characters suffices because every
   iteration consumes at least one (theorem run_total); None = out of fuel or a violated `assert` *)
Fixpoint loop (fuel : nat) (s : st) : option st :=
  match rest s with
  | [] => Some s
  | _ :: _ =>
      match fuel with
      | O => None
      | S f => bind (step s) (loop f)
      end
  end.

(* clear_output(); start = end = 0; ... ; sync() *)
Definition run_st (input : list info) : option st := loop (length input) (mkS [] input 0 0).
Definition run (input : list info) : option (list info) :=
  bind (run_st input) (fun s => Some (rev (rout s))).

End WithFont.

(* ------------------------------------------------------------------ interface for cases files *)
Definition mk_input (l : list (N * N)) : list info := map (fun p => mkI (fst p) (snd p) 0 false false) l.
Definition observe (l : list info) : list (N * N * N * bool) :=
  map (fun x => (cp x, cl x, feat x, utb x)) l.
