(* Model/Ignorable.v — property C13 (default ignorables): specification of the classification,
   executable models of `delete_glyphs_inplace` (src/hb/buffer.rs) and of the default-ignorable
   passes of src/hb/ot_shape.rs, and the simple cmap/hmtx pipeline. Stdlib only, NO proofs (so that
   the correspondence evaluators still run when a proof breaks).

   The classification function itself (`is_default_ignorable`) and the bit constants are NOT written
   here: they are regenerated from the source into Gen/Ignorable.v on every run. *)
From Coq Require Import List NArith ZArith Bool.
From RB Require Import Gen.Ignorable.
Import ListNotations.
Local Open Scope N_scope.

(* ------------------------------------------------------------------------------------------- *)
(* 1. Specification: Default_Ignorable_Code_Point of Unicode 16.0 (DerivedCoreProperties.txt),
      written from the standard; adjacent lines of the data file are merged.                     *)

Definition dicp_ranges : list (N * N) :=
  [ (0x00AD, 0x00AD);     (* SOFT HYPHEN *)
    (0x034F, 0x034F);     (* COMBINING GRAPHEME JOINER *)
    (0x061C, 0x061C);     (* ARABIC LETTER MARK *)
    (0x115F, 0x1160);     (* HANGUL CHOSEONG FILLER..HANGUL JUNGSEONG FILLER *)
    (0x17B4, 0x17B5);     (* KHMER VOWEL INHERENT AQ..AA *)
    (0x180B, 0x180F);     (* MONGOLIAN FVS1..3, VOWEL SEPARATOR, FVS4 *)
    (0x200B, 0x200F);     (* ZERO WIDTH SPACE..RIGHT-TO-LEFT MARK *)
    (0x202A, 0x202E);     (* LEFT-TO-RIGHT EMBEDDING..RIGHT-TO-LEFT OVERRIDE *)
    (0x2060, 0x206F);     (* WORD JOINER..NOMINAL DIGIT SHAPES (incl. reserved 2065) *)
    (0x3164, 0x3164);     (* HANGUL FILLER *)
    (0xFE00, 0xFE0F);     (* VARIATION SELECTOR-1..16 *)
    (0xFEFF, 0xFEFF);     (* ZERO WIDTH NO-BREAK SPACE *)
    (0xFFA0, 0xFFA0);     (* HALFWIDTH HANGUL FILLER *)
    (0xFFF0, 0xFFF8);     (* reserved *)
    (0x1BCA0, 0x1BCA3);   (* SHORTHAND FORMAT LETTER OVERLAP..UP STEP *)
    (0x1D173, 0x1D17A);   (* MUSICAL SYMBOL BEGIN BEAM..END PHRASE *)
    (0xE0000, 0xE0FFF) ]. (* tags, VARIATION SELECTOR-17..256, reserved *)

Definition in_range (a b cp : N) : bool := (a <=? cp) && (cp <=? b).

Definition in_ranges (rs : list (N * N)) (cp : N) : bool :=
  existsb (fun r => in_range (fst r) (snd r) cp) rs.

Definition dicp (cp : N) : bool := in_ranges dicp_ranges cp.

(* the four documented exceptions of the property (Hangul fillers) *)
Definition filler (cp : N) : bool :=
  (cp =? 0x115F) || (cp =? 0x1160) || (cp =? 0x3164) || (cp =? 0xFFA0).

Definition dicp_minus_fillers (cp : N) : bool := dicp cp && negb (filler cp).

(* the same set as a sorted list of disjoint ranges (printed for the harness; equality with
   dicp_minus_fillers is proved in Proofs/IgnorableP.v) *)
Definition spec_ranges : list (N * N) :=
  [ (0x00AD, 0x00AD); (0x034F, 0x034F); (0x061C, 0x061C); (0x17B4, 0x17B5); (0x180B, 0x180F);
    (0x200B, 0x200F); (0x202A, 0x202E); (0x2060, 0x206F); (0xFE00, 0xFE0F); (0xFEFF, 0xFEFF);
    (0xFFF0, 0xFFF8); (0x1BCA0, 0x1BCA3); (0x1D173, 0x1D17A); (0xE0000, 0xE0FFF) ].

(* known-finding class `shorthand_format_controls` *)
Definition shorthand_format_control (cp : N) : bool := in_range 0x1BCA0 0x1BCA3 cp.

(* ------------------------------------------------------------------------------------------- *)
(* 2. Glyphs                                                                                     *)

Record glyph := mkG { gid : N; cluster : N; mask : N; uprops : N; gprops : N }.
Record gpos := mkP { xa : Z; ya : Z; xo : Z; yo : Z }.
Notation slot := (glyph * gpos)%type (only parsing).

Definition zero_pos : gpos := mkP 0 0 0 0.

(* change cluster and mask only *)
Definition upd (g : glyph) (c m : N) : glyph := mkG (gid g) c m (uprops g) (gprops g).
Definition with_gid (g : glyph) (i : N) : glyph := mkG i (cluster g) (mask g) (uprops g) (gprops g).

(* ot_layout.rs: _hb_glyph_info_is_default_ignorable = IGNORABLE bit && !substituted *)
Definition ign_bit (g : glyph) : bool := negb (N.land (uprops g) UPROPS_IGNORABLE =? 0).
Definition substituted (g : glyph) : bool := negb (N.land (gprops g) GPROPS_SUBSTITUTED =? 0).
Definition is_ign (g : glyph) : bool := ign_bit g && negb (substituted g).

(* buffer.rs set_cluster: when the cluster changes, the DEFINED flag bits are replaced by `m`'s *)
Definition set_cluster (g : glyph) (c m : N) : glyph :=
  if cluster g =? c then upd g c (mask g)
  else upd g c (N.lor (N.ldiff (mask g) GLYPH_FLAG_DEFINED) (N.land m GLYPH_FLAG_DEFINED)).

(* ------------------------------------------------------------------------------------------- *)
(* 3. delete_glyphs_inplace (buffer.rs), as the Rust loop does it.

   Rust state at iteration i: info[0..j) = output so far, info[i..len) = unread input, j <= i.
   Here: out_rev = info[0..j) reversed, l = info[i..len). The region [j,i) holds stale copies that
   are only ever overwritten. Called with out_len = 0 (after positioning), so the out-buffer branch
   of merge_clusters_impl is a no-op; its "extend start" loop (`while end < start`) never runs. *)

(* set_cluster over the maximal prefix of glyphs whose cluster is `old` *)
Fixpoint set_run (old c m : N) (l : list slot) : list slot :=
  match l with
  | (g, p) :: t => if cluster g =? old then (set_cluster g c m, p) :: set_run old c m t else l
  | [] => []
  end.

(* merge_clusters(i, i+2) where info[i] = g (about to be dropped), info[i+1..] = rest.
   levels 0/1: cluster := min; if that is not the cluster of info[i+1] the range is extended over the
   run of glyphs equal to info[i+1].cluster and all of them get set_cluster(min, 0).
   level 2 (CHARACTERS): unsafe_to_break(i, i+2): glyphs of the pair whose cluster is not the minimum
   get UNSAFE_TO_BREAK|UNSAFE_TO_CONCAT; clusters are left alone. *)
Definition merge_fwd (level : N) (g : glyph) (rest : list slot) : list slot :=
  match rest with
  | [] => []
  | (n, p) :: t =>
      if level =? CLUSTER_LEVEL_CHARACTERS then
        if cluster n =? N.min (cluster g) (cluster n) then rest
        else (upd n (cluster n) (N.lor (mask n) (N.lor GLYPH_FLAG_UNSAFE_TO_BREAK GLYPH_FLAG_UNSAFE_TO_CONCAT)), p) :: t
      else if cluster g <? cluster n then set_run (cluster n) (cluster g) 0 rest
      else rest
  end.

Definition same_cluster_next (g : glyph) (rest : list slot) : bool :=
  match rest with
  | (n, _) :: _ => cluster g =? cluster n
  | [] => false
  end.

Fixpoint del_loop (f : glyph -> bool) (level : N) (fuel : nat) (out_rev l : list slot) : list slot :=
  match fuel with
  | O => rev out_rev
  | S k =>
    match l with
    | [] => rev out_rev
    | (g, p) :: rest =>
        if f g then
          if same_cluster_next g rest then del_loop f level k out_rev rest      (* cluster survives *)
          else match out_rev with
               | (o, _) :: _ =>                                                 (* j != 0: merge backward *)
                   if cluster g <? cluster o
                   then del_loop f level k (set_run (cluster o) (cluster g) (mask g) out_rev) rest
                   else del_loop f level k out_rev rest
               | [] => del_loop f level k [] (merge_fwd level g rest)           (* merge forward *)
               end
        else del_loop f level k ((g, p) :: out_rev) rest
    end
  end.

Definition delete_glyphs_inplace (f : glyph -> bool) (level : N) (l : list slot) : list slot :=
  del_loop f level (length l) [] l.

(* ------------------------------------------------------------------------------------------- *)
(* 4. The passes of ot_shape.rs                                                                  *)

Record env := mkEnv {
  e_flags : N;              (* BufferFlags bits *)
  e_scratch : N;            (* buffer.scratch_flags *)
  e_invisible : option N;   (* buffer.invisible *)
  e_space : option N;       (* face.get_nominal_glyph(' ') *)
  e_level : N }.

Definition has_bit (x b : N) : bool := negb (N.land x b =? 0).
Definition preserve (e : env) : bool := has_bit (e_flags e) FLAG_PRESERVE_DEFAULT_IGNORABLES.
Definition remove (e : env) : bool := has_bit (e_flags e) FLAG_REMOVE_DEFAULT_IGNORABLES.
Definition has_di (e : env) : bool := has_bit (e_scratch e) SCRATCH_HAS_DEFAULT_IGNORABLES.

(* invisible.or_else(|| face.get_nominal_glyph(' ')) *)
Definition invisible_glyph (e : env) : option N :=
  match e_invisible e with Some i => Some i | None => e_space e end.

Definition zero_one (s : slot) : slot := if is_ign (fst s) then (fst s, zero_pos) else s.
Definition hide_one (inv : N) (s : slot) : slot := if is_ign (fst s) then (with_gid (fst s) inv, snd s) else s.

Definition zero_width_default_ignorables (e : env) (l : list slot) : list slot :=
  if has_di e && negb (preserve e) && negb (remove e) then map zero_one l else l.

Definition hide_default_ignorables (e : env) (l : list slot) : list slot :=
  if has_di e && negb (preserve e) then
    if negb (remove e) then
      match invisible_glyph e with
      | Some inv => map (hide_one inv) l
      | None => delete_glyphs_inplace is_ign (e_level e) l
      end
    else delete_glyphs_inplace is_ign (e_level e) l
  else l.

Definition passes (e : env) (l : list slot) : list slot :=
  hide_default_ignorables e (zero_width_default_ignorables e l).

(* ------------------------------------------------------------------------------------------- *)
(* 5. The simple pipeline: cmap, horizontal advance, the passes. Covers: one left-to-right
      horizontal run, no normalisation, no layout tables, no marks, no variation-selector handling.
      Clusters are character indices.                                                            *)

Record font := mkFont {
  f_cmap : N -> N;          (* nominal glyph, 0 = .notdef *)
  f_adv : N -> Z;           (* hmtx advance of a glyph *)
  f_space : option N }.

(* init_unicode_props: IGNORABLE (and the scratch flag) iff u >= 0x80 && is_default_ignorable(u) *)
Definition ign_cp (cp : N) : bool := (IGNORABLE_MIN_CP <=? cp) && is_default_ignorable cp.

Definition shape_char (ft : font) (i cp : N) : slot :=
  (mkG (f_cmap ft cp) i 0 (if ign_cp cp then UPROPS_IGNORABLE else 0) 0,
   mkP (f_adv ft (f_cmap ft cp)) 0 0 0).

Fixpoint shape_chars (ft : font) (i : N) (t : list N) : list slot :=
  match t with
  | [] => []
  | cp :: r => shape_char ft i cp :: shape_chars ft (i + 1) r
  end.

Definition env_of (ft : font) (flags level : N) (t : list N) : env :=
  mkEnv flags (if existsb ign_cp t then SCRATCH_HAS_DEFAULT_IGNORABLES else 0) None (f_space ft) level.

Definition simple_shape (ft : font) (flags level : N) (t : list N) : list slot :=
  passes (env_of ft flags level t) (shape_chars ft 0 t).

(* what the property speaks about: glyph identity and position *)
Definition visible (s : slot) : N * gpos := (gid (fst s), snd s).
Definition keeps (s : slot) : bool := negb (is_ign (fst s)).

(* ------------------------------------------------------------------------------------------- *)
(* 6. Vocabulary of the statements                                                               *)

(* everything of a slot except cluster and mask *)
Definition frame (s : slot) : N * N * N * gpos := (gid (fst s), uprops (fst s), gprops (fst s), snd s).
Definition clusters (l : list slot) : list N := map (fun s => cluster (fst s)) l.

(* a filter that does not look at cluster or mask (the real one looks at the props only) *)
Definition respects (f : glyph -> bool) : Prop := forall g c m, f (upd g c m) = f g.

(* what a hidden glyph looks like *)
Definition hidden_as (inv : N) (s : slot) : slot := (with_gid (fst s) inv, zero_pos).
