(* Model/Joining.v — executable model of `arabic_joining` / `setup_masks_inner` / `get_joining_type`
   of /repo/src/hb/ot_shaper_arabic.rs, and the declarative cursive-joining specification (C11).
   Stdlib only, no proofs.  The state table and the enum numbering are PARAMETERS (`table`, `enc`);
   the values of the current source come from Gen/JoiningTable.v and are plugged in by Props/C11.v and
   Corr/JoiningC.v. *)
From Coq Require Import List NArith Bool.
Import ListNotations.
Local Open Scope N_scope.

(* ------------------------------------------------------------------ classes and actions *)

(* Unicode joining classes as the shaper distinguishes them.  C (join-causing: TATWEEL, ZWJ) exists in
   Unicode and in the specification below; the crate's enum has no C — its table stores D for those
   characters — so C and D share one code (`jcode`). *)
Inductive jt := U | L | R | D | C | A (* Syriac ALAPH *) | DR (* Syriac DALATH / RISH *) | T.

Inductive action := ISOL | FINA | FIN2 | FIN3 | MEDI | MED2 | INIT | NONE.

(* numbering of `hb_arabic_joining_type_t` and `arabic_action_t` *)
Record enc := {
  jU : N; jL : N; jR : N; jD : N; jA : N; jDR : N; jT : N; jX : N;
  aISOL : N; aFINA : N; aFIN2 : N; aFIN3 : N; aMEDI : N; aMED2 : N; aINIT : N; aNONE : N }.

Definition jcode (E : enc) (c : jt) : N :=
  match c with U => jU E | L => jL E | R => jR E | D => jD E | C => jD E | A => jA E | DR => jDR E | T => jT E end.

Definition acode (E : enc) (a : action) : N :=
  match a with ISOL => aISOL E | FINA => aFINA E | FIN2 => aFIN2 E | FIN3 => aFIN3 E
             | MEDI => aMEDI E | MED2 => aMED2 E | INIT => aINIT E | NONE => aNONE E end.

Definition is_T (c : jt) : bool := match c with T => true | _ => false end.

Definition jt_eqb (a b : jt) : bool :=
  match a, b with
  | U, U | L, L | R, R | D, D | C, C | A, A | DR, DR | T, T => true
  | _, _ => false
  end.

Definition action_eqb (a b : action) : bool :=
  match a, b with
  | ISOL, ISOL | FINA, FINA | FIN2, FIN2 | FIN3, FIN3 | MEDI, MEDI | MED2, MED2 | INIT, INIT | NONE, NONE => true
  | _, _ => false
  end.

(* ------------------------------------------------------------------ the automaton, as the code runs it *)

Definition entry := (N * N * N)%type.            (* (prev_action, curr_action, next_state) *)
Definition table := list (list entry).
Definition e_prev (e : entry) : N := fst (fst e).
Definition e_curr (e : entry) : N := snd (fst e).
Definition e_next (e : entry) : N := snd e.

(* STATE_TABLE[state][this_type as usize]; None = index out of bounds (a panic in the code) *)
Definition lookup (tbl : table) (st c : N) : option entry :=
  match nth_error tbl (N.to_nat st) with
  | Some row => nth_error row (N.to_nat c)
  | None => None
  end.

(* info[i] := v; (an index outside the array never occurs; it would be a panic in the code) *)
Fixpoint upd {X} (i : nat) (v : X) (l : list X) : list X :=
  match l, i with
  | [], _ => []
  | _ :: t, O => v :: t
  | x :: t, S k => x :: upd k v t
  end.

Section Automaton.
  Variable E : enc.
  Variable tbl : table.

  (* "Check pre-context": ctx is buffer.context[0][0 .. context_len[0]] — nearest character first.
     Transparent characters are skipped, the first other character alone decides the start state,
     always looked up from state 0. *)
  Fixpoint pre_scan (ctx : list N) : option N :=
    match ctx with
    | [] => Some 0
    | c :: r => if c =? jT E then pre_scan r
                else match lookup tbl 0 c with Some e => Some (e_next e) | None => None end
    end.

  (* buffer.info[prev].set_arabic_shaping_action(entry.0) when entry.0 != NONE and prev is Some *)
  Definition patch (arr : list N) (prev : option nat) (pa : N) : list N :=
    match prev with
    | Some p => if pa =? aNONE E then arr else upd p pa arr
    | None => arr
    end.

  (* the main loop over buffer.info[0 .. len]; `arr` is the array of shaping actions, `i` the index *)
  Fixpoint main_loop (text : list N) (i : nat) (arr : list N) (prev : option nat) (st : N)
    : option (list N * option nat * N) :=
    match text with
    | [] => Some (arr, prev, st)
    | c :: r =>
        if c =? jT E then main_loop r (S i) (upd i (aNONE E) arr) prev st
        else match lookup tbl st c with
             | None => None
             | Some e => main_loop r (S i) (upd i (e_curr e) (patch arr prev (e_prev e))) (Some i) (e_next e)
             end
    end.

  (* the post-context loop: ctx is buffer.context[1][0 .. context_len[1]]; the first non-transparent
     character patches the last letter and the loop breaks *)
  Fixpoint post_scan (ctx : list N) (arr : list N) (prev : option nat) (st : N) : option (list N) :=
    match ctx with
    | [] => Some arr
    | c :: r => if c =? jT E then post_scan r arr prev st
                else match lookup tbl st c with
                     | None => None
                     | Some e => Some (patch arr prev (e_prev e))
                     end
    end.

  (* arabic_joining on a buffer whose context arrays hold ctx0 / ctx1 and whose characters have the
     joining types `text`; `init` = what the action bytes held before (every slot is overwritten) *)
  Definition joining_run (ctx0 text ctx1 init : list N) : option (list N) :=
    match pre_scan ctx0 with
    | None => None
    | Some s0 =>
        match main_loop text 0 init None s0 with
        | None => None
        | Some (arr, prev, st) => post_scan ctx1 arr prev st
        end
    end.

  (* with the buffer's context storage: set_pre_context keeps the LAST clen characters, nearest first;
     set_post_context keeps the FIRST clen characters *)
  Definition arabic_joining (clen : N) (pre text post : list N) : option (list N) :=
    joining_run (firstn (N.to_nat clen) (rev pre)) text (firstn (N.to_nat clen) post)
                (repeat 0 (length text)).

  (* setup_masks_inner for a non-Mongolian script: info.mask |= mask_array[action] *)
  Fixpoint or_masks (marr : list N) (masks acts : list N) : option (list N) :=
    match masks, acts with
    | [], [] => Some []
    | m :: ms, a :: acts' =>
        match nth_error marr (N.to_nat a), or_masks marr ms acts' with
        | Some f, Some r => Some (N.lor m f :: r)
        | _, _ => None
        end
    | _, _ => None
    end.

  Definition setup_masks (clen : N) (marr : list N) (pre text post masks : list N) : option (list N) :=
    match arabic_joining clen pre text post with
    | Some acts => or_masks marr masks acts
    | None => None
    end.

  (* get_joining_type: table value, X resolved by general category (Mn, Me, Cf => T, else U) *)
  Definition get_joining_type (raw : N) (gc_mn_me_cf : bool) : N :=
    if raw =? jX E then (if gc_mn_me_cf then jT E else jU E) else raw.
End Automaton.

(* joining_type(u) of ot_shaper_arabic_table.rs over the translator's runs (lo, hi, type) *)
Fixpoint run_lookup (runs : list (N * N * N)) (u : N) : option (N * N * N) :=
  match runs with
  | [] => None
  | (lo, hi, c) :: r => if (lo <=? u) && (u <=? hi) then Some (lo, hi, c) else run_lookup r u
  end.

(* ------------------------------------------------------------------ the specification *)
(* Unicode, "Arabic cursive joining" (core spec. 9.2, rules R1-R7) and the OpenType Syriac shaping
   rules for ALAPH, written per letter from its nearest non-transparent neighbours.  Text order is
   logical order: the PREVIOUS letter is the one to the right in these right-to-left scripts.

   joins_fwd c: c can connect to the letter that FOLLOWS it (dual-joining, left-joining, join-causing).
   joins_bwd c: c can connect to the letter that PRECEDES it (dual-, right-joining incl. ALAPH and
   DALATH/RISH, join-causing). *)
Definition joins_fwd (c : jt) : bool := match c with L | D | C => true | _ => false end.
Definition joins_bwd (c : jt) : bool := match c with R | D | C | A | DR => true | _ => false end.

Definition opt_is (f : jt -> bool) (o : option jt) : bool := match o with Some c => f c | None => false end.

(* form p x n: the positional form of letter x whose nearest non-transparent neighbours are p (before)
   and n (after); None = no such neighbour (edge of text and context).
   - transparent and non-joining characters have no positional form: no feature (NONE);
   - ALAPH is right-joining.  After a letter that joins forward it is final (fina), or med2 when it is
     not word-final (a letter that could join backward follows).  After DALATH/RISH it is fin3, after
     another right-joining letter (R, ALAPH) fin2 — but only word-finally; otherwise isolated;
   - every other letter: R1-R7 — medial when joined on both sides, final when joined to the previous
     letter only, initial when joined to the next only, else isolated. *)
Definition form (p : option jt) (x : jt) (n : option jt) : action :=
  match x with
  | T => NONE
  | U => NONE
  | A =>
      let nonfinal := opt_is joins_bwd n in
      match p with
      | Some q =>
          if joins_fwd q then (if nonfinal then MED2 else FINA)
          else match q with
               | DR => if nonfinal then ISOL else FIN3
               | R | A => if nonfinal then ISOL else FIN2
               | _ => ISOL
               end
      | None => ISOL
      end
  | _ =>
      let jp := joins_bwd x && opt_is joins_fwd p in
      let jn := joins_fwd x && opt_is joins_bwd n in
      match jp, jn with
      | true, true => MEDI
      | true, false => FINA
      | false, true => INIT
      | false, false => ISOL
      end
  end.

Fixpoint first_nonT (l : list jt) : option jt :=
  match l with
  | [] => None
  | c :: r => if is_T c then first_nonT r else Some c
  end.

Definition last_nonT (l : list jt) : option jt := first_nonT (rev l).

(* the action of the i-th character of a character sequence l *)
Definition spec_at (l : list jt) (i : nat) : action :=
  form (last_nonT (firstn i l)) (nth i l T) (first_nonT (skipn (S i) l)).

(* the actions of `text` when `pre` precedes and `post` follows it: context characters are neighbours
   exactly as if they were part of the text *)
Definition spec_actions (pre text post : list jt) : list action :=
  map (fun i => spec_at (pre ++ text ++ post) (length pre + i)%nat) (seq 0 (length text)).

(* the last k elements *)
Definition lastn {X} (k : nat) (l : list X) : list X := rev (firstn k (rev l)).

(* feature tag of each action (big-endian tag value): what mask_array[action] must be the mask of *)
Definition tag4 (a b c d : N) : N := ((a * 256 + b) * 256 + c) * 256 + d.
Definition feature_tag (a : action) : option N :=
  match a with
  | ISOL => Some (tag4 105 115 111 108)   (* isol *)
  | FINA => Some (tag4 102 105 110 97)    (* fina *)
  | FIN2 => Some (tag4 102 105 110 50)    (* fin2 *)
  | FIN3 => Some (tag4 102 105 110 51)    (* fin3 *)
  | MEDI => Some (tag4 109 101 100 105)   (* medi *)
  | MED2 => Some (tag4 109 101 100 50)    (* med2 *)
  | INIT => Some (tag4 105 110 105 116)   (* init *)
  | NONE => None
  end.

Definition all_actions : list action := [ISOL; FINA; FIN2; FIN3; MEDI; MED2; INIT; NONE].
(* the letters (everything but T), and the alphabet in the order the harness enumerates it *)
Definition letters : list jt := [U; L; R; D; C; A; DR].
Definition alphabet : list jt := [U; L; R; D; C; T; A; DR].
