(* Model/JoiningGen.v — the joining model instantiated with the table, enum numbering and context
   length of the CURRENT source (Gen/JoiningTable.v, regenerated on every run).  No proofs. *)
From Coq Require Import List NArith Bool.
From RB Require Import Gen.JoiningTable Model.Joining.
Import ListNotations.
Local Open Scope N_scope.

Definition gen_enc : enc := {|
  jU := jt_U; jL := jt_L; jR := jt_R; jD := jt_D; jA := jt_ALAPH; jDR := jt_DALATH_RISH; jT := jt_T; jX := jt_X;
  aISOL := act_ISOL; aFINA := act_FINA; aFIN2 := act_FIN2; aFIN3 := act_FIN3;
  aMEDI := act_MEDI; aMED2 := act_MED2; aINIT := act_INIT; aNONE := act_NONE |}.

Definition codes (l : list jt) : list N := map (jcode gen_enc) l.
Definition acodes (l : list action) : list N := map (acode gen_enc) l.

(* the code's arabic_joining on class codes *)
Definition joining_codes (pre text post : list N) : option (list N) :=
  arabic_joining gen_enc state_table context_length pre text post.

(* ... on a sequence of classes *)
Definition joining (pre text post : list jt) : option (list N) :=
  joining_codes (codes pre) (codes text) (codes post).

Definition masks_codes (marr pre text post masks : list N) : option (list N) :=
  setup_masks gen_enc state_table context_length marr pre text post masks.

Definition clen : nat := N.to_nat context_length.
