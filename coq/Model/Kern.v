(* Model/Kern.v — legacy `kern` table application (src/hb/kerning.rs): hb_ot_layout_kern (subtable
   loop with the reversal skeleton for backward directions, the cross-stream "attach everything"
   step), machine_kern (pair selection with the skipping iterator under IgnoreMarks, the k>>1 split,
   cross-stream).  Format-0 subtables only (no state machines, no `variable` subtables).
   Masks: on the modelled domain (global features) `info.mask & kern_mask` is non-zero for every
   glyph iff kerning is requested, so the mask test is the `requested` boolean.

   Two subtable loops are given: `kern_loop` (reversals stay paired: the `requested_kerning` test
   comes before the first reverse — the repaired code) and `kern_loop_unpaired` (the shape of the
   code before the repair: `continue` between the two reverses).  No proofs in this file. *)
From Coq Require Import List NArith ZArith Bool Arith.
From RB Require Import Model.Buffer Model.Font Model.Gpos.
Import ListNotations.
Local Open Scope Z_scope.

(* kern::Subtable::glyphs_kerning for format 0 (pairs sorted by (left, right), unique) *)
Fixpoint kern_lookup (pairs : list (N * N * Z)) (l r : N) : Z :=
  match pairs with
  | [] => 0
  | (a, b, v) :: t => if N.eqb a l && N.eqb b r then v else kern_lookup t l r
  end.

(* i32 `kern >> 1` is the arithmetic shift: floor division by 2 *)
Definition kern1 (k : Z) : Z := Z.shiftr k 1.
Definition kern2 (k : Z) : Z := k - kern1 k.

(* the position update for one selected pair (i, j) with value k <> 0 *)
Definition kern_pair_apply (d : direction) (cross : bool) (ps : list pos) (i j : nat) (k : Z) : list pos :=
  if is_horizontal d then
    if cross then upd ps j (set_yo (getp ps j) k)
    else
      let ps1 := upd ps i (set_xa (getp ps i) (xa (getp ps i) + kern1 k)) in
      upd ps1 j (set_xo (set_xa (getp ps1 j) (xa (getp ps1 j) + kern2 k)) (xo (getp ps1 j) + kern2 k))
  else
    if cross then upd ps j (set_xo (getp ps j) k)
    else
      let ps1 := upd ps i (set_ya (getp ps i) (ya (getp ps i) + kern1 k)) in
      upd ps1 j (set_yo (set_ya (getp ps1 j) (ya (getp ps1 j) + kern2 k)) (yo (getp ps1 j) + kern2 k)).

(* the pairs machine_kern visits, in order: from i, the next glyph not skipped under IgnoreMarks;
   then i := j.  Fuel = len. *)
Fixpoint kern_pairs (fuel : nat) (f : font) (infos : list info) (i : nat) : list (nat * nat) :=
  match fuel with
  | O => []
  | S fuel =>
      if (length infos <=? i)%nat then []
      else match skip_next f LF_IGNORE_MARKS infos i with
           | None => kern_pairs fuel f infos (S i)
           | Some j => (i, j) :: kern_pairs fuel f infos j
           end
  end.

Definition kern_step (d : direction) (cross : bool) (pairs : list (N * N * Z)) (infos : list info)
           (acc : list pos * bool) (ij : nat * nat) : list pos * bool :=
  let '(ps, attach) := acc in
  let '(i, j) := ij in
  let k := kern_lookup pairs (gid (geti infos i)) (gid (geti infos j)) in
  if k =? 0 then (ps, attach)
  else (kern_pair_apply d cross ps i j k, attach || cross).

(* machine_kern *)
Definition machine_kern (f : font) (d : direction) (cross : bool) (pairs : list (N * N * Z))
           (infos : list info) (ps : list pos) (attach : bool) : list pos * bool :=
  fold_left (kern_step d cross pairs infos) (kern_pairs (length infos) f infos O) (ps, attach).

(* the state the subtable loop works on *)
Record kstate := mkK { k_infos : list info; k_ps : list pos; k_attach : bool; k_seen_cross : bool }.

Definition k_reverse (s : kstate) : kstate := mkK (rev (k_infos s)) (rev (k_ps s)) (k_attach s) (k_seen_cross s).

Definition attach_all (d : direction) (ps : list pos) : list pos :=
  map (fun p => set_chain (set_atype p ATTACH_CURSIVE) (if is_forward d then -1 else 1)) ps.

(* the part of the loop body before the reversal: direction filter and the cross-stream chain *)
Definition kern_prologue (d : direction) (st : kern_subtable) (s : kstate) : kstate :=
  if negb (k_seen_cross s) && k_cross_stream st
  then mkK (k_infos s) (attach_all d (k_ps s)) (k_attach s) true
  else s.

(* repaired loop: the `requested` test precedes the first reverse, so reverses stay paired *)
Definition kern_subtable_step (f : font) (d : direction) (requested : bool) (s : kstate) (st : kern_subtable) : kstate :=
  if negb (Bool.eqb (is_horizontal d) (k_horizontal st)) then s
  else
    let s1 := kern_prologue d st s in
    if negb requested then s1
    else
      let s2 := if is_backward d then k_reverse s1 else s1 in
      let '(ps3, a3) := machine_kern f d (k_cross_stream st) (k_pairs st) (k_infos s2) (k_ps s2) (k_attach s2) in
      let s3 := mkK (k_infos s2) ps3 a3 (k_seen_cross s2) in
      if is_backward d then k_reverse s3 else s3.

Definition kern_loop (f : font) (d : direction) (requested : bool) (sts : list kern_subtable) (s : kstate) : kstate :=
  fold_left (kern_subtable_step f d requested) sts s.

(* the shape before the repair: reverse; `if !requested { continue }`; kern; reverse *)
Definition kern_subtable_step_unpaired (f : font) (d : direction) (requested : bool) (s : kstate) (st : kern_subtable) : kstate :=
  if negb (Bool.eqb (is_horizontal d) (k_horizontal st)) then s
  else
    let s1 := kern_prologue d st s in
    let s2 := if is_backward d then k_reverse s1 else s1 in
    if negb requested then s2
    else
      let '(ps3, a3) := machine_kern f d (k_cross_stream st) (k_pairs st) (k_infos s2) (k_ps s2) (k_attach s2) in
      let s3 := mkK (k_infos s2) ps3 a3 (k_seen_cross s2) in
      if is_backward d then k_reverse s3 else s3.

Definition kern_loop_unpaired (f : font) (d : direction) (requested : bool) (sts : list kern_subtable) (s : kstate) : kstate :=
  fold_left (kern_subtable_step_unpaired f d requested) sts s.

(* hb_ot_layout_kern *)
Definition hb_ot_layout_kern (f : font) (d : direction) (requested : bool) (infos : list info) (ps : list pos) (attach : bool)
  : list info * list pos * bool :=
  match f_kern f with
  | None => (infos, ps, attach)
  | Some sts =>
      let s := kern_loop f d requested sts (mkK infos ps attach false) in
      (k_infos s, k_ps s, k_attach s)
  end.
