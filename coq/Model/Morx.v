(* Model/Morx.v — executable model of src/hb/aat_layout_morx_table.rs (AAT extended glyph
   metamorphosis) over the zipper buffer of Model/Buffer.v and the parsed font view of Model/Font.v.

   What is modelled (glyph ids and clusters; glyph FLAGS are not: `unsafe_to_break*`,
   `unsafe_to_concat` and the "safe to break" analysis of `drive` only touch mask bits, which never
   feed back into glyph ids or clusters):
     * AAT lookup tables, formats 0/2/6/8, as ttf-parser reads what fontgen writes (`aat_value`);
     * the extended state table: class of a glyph, entry of (state, class);
     * `drive`: the state-machine loop with the DONT_ADVANCE budget (`buffer.max_ops`), explicit fuel;
     * the five subtable kinds: rearrangement (literal nibble-MAP implementation with its index
       loops), contextual, ligature (component stack, action loop), non-contextual, insertion.
   Table accesses outside the arrays written in the font are NOT errors in the real parser (the
   arrays are unsized: it reads the adjacent bytes); the model takes the `None => break` path and
   raises the sticky flag AMB_TABLE: such a run is outside the domain where the model speaks.
   Exceeding the buffer length budget (`successful = false`) raises AMB_ALLOC (content unspecified).
   A Rust panic is `Error _`.  No proofs in this file. *)
From Coq Require Import List NArith ZArith Bool Arith.
From RB Require Import Base.Result Model.Buffer Model.Font.
Import ListNotations.
Local Open Scope N_scope.

Definition has (flags m : N) : bool := negb (N.land flags m =? 0).

Definition AMB_TABLE : N := 1.
Definition AMB_ALLOC : N := 2.
Definition DELETED_GLYPH : N := 65535.

(* ------------------------------------------------------------------ AAT lookup tables *)

Inductive role := RClass | RGlyph.

Definition fill_value (l : aat_lookup) (r : role) (g : N) : N :=
  match al_fill l with
  | Some v => v
  | None => match r with RClass => 1 | RGlyph => g end
  end.

Definition first_key (m : list (N * N)) : option N := match m with (g, _) :: _ => Some g | [] => None end.
Definition last_key (m : list (N * N)) : option N := first_key (rev m).

(* value of the lookup table for glyph g; None = not covered (ttf-parser `Lookup::value`) *)
Definition aat_value (l : aat_lookup) (r : role) (ng g : N) : option N :=
  let hit := assoc g (al_map l) in
  let filled := match hit with Some v => v | None => fill_value l r g end in
  match al_format l with
  | 0 => if g <? ng then Some filled else None
  | 8 => match first_key (al_map l), last_key (al_map l) with
         | Some f, Some la => if (f <=? g) && (g <=? la) then Some filled else None
         | _, _ => None
         end
  | _ => hit
  end.

(* `Lookup::parse`: binary-search formats with zero units are rejected; unknown formats too *)
Definition aat_parses (l : aat_lookup) : bool :=
  match al_format l with
  | 0 | 8 => true
  | 2 | 6 => match al_map l with [] => false | _ => true end
  | _ => false
  end.

(* ------------------------------------------------------------------ extended state table *)

(* ExtendedStateTable::class + `.unwrap_or(1)` of drive *)
Definition glyph_class {E} (st : state_table E) (ng g : N) : N :=
  if g =? DELETED_GLYPH then 2
  else match aat_value (st_class_lookup st) RClass ng g with Some c => c | None => 1 end.

(* ExtendedStateTable::entry; None = outside the written state array / entry table *)
Definition st_entry {E} (st : state_table E) (state cls : N) : option E :=
  let cls := if st_nclasses st <=? cls then 1 else cls in
  match nth_error (st_states st) (N.to_nat state) with
  | Some row =>
      match nth_error row (N.to_nat cls) with
      | Some ei => nth_error (st_entries st) (N.to_nat ei)
      | None => None
      end
  | None => None
  end.

(* ------------------------------------------------------------------ drive *)

Record machine (E C : Type) := mkMachine {
  m_in_place : bool;
  m_new_state : E -> N;
  m_can_advance : E -> bool;
  (* context, entry, buffer, max_ops -> context, buffer, max_ops, ambiguity flags *)
  m_transition : C -> E -> zbuf -> Z -> result (C * zbuf * Z * N)
}.
Arguments mkMachine {E C}. Arguments m_in_place {E C}. Arguments m_new_state {E C}.
Arguments m_can_advance {E C}. Arguments m_transition {E C}.

Definition cur_class {E} (st : state_table E) (ng : N) (b : zbuf) : N :=
  match rest b with x :: _ => glyph_class st ng (gid x) | [] => 0 (* END_OF_TEXT *) end.

(* ---- per-range feature flags (hb_aat_map_t chain_flags with more than one range): when user
   features are restricted to cluster ranges, `drive` looks up the range of the current glyph's cluster
   and skips the glyph (state := start of text) when the subtable's feature flags miss that range *)
Definition rflags := list (N * N * N).            (* flags, cluster_first, cluster_last *)
Record rgate := mkGate { g_ranges : rflags; g_sub : N (* subtable feature flags *) }.

(* `while cluster < range_flags[range].cluster_first { range -= 1 }` *)
Fixpoint seek_down (rs : rflags) (fuel r : nat) (cl : N) : result nat :=
  match nth_error rs r with
  | None => Error Oob
  | Some (_, first, _) =>
    if cl <? first then
      match r, fuel with
      | O, _ => Error Overflow
      | S r', S f => seek_down rs f r' cl
      | _, O => Error OutOfFuel
      end
    else Ok r
  end.
(* `while cluster > range_flags[range].cluster_last { range += 1 }` *)
Fixpoint seek_up (rs : rflags) (fuel r : nat) (cl : N) : result nat :=
  match nth_error rs r with
  | None => Error Oob
  | Some (_, _, last) =>
    if last <? cl then
      match fuel with
      | S f => seek_up rs f (S r) cl
      | O => Error OutOfFuel
      end
    else Ok r
  end.
Definition seek_range (rs : rflags) (r : nat) (cl : N) : result nat :=
  do r1 <- seek_down rs (length rs) r cl; seek_up rs (length rs) r1 cl.

(* the range used for this iteration (unchanged at end of text) and whether the subtable acts there *)
Definition gate_range (g : rgate) (lr : nat) (b : zbuf) : result nat :=
  match rest b with x :: _ => seek_range (g_ranges g) lr (cluster x) | [] => Ok lr end.
Definition gate_open (g : rgate) (r : nat) : bool :=
  match nth_error (g_ranges g) r with
  | Some (fl, _, _) => negb (N.land fl (g_sub g) =? 0)
  | None => false
  end.

(* the loop of `drive`; None = out of fuel.  `rest b = []` is `idx >= len`.  A failed `next_glyph`
   (length budget) ends the model's run with AMB_ALLOC: the real loop does one more transition on an
   unspecified buffer.  `gate = None`: a single range, already tested by `apply`. *)
Definition dres (C : Type) := result (C * zbuf * Z * N).

Fixpoint drive_loop {E C} (M : machine E C) (st : state_table E) (ng : N)
         (fuel : nat) (state : N) (c : C) (b : zbuf) (ops : Z) (amb : N)
         (gate : option rgate) (lr : nat) : option (dres C) :=
  match fuel with
  | O => None
  | S fuel =>
    match (match gate with
           | None => Ok (lr, true)
           | Some g => do r <- gate_range g lr b; Ok (r, gate_open g r)
           end) with
    | Error er => Some (Error er)
    | Ok (lr1, false) =>
      (* the subtable is off in this range: skip the glyph, back to start of text *)
      match rest b with
      | [] => Some (Ok (c, b, ops, amb))
      | _ :: _ =>
        if negb (ok b) then Some (Ok (c, b, ops, N.lor amb AMB_ALLOC))
        else
          match next_glyph b with
          | Error er => Some (Error er)
          | Ok b2 =>
            if ok b2 then drive_loop M st ng fuel 0 c b2 ops amb gate lr1
            else Some (Ok (c, b2, ops, N.lor amb AMB_ALLOC))
          end
      end
    | Ok (lr1, true) =>
    match st_entry st state (cur_class st ng b) with
    | None => Some (Ok (c, b, ops, N.lor amb AMB_TABLE))
    | Some e =>
      match m_transition M c e b ops with
      | Error er => Some (Error er)
      | Ok (c1, b1, ops1, a1) =>
        let amb1 := N.lor amb a1 in
        match rest b1 with
        | [] => Some (Ok (c1, b1, ops1, amb1))
        | _ :: _ =>
          if negb (ok b1) then Some (Ok (c1, b1, ops1, N.lor amb1 AMB_ALLOC))
          else if m_can_advance M e then
            match next_glyph b1 with
            | Error er => Some (Error er)
            | Ok b2 =>
              if ok b2 then drive_loop M st ng fuel (m_new_state M e) c1 b2 ops1 amb1 gate lr1
              else Some (Ok (c1, b2, ops1, N.lor amb1 AMB_ALLOC))
            end
          else
            match (if (ops1 <=? 0)%Z then next_glyph b1 else Ok b1) with
            | Error er => Some (Error er)
            | Ok b2 =>
              if ok b2 then drive_loop M st ng fuel (m_new_state M e) c1 b2 (ops1 - 1)%Z amb1 gate lr1
              else Some (Ok (c1, b2, (ops1 - 1)%Z, N.lor amb1 AMB_ALLOC))
            end
        end
      end
    end
    end
  end.

(* the potential that bounds the number of iterations: remaining input + remaining budget *)
Definition drive_potential (b : zbuf) (ops : Z) : nat := (length (rest b) + Z.to_nat ops)%nat.
Definition drive_fuel (b : zbuf) (ops : Z) : nat := S (drive_potential b ops).

(* buffer as `drive` finds it after `clear_output` (if not in place) and `idx = 0` *)
Definition drive_start (in_place : bool) (b : zbuf) : zbuf :=
  if in_place then with_pr b [] (arr b) O else clear_output b.

(* `ecap` is an EVALUATION device, not part of the modelled code: when non-zero it cuts the loop of a
   streaming (not in-place) subtable after `ecap` iterations with Error OutOfFuel, so that the
   correspondence run can abandon cases whose intermediate buffer explodes (the list-based buffer model
   is quadratic there) — such a case is reported as not evaluated, never as agreeing.  0 = no cut:
   the fuel is drive_fuel, which the totality theorems show to be sufficient. *)
Definition eval_fuel (in_place : bool) (ecap full : nat) : nat :=
  if in_place then full else match ecap with O => full | _ => Nat.min full ecap end.

Definition drive {E C} (M : machine E C) (st : state_table E) (ng : N) (gate : option rgate) (ecap : nat) (c0 : C) (b : zbuf) (ops : Z)
  : result (zbuf * Z * N) :=
  let b0 := drive_start (m_in_place M) b in
  match drive_loop M st ng (eval_fuel (m_in_place M) ecap (drive_fuel b0 ops)) 0 c0 b0 ops 0 gate O with
  | None => Error OutOfFuel
  | Some (Error e) => Error e
  | Some (Ok (_, b1, ops1, amb)) =>
    if m_in_place M then Ok (b1, ops1, amb)
    else
      do s <- sync b1;
      match s with
      | Some b2 => Ok (b2, ops1, amb)
      | None => Ok (b1, ops1, N.lor amb AMB_ALLOC)
      end
  end.

(* ------------------------------------------------------------------ array helpers (in-place mode) *)

Definition dflt_info : info := mkInfo 0 0 0 0 0.
Definition aget (a : list info) (i : nat) : info := nth i a dflt_info.
Fixpoint upd_nth {A} (l : list A) (i : nat) (v : A) : list A :=
  match l, i with
  | [], _ => []
  | _ :: t, O => v :: t
  | x :: t, S i => x :: upd_nth t i v
  end.
(* a[i] = x (in-range writes only: every index the callers compute is inside the marked range) *)
Definition aset (a : list info) (i : nat) (x : info) : list info := upd_nth a i x.
Definition aswap (a : list info) (i j : nat) : list info :=
  let x := aget a i in let y := aget a j in aset (aset a i y) j x.

(* for i in is: a[dst + i] = a[src + i] *)
Definition copy_loop (a : list info) (dst src : nat) (is : list nat) : list info :=
  fold_left (fun a i => aset a (dst + i) (aget a (src + i))) is a.
(* for i in 0..len(v): a[p + i] = v[i] *)
Definition write_loop (a : list info) (p : nat) (v : list info) : list info :=
  fold_left (fun a i => aset a (p + i) (aget v i)) (seq 0 (length v)) a.
(* [a[p]; ...; a[p+k-1]] *)
Definition read_block (a : list info) (p k : nat) : list info := map (fun i => aget a (p + i)) (seq 0 k).

Definition set_gid_at (b : zbuf) (i : nat) (g : N) : zbuf :=
  of_arr b (map_range (fun x => set_gid x g) i (S i) (arr b)).

(* ------------------------------------------------------------------ rearrangement *)

Definition REARR_MAP : list N :=
  [ 0x00; 0x10; 0x01; 0x11; 0x20; 0x30; 0x02; 0x03; 0x12; 0x13; 0x21; 0x31; 0x22; 0x32; 0x23; 0x33 ].
Definition MAX_CONTEXT_LENGTH : nat := 64.

Definition map_l (m : N) : nat := Nat.min 2 (N.to_nat (N.shiftr m 4)).
Definition map_r (m : N) : nat := Nat.min 2 (N.to_nat (N.land m 15)).
Definition map_rev_l (m : N) : bool := N.shiftr m 4 =? 3.
Definition map_rev_r (m : N) : bool := N.land m 15 =? 3.

(* the body of the verb on the marked range rng = info[start..end) in range-relative indices
   (start = 0, end = length rng), loops as in the source *)
Definition rearrange_range (m : N) (rng : list info) : list info :=
  let l := map_l m in
  let r := map_r m in
  let en := length rng in
  if ((l + r <=? en) && (en <=? MAX_CONTEXT_LENGTH))%nat then
    let bufl := read_block rng 0 l in
    let bufr := read_block rng (en - r) r in
    let n := (en - l - r)%nat in
    let a1 := if (r <? l)%nat then copy_loop rng r l (seq 0 n)
              else if (l <? r)%nat then copy_loop rng r l (rev (seq 0 n))
              else rng in
    let a2 := write_loop a1 0 bufr in
    let a3 := write_loop a2 (en - l) bufl in
    let a4 := if map_rev_l m then aswap a3 (en - 1) (en - 2) else a3 in
    let a5 := if map_rev_r m then aswap a4 0 1 else a4 in
    a5
  else rng.

Definition rearrange_verb (verb : N) (rng : list info) : list info :=
  rearrange_range (nth (N.to_nat verb) REARR_MAP 0) rng.

Definition rearr_ctx := (nat * nat)%type.   (* start, end *)

Definition rearr_transition (c : rearr_ctx) (e : rearr_entry) (b : zbuf) (ops : Z)
  : result (rearr_ctx * zbuf * Z * N) :=
  let fl := re_flags e in
  let idx := dead b in
  let len := blen b in
  let s := if has fl 0x8000 then idx else fst c in
  let en := if has fl 0x2000 then Nat.min (idx + 1) len else snd c in
  let verb := N.land fl 15 in
  if (negb (verb =? 0) && (s <? en)%nat)%bool then
    let m := nth (N.to_nat verb) REARR_MAP 0 in
    if ((map_l m + map_r m <=? en - s) && (en - s <=? MAX_CONTEXT_LENGTH))%nat then
      do b1 <- merge_clusters_full b s (Nat.min (idx + 1) len);
      do b2 <- merge_clusters_full b1 s en;
      let a := arr b2 in
      Ok ((s, en), of_arr b2 (firstn s a ++ rearrange_range m (slice a s en) ++ skipn en a), ops, 0)
    else Ok ((s, en), b, ops, 0)
  else Ok ((s, en), b, ops, 0).

Definition rearr_machine : machine rearr_entry rearr_ctx :=
  mkMachine true re_new_state (fun e => negb (has (re_flags e) 0x4000)) rearr_transition.

(* ------------------------------------------------------------------ contextual *)

Definition ctx_ctx := (bool * nat)%type.   (* mark_set, mark *)

(* the replacement the substitution table `index` gives for glyph g.
   inl None: no replacement; inl (Some r): replace; inr amb: the transition returns here (`?`) *)
Definition ctx_replacement (subs : list aat_lookup) (ng : N) (index g : N) : option N + N :=
  if index =? 65535 then inl None
  else match nth_error subs (N.to_nat index) with
       | None => inr AMB_TABLE                      (* offset array is unsized *)
       | Some l => if aat_parses l then inl (aat_value l RGlyph ng g) else inr 0
       end.

Definition ctx_transition (subs : list aat_lookup) (ng : N) (c : ctx_ctx) (e : ctx_entry) (b : zbuf) (ops : Z)
  : result (ctx_ctx * zbuf * Z * N) :=
  let '(mark_set, mark) := c in
  let idx := dead b in
  let len := blen b in
  if ((idx =? len)%nat && negb mark_set)%bool then Ok (c, b, ops, 0)
  else
    (* marked glyph *)
    do g_mark <- (if ce_mark_index e =? 65535 then Ok 0
                  else match nth_error (arr b) mark with Some x => Ok (gid x) | None => Error Oob end);
    match ctx_replacement subs ng (ce_mark_index e) g_mark with
    | inr amb => Ok (c, b, ops, amb)
    | inl rm =>
      let b1 := match rm with Some r => set_gid_at b mark r | None => b end in
      if (len =? 0)%nat then Error Overflow   (* len - 1 *)
      else
      let i := Nat.min idx (len - 1) in
      do g_cur <- (if ce_current_index e =? 65535 then Ok 0
                   else match nth_error (arr b1) i with Some x => Ok (gid x) | None => Error Oob end);
      match ctx_replacement subs ng (ce_current_index e) g_cur with
      | inr amb => Ok (c, b1, ops, amb)
      | inl rc =>
        let b2 := match rc with Some r => set_gid_at b1 i r | None => b1 end in
        let c2 := if has (ce_flags e) 0x8000 then (true, idx) else c in
        Ok (c2, b2, ops, 0)
      end
    end.

Definition ctx_machine (subs : list aat_lookup) (ng : N) : machine ctx_entry ctx_ctx :=
  mkMachine true ce_new_state (fun e => negb (has (ce_flags e) 0x4000)) (ctx_transition subs ng).

(* ------------------------------------------------------------------ non-contextual *)

Definition nonctx_glyph (l : aat_lookup) (ng : N) (x : info) : info :=
  match aat_value l RGlyph ng (gid x) with Some r => set_gid x r | None => x end.

Definition apply_noncontextual (l : aat_lookup) (ng : N) (b : zbuf) : zbuf :=
  of_arr b (map (nonctx_glyph l ng) (arr b)).

(* ------------------------------------------------------------------ ligature *)

Definition LIG_MAX_MATCHES : nat := 64.
Definition lig_ctx := (nat * list nat)%type.   (* match_length, match_positions (64 slots) *)

Definition pos_get (ps : list nat) (i : nat) : nat := nth (i mod LIG_MAX_MATCHES) ps O.
Definition pos_set (ps : list nat) (i v : nat) : list nat := upd_nth ps (i mod LIG_MAX_MATCHES) v.
Definition lig_ctx0 : lig_ctx := (O, repeat O LIG_MAX_MATCHES).

(* move_to with the result flag dropped, as every call site does *)
Definition mv (b : zbuf) (i : nat) : result zbuf := do r <- move_to b i; Ok (snd r).

(* sign extension of the 30-bit action offset *)
Definition lig_offset (action : N) : Z :=
  let u := N.land action 0x3FFFFFFF in
  if has u 0x20000000 then (Z.of_N u - 1073741824)%Z else Z.of_N u.

(* `while match_length - 1 > cursor`: k = match_length - 1 - cursor rounds *)
Fixpoint lig_delete (ps : list nat) (k : nat) (ml : nat) (b : zbuf) : result (nat * zbuf) :=
  match k with
  | O => Ok (ml, b)
  | S k =>
    let ml' := (ml - 1)%nat in
    do b1 <- mv b (pos_get ps ml');
    do b2 <- replace_glyph b1 DELETED_GLYPH;   (* IGNORABLE unicode prop: not modelled (var) *)
    lig_delete ps k ml' b2
  end.

(* the action loop; recursion on `cursor`.  Result: match_length, buffer, ambiguity flags *)
Fixpoint lig_loop (actions comps ligs : list N) (ps : list nat)
         (cursor : nat) (ml : nat) (ai : N) (lidx : N) (b : zbuf) : result (nat * zbuf * N) :=
  match cursor with
  | O => Ok (O, b, 0)                       (* stack underflow: clear the stack *)
  | S cur =>
    do b1 <- mv b (pos_get ps cur);
    match nth_error actions (N.to_nat ai) with
    | None => Ok (ml, b1, AMB_TABLE)
    | Some action =>
      match rest b1 with
      | [] => Error Oob                     (* cur(0) past the end *)
      | x :: _ =>
        let ci := (Z.of_N (gid x) + lig_offset action)%Z in
        if (ci <? 0)%Z then Ok (ml, b1, 0)  (* as u32: beyond any array => None => break *)
        else
          match nth_error comps (Z.to_nat ci) with
          | None => Ok (ml, b1, AMB_TABLE)
          | Some cv =>
            let lidx' := lidx + cv in                (* u32 accumulator: cannot wrap (at most 64 u16 components) *)
            if has action 0xC0000000 then
              match nth_error ligs (N.to_nat lidx') with
              | None => Ok (ml, b1, AMB_TABLE)
              | Some lig =>
                do b2 <- replace_glyph b1 lig;
                let lig_end := S (pos_get ps (ml - 1)) in
                do r <- lig_delete ps (ml - 1 - cur) ml b2;
                let '(ml', b3) := r in
                do b4 <- mv b3 lig_end;
                do b5 <- merge_out_clusters b4 (pos_get ps cur) (out_len b4);
                if has action 0x80000000 then Ok (ml', b5, 0)
                else lig_loop actions comps ligs ps cur ml' (ai + 1) lidx' b5
              end
            else lig_loop actions comps ligs ps cur ml (ai + 1) lidx' b1
          end
      end
    end
  end.

Definition lig_transition (actions comps ligs : list N) (c : lig_ctx) (e : lig_entry) (b : zbuf) (ops : Z)
  : result (lig_ctx * zbuf * Z * N) :=
  let '(ml0, ps0) := c in
  let fl := le_flags e in
  let ol := out_len b in
  let '(ml, ps) :=
    if has fl 0x8000 then
      let ml1 := if (negb (ml0 =? 0)%nat && (pos_get ps0 (ml0 - 1) =? ol)%nat)%bool then (ml0 - 1)%nat else ml0 in
      (S ml1, pos_set ps0 ml1 ol)
    else (ml0, ps0) in
  if has fl 0x2000 then
    if (ml =? 0)%nat then Ok ((ml, ps), b, ops, 0)
    else match rest b with
         | [] => Ok ((ml, ps), b, ops, 0)
         | _ :: _ =>
           do r <- lig_loop actions comps ligs ps ml ml (le_action_index e) 0 b;
           let '(ml', b1, amb) := r in
           do b2 <- mv b1 ol;
           Ok ((ml', ps), b2, ops, amb)
         end
  else Ok ((ml, ps), b, ops, 0).

Definition lig_machine (actions comps ligs : list N) : machine lig_entry lig_ctx :=
  mkMachine false le_new_state (fun e => negb (has (le_flags e) 0x4000)) (lig_transition actions comps ligs).

(* ------------------------------------------------------------------ insertion *)

(* glyphs[start .. start+count); None = beyond the written array *)
Fixpoint ins_list (glyphs : list N) (start : N) (count : nat) : option (list N) :=
  match count with
  | O => Some []
  | S k => match nth_error glyphs (N.to_nat start), ins_list glyphs (start + 1) k with
           | Some g, Some t => Some (g :: t)
           | _, _ => None
           end
  end.

Fixpoint output_glyphs (b : zbuf) (gs : list N) : result zbuf :=
  match gs with
  | [] => Ok b
  | g :: t => do b1 <- output_glyph b g; output_glyphs b1 t
  end.

Definition nonempty {A} (l : list A) : bool := match l with [] => false | _ => true end.

(* copy_glyph? ; output_glyph* ; skip_glyph? *)
Definition ins_block (b : zbuf) (before : bool) (gs : list N) : result zbuf :=
  do b1 <- (if (nonempty (rest b) && negb before)%bool then copy_glyph b else Ok b);
  do b2 <- output_glyphs b1 gs;
  if (nonempty (rest b2) && negb before)%bool then skip_glyph b2 else Ok b2.

(* `checked_insert_count`: the glyphs to insert, and the count used for the final move — nothing
   and 0 when the list does not hold `count` glyphs from `start` (the real array is unsized, so a
   miss in the written list is also AMB_TABLE) *)
Definition ins_checked (glyphs : list N) (start count : N) : list N * nat * N :=
  match ins_list glyphs start (N.to_nat count) with
  | Some gs => (gs, N.to_nat count, 0)
  | None => ([], O, AMB_TABLE)
  end.

Definition ins_transition (glyphs : list N) (mark : nat) (e : ins_entry) (b : zbuf) (ops : Z)
  : result (nat * zbuf * Z * N) :=
  let fl := ie_flags e in
  let mark_loc := out_len b in
  (* marked insertion; `inr` = the transition returns *)
  do r1 <- (if ie_marked_index e =? 65535 then Ok (inl (b, ops, 0))
            else
              let count := N.land fl 0x1F in
              let ops1 := (ops - Z.of_N count)%Z in
              if (ops1 <=? 0)%Z then Ok (inr (b, ops1))
              else
                let '(gs, cnt, amb) := ins_checked glyphs (ie_marked_index e) count in
                let before := has fl 0x0400 in
                let en := out_len b in
                do b1 <- mv b mark;
                do b2 <- ins_block b1 before gs;
                do b3 <- mv b2 (en + cnt);
                Ok (inl (b3, ops1, amb)));
  match r1 with
  | inr (b1, ops1) => Ok (mark, b1, ops1, 0)
  | inl (b1, ops1, amb1) =>
    let mark1 := if has fl 0x8000 then mark_loc else mark in
    if ie_current_index e =? 65535 then Ok (mark1, b1, ops1, amb1)
    else
      let count := N.shiftr (N.land fl 0x03E0) 5 in
      let ops2 := (ops1 - Z.of_N count)%Z in
      if (ops2 <? 0)%Z then Ok (mark1, b1, ops2, amb1)
      else
        let '(gs, cnt, amb2) := ins_checked glyphs (ie_current_index e) count in
        let before := has fl 0x0800 in
        let en := out_len b1 in
        do b2 <- ins_block b1 before gs;
        do b3 <- mv b2 (if has fl 0x4000 then en else (en + cnt)%nat);
        Ok (mark1, b3, ops2, N.lor amb1 amb2)
  end.

Definition ins_machine (glyphs : list N) : machine ins_entry nat :=
  mkMachine false ie_new_state (fun e => negb (has (ie_flags e) 0x4000)) (ins_transition glyphs).

(* ------------------------------------------------------------------ apply_subtable *)

(* does ttf-parser accept the subtable?  (a rejected subtable ends the iteration over the chain) *)
Definition kind_parses (k : morx_kind) : bool :=
  match k with
  | MRearrangement t => aat_parses (st_class_lookup t)
  | MContextual t _ => aat_parses (st_class_lookup t)
  | MLigature t _ _ _ => aat_parses (st_class_lookup t)
  | MNonContextual l => aat_parses l
  | MInsertion t _ => aat_parses (st_class_lookup t)
  end.

Definition kind_code (k : morx_kind) : N :=
  match k with
  | MRearrangement _ => 0 | MContextual _ _ => 1 | MLigature _ _ _ _ => 2
  | MNonContextual _ => 4 | MInsertion _ _ => 5
  end.

(* NonContextual with several ranges: every glyph is gated by the range of ITS cluster
   (`ac.buffer.info[i].cluster`; fixed in b49677d — before, the cluster at buffer.idx gated all) *)
Fixpoint nonctx_gated_loop (l : aat_lookup) (ng : N) (g : rgate) (lr : nat) (a : list info) : result (list info) :=
  match a with
  | [] => Ok []
  | x :: t =>
    do r <- seek_range (g_ranges g) lr (cluster x);
    do t' <- nonctx_gated_loop l ng g r t;
    Ok ((if gate_open g r then nonctx_glyph l ng x else x) :: t')
  end.
Definition apply_noncontextual_gated (l : aat_lookup) (ng : N) (g : rgate) (b : zbuf) : result zbuf :=
  do a <- nonctx_gated_loop l ng g O (arr b); Ok (of_arr b a).

Definition apply_subtable (k : morx_kind) (ng : N) (gate : option rgate) (ecap : nat) (b : zbuf) (ops : Z) : result (zbuf * Z * N) :=
  match k with
  (* only insertion makes the buffer grow: the evaluation cut applies there *)
  | MRearrangement t => drive rearr_machine t ng gate O (O, O) b ops
  | MContextual t subs => drive (ctx_machine subs ng) t ng gate O (false, O) b ops
  | MLigature t actions comps ligs => drive (lig_machine actions comps ligs) t ng gate O lig_ctx0 b ops
  | MNonContextual l =>
    match gate with
    | None => Ok (apply_noncontextual l ng b, ops, 0)
    | Some g => do b1 <- apply_noncontextual_gated l ng g b; Ok (b1, ops, 0)
    end
  | MInsertion t glyphs => drive (ins_machine glyphs) t ng gate ecap O b ops
  end.
