(* Model/MorxFeat.v — executable model of AAT chain-flag compilation for user features:
   src/hb/aat_map.rs (hb_aat_map_builder_t::add_feature, ::compile) and
   src/hb/aat_layout_morx_table.rs (compile_flags; modelled by MorxPipe.chain_flags with the
   `has_feature` predicate built here).

     user features (tag, value, start, end), in request order
       --add_feature-->  feature ranges (AAT type, selector, exclusive; start, end)
            gate: the font must have a `feat` table; 'aalt' needs feat type 17 with settings and takes
            the VALUE as selector (a value above 0xFFFF contributes nothing);
            other tags go through the mapping table (Gen/MorxFeatMap.v, binary search = lookup by tag),
            need a feat record of the mapped type with at least one setting (lower-case small caps
            falls back to the letter-case record), selector = enable if value <> 0 else disable
       --compile-->      cluster ranges, each with the sorted, de-duplicated set of active features
            events (start, on) / (end, off), stable sort by (index, off-before-on), a final event at
            u32::MAX; a range is emitted whenever the event index moves
       --compile_flags-> per chain and range: fold over the chain's feature entries IN TABLE ORDER,
            `flags = (flags & disable) | enable` for every entry whose (type, setting) is active
            (deprecated letter-case small caps entry: also when lower-case small caps is active).
   No proofs in this file. *)
From Coq Require Import List NArith Bool Arith.
From RB Require Import Base.Result Model.Font Gen.MorxFeatMap.
Import ListNotations.
Local Open Scope N_scope.

(* (feature type, setting selectors, exclusive) — sorted by type (ttf-parser binary-searches) *)
Definition feat_table := list (N * list N * bool).
Record ufeature := mkUF { uf_tag : N; uf_value : N; uf_start : N; uf_end : N }.
Record finfo := mkFI { fi_kind : N; fi_setting : N; fi_excl : bool }.
Record frange := mkFR { fr_info : finfo; fr_start : N; fr_end : N }.

Definition U32MAX : N := 4294967295.
Definition TAG_AALT : N := 1633774708.   (* 'aalt' *)

(* feat.names.find(type) — first record of that type (records are sorted, types unique) *)
Fixpoint feat_find (t : feat_table) (ty : N) : option (list N * bool) :=
  match t with
  | [] => None
  | (ty', settings, ex) :: r => if ty' =? ty then Some (settings, ex) else feat_find r ty
  end.

(* a record that exposes at least one setting *)
Definition feat_exposed (t : feat_table) (ty : N) : option bool :=
  match feat_find t ty with
  | Some (_ :: _, ex) => Some ex
  | _ => None
  end.

Fixpoint mapping_find (l : list (N * N * N * N)) (tag : N) : option (N * N * N) :=
  match l with
  | [] => None
  | (t, ty, en, dis) :: r => if t =? tag then Some (ty, en, dis) else mapping_find r tag
  end.

(* hb_aat_map_builder_t::add_feature: the ranges one user feature contributes *)
Definition add_feature (feat : option feat_table) (f : ufeature) : result (list frange) :=
  match feat with
  | None => Ok []
  | Some t =>
    if uf_tag f =? TAG_AALT then
      match feat_exposed t aat_type_character_alternatives with
      | None => Ok []
      | Some _ =>
        if 65535 <? uf_value f then Ok []                  (* a selector beyond u16 matches nothing (fixed in 7c3bda2; it panicked) *)
        else Ok [mkFR (mkFI aat_type_character_alternatives (uf_value f) true) (uf_start f) (uf_end f)]
              (* falls through to the mapping lookup, where 'aalt' is not found *)
      end
    else
      match mapping_find aat_feature_mappings (uf_tag f) with
      | None => Ok []
      | Some (ty, en, dis) =>
        let name :=
          match feat_exposed t ty with
          | Some ex => Some ex
          | None => if (ty =? aat_type_lower_case) && (en =? aat_selector_lower_case_small_caps)
                    then feat_exposed t aat_type_letter_case else None
          end in
        match name with
        | Some ex => Ok [mkFR (mkFI ty (if uf_value f =? 0 then dis else en) ex) (uf_start f) (uf_end f)]
        | None => Ok []
        end
      end
  end.

Fixpoint add_features (feat : option feat_table) (fs : list ufeature) : result (list frange) :=
  match fs with
  | [] => Ok []
  | f :: r => do a <- add_feature feat f; do b <- add_features feat r; Ok (a ++ b)
  end.

(* ---- feature_info_t ordering and the sort + de-duplication of the active set *)
Definition pair_of (s : N) : N := N.shiftr s 1.        (* setting & !1, compared *)

(* Ordering::Less of feature_info_t::partial_cmp *)
Definition info_lt (a b : finfo) : bool :=
  if negb (fi_kind a =? fi_kind b) then fi_kind a <? fi_kind b
  else if negb (fi_excl a) && negb (pair_of (fi_setting a) =? pair_of (fi_setting b))
       then fi_setting a <? fi_setting b
       else false.

(* stable sort: each element goes after everything that is not greater than it *)
Fixpoint insert_stable {A} (lt : A -> A -> bool) (x : A) (l : list A) : list A :=
  match l with
  | [] => [x]
  | y :: t => if lt x y then x :: l else y :: insert_stable lt x t
  end.
Definition stable_sort {A} (lt : A -> A -> bool) (l : list A) : list A :=
  fold_left (fun acc x => insert_stable lt x acc) l [].

(* the j/i loop: an entry is kept unless it has the kind of the last kept one and (is exclusive or
   addresses the same on/off selector pair) *)
Fixpoint dedupe_from (last : finfo) (l : list finfo) : list finfo :=
  match l with
  | [] => []
  | x :: t =>
    if negb (fi_kind x =? fi_kind last) || (negb (fi_excl x) && negb (pair_of (fi_setting x) =? pair_of (fi_setting last)))
    then x :: dedupe_from x t
    else dedupe_from last t
  end.
Definition dedupe (l : list finfo) : list finfo :=
  match l with [] => [] | x :: t => x :: dedupe_from x t end.

Definition current_features (active : list finfo) : list finfo := dedupe (stable_sort info_lt active).

(* has_feature: binary search by (kind, setting) on the sorted set = membership *)
Definition has_feature (cur : list finfo) (kind setting : N) : bool :=
  existsb (fun i => (fi_kind i =? kind) && (fi_setting i =? setting)) cur.

(* ---- events *)
Definition fevent := (N * bool * finfo)%type.     (* index, start, feature *)
Definition event_lt (a b : fevent) : bool :=
  let '(ia, sa, _) := a in let '(ib, sb, _) := b in
  if negb (ia =? ib) then ia <? ib else (negb sa && sb).

Definition events_of (rs : list frange) : list fevent :=
  concat (map (fun r => if fr_start r =? fr_end r then []
                        else [(fr_start r, true, fr_info r); (fr_end r, false, fr_info r)]) rs).

Definition finfo_eqb (a b : finfo) : bool :=
  (fi_kind a =? fi_kind b) && (fi_setting a =? fi_setting b) && Bool.eqb (fi_excl a) (fi_excl b).
Fixpoint remove_first (x : finfo) (l : list finfo) : list finfo :=
  match l with
  | [] => []
  | y :: t => if finfo_eqb y x then t else y :: remove_first x t
  end.

(* a compiled range: active feature set, first cluster, last cluster *)
Definition crange := (list finfo * N * N)%type.

Fixpoint scan_events (evs : list fevent) (active : list finfo) (last_index : N) (acc : list crange) : list crange :=
  match evs with
  | [] => rev acc
  | (idx, st, fe) :: t =>
    let '(acc1, li1) :=
      if negb (idx =? last_index) then ((current_features active, last_index, idx - 1) :: acc, idx)
      else (acc, last_index) in
    scan_events t (if st then active ++ [fe] else remove_first fe active) li1 acc1
  end.

Definition set_last_global (l : list crange) : list crange :=
  match rev l with
  | [] => []
  | (cur, a, _) :: r => rev ((cur, a, U32MAX) :: r)
  end.

(* hb_aat_map_builder_t::compile without the per-chain flags *)
Definition compile_ranges (rs : list frange) : list crange :=
  let evs := stable_sort event_lt (events_of rs) ++ [(U32MAX, false, mkFI 0 0 false)] in
  set_last_global (scan_events evs [] 0 []).

Definition user_ranges (feat : option feat_table) (fs : list ufeature) : result (list crange) :=
  do rs <- add_features feat fs; Ok (compile_ranges rs).
