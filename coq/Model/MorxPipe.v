(* Model/MorxPipe.v — the path a PUA text takes through the DEFAULT shaper of a font whose only
   layout table is `morx` (src/hb/ot_shape.rs, aat_layout.rs, aat_map.rs, aat_layout_morx_table.rs
   `apply`):  text -> cmap -> (BTT: reverse, direction := TTB) -> for each chain, for each subtable:
   feature-flag gate, direction gate, paired reversal around `apply_subtable` -> final reversal
   for a backward direction (`position`) -> removal of DELETED_GLYPH 0xFFFF (`substitute_post`,
   no GPOS) -> (glyph id, cluster).

   Chain flags: the user features of the request go through Model/MorxFeat.v (add_feature with the
   `feat` gate and the mapping table of Gen/MorxFeatMap.v, compile into cluster ranges with their
   active feature sets); `chain_flags` folds the chain's feature entries in table order over the
   default flags with `has_feature` of a range's active set.  One range: the flags gate whole
   subtables (`sub_runs`).  Several ranges (range-restricted features): the subtable's flags are
   tested per glyph against the range of the glyph's cluster (Morx.v rgate).  A font without `feat`
   (`shape_morx`): no feature is ever added, one range, default flags.
   No proofs in this file. *)
From Coq Require Import List NArith ZArith Bool Arith.
From RB Require Import Base.Result Model.Buffer Model.Font Model.Morx Model.MorxFeat.
Import ListNotations.
Local Open Scope N_scope.

Inductive dir := LTR | RTL | TTB | BTT.
Definition dir_vertical (d : dir) : bool := match d with TTB | BTT => true | _ => false end.
Definition dir_backward (d : dir) : bool := match d with RTL | BTT => true | _ => false end.

(* ---- Chain::compile_flags *)
Definition no_feature (_ _ : N) : bool := false.

(* is the chain feature entry f switched by the active set?  (type, setting) is active, or — deprecated
   letter-case small caps entry (3, 3) — lower-case small caps (37, 1) is *)
Definition entry_active (has_feature : N -> N -> bool) (f : morx_feature) : bool :=
  has_feature (mf_type f) (mf_setting f)
  || ((mf_type f =? 3) && (mf_setting f =? 3) && has_feature 37 1).

(* `flags &= feature.disable_flags; flags |= feature.enable_flags;` *)
Definition flag_step (has_feature : N -> N -> bool) (flags : N) (f : morx_feature) : N :=
  if entry_active has_feature f then N.lor (N.land flags (mf_disable f)) (mf_enable f) else flags.

Definition chain_flags (has_feature : N -> N -> bool) (c : morx_chain) : N :=
  fold_left (flag_step has_feature) (mc_features c) (mc_default_flags c).

(* ---- coverage bits (high byte of the coverage word) *)
Definition cov_vertical (s : morx_subtable) : bool := has (ms_coverage s) 0x80000000.
Definition cov_backwards (s : morx_subtable) : bool := has (ms_coverage s) 0x40000000.
Definition cov_all_directions (s : morx_subtable) : bool := has (ms_coverage s) 0x20000000.
Definition cov_logical (s : morx_subtable) : bool := has (ms_coverage s) 0x10000000.

(* `range_flags.len() == 1 && feature_flags & flags == 0 => continue` *)
Definition sub_enabled (flags : N) (s : morx_subtable) : bool := negb (N.land (ms_sub_feature_flags s) flags =? 0).
(* `!is_all_directions && direction.is_vertical() != coverage.is_vertical() => continue` *)
Definition sub_dir_ok (d : dir) (s : morx_subtable) : bool :=
  (cov_all_directions s || Bool.eqb (dir_vertical d) (cov_vertical s))%bool.
Definition sub_runs (flags : N) (d : dir) (s : morx_subtable) : bool := (sub_enabled flags s && sub_dir_ok d s)%bool.
(* the `reverse` decision *)
Definition sub_reverse (d : dir) (s : morx_subtable) : bool :=
  if cov_logical s then cov_backwards s else xorb (cov_backwards s) (dir_backward d).

(* ---- state threaded through `apply`: buffer, max_ops, ambiguity flags, event log *)
Definition event := (N * bool)%type.     (* subtable kind code, glyph string changed *)
Record pstate := mkP { p_buf : zbuf; p_ops : Z; p_amb : N; p_events : list event;
                       p_ecap : nat (* evaluation cut for streaming loops, see Morx.eval_fuel; 0 = none *) }.

Definition gids (b : zbuf) : list N := map gid (arr b).
Fixpoint nlist_eqb (a b : list N) : bool :=
  match a, b with
  | [], [] => true
  | x :: a', y :: b' => (x =? y) && nlist_eqb a' b'
  | _, _ => false
  end.

Definition maybe_reverse (r : bool) (b : zbuf) : result zbuf := if r then reverse b else Ok b.

(* one subtable that passed the gates: reverse?, apply, reverse? *)
Definition run_subtable_g (ng : N) (d : dir) (gate : option rgate) (s : morx_subtable) (p : pstate) : result pstate :=
  let r := sub_reverse d s in
  do b0 <- maybe_reverse r (p_buf p);
  do res <- apply_subtable (ms_kind s) ng gate (p_ecap p) b0 (p_ops p);
  let '(b1, ops1, amb1) := res in
  do b2 <- maybe_reverse r b1;
  Ok (mkP b2 ops1 (N.lor (p_amb p) amb1)
          ((kind_code (ms_kind s), negb (nlist_eqb (gids (p_buf p)) (gids b2))) :: p_events p) (p_ecap p)).

Definition run_subtable (ng : N) (d : dir) (s : morx_subtable) (p : pstate) : result pstate := run_subtable_g ng d None s p.

(* the subtables of one chain, in order; a subtable ttf-parser rejects ends the chain *)
Fixpoint run_subtables (ng : N) (d : dir) (flags : N) (subs : list morx_subtable) (p : pstate) : result pstate :=
  match subs with
  | [] => Ok p
  | s :: t =>
    if negb (kind_parses (ms_kind s)) then Ok p
    else if sub_runs flags d s then do p1 <- run_subtable ng d s p; run_subtables ng d flags t p1
    else run_subtables ng d flags t p
  end.

(* several ranges (range-restricted user features): no test per subtable — the direction gate stays,
   the feature flags are tested per glyph inside the subtable (rgate) *)
Fixpoint run_subtables_ranged (ng : N) (d : dir) (rf : rflags) (subs : list morx_subtable) (p : pstate) : result pstate :=
  match subs with
  | [] => Ok p
  | s :: t =>
    if negb (kind_parses (ms_kind s)) then Ok p
    else if sub_dir_ok d s then
      do p1 <- run_subtable_g ng d (Some (mkGate rf (ms_sub_feature_flags s))) s p; run_subtables_ranged ng d rf t p1
    else run_subtables_ranged ng d rf t p
  end.

(* Chain::compile_flags for every compiled range *)
Definition chain_rflags (c : morx_chain) (cr : list crange) : rflags :=
  map (fun '(cur, a, b) => (chain_flags (has_feature cur) c, a, b)) cr.

(* `apply`: one range => the flags gate whole subtables; several => per glyph *)
Definition run_chain (ng : N) (d : dir) (cr : list crange) (c : morx_chain) (p : pstate) : result pstate :=
  match chain_rflags c cr with
  | [(flags, _, _)] => run_subtables ng d flags (mc_subtables c) p
  | rf => run_subtables_ranged ng d rf (mc_subtables c) p
  end.

Fixpoint run_chains (ng : N) (d : dir) (cr : list crange) (chains : list morx_chain) (p : pstate) : result pstate :=
  match chains with
  | [] => Ok p
  | c :: t => do p1 <- run_chain ng d cr c p; run_chains ng d cr t p1
  end.

(* ---- buffer set-up and the whole path *)
Definition MAX_OPS_FACTOR : Z := 1024.
Definition MAX_OPS_MIN : Z := 16384.
Definition enter_max_ops (len : nat) : Z := Z.max (Z.of_nat len * MAX_OPS_FACTOR) MAX_OPS_MIN.

(* text: (code point, cluster) *)
Definition text_infos (f : font) (text : list (N * N)) : list info :=
  map (fun '(cp, cl) => mkInfo (match cmap_lookup f cp with Some g => g | None => 0 end) 0 cl 0 0) text.

Definition is_deleted (i : info) : bool := gid i =? DELETED_GLYPH.

Record shaped := mkShaped { sh_glyphs : list (N * N); sh_amb : N; sh_events : list event }.

(* feat: the font's feature name table (None = no `feat`); ufs: the user features of the request *)
Definition shape_morx_feat_cap (ecap : nat) (f : font) (feat : option feat_table) (ufs : list ufeature)
           (d : dir) (lvl : N) (text : list (N * N)) : result shaped :=
  (* shape.rs: `if buffer.len > 0 { shape_internal }` — an empty buffer is returned as it is *)
  if (length text =? 0)%nat then Ok (mkShaped [] 0 []) else
  let b0 := init_buf (text_infos f text) lvl 0 in
  (* ensure_native_direction: script None => no horizontal flip; BTT => reverse graphemes
     (single-character groups for PUA text), direction := TTB *)
  do b1 <- (match d with BTT => reverse b0 | _ => Ok b0 end);
  let d1 := match d with BTT => TTB | x => x end in
  let ops0 := enter_max_ops (length text) in
  (* hb_aat_layout_substitute: add_feature for every user feature, compile, apply *)
  do cr <- user_ranges feat ufs;
  do p <- (match f_morx f with
           | Some m => run_chains (f_num_glyphs f) d1 cr (mx_chains m) (mkP b1 ops0 0 [] ecap)
           | None => Ok (mkP b1 ops0 0 [] ecap)
           end);
  (* position(): reverse for a backward direction; then substitute_post removes deleted glyphs *)
  do b2 <- maybe_reverse (dir_backward d1) (p_buf p);
  let '(out, _) := delete_glyphs_inplace lvl is_deleted (arr b2) in
  Ok (mkShaped (map (fun i => (gid i, cluster i)) out) (p_amb p) (rev (p_events p))).

Definition shape_morx_feat := shape_morx_feat_cap O.

(* a font without `feat`: user features are ignored *)
Definition shape_morx (f : font) (d : dir) (lvl : N) (text : list (N * N)) : result shaped :=
  shape_morx_feat f None [] d lvl text.
