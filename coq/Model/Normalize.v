(* Model/Normalize.v — executable model of the normalizer of the DEFAULT shaper (no proofs here):
     src/hb/unicode.rs           compose, decompose, compose_hangul, decompose_hangul, modified_combining_class
     src/hb/ot_shape_normalize.rs decompose, decompose_current_character, _hb_ot_shape_normalize (rounds 1-3)
     src/hb/buffer.rs            sort, merge_clusters, merge_out_clusters (cluster level 0)
   Tables and constants come from Gen/NormTables.v (regenerated from the source on every run).

   Domain (stated once, checked by `in_domain` in the correspondence):
     * mode = COMPOSED_DIACRITICS (DEFAULT_SHAPER: AUTO, no compose/decompose/reorder_marks override),
       hence might_short_circuit = true, always_short_circuit = false;
     * no variation selectors (handle_variation_selector_cluster is not modelled), no U+034F CGJ;
     * buffer.invisible = None, cluster level 0 (MONOTONE_GRAPHEMES), buffer.successful throughout;
     * general category (is mark / is space) and canonical combining class come from the crates
       unicode-properties / unicode-ccc, which are outside /repo: they are PARAMETERS of the model
       (`is_mark`, `is_space`, `ccc`), instantiated in the correspondence with the independent Unicode
       data of Gen/UnicodeSpec.v and compared with the implementation on every code point.
   A glyph is represented by the code point whose nominal glyph is shown (`gl`), 0 = .notdef. *)
From Coq Require Import List NArith Bool Arith FMapPositive.
From RB Require Import Gen.NormTables Gen.UnicodeSpec.
Import ListNotations.
Local Open Scope N_scope.

(* ------------------------------------------------------------------ lookups *)

(* first match in an association list: what `binary_search_by` returns on a slice that is strictly
   sorted by key (strict sortedness of both tables is theorem C09_tables_sorted) *)
Fixpoint assoc {V} (k : N) (l : list (N * V)) : option V :=
  match l with
  | [] => None
  | (k', v) :: t => if k =? k' then Some v else assoc k t
  end.

Definition pkey (k : N) : positive := N.succ_pos k.

Definition build_map {V} (l : list (N * V)) : PositiveMap.t V :=
  fold_right (fun kv m => PositiveMap.add (pkey (fst kv)) (snd kv) m) (PositiveMap.empty V) l.

Definition mfind {V} (k : N) (m : PositiveMap.t V) : option V := PositiveMap.find (pkey k) m.

(* the same tables as search trees, so that large sweeps run in seconds; Proofs/NormalizeP.v proves
   `mfind k X_map = assoc k X_TABLE` *)
Definition decomp_map : PositiveMap.t (N * N) := Eval vm_compute in build_map DECOMPOSITION_TABLE.
Definition comp_map : PositiveMap.t N := Eval vm_compute in build_map COMPOSITION_TABLE.

Definition in_ranges (c : N) (rs : list (N * N)) : bool :=
  existsb (fun r => (fst r <=? c) && (c <=? snd r)) rs.

(* ------------------------------------------------------------------ unicode.rs *)

Definition U32 : N := 2 ^ 32.

Definition decompose_hangul (ab : N) : option (N * N) :=
  let si := (ab + U32 - S_BASE) mod U32 in                       (* wrapping_sub *)
  if S_COUNT <=? si then None
  else if negb (si mod T_COUNT =? 0)
       then Some (S_BASE + (si / T_COUNT) * T_COUNT, T_BASE + si mod T_COUNT)   (* LV,T *)
       else Some (L_BASE + si / N_COUNT, V_BASE + (si mod N_COUNT) / T_COUNT).  (* L,V *)

Definition compose_hangul (l v : N) : option N :=
  if (L_BASE <=? l) && (l <? L_BASE + L_COUNT) && (V_BASE <=? v) && (v <? V_BASE + V_COUNT)
  then Some (S_BASE + (l - L_BASE) * N_COUNT + (v - V_BASE) * T_COUNT)
  else if (S_BASE <=? l) && (l <=? S_BASE + S_COUNT - T_COUNT) && (T_BASE <=? v) && (v <? T_BASE + T_COUNT)
          && ((l - S_BASE) mod T_COUNT =? 0)
  then Some (l + (v - T_BASE))
  else None.

(* unicode::decompose: Some (a, b), b = 0 for `None` second elements *)
Definition decompose_fn (ab : N) : option (N * N) :=
  match decompose_hangul ab with
  | Some r => Some r
  | None => mfind ab decomp_map
  end.

(* unicode::compose: needle = (a as u64) << 32 | (b as u64) *)
Definition compose_fn (a b : N) : option N :=
  match compose_hangul a b with
  | Some r => Some r
  | None => mfind (a * U32 + b) comp_map
  end.

Definition mcc_of_ccc (c k : N) : N :=
  match assoc c MCC_SPECIAL with
  | Some v => v
  | None => nth (N.to_nat k) MODIFIED_COMBINING_CLASS 0
  end.

(* ------------------------------------------------------------------ glyph infos *)

Record info := mkinfo { cp : N; gl : N; cl : N; mk_ : bool; sp_ : bool; mcc : N }.

Definition dinfo : info := mkinfo 0 0 0 false false 0.
Definition set_gl (x : info) (g : N) : info := mkinfo (cp x) g (cl x) (mk_ x) (sp_ x) (mcc x).
Definition set_cl (x : info) (k : N) : info := mkinfo (cp x) (gl x) k (mk_ x) (sp_ x) (mcc x).
(* the part of an info that control flow depends on (everything but the cluster) *)
Definition core (x : info) : N * N * bool * N := (cp x, gl x, mk_ x, mcc x).

Definition upd {A} (l : list A) (k : nat) (v : A) : list A :=
  if (k <? length l)%nat then firstn k l ++ v :: skipn (S k) l else l.

Fixpoint take_while {A} (p : A -> bool) (l : list A) : list A :=
  match l with
  | x :: t => if p x then x :: take_while p t else []
  | [] => []
  end.

Fixpoint mapi_aux {A B} (f : nat -> A -> B) (i : nat) (l : list A) : list B :=
  match l with
  | [] => []
  | x :: t => f i x :: mapi_aux f (S i) t
  end.
Definition mapi {A B} (f : nat -> A -> B) (l : list A) : list B := mapi_aux f 0 l.

Definition is_vs (c : N) : bool := ((65024 <=? c) && (c <=? 65039)) || ((917760 <=? c) && (c <=? 917999)).

Definition DECOMP_FUEL : nat := 16.

Section Font.
  Variable has : N -> bool.        (* face.get_nominal_glyph(c).is_some() *)
  Variable is_mark : N -> bool.    (* general category Mn / Mc / Me *)
  Variable is_space : N -> bool.   (* general category Zs *)
  Variable ccc : N -> N.           (* unicode_ccc::get_canonical_combining_class *)

  Definition mcc_fn (c : N) : N := mcc_of_ccc c (ccc c).

  (* init_unicode_props: the combining class is stored only for marks >= U+0080;
     _hb_glyph_info_get_modified_combining_class reads 0 for non-marks *)
  Definition props (c g k : N) : info :=
    mkinfo c g k (is_mark c) (is_space c) (if (128 <=? c) && is_mark c then mcc_fn c else 0).

  (* a character as it enters the normalizer (after set_unicode_props / form_clusters) *)
  Definition inp (c k : N) : info := props c 0 k.

  (* ---------------------------------------------------------------- ot_shape_normalize.rs: decompose *)
  (* returns the characters written by output_char, in order; [] stands for `return 0` *)
  Fixpoint decompose (fuel : nat) (shortest : bool) (ab : N) : list N :=
    match fuel with
    | O => []
    | S f =>
      match decompose_fn ab with
      | None => []
      | Some (a, b) =>
        if negb (b =? 0) && negb (has b) then []
        else
          let bl := if b =? 0 then [] else [b] in
          let r := if negb shortest || negb (has a) then decompose f shortest a else [] in
          match r with
          | _ :: _ => r ++ bl
          | [] => if has a then a :: bl else []
          end
      end
    end.

  (* output_char: copy of the current info with the new character, its glyph, fresh unicode props *)
  Definition out_char (x : info) (c : N) : info := props c c (cl x).

  Definition in_space_fallback (c : N) : bool := existsb (N.eqb c) SPACE_FALLBACK.

  Definition decompose_current (shortest : bool) (x : info) : list info :=
    let u := cp x in
    let g := has u in
    let r := if negb shortest || negb g then decompose DECOMP_FUEL shortest u else [] in
    match r with
    | _ :: _ => map (out_char x) r                                     (* skip_char *)
    | [] =>
      if g then [set_gl x u]
      else if sp_ x && in_space_fallback u && has 32 then [set_gl x 32]   (* buffer.invisible = None *)
      else if (u =? 8209) && has 8208 then [set_gl x 8208]              (* U+2011 -> U+2010 *)
      else [set_gl x 0]                                                 (* .notdef *)
    end.

  (* ---------------------------------------------------------------- round 1 *)
  (* the short-circuit loop over a run of simple clusters: stops at the first unsupported character *)
  Fixpoint sc_prefix (l : list info) : list info * list info :=
    match l with
    | x :: t => if has (cp x) then let '(a, b) := sc_prefix t in (set_gl x (cp x) :: a, b) else ([], l)
    | [] => ([], [])
    end.

  Fixpoint round1 (fuel : nat) (rest : list info) : list info * bool :=
    match fuel with
    | O => ([], true)
    | S f =>
      match rest with
      | [] => ([], true)
      | _ :: tl =>
        let n := S (length (take_while (fun y => negb (mk_ y)) tl)) in       (* end - idx *)
        let n' := if (n <? length rest)%nat then (n - 1)%nat else n in        (* leave one base for the marks *)
        let simple := firstn n' rest in
        let rest1 := skipn n' rest in
        let '(pre, todo) := sc_prefix simple in
        let out1 := pre ++ flat_map (decompose_current true) todo in
        match rest1 with
        | [] => (out1, true)
        | y :: tl1 =>
          let ms := take_while mk_ tl1 in
          let rest2 := skipn (length ms) tl1 in
          (* decompose_multi_char_cluster (end, always_short_circuit = false); domain: no variation selector *)
          let out2 := flat_map (decompose_current false) (y :: ms) in
          (out1 ++ out2 ++ fst (round1 f rest2), false)
        end
      end
    end.

  (* ---------------------------------------------------------------- buffer.rs: merge_clusters, sort *)
  (* merge_clusters(start, end) at cluster level 0, with idx = 0 and an empty out-buffer (round 2) *)
  Definition merge_clusters (l : list info) (s e : nat) : list info :=
    if (e - s <? 2)%nat then l
    else
      let cluster := fold_left N.min (map cl (firstn (e - s - 1) (skipn (S s) l))) (cl (nth s l dinfo)) in
      let last_cl := cl (nth (e - 1) l dinfo) in
      let e' := if negb (cluster =? last_cl)
                then (e + length (take_while (fun y => N.eqb (cl y) last_cl) (skipn e l)))%nat   (* extend end *)
                else e in
      (* "extend start" is `while end < start && ...`: never runs *)
      mapi (fun k y => if (s <=? k)%nat && (k <? e')%nat then set_cl y cluster else y) l.

  (* while j > start && cmp(info[j-1], info[i]) { j -= 1 }   with cmp(a, b) = mcc(a) > mcc(b) *)
  Fixpoint find_j (l : list info) (i start j : nat) : nat :=
    match j with
    | O => O
    | S j' => if (start <? j)%nat && (mcc (nth i l dinfo) <? mcc (nth j' l dinfo)) then find_j l i start j' else j
    end.

  (* for idx in (0..n).rev() { info[idx + j + 1] = info[idx + j] } *)
  Definition shift_right (l : list info) (j n : nat) : list info :=
    fold_left (fun l idx => upd l (idx + j + 1) (nth (idx + j) l dinfo)) (rev (seq 0 n)) l.

  Definition sort_step (start : nat) (l : list info) (i : nat) : list info :=
    let j := find_j l i start i in
    if (i =? j)%nat then l
    else
      let l1 := merge_clusters l j (i + 1) in
      let t := nth i l1 dinfo in
      upd (shift_right l1 j (i - j)) j t.

  (* for i in start + 1..end *)
  Definition sort (l : list info) (start e : nat) : list info :=
    fold_left (sort_step start) (seq (start + 1) (e - start - 1)) l.

  (* ---------------------------------------------------------------- round 2 *)
  Fixpoint round2 (fuel : nat) (l : list info) (i : nat) : list info :=
    match fuel with
    | O => l
    | S f =>
      if (length l <=? i)%nat then l
      else if mcc (nth i l dinfo) =? 0 then round2 f l (S i)
      else
        let e := (i + 1 + length (take_while (fun y => negb (N.eqb (mcc y) 0)) (skipn (S i) l)))%nat in
        let l' := if (N.of_nat (e - i) <=? MAX_COMBINING_MARKS) then sort l i e else l in
        round2 f l' (e + 1)
    end.

  (* ---------------------------------------------------------------- buffer.rs: merge_out_clusters *)
  (* out = out_info[0..out_len), rest = info[idx..len) *)
  Definition merge_out_clusters (out rest : list info) (s e : nat) : list info * list info :=
    if (e - s <? 2)%nat then (out, rest)
    else
      let cluster := fold_left N.min (map cl (firstn (e - s - 1) (skipn (S s) out))) (cl (nth s out dinfo)) in
      let cs := cl (nth s out dinfo) in
      let s' := (s - length (take_while (fun y => N.eqb (cl y) cs) (rev (firstn s out))))%nat in      (* extend start *)
      let ce := cl (nth (e - 1) out dinfo) in
      let e' := (e + length (take_while (fun y => N.eqb (cl y) ce) (skipn e out)))%nat in              (* extend end *)
      let ce' := cl (nth (e' - 1) out dinfo) in
      let rest' := if (e' =? length out)%nat
                   then let n := length (take_while (fun y => N.eqb (cl y) ce') rest) in
                        map (fun y => set_cl y cluster) (firstn n rest) ++ skipn n rest
                   else rest in
      (mapi (fun k y => if (s' <=? k)%nat && (k <? e')%nat then set_cl y cluster else y) out, rest').

  (* ---------------------------------------------------------------- round 3 *)
  Definition try_compose (out : list info) (starter : nat) (cur : info) : option N :=
    if mk_ cur && ((starter =? length out - 1)%nat || (mcc (last out dinfo) <? mcc cur))
    then match compose_fn (cp (nth starter out dinfo)) (cp cur) with
         | Some c => if has c then Some c else None
         | None => None
         end
    else None.

  Fixpoint round3 (fuel : nat) (out rest : list info) (starter : nat) : list info :=
    match fuel with
    | O => out ++ rest
    | S f =>
      match rest with
      | [] => out
      | cur :: tl =>
        match try_compose out starter cur with
        | Some c =>
          let out1 := out ++ [cur] in                                              (* next_glyph *)
          let '(out2, tl2) := merge_out_clusters out1 tl starter (length out1) in
          let out3 := removelast out2 in                                           (* out_len -= 1 *)
          let s := nth starter out3 dinfo in
          round3 f (upd out3 starter (props c c (cl s))) tl2 starter
        | None =>
          let out1 := out ++ [cur] in                                              (* blocked, or doesn't compose *)
          round3 f out1 tl (if mcc cur =? 0 then (length out1 - 1)%nat else starter)
        end
      end
    end.

  (* ---------------------------------------------------------------- _hb_ot_shape_normalize *)
  Definition normalize (l : list info) : list info :=
    match l with
    | [] => []
    | _ =>
      let '(o1, all_simple) := round1 (S (length l)) l in
      if all_simple then o1
      else
        let o2 := round2 (S (length o1)) o1 0 in
        match o2 with
        | [] => []
        | x :: t => round3 (S (length t)) [x] t 0
        end
    end.

  (* form_clusters at cluster level 0 on text whose only grapheme continuations are marks: every character
     gets the index of the latest non-mark character (the first grapheme starts at index 0) *)
  Fixpoint form_clusters_aux (l : list N) (i cur : N) : list (N * N) :=
    match l with
    | [] => []
    | c :: t => let cur' := if (i =? 0) || negb (is_mark c) then i else cur in (c, cur') :: form_clusters_aux t (i + 1) cur'
    end.
  Definition form_clusters (l : list N) : list (N * N) := form_clusters_aux l 0 0.

  (* not modelled: variation selectors, CGJ, and the non-mark grapheme continuations of set_unicode_props
     (ZWJ, emoji modifiers, regional indicators, halfwidth katakana sound marks, tag characters) *)
  Definition in_domain (l : list N) : bool :=
    forallb (fun c => negb (is_vs c) && negb (c =? 847) && negb (c =? 8205)
                      && negb ((127995 <=? c) && (c <=? 127999)) && negb ((127462 <=? c) && (c <=? 127487))
                      && negb ((65438 <=? c) && (c <=? 65439)) && negb ((917536 <=? c) && (c <=? 917631))) l.

  (* characters with their clusters in, (glyph, cluster) out *)
  Definition shape_chars (l : list (N * N)) : list (N * N) :=
    map (fun x => (gl x, cl x)) (normalize (map (fun ck => inp (fst ck) (snd ck)) l)).
End Font.

(* ------------------------------------------------------------------ the Unicode side (Gen/UnicodeSpec.v) *)

Definition spec_decomp_map : PositiveMap.t (N * N) := Eval vm_compute in build_map SPEC_DECOMP.
Definition spec_marks_map : PositiveMap.t N := Eval vm_compute in build_map SPEC_MARKS.
Definition spec_primary_map : PositiveMap.t N :=
  Eval vm_compute in build_map (map (fun e => (fst (fst e) * U32 + snd (fst e), snd e)) SPEC_PRIMARY).

Definition spec_is_mark (c : N) : bool := match mfind c spec_marks_map with Some _ => true | None => false end.
Definition spec_ccc (c : N) : N := match mfind c spec_marks_map with Some v => v | None => 0 end.
Definition spec_is_space (c : N) : bool := in_ranges c SPEC_SPACES.
Definition spec_assigned (c : N) : bool := in_ranges c SPEC_ASSIGNED.

(* Hangul syllable decomposition, closed form of the Unicode standard (section 3.12):
   s = SBase + (l * VCount + v) * TCount + t *)
Definition hangul_syllable (l v t : N) : N := 44032 + (l * 21 + v) * 28 + t.
Definition spec_hangul_decomp (l v t : N) : N * N :=
  if t =? 0 then (4352 + l, 4449 + v) else (hangul_syllable l v 0, 4519 + t).

(* first-level canonical decomposition as a list of one or two characters *)
Definition pair_list (ab : N * N) : list N := if snd ab =? 0 then [fst ab] else [fst ab; snd ab].

Definition spec_decomp (c : N) : option (N * N) := mfind c spec_decomp_map.

(* the successive partial decompositions of c: level 1 = first-level mapping, level k+1 = level k with its
   first character decomposed once more; the last level is the full canonical decomposition *)
Fixpoint levels (dec : N -> option (N * N)) (fuel : nat) (c : N) : list (list N) :=
  match fuel with
  | O => []
  | S f =>
    match dec c with
    | None => []
    | Some (a, b) =>
      let bl := if b =? 0 then [] else [b] in
      (a :: bl) :: map (fun l => l ++ bl) (levels dec f a)
    end
  end.

(* full canonical decomposition (no reordering needed for a single character: checked in C09_tables) *)
Fixpoint nfd_char (dec : N -> option (N * N)) (fuel : nat) (c : N) : list N :=
  match fuel with
  | O => [c]
  | S f =>
    match dec c with
    | None => [c]
    | Some (a, b) => nfd_char dec f a ++ (if b =? 0 then [] else nfd_char dec f b)
    end
  end.

Definition spec_levels (c : N) : list (list N) := levels spec_decomp DECOMP_FUEL c.
Definition spec_nfd (c : N) : list N := nfd_char spec_decomp DECOMP_FUEL c.

Definition first_supported (has : N -> bool) (ls : list (list N)) : list N :=
  match find (forallb has) ls with Some l => l | None => [] end.

(* Canonical Composition Algorithm (Unicode D117) on  starter :: marks, restricted to composites the font
   maps.  `pending` holds the marks that stayed, most recent first.  A mark C is blocked from the starter
   iff some character B between them has ccc(B) = 0 or ccc(B) >= ccc(C) (D115). *)
Section D117.
  Variable has : N -> bool.
  Variable primary : N -> N -> option N.   (* primary composite of a pair *)
  Variable cc : N -> N.                    (* combining class used for blocking *)

  Definition blocked (pending : list N) (c : N) : bool :=
    existsb (fun b => (cc b =? 0) || (cc c <=? cc b)) pending.

  Fixpoint d117 (starter : N) (pending marks : list N) : list N :=
    match marks with
    | [] => starter :: rev pending
    | c :: t =>
      match (if blocked pending c then None else primary starter c) with
      | Some x => if has x then d117 x pending t else d117 starter (c :: pending) t
      | None => d117 starter (c :: pending) t
      end
    end.
End D117.

Definition spec_primary (a b : N) : option N := mfind (a * U32 + b) spec_primary_map.
