(* Model/OtMap.v — plan compilation for the DEFAULT shaper (no script, no language):
     src/hb/ot_shape.rs   hb_ot_shape_planner_t::collect_features (direction LTR / RTL)
     src/hb/ot_map.rs     hb_ot_map_builder_t::{new, add_feature, enable_feature, add_pause, compile,
                          collect_feature_maps, dedup_feature_infos, collect_lookup_stages, add_lookups}
     src/hb/ot_layout.rs  select_script, select_script_language, get_required_language_feature,
                          find_language_feature
   Result: the GSUB stages, each an ordered list of lookup_map (index, mask, auto_zwnj, auto_zwj, random,
   per_syllable), the global mask, and the compiled feature fields (tag, shift, mask, one_mask).
   Executable, no proofs.  Tags are big-endian u32 values. *)
From Coq Require Import List NArith Bool Arith.
From RB Require Import Model.Font.
Import ListNotations.
Local Open Scope N_scope.

Definition U32 : N := 4294967296.
Definition u32 (x : N) : N := x mod U32.
Definition flag (x m : N) : bool := negb (N.land x m =? 0).

(* ---------- tags ---------- *)
Definition T_DFLT := tag4 68 70 76 84.
Definition T_dflt := tag4 100 102 108 116.
Definition T_latn := tag4 108 97 116 110.
Definition T_rvrn := tag4 114 118 114 110.
Definition T_ltra := tag4 108 116 114 97.
Definition T_ltrm := tag4 108 116 114 109.
Definition T_rtla := tag4 114 116 108 97.
Definition T_rtlm := tag4 114 116 108 109.
Definition T_frac := tag4 102 114 97 99.
Definition T_numr := tag4 110 117 109 114.
Definition T_dnom := tag4 100 110 111 109.
Definition T_rand := tag4 114 97 110 100.
Definition T_trak := tag4 116 114 97 107.
Definition T_Harf := tag4 72 97 114 102.
Definition T_HARF := tag4 72 65 82 70.
Definition T_Buzz := tag4 66 117 122 122.
Definition T_BUZZ := tag4 66 85 90 90.
Definition T_abvm := tag4 97 98 118 109.
Definition T_blwm := tag4 98 108 119 109.
Definition T_ccmp := tag4 99 99 109 112.
Definition T_locl := tag4 108 111 99 108.
Definition T_mark := tag4 109 97 114 107.
Definition T_mkmk := tag4 109 107 109 107.
Definition T_rlig := tag4 114 108 105 103.
Definition T_calt := tag4 99 97 108 116.
Definition T_clig := tag4 99 108 105 103.
Definition T_curs := tag4 99 117 114 115.
Definition T_dist := tag4 100 105 115 116.
Definition T_kern := tag4 107 101 114 110.
Definition T_liga := tag4 108 105 103 97.
Definition T_rclt := tag4 114 99 108 116.

(* hb_ot_map_feature_flags_t *)
Definition F_NONE : N := 0.
Definition F_GLOBAL : N := 1.
Definition F_HAS_FALLBACK : N := 2.
Definition F_MANUAL_ZWNJ : N := 4.
Definition F_MANUAL_ZWJ : N := 8.
Definition F_MANUAL_JOINERS : N := 12.
Definition F_GLOBAL_MANUAL_JOINERS : N := 13.
Definition F_GLOBAL_HAS_FALLBACK : N := 3.
Definition F_GLOBAL_SEARCH : N := 16.
Definition F_RANDOM : N := 32.
Definition F_PER_SYLLABLE : N := 64.

Definition MAX_BITS : N := 8.
Definition MAX_VALUE : N := 255.
Definition GLOBAL_BIT_SHIFT : N := 31.
Definition GLOBAL_BIT_MASK : N := 2147483648.
Definition FIRST_BIT : N := 4.   (* glyph_flag::DEFINED.count_ones() + 1 *)

(* ---------- script / language system selection (script = None, language = None) ---------- *)

Fixpoint find_script (scs : list script_record) (t : N) (i : N) : option (N * script_record) :=
  match scs with
  | [] => None
  | s :: r => if sc_tag s =? t then Some (i, s) else find_script r t (i + 1)
  end.

(* select_script with an empty tag list: DFLT, dflt, latn *)
Definition select_script {S} (l : layout S) : option script_record :=
  match find_script (ly_scripts l) T_DFLT 0 with
  | Some (_, s) => Some s
  | None => match find_script (ly_scripts l) T_dflt 0 with
            | Some (_, s) => Some s
            | None => match find_script (ly_scripts l) T_latn 0 with Some (_, s) => Some s | None => None end
            end
  end.

Fixpoint find_langsys (ls : list (N * langsys)) (t : N) : option langsys :=
  match ls with
  | [] => None
  | (k, v) :: r => if k =? t then Some v else find_langsys r t
  end.

(* select_script_language with an empty tag list: a 'dflt' LangSysRecord wins over the default LangSys *)
Definition select_langsys (s : script_record) : option langsys :=
  match find_langsys (sc_langsys s) T_dflt with
  | Some l => Some l
  | None => sc_default s
  end.

Definition chosen_langsys {S} (l : option (layout S)) : option langsys :=
  match l with
  | Some ly => match select_script ly with Some s => select_langsys s | None => None end
  | None => None
  end.

Definition feature_tag_at {S} (l : layout S) (idx : N) : option N :=
  match nth_error (ly_features l) (N.to_nat idx) with Some (t, _) => Some t | None => None end.

(* find_language_feature: first feature index of the langsys whose record has the tag *)
Fixpoint find_feature_in {S} (l : layout S) (idxs : list N) (t : N) : option N :=
  match idxs with
  | [] => None
  | i :: r => match feature_tag_at l i with
              | Some t' => if t' =? t then Some i else find_feature_in l r t
              | None => find_feature_in l r t
              end
  end.

Definition find_language_feature {S} (l : option (layout S)) (t : N) : option N :=
  match l with
  | Some ly => match chosen_langsys l with Some ls => find_feature_in ly (ls_features ls) t | None => None end
  | None => None
  end.

(* get_required_language_feature: (index, tag) *)
Definition required_feature {S} (l : option (layout S)) : option (N * N) :=
  match l with
  | Some ly => match chosen_langsys l with
               | Some ls => match ls_required ls with
                            | Some idx => match feature_tag_at ly idx with Some t => Some (idx, t) | None => None end
                            | None => None
                            end
               | None => None
               end
  | None => None
  end.

(* ---------- feature infos ---------- *)

Record finfo := mkFInfo { fi_tag : N; fi_seq : N; fi_max : N; fi_flags : N; fi_default : N;
                          fi_stage : N (* GSUB *); fi_stage_pos : N (* GPOS *) }.

(* builder state while collect_features runs: infos (reversed), current GSUB stage *)
Definition add_feature (acc : list finfo * N) (tag flags value : N) : list finfo * N :=
  let '(infos, stage) := acc in
  if tag =? 0 then acc
  else (mkFInfo tag (N.of_nat (length infos)) value flags (if flag flags F_GLOBAL then value else 0) stage 0 :: infos, stage).
Definition enable_feature (acc : list finfo * N) (tag flags value : N) := add_feature acc tag (N.lor flags F_GLOBAL) value.
Definition add_gsub_pause (acc : list finfo * N) : list finfo * N := (fst acc, snd acc + 1).

Definition COMMON_FEATURES : list (N * N) :=
  [(T_abvm, F_GLOBAL); (T_blwm, F_GLOBAL); (T_ccmp, F_GLOBAL); (T_locl, F_GLOBAL);
   (T_mark, F_GLOBAL_MANUAL_JOINERS); (T_mkmk, F_GLOBAL_MANUAL_JOINERS); (T_rlig, F_GLOBAL)].
Definition HORIZONTAL_FEATURES : list (N * N) :=
  [(T_calt, F_GLOBAL); (T_clig, F_GLOBAL); (T_curs, F_GLOBAL); (T_dist, F_GLOBAL);
   (T_kern, F_GLOBAL_HAS_FALLBACK); (T_liga, F_GLOBAL); (T_rclt, F_GLOBAL)].

(* a user feature: tag, value, start, end *)
Record ufeature := mkUF { uf_tag : N; uf_value : N; uf_start : N; uf_end : N }.
Definition uf_is_global (u : ufeature) : bool := (uf_start u =? 0) && (uf_end u =? 4294967295).

(* collect_features for the default shaper; rtl = direction is RightToLeft (else LeftToRight).
   Returns the infos in insertion order and the number of GSUB pauses so far (current_stage[GSUB]). *)
Definition collect_features (rtl : bool) (user : list ufeature) : list finfo * N :=
  let a := enable_feature ([], 0) T_rvrn F_NONE 1 in
  let a := add_gsub_pause a in
  let a := if rtl then add_feature (enable_feature a T_rtla F_NONE 1) T_rtlm F_NONE 1
           else enable_feature (enable_feature a T_ltra F_NONE 1) T_ltrm F_NONE 1 in
  let a := add_feature a T_frac F_NONE 1 in
  let a := add_feature a T_numr F_NONE 1 in
  let a := add_feature a T_dnom F_NONE 1 in
  let a := enable_feature a T_rand F_RANDOM MAX_VALUE in
  let a := enable_feature a T_trak F_HAS_FALLBACK 1 in
  let a := enable_feature a T_Harf F_NONE 1 in
  let a := enable_feature a T_HARF F_NONE 1 in
  let a := enable_feature a T_Buzz F_NONE 1 in
  let a := enable_feature a T_BUZZ F_NONE 1 in
  let a := fold_left (fun a tf => add_feature a (fst tf) (snd tf) 1) COMMON_FEATURES a in
  let a := fold_left (fun a tf => add_feature a (fst tf) (snd tf) 1) HORIZONTAL_FEATURES a in
  let a := fold_left (fun a u => add_feature a (uf_tag u) (if uf_is_global u then F_GLOBAL else F_NONE) (uf_value u)) user a in
  (rev (fst a), snd a).

(* feature_infos.sort(): derived Ord, (tag, seq, ...) with seq unique *)
Definition info_le (a b : finfo) : bool :=
  (fi_tag a <? fi_tag b) || ((fi_tag a =? fi_tag b) && (fi_seq a <=? fi_seq b)).
Fixpoint insert_info (x : finfo) (l : list finfo) : list finfo :=
  match l with
  | [] => [x]
  | y :: t => if info_le x y then x :: l else y :: insert_info x t
  end.
Definition sort_infos (l : list finfo) : list finfo := fold_right insert_info [] l.

(* dedup_feature_infos: the merge arm; info i folded into the kept entry j *)
Definition merge_info (j i : finfo) : finfo :=
  let '(flags, mx, df) :=
    if flag (fi_flags i) F_GLOBAL then (N.lor (fi_flags j) F_GLOBAL, fi_max i, fi_default i)
    else ((if flag (fi_flags j) F_GLOBAL then N.lxor (fi_flags j) F_GLOBAL else fi_flags j),
          N.max (fi_max j) (fi_max i), fi_default j) in
  mkFInfo (fi_tag j) (fi_seq j) mx (N.lor flags (N.land (fi_flags i) F_HAS_FALLBACK)) df
          (N.min (fi_stage j) (fi_stage i)) (N.min (fi_stage_pos j) (fi_stage_pos i)).

Fixpoint dedup_go (cur : finfo) (rest : list finfo) (done : list finfo) : list finfo :=
  match rest with
  | [] => rev (cur :: done)
  | i :: t => if fi_tag i =? fi_tag cur then dedup_go (merge_info cur i) t done
              else dedup_go i t (cur :: done)
  end.

Definition dedup_infos (simple : bool) (l : list finfo) : list finfo :=
  match (if simple then l else sort_infos l) with
  | [] => []
  | x :: t => dedup_go x t []
  end.

(* ---------- collect_feature_maps ---------- *)

Record fmap := mkFMap { m_tag : N; m_index : option N (* GSUB feature index *); m_stage : N;
                        m_shift : N; m_mask : N; m_one : N;
                        m_auto_zwnj : bool; m_auto_zwj : bool; m_random : bool; m_per_syllable : bool }.

Definition uses_global_bit (i : finfo) : bool := flag (fi_flags i) F_GLOBAL && (fi_max i =? 1).
Definition bits_needed (i : finfo) : N := if uses_global_bit i then 0 else N.min MAX_BITS (N.size (fi_max i)).

Definition opt_tag_eqb (o : option (N * N)) (t : N) : bool := match o with Some (_, t') => t' =? t | None => false end.

Section Alloc.
  Context {S P : Type}.
  Variable gsub : option (layout S).
  Variable gpos : option (layout P).

  (* the loop of collect_feature_maps; state: next_bit, global_mask, required_stage[GSUB] *)
  Fixpoint alloc (infos : list finfo) (next_bit gmask rstage : N) : list fmap * N * N :=
    match infos with
    | [] => ([], gmask, rstage)
    | i :: t =>
      let bn := bits_needed i in
      if (fi_max i =? 0) || (GLOBAL_BIT_SHIFT <=? next_bit + bn) then alloc t next_bit gmask rstage
      else
        let rstage := match gsub with
                      | Some _ => if opt_tag_eqb (required_feature gsub) (fi_tag i) then fi_stage i else rstage
                      | None => rstage
                      end in
        let gi := find_language_feature gsub (fi_tag i) in
        let pi := find_language_feature gpos (fi_tag i) in
        let found := match gi, pi with None, None => false | _, _ => true end in
        (* F_GLOBAL_SEARCH is only used for 'vert' (vertical directions): not in this domain *)
        if negb found && negb (flag (fi_flags i) F_HAS_FALLBACK) then alloc t next_bit gmask rstage
        else
          let mk shift msk :=
            mkFMap (fi_tag i) gi (fi_stage i) shift msk (N.land (N.shiftl 1 shift) msk)
                   (negb (flag (fi_flags i) F_MANUAL_ZWNJ)) (negb (flag (fi_flags i) F_MANUAL_ZWJ))
                   (flag (fi_flags i) F_RANDOM) (flag (fi_flags i) F_PER_SYLLABLE) in
          if uses_global_bit i then
            let '(r, gm, rs) := alloc t next_bit gmask rstage in
            (mk GLOBAL_BIT_SHIFT GLOBAL_BIT_MASK :: r, gm, rs)
          else
            let shift := next_bit in
            let msk := N.shiftl 1 (next_bit + bn) - N.shiftl 1 next_bit in
            let gm' := N.lor gmask (N.land (u32 (N.shiftl (fi_default i) shift)) msk) in
            let '(r, gm, rs) := alloc t (next_bit + bn) gm' rstage in
            (mk shift msk :: r, gm, rs)
    end.
End Alloc.

(* map_features.sort() when is_simple: stable, by tag *)
Fixpoint insert_map (x : fmap) (l : list fmap) : list fmap :=
  match l with
  | [] => [x]
  | y :: t => if m_tag x <=? m_tag y then x :: l else y :: insert_map x t
  end.
Definition sort_maps (l : list fmap) : list fmap := fold_right insert_map [] l.

(* ---------- collect_lookup_stages (GSUB) ---------- *)

Record lookup_map := mkLM { lm_index : N; lm_auto_zwnj : bool; lm_auto_zwj : bool; lm_random : bool;
                            lm_mask : N; lm_per_syllable : bool }.

Definition b2n (b : bool) : N := if b then 1 else 0.
(* derived Ord of lookup_map_t: lexicographic over (index, auto_zwnj, auto_zwj, random, mask, per_syllable) *)
Definition lm_key (x : lookup_map) : list N :=
  [lm_index x; b2n (lm_auto_zwnj x); b2n (lm_auto_zwj x); b2n (lm_random x); lm_mask x; b2n (lm_per_syllable x)].
Fixpoint lex_le (a b : list N) : bool :=
  match a, b with
  | x :: a', y :: b' => (x <? y) || ((x =? y) && lex_le a' b')
  | _, _ => true
  end.
Definition lm_le (a b : lookup_map) : bool := lex_le (lm_key a) (lm_key b).
Fixpoint insert_lm (x : lookup_map) (l : list lookup_map) : list lookup_map :=
  match l with
  | [] => [x]
  | y :: t => if lm_le x y then x :: l else y :: insert_lm x t
  end.
Definition sort_lms (l : list lookup_map) : list lookup_map := fold_right insert_lm [] l.

Definition merge_lm (j i : lookup_map) : lookup_map :=
  mkLM (lm_index j) (lm_auto_zwnj j && lm_auto_zwnj i) (lm_auto_zwj j && lm_auto_zwj i) (lm_random j)
       (N.lor (lm_mask j) (lm_mask i)) (lm_per_syllable j).

Fixpoint dedup_lms_go (cur : lookup_map) (rest : list lookup_map) : list lookup_map :=
  match rest with
  | [] => [cur]
  | i :: t => if lm_index i =? lm_index cur then dedup_lms_go (merge_lm cur i) t
              else cur :: dedup_lms_go i t
  end.

(* "Sort lookups and merge duplicates" (done only when the stage has more than one entry; the result is
   the same for zero or one entry) *)
Definition sort_dedup (l : list lookup_map) : list lookup_map :=
  match sort_lms l with
  | [] => []
  | x :: t => dedup_lms_go x t
  end.

(* add_lookups: the lookup indices of a feature that are < lookup count *)
Definition add_lookups {S} (l : layout S) (feature_index : N) (msk : N) (zwnj zwj rnd syl : bool) : list lookup_map :=
  match nth_error (ly_features l) (N.to_nat feature_index) with
  | Some (_, idxs) =>
      map (fun i => mkLM i zwnj zwj rnd msk syl)
          (filter (fun i => i <? N.of_nat (length (ly_lookups l))) idxs)
  | None => []
  end.

Definition stage_lookups {S} (l : layout S) (feats : list fmap) (required : option (N * N)) (rstage stage : N)
  : list lookup_map :=
  let req := match required with
             | Some (idx, _) => if rstage =? stage then add_lookups l idx GLOBAL_BIT_MASK true true false false else []
             | None => []
             end in
  let fs := flat_map (fun m => match m_index m with
                               | Some idx => if m_stage m =? stage
                                             then add_lookups l idx (m_mask m) (m_auto_zwnj m) (m_auto_zwj m) (m_random m) (m_per_syllable m)
                                             else []
                               | None => []
                               end) feats in
  sort_dedup (req ++ fs).

(* ---------- the compiled plan ---------- *)

Record plan := mkPlan { pl_stages : list (list lookup_map); pl_global_mask : N; pl_features : list fmap }.

Fixpoint get_mask (fs : list fmap) (t : N) : N * N :=
  match fs with
  | [] => (0, 0)
  | m :: r => if m_tag m =? t then (m_mask m, m_shift m) else get_mask r t
  end.
Fixpoint get_1_mask (fs : list fmap) (t : N) : N :=
  match fs with
  | [] => 0
  | m :: r => if m_tag m =? t then m_one m else get_1_mask r t
  end.

Definition compile_plan (f : font) (rtl : bool) (user : list ufeature) : plan :=
  let simple := match user with [] => true | _ => false end in
  let '(infos, nstages) := collect_features rtl user in
  let '(feats, gmask, rstage) := alloc (f_gsub f) (f_gpos f) (dedup_infos simple infos) FIRST_BIT GLOBAL_BIT_MASK 0 in
  let feats := if simple then sort_maps feats else feats in
  (* compile() adds one more pause: stages 0 .. nstages *)
  let stages := match f_gsub f with
                | Some l => map (fun s => stage_lookups l feats (required_feature (f_gsub f)) rstage (N.of_nat s))
                                (seq 0 (S (N.to_nat nstages)))
                | None => map (fun _ => []) (seq 0 (S (N.to_nat nstages)))
                end in
  mkPlan stages gmask feats.
