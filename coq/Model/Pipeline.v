(* Model/Pipeline.v — the shaping pipeline as a sequence of named passes.

   Gen/Pipeline.v (regenerated from src/hb/ot_shape.rs on every run) lists, for each of the nine pipeline
   functions, the passes it calls in source order and the condition under which each one runs.  This file
   flattens that call tree into ONE sequence of (pass, guard) pairs starting at shape_internal and defines the
   order predicates the property files use.  A pass name that is itself one of the nine functions is replaced by
   its body (its guard is prefixed to the guards of the body). *)
From Coq Require Import List NArith String Bool.
From RB Require Import Gen.Pipeline.
Import ListNotations.
Local Open Scope string_scope.

Definition step := (string * string)%type.

Fixpoint lookup_fn (fns : list (string * list step)) (n : string) : option (list step) :=
  match fns with
  | [] => None
  | (m, b) :: r => if String.eqb m n then Some b else lookup_fn r n
  end.

Definition join_guard (outer inner : string) : string :=
  if String.eqb outer "" then inner else if String.eqb inner "" then outer else outer ++ " & " ++ inner.

(* fuel bounds the nesting depth of the call tree (4 in the source; more is harmless) *)
Fixpoint flatten (fuel : nat) (fns : list (string * list step)) (outer : string) (body : list step) : list step :=
  match fuel with
  | O => map (fun s => (fst s, join_guard outer (snd s))) body
  | S k =>
      flat_map (fun s =>
        match lookup_fn fns (fst s) with
        | Some b => flatten k fns (join_guard outer (snd s)) b
        | None => [(fst s, join_guard outer (snd s))]
        end) body
  end.

Definition pipeline : list step :=
  match lookup_fn pipeline_fns "shape_internal" with
  | Some b => flatten 8 pipeline_fns "" b
  | None => []
  end.

Definition passes_of (l : list step) : list string := map fst l.

Fixpoint index_of (n : string) (l : list string) : option nat :=
  match l with
  | [] => None
  | x :: r => if String.eqb x n then Some O else option_map S (index_of n r)
  end.

Fixpoint count_of (n : string) (l : list string) : nat :=
  match l with
  | [] => O
  | x :: r => (if String.eqb x n then 1 else 0) + count_of n r
  end.

(* every occurrence of a precedes every occurrence of b, and both occur *)
Fixpoint last_index_of (n : string) (l : list string) : option nat :=
  match l with
  | [] => None
  | x :: r =>
      match last_index_of n r with
      | Some i => Some (S i)
      | None => if String.eqb x n then Some O else None
      end
  end.

Definition before (a b : string) (l : list string) : bool :=
  match last_index_of a l, index_of b l with
  | Some i, Some j => Nat.ltb i j
  | _, _ => false
  end.

Definition all_before (xs : list string) (b : string) (l : list string) : bool :=
  forallb (fun a => before a b l) xs.

(* the part of the sequence behind the first occurrence of n *)
Fixpoint after (n : string) (l : list string) : list string :=
  match l with
  | [] => []
  | x :: r => if String.eqb x n then r else after n r
  end.

Definition mem (n : string) (l : list string) : bool := existsb (String.eqb n) l.

Definition guard_of (n : string) (nth_occurrence : nat) (l : list step) : option string :=
  nth_error (map snd (filter (fun s => String.eqb (fst s) n) l)) nth_occurrence.

(* running a sequence of passes under an interpretation *)
Section Run.
  Variable St : Type.
  Variable interp : string -> St -> St.
  Definition run (l : list string) (s : St) : St := fold_left (fun st n => interp n st) l s.
End Run.
