(* Model/PosPipe.v — the positioning pipeline of src/hb/ot_shape.rs for the DEFAULT shaper, as far as
   property C07 needs it: cmap lookup, ensure_native_direction, glyph properties, a RESTRICTED GSUB
   (ligature lookups only; ligate_input with HarfBuzz's full component bookkeeping, so a ligature may be built from
   ligatures — enough to
   produce the lig ids / components that mark-to-ligature consumes), position_default (advances from
   hmtx / vmtx, vertical origins), GPOS::position_start, position_by_plan (GPOS, then legacy kern),
   zero_mark_widths_by_gdef (LATE for the default shaper), position_finish_offsets and the final
   `buffer.reverse()` for backward directions.

   Domain: characters are private-use code points (gc = Co: not marks, not default ignorable, no
   mirroring, no decomposition; every character is its own grapheme), script unset or a script that
   selects the default shaper, the font's layout tables have a DFLT script whose default LangSys
   lists the features, user features are global on/off switches, cluster level 0.
   The plan booleans follow hb_ot_shape_planner_t::compile.  No proofs in this file. *)
From Coq Require Import List NArith ZArith Bool Arith.
From RB Require Import Base.Result Model.Buffer Model.Font Model.Gpos Model.Attach Model.Kern.
Import ListNotations.

(* ---------- ensure_native_direction ---------- *)

(* `hor`: Direction::from_script (None = Invalid: no script, or a script without a horizontal
   direction).  `numeric`: the run has a decimal number or a regional indicator and no letter. *)
Definition ensure_native_direction (dir : direction) (hor : option direction) (numeric : bool) : direction * bool :=
  let hor' := match hor, dir with
              | Some RTL, LTR => if numeric then Some LTR else hor
              | _, _ => hor
              end in
  let flip :=
    if is_horizontal dir
    then match hor' with
         | Some h => negb (match dir, h with LTR, LTR | RTL, RTL | TTB, TTB | BTT, BTT => true | _, _ => false end)
         | None => false
         end
    else match dir with TTB => false | _ => true end in
  if flip then (dir_reverse dir, true) else (dir, false).

(* ---------- tags ---------- *)
Local Open Scope N_scope.

Definition TAG_kern : N := tag4 107 101 114 110.
Definition TAG_vkrn : N := tag4 118 107 114 110.
Definition TAG_curs : N := tag4 99 117 114 115.
Definition TAG_dist : N := tag4 100 105 115 116.
Definition TAG_mark : N := tag4 109 97 114 107.
Definition TAG_mkmk : N := tag4 109 107 109 107.
Definition TAG_abvm : N := tag4 97 98 118 109.
Definition TAG_blwm : N := tag4 98 108 119 109.
Definition TAG_ccmp : N := tag4 99 99 109 112.
Definition TAG_locl : N := tag4 108 111 99 108.
Definition TAG_rlig : N := tag4 114 108 105 103.
Definition TAG_calt : N := tag4 99 97 108 116.
Definition TAG_clig : N := tag4 99 108 105 103.
Definition TAG_liga : N := tag4 108 105 103 97.
Definition TAG_rclt : N := tag4 114 99 108 116.

(* collect_features for the default shaper: COMMON_FEATURES always, HORIZONTAL_FEATURES when
   horizontal (features that need a font feature of that tag; rvrn/ltra/... are not generated) *)
Definition default_features (horizontal : bool) : list N :=
  [TAG_abvm; TAG_blwm; TAG_ccmp; TAG_locl; TAG_mark; TAG_mkmk; TAG_rlig] ++
  (if horizontal then [TAG_calt; TAG_clig; TAG_curs; TAG_dist; TAG_kern; TAG_liga; TAG_rclt] else []).

(* user features are appended and win over the defaults (dedup_feature_infos: the later global
   entry overrides max_value); value 0 disables *)
Fixpoint user_setting (feats : list (N * bool)) (tag : N) (cur : option bool) : option bool :=
  match feats with
  | [] => cur
  | (t, v) :: r => user_setting r tag (if t =? tag then Some v else cur)
  end.

Definition feature_on (horizontal : bool) (feats : list (N * bool)) (tag : N) : bool :=
  match user_setting feats tag None with
  | Some v => v
  | None => existsb (N.eqb tag) (default_features horizontal)
  end.

Definition enabled_features (horizontal : bool) (feats : list (N * bool)) : list N :=
  filter (feature_on horizontal feats) (default_features horizontal ++ map fst feats).

(* ---------- the plan ---------- *)

Record plan := mkPlan {
  p_enabled : list N;
  p_requested_kerning : bool;
  p_apply_gpos : bool;
  p_apply_kern : bool;
  p_zero_marks : bool;
  p_adjust_when_zeroing : bool;
  p_fallback_classes : bool
}.

Definition kern_has_cross (f : font) : bool :=
  match f_kern f with Some sts => existsb k_cross_stream sts | None => false end.

Definition make_plan (f : font) (d : direction) (feats : list (N * bool)) : plan :=
  let horizontal := is_horizontal d in
  let enabled := enabled_features horizontal feats in
  let kern_tag := if horizontal then TAG_kern else TAG_vkrn in
  (* `kern` is F_GLOBAL_HAS_FALLBACK: it stays in the map without a font feature; `vkrn` is never
     added by the default shaper, a user `vkrn` survives only if the font has the feature *)
  let kern_in_map :=
    existsb (N.eqb kern_tag) enabled &&
    (horizontal || match f_gpos f with Some ly => has_feature ly kern_tag | None => false end
                || match f_gsub f with Some ly => has_feature ly kern_tag | None => false end) in
  let has_gpos_kern := kern_in_map && match f_gpos f with Some ly => has_feature ly kern_tag | None => false end in
  let apply_gpos := match f_gpos f with Some _ => true | None => false end in
  let apply_kern := (negb has_gpos_kern || negb apply_gpos) && match f_kern f with Some _ => true | None => false end in
  mkPlan enabled kern_in_map apply_gpos apply_kern
         true (* zero_marks: default shaper zeroes BY_GDEF_LATE; no kerx, no state-machine kern *)
         (negb apply_gpos && (negb apply_kern || negb (kern_has_cross f)))
         (negb (has_glyph_classes f)).

(* ---------- glyph properties at substitute start ---------- *)

Definition initial_props (f : font) (fallback : bool) (g : N) : N :=
  if fallback then GP_BASE else face_glyph_props f g.

Definition init_infos (f : font) (fallback : bool) (text : list (N * N)) : list info :=
  map (fun '(cp, cl) =>
         let g := match cmap_lookup f cp with Some g => g | None => 0 end in
         mkInfo g 0 cl (mk_var1 (initial_props f fallback g) 0) 0) text.

(* ---------- restricted GSUB: ligature substitution lookups ---------- *)

(* match_input with a glyph match function, on `rest` (index 0 = current glyph): every further
   component must be the next unskipped glyph *)
Fixpoint match_components (f : font) (mp : N) (rest : list info) (i : nat) (comps : list N) : option (list nat) :=
  match comps with
  | [] => Some []
  | c :: t =>
      match skip_next f mp rest i with
      | Some j => if gid (geti rest j) =? c
                  then match match_components f mp rest j t with Some l => Some (j :: l) | None => None end
                  else None
      | None => None
      end
  end.

(* buffer.next_serial / allocate_lig_id (u8 serial) *)
Definition next_serial (s : N) : N := let s1 := (s + 1) mod 256 in if s1 =? 0 then 1 else s1.
Definition allocate_lig_id (s : N) : N * N :=
  let s1 := next_serial s in
  if N.land s1 7 =? 0 then let s2 := next_serial s1 in (N.land s2 7, s2) else (N.land s1 7, s1).

(* set_glyph_class(lig_glyph, class_guess, ligature = true, component = false) *)
Definition ligature_glyph_props (f : font) (old_props class_guess lig_glyph : N) : N :=
  let props := N.ldiff (N.lor old_props (N.lor GP_SUBSTITUTED GP_LIGATED)) GP_MULTIPLIED in
  if has_glyph_classes f then N.lor (N.land props GP_PRESERVE) (face_glyph_props f lig_glyph)
  else if negb (class_guess =? 0) then N.lor (N.land props GP_PRESERVE) class_guess
  else props.

(* the glyphs between / at the matched positions after the first one: components are dropped
   (`buffer.idx += 1`), everything else is copied out; when a real ligature forms, a skipped glyph (a mark) is
   numbered by the components in front of it: new = comps_so_far - last_num_comps + min(this_comp or last_num_comps,
   last_num_comps), where a component that is itself a ligature counts with ITS number of components
   (ligate_input).  Returns the output glyphs, the remaining input and the final (comps_so_far, last_lig_id,
   last_num_comps) for the marks that follow the last component. *)
Definition renumbered_comp (comps_so_far last_num : N) (x : info) : N :=
  let this_comp := if lig_comp x =? 0 then last_num else lig_comp x in
  comps_so_far - last_num + N.min this_comp last_num.

Fixpoint ligate_tail (is_lig : bool) (lid : N) (l : list info) (k : nat) (positions : list nat)
         (comps_so_far last_lig last_num : N) : list info * list info * (N * N * N) :=
  match positions with
  | [] => ([], l, (comps_so_far, last_lig, last_num))
  | p :: pt =>
      match l with
      | [] => ([], [], (comps_so_far, last_lig, last_num))
      | x :: t =>
          if (k =? p)%nat then ligate_tail is_lig lid t (S k) pt (comps_so_far + lig_num_comps x) (lig_id x) (lig_num_comps x)
          else
            let x' := if is_lig then set_ligprops x (N.lor (N.shiftl lid 5) (N.land (renumbered_comp comps_so_far last_num x) 15)) else x in
            let '(out, rest', st) := ligate_tail is_lig lid t (S k) positions comps_so_far last_lig last_num in
            (x' :: out, rest', st)
      end
  end.

(* marks behind the last component that belonged to it while it was a ligature of its own keep their place,
   shifted by the components in front of that ligature (in place, on the remaining input) *)
Fixpoint renumber_following (lid comps_so_far last_lig last_num : N) (l : list info) : list info :=
  match l with
  | [] => []
  | x :: t =>
      if (lig_id x =? last_lig) && negb (lig_comp x =? 0)
      then set_ligprops x (N.lor (N.shiftl lid 5) (N.land (renumbered_comp comps_so_far last_num x) 15))
           :: renumber_following lid comps_so_far last_lig last_num t
      else l
  end.

(* ligate_input *)
Definition ligate (f : font) (b : zbuf) (serial : N) (positions : list nat) (lig_glyph : N) : result (zbuf * N) :=
  let last := last positions O in
  do b1 <- merge_clusters_full b (dead b) (dead b + S last);
  match rest b1 with
  | [] => Error Oob
  | first :: tl =>
      let comps := map (geti (rest b1)) positions in
      let all_marks := forallb is_mark comps in
      let is_base_lig := is_base_glyph first && all_marks in
      let is_mark_lig := is_mark first && all_marks in
      let is_lig := negb is_base_lig && negb is_mark_lig in
      let '(lid, serial') := if is_lig then allocate_lig_id serial else (0, serial) in
      (* total_component_count of match_input: every matched glyph counts with its own number of components *)
      let total := fold_left (fun a x => a + lig_num_comps x) comps (lig_num_comps first) in
      let first_lig := lig_id first in
      let first_num := lig_num_comps first in
      let first1 := if is_lig then set_ligprops first (N.lor (N.shiftl lid 5) (N.lor 16 (N.land total 15))) else first in
      let first2 := set_gid (set_gprops first1 (ligature_glyph_props f (gprops first1) (if is_lig then GP_LIGATURE else 0) lig_glyph)) lig_glyph in
      let '(out, rest', st) := ligate_tail is_lig lid tl 1 positions first_num first_lig first_num in
      let '(so_far, last_lig, last_num) := st in
      let rest'' := if negb is_mark_lig && negb (last_lig =? 0) then renumber_following lid so_far last_lig last_num rest' else rest' in
      Ok (with_pr b1 (pre b1 ++ first2 :: out) rest'' (dead b1 + S last), serial')
  end.

Fixpoint try_ligatures (f : font) (mp : N) (b : zbuf) (serial : N) (ligs : list ligature) : result (option (zbuf * N)) :=
  match ligs with
  | [] => Ok None
  | lg :: t =>
      match lig_components lg with
      | [] => Error AssertFail   (* single-component ligature: outside the modelled domain *)
      | comps =>
          match match_components f mp (rest b) O comps with
          | Some positions => do r <- ligate f b serial positions (lig_glyph lg); Ok (Some r)
          | None => try_ligatures f mp b serial t
          end
      end
  end.

Fixpoint try_lig_subtables (f : font) (mp : N) (b : zbuf) (serial : N) (sts : list subst_subtable) : result (option (zbuf * N)) :=
  match sts with
  | [] => Ok None
  | SLigature cov sets :: t =>
      match rest b with
      | [] => Ok None
      | cur :: _ =>
          match coverage_index cov (gid cur) with
          | Some k =>
              match nth_error sets (N.to_nat k) with
              | Some ligs =>
                  do r <- try_ligatures f mp b serial ligs;
                  match r with Some x => Ok (Some x) | None => try_lig_subtables f mp b serial t end
              | None => try_lig_subtables f mp b serial t
              end
          | None => try_lig_subtables f mp b serial t
          end
      end
  | _ :: _ => Error AssertFail   (* other GSUB lookup types: outside the modelled domain (see Model/Gsub.v) *)
  end.

Fixpoint gsub_forward (fuel : nat) (f : font) (mp : N) (sts : list subst_subtable) (b : zbuf) (serial : N) : result (zbuf * N) :=
  match fuel with
  | O => Ok (b, serial)
  | S fuel =>
      match rest b with
      | [] => Ok (b, serial)
      | cur :: _ =>
          if check_glyph_property f cur mp then
            do r <- try_lig_subtables f mp b serial sts;
            match r with
            | Some (b1, s1) => gsub_forward fuel f mp sts b1 s1
            | None => do b1 <- next_glyph b; gsub_forward fuel f mp sts b1 serial
            end
          else do b1 <- next_glyph b; gsub_forward fuel f mp sts b1 serial
      end
  end.

(* apply_string for one GSUB lookup: clear_output, forward pass, sync *)
Definition gsub_lookup_string (f : font) (lk : lookup subst_subtable) (infos : list info) (serial : N) : result (list info * N) :=
  match infos with
  | [] => Ok ([], serial)
  | _ =>
      let b := mkZ [] infos O true 0 0 true (enter_max_len (N.of_nat (length infos)) MAX_LEN_DEFAULT) 0 in
      do r <- gsub_forward (length infos) f (lookup_props lk) (lk_subtables lk) b serial;
      Ok (pre (fst r) ++ rest (fst r), snd r)
  end.

Fixpoint gsub_apply_lookups (f : font) (lks : list (lookup subst_subtable)) (idxs : list N) (infos : list info) (serial : N)
  : result (list info) :=
  match idxs with
  | [] => Ok infos
  | k :: t =>
      match nth_error lks (N.to_nat k) with
      | Some lk => do r <- gsub_lookup_string f lk infos serial; gsub_apply_lookups f lks t (fst r) (snd r)
      | None => gsub_apply_lookups f lks t infos serial
      end
  end.

Definition gsub_substitute (f : font) (enabled : list N) (infos : list info) : result (list info) :=
  match f_gsub f with
  | Some ly => gsub_apply_lookups f (ly_lookups ly) (plan_lookups ly enabled) infos 0
  | None => Ok infos
  end.

(* ---------- position_default ---------- *)
Local Close Scope N_scope.
Local Open Scope Z_scope.

Definition glyph_h_advance (f : font) (g : N) : Z := Z.of_N (hadv_of f g).
Definition glyph_v_advance (f : font) (g : N) : Z :=
  match f_vmetrics f with
  | Some vm => - Z.of_N (nth (N.to_nat g) (vm_vadv vm) 0%N)
  | None => - (f_ascender f - f_descender f)
  end.
(* no glyf / VORG / bitmap tables in generated fonts: glyph_v_origin falls back to the ascender *)
Definition glyph_v_origin (f : font) (g : N) : Z := f_ascender f.
Definition glyph_h_origin (f : font) (g : N) : Z := Z.quot (glyph_h_advance f g) 2.

Definition position_default (f : font) (d : direction) (infos : list info) : list pos :=
  map (fun i =>
         let g := gid i in
         if is_horizontal d then mkPos (glyph_h_advance f g) 0 0 0 0 0
         else mkPos 0 (glyph_v_advance f g) (- glyph_h_origin f g) (- glyph_v_origin f g) 0 0) infos.

(* zero_mark_widths_by_gdef *)
Fixpoint zero_mark_widths (adjust : bool) (infos : list info) (ps : list pos) : list pos :=
  match infos, ps with
  | i :: it, p :: pt =>
      (if is_mark i
       then mkPos 0 0 (if adjust then xo p - xa p else xo p) (if adjust then yo p - ya p else yo p) (chain p) (atype p)
       else p) :: zero_mark_widths adjust it pt
  | _, _ => ps
  end.

(* ---------- the pipeline ---------- *)

Record request := mkReq {
  r_text : list (N * N);          (* (code point, cluster) *)
  r_dir : direction;              (* the direction set on the buffer *)
  r_hor : option direction;       (* Direction::from_script of the buffer's script *)
  r_feats : list (N * bool)       (* user features: tag, on/off; global *)
}.

Record glyph_out := mkOut { o_gid : N; o_cluster : N; o_xa : Z; o_ya : Z; o_xo : Z; o_yo : Z }.

(* position_complex + the final reverse, from the glyphs GSUB left.
   `kern_fn` is the kern subtable loop (repaired or unrepaired shape). *)
Definition position_with (kern_fn : font -> direction -> bool -> list kern_subtable -> kstate -> kstate)
           (f : font) (pl : plan) (d : direction) (infos : list info) : result (list info * list pos) :=
  let ps0 := position_default f d infos in
  (* GPOS::position_start: attach_chain = attach_type = 0 (already so) *)
  let '(ps1, a1) := if p_apply_gpos pl then gpos_position f d (p_enabled pl) infos ps0 false else (ps0, false) in
  let '(infos2, ps2, a2) :=
    if p_apply_kern pl then
      match f_kern f with
      | Some sts => let s := kern_fn f d (p_requested_kerning pl) sts (mkK infos ps1 a1 false) in (k_infos s, k_ps s, k_attach s)
      | None => (infos, ps1, a1)
      end
    else (infos, ps1, a1) in
  let ps3 := if p_zero_marks pl then zero_mark_widths (p_adjust_when_zeroing pl && is_forward d) infos2 ps2 else ps2 in
  match position_finish_offsets d a2 ps3 with
  | None => Error AssertFail
  | Some ps4 => if is_backward d then Ok (rev infos2, rev ps4) else Ok (infos2, ps4)
  end.

Definition shape_with (kern_fn : font -> direction -> bool -> list kern_subtable -> kstate -> kstate)
           (f : font) (r : request) : result (list glyph_out) :=
  let '(d, flipped) := ensure_native_direction (r_dir r) (r_hor r) false in
  let pl := make_plan f d (r_feats r) in
  let infos0 := init_infos f (p_fallback_classes pl) (r_text r) in
  (* _hb_ot_layout_reverse_graphemes: every PUA character is its own grapheme *)
  let infos1 := if flipped then rev infos0 else infos0 in
  do infos2 <- gsub_substitute f (p_enabled pl) infos1;
  do r <- position_with kern_fn f pl d infos2;
  Ok (map (fun '(i, p) => mkOut (gid i) (cluster i) (xa p) (ya p) (xo p) (yo p)) (combine (fst r) (snd r))).

Definition shape_model (f : font) (r : request) : result (list glyph_out) := shape_with kern_loop f r.
Definition shape_model_unpaired (f : font) (r : request) : result (list glyph_out) := shape_with kern_loop_unpaired f r.
