(* Model/Prefilter.v — the lookup-skip decision of apply_layout_table (src/hb/ot_layout.rs) over an
   abstract lookup interpreter.  The apply context carries a digest of the buffer's glyphs; a lookup
   whose own digest is disjoint from it is skipped as a whole; substitutions add their outputs to the
   context digest; a pause function that changes the glyph set must ask for a refresh.
   The interpreter (`apply`), the glyph set of a buffer, coverage and the digest bookkeeping are Section
   variables: the theorem in Proofs/PrefilterP.v says under which conditions on them skipping is
   transparent.  Those conditions are tied to the code by: DigestP (lookup digests built by
   add/add_array/add_range over-approximate their coverage), the run-time monitor hook at the skip
   decision (context digest covers the buffer), and the prefilter on/off differential (a lookup that
   covers no glyph of the buffer leaves it unchanged). *)
From Coq Require Import List NArith Bool.
From RB Require Import Model.Digest.
Import ListNotations.
Local Open Scope N_scope.

Section Skip.
Variable shifts : list N.
Variable lookup buf : Type.
Variable apply : lookup -> buf -> buf.                       (* apply_string: the lookup at every position *)
Variable ldig : lookup -> digest.                            (* lookup.digest() *)
Variable track : lookup -> buf -> digest -> digest.          (* context digest after applying: outputs added *)
Variable bdig : buf -> digest.                               (* buffer.digest(): recomputed from scratch *)

(* one stage: its lookups, then an optional pause returning (refresh?, buffer) *)
Record stage := mkStage { st_lookups : list lookup; st_pause : option (buf -> bool * buf) }.

Definition step_filtered (c : buf * digest) (l : lookup) : buf * digest :=
  let '(b, d) := c in
  if d_may_have (ldig l) d then (apply l b, track l b d) else (b, d).

Definition step_plain (b : buf) (l : lookup) : buf := apply l b.

Definition stage_filtered (c : buf * digest) (s : stage) : buf * digest :=
  let '(b, d) := fold_left step_filtered (st_lookups s) c in
  match st_pause s with
  | None => (b, d)
  | Some p => let '(r, b') := p b in (b', if r then bdig b' else d)
  end.

Definition stage_plain (b : buf) (s : stage) : buf :=
  let b1 := fold_left step_plain (st_lookups s) b in
  match st_pause s with None => b1 | Some p => snd (p b1) end.

Definition run_filtered (b : buf) (ss : list stage) : buf := fst (fold_left stage_filtered ss (b, bdig b)).
Definition run_plain (b : buf) (ss : list stage) : buf := fold_left stage_plain ss b.
End Skip.
Arguments mkStage {lookup buf}.
Arguments st_lookups {lookup buf}.
Arguments st_pause {lookup buf}.
