(* Model/Simple.v — property C16: the whole shaping pipeline (ot_shape.rs `shape_internal`) for a font
   WITHOUT layout, kerning or AAT tables (no GSUB/GPOS/GDEF/kern/kerx/morx/trak, no glyf/CFF/VORG, no
   OS/2, not variable), as the code runs it under the default (or Hebrew) shaper.  Executable, no proofs.

   Input : parsed font view (Model/Font.v), Unicode oracle (general category, default-ignorable bit,
           bidi-mirroring and vertical-form tables: Unicode data crates are not modelled), request
           (effective direction, native horizontal direction of the segment's script, cluster level,
           not-found-variation-selector glyph, "zero ignorables" flag), text as (code point, cluster).
   Output: list of (glyph id, cluster, x_advance, y_advance, x_offset, y_offset) in final order.

   Domain on which the model is validated by correspondence (Corr/SimpleC.v `in_domain`):
     * every character is either a non-mark, non-default-ignorable character that is no space
       (general category Zs), not U+2011, and — when the font does not map it — has no canonical
       decomposition; or a variation selector (U+FE00..FE0F, U+E0100..E01EF) that directly follows
       such a character, with `not_found_vs = Some g` whenever the font has no cmap-14 entry for
       the pair (otherwise the selector stays default-ignorable and is hidden/deleted: C13's domain);
     * no emoji modifiers, regional indicators, ZWJ, tag characters, halfwidth katakana sound marks
       (the other grapheme-continuation sources of `set_unicode_props`);
     * clusters strictly increasing when the text contains a variation selector (merge_clusters
       extends over equal neighbouring clusters, which is not modelled).
   Outside that domain (other marks: normalizer rounds 1-3 and fallback mark positioning; default
   ignorables: hide/delete; spaces: `_hb_ot_shape_fallback_spaces`) the functions below are still
   total, and the positioning steps keep their axis discipline (Proofs/SimpleP.v), but the glyph
   sequence is not claimed.

   Source reading (ot_shape.rs, default shaper, plan for such a font: apply_gpos = apply_kern =
   apply_kerx = apply_morx = false, fallback_glyph_classes = true, zero_marks = true (BY_GDEF_LATE),
   adjust_mark_positioning_when_zeroing = true, fallback_mark_positioning = true, has_vert = false,
   rtlm_mask irrelevant):
     set_unicode_props; insert_dotted_circle (no: text does not start with a mark);
     form_clusters; ensure_native_direction; rotate_chars; normalize (round 1 only acts);
     map_glyphs_fast; hb_synthesize_glyph_classes; position_default; zero_mark_widths_by_gdef;
     zero_width_default_ignorables; fallback position_marks (no glyph extents: zero_mark_advances);
     final reverse when the buffer direction is backward; deal_with_variation_selectors;
     hide_default_ignorables (identity on the domain). *)
From Coq Require Import List NArith ZArith Bool.
From RB Require Import Model.Font.
Import ListNotations.
Local Open Scope N_scope.
Local Open Scope bool_scope.

(* ------------------------------------------------------------------ directions *)
Inductive dir := LTR | RTL | TTB | BTT.
Definition is_horizontal (d : dir) : bool := match d with LTR | RTL => true | _ => false end.
Definition is_vertical (d : dir) : bool := negb (is_horizontal d).
Definition is_backward (d : dir) : bool := match d with RTL | BTT => true | _ => false end.
Definition is_forward (d : dir) : bool := negb (is_backward d).
Definition dir_reverse (d : dir) : dir := match d with LTR => RTL | RTL => LTR | TTB => BTT | BTT => TTB end.
Definition dir_eqb (a b : dir) : bool :=
  match a, b with LTR, LTR | RTL, RTL | TTB, TTB | BTT, BTT => true | _, _ => false end.

(* Direction::from_script(script).unwrap_or_default(): Invalid for no script / scripts without a
   horizontal direction entry *)
Inductive hdir := HInvalid | HLtr | HRtl.

(* ------------------------------------------------------------------ Unicode oracle *)
Record oracle := mkOracle {
  o_gc : N -> N;             (* general category, RB_UNICODE_GENERAL_CATEGORY_* numbering *)
  o_ign : N -> bool;         (* is_default_ignorable (only consulted for cp >= 0x80, as the code does) *)
  o_mirror : N -> option N;  (* unicode_bidi_mirroring::get_mirrored *)
  o_vert : N -> option N     (* CharExt::vertical *)
}.

Definition gc_is_mark (gc : N) : bool := (gc =? 10) || (gc =? 11) || (gc =? 12). (* Mc Me Mn *)
Definition gc_is_nsm (gc : N) : bool := gc =? 12.
Definition gc_is_digit (gc : N) : bool := gc =? 13.
Definition gc_is_letter (gc : N) : bool := (5 <=? gc) && (gc <=? 9).              (* Ll Lm Lo Lt Lu *)

Definition is_vs_cp (c : N) : bool :=
  ((65024 <=? c) && (c <=? 65039)) || ((917760 <=? c) && (c <=? 917999)). (* FE00..FE0F, E0100..E01EF *)
Definition is_ri_cp (c : N) : bool := (127462 <=? c) && (c <=? 127487).    (* 1F1E6..1F1FF *)

(* ------------------------------------------------------------------ glyph record *)
Record glyph := mkGlyph {
  g_cp : N;        (* hb_glyph_info_t.glyph_id while it holds a code point *)
  g_gid : N;       (* glyph_index(), copied to glyph_id by map_glyphs_fast *)
  g_cluster : N;
  g_gc : N;        (* unicode props: general category *)
  g_ign : bool;    (* unicode props: default-ignorable bit *)
  g_vs : bool;     (* variation-selector flag set by the normalizer *)
  g_xa : Z; g_ya : Z; g_xo : Z; g_yo : Z }.

Definition g_umark (g : glyph) : bool := gc_is_mark (g_gc g).        (* _hb_glyph_info_is_unicode_mark *)
Definition g_cont (g : glyph) : bool := g_umark g.                    (* continuation bit (domain) *)
(* glyph props MARK as hb_synthesize_glyph_classes gives them: Mn and not default-ignorable *)
Definition g_classmark (g : glyph) : bool := gc_is_nsm (g_gc g) && negb (g_ign g).

Definition set_cp (g : glyph) (c : N) : glyph :=
  mkGlyph c (g_gid g) (g_cluster g) (g_gc g) (g_ign g) (g_vs g) (g_xa g) (g_ya g) (g_xo g) (g_yo g).
Definition set_gid (g : glyph) (i : N) : glyph :=
  mkGlyph (g_cp g) i (g_cluster g) (g_gc g) (g_ign g) (g_vs g) (g_xa g) (g_ya g) (g_xo g) (g_yo g).
Definition set_cluster (c : N) (g : glyph) : glyph :=
  mkGlyph (g_cp g) (g_gid g) c (g_gc g) (g_ign g) (g_vs g) (g_xa g) (g_ya g) (g_xo g) (g_yo g).
Definition set_flags (g : glyph) (ign vs : bool) : glyph :=
  mkGlyph (g_cp g) (g_gid g) (g_cluster g) (g_gc g) ign vs (g_xa g) (g_ya g) (g_xo g) (g_yo g).
Definition set_pos (g : glyph) (xa ya xo yo : Z) : glyph :=
  mkGlyph (g_cp g) (g_gid g) (g_cluster g) (g_gc g) (g_ign g) (g_vs g) xa ya xo yo.

(* buffer.add + set_unicode_props (init_unicode_props: the ignorable bit only for cp >= 0x80) *)
Definition init_glyph (o : oracle) (cc : N * N) : glyph :=
  let '(c, cl) := cc in
  mkGlyph c 0 cl (o_gc o c) ((128 <=? c) && o_ign o c) false 0 0 0 0.
Definition init_glyphs (o : oracle) (text : list (N * N)) : list glyph := map (init_glyph o) text.

(* ------------------------------------------------------------------ graphemes *)
(* foreach_grapheme / reverse_groups(_hb_grapheme_group_func): a group is a glyph followed by its
   continuation glyphs (a leading continuation glyph starts the first group) *)
Fixpoint groups_aux (cur : list glyph) (l : list glyph) : list (list glyph) :=
  match l with
  | [] => match cur with [] => [] | _ => [rev cur] end
  | g :: t => match cur with
              | [] => groups_aux [g] t
              | _ => if g_cont g then groups_aux (g :: cur) t else rev cur :: groups_aux [g] t
              end
  end.
Definition groups (l : list glyph) : list (list glyph) := groups_aux [] l.

Fixpoint min_cluster (m : N) (l : list glyph) : N :=
  match l with [] => m | g :: t => min_cluster (N.min m (g_cluster g)) t end.
(* merge_clusters over one group (levels 0 and 1; no equal-cluster neighbours: domain) *)
Definition merge_group (gr : list glyph) : list glyph :=
  match gr with
  | [] => []
  | [g] => [g]
  | g :: _ => map (set_cluster (min_cluster (g_cluster g) gr)) gr
  end.

(* form_clusters: level 0 merges each grapheme; levels 1/2 only set flags (not part of C16) *)
Definition form_clusters (level : N) (l : list glyph) : list glyph :=
  if level =? 0 then concat (map merge_group (groups l)) else l.

(* _hb_ot_layout_reverse_graphemes = reverse_groups(.., level == MONOTONE_CHARACTERS) *)
Definition reverse_graphemes (level : N) (l : list glyph) : list glyph :=
  concat (rev (map (fun gr => if level =? 1 then merge_group gr else gr) (groups l))).

(* ------------------------------------------------------------------ ensure_native_direction *)
(* the scan over the buffer: (found_number, found_letter, found_ri), stopping at the first letter *)
Fixpoint native_scan (l : list glyph) (num ri : bool) : bool * bool * bool :=
  match l with
  | [] => (num, false, ri)
  | g :: t => if gc_is_digit (g_gc g) then native_scan t true ri
              else if gc_is_letter (g_gc g) then (num, true, ri)
              else if is_ri_cp (g_cp g) then native_scan t num true
              else native_scan t num ri
  end.

Definition native_hor (hor : hdir) (d : dir) (l : list glyph) : hdir :=
  match hor, d with
  | HRtl, LTR => let '(num, letter, ri) := native_scan l false false in
                 if (num || ri) && negb letter then HLtr else HRtl
  | _, _ => hor
  end.

Definition hdir_is (h : hdir) (d : dir) : bool :=
  match h, d with HLtr, LTR => true | HRtl, RTL => true | _, _ => false end.

Definition needs_flip (hor : hdir) (d : dir) : bool :=
  (is_horizontal d && negb (hdir_is hor d) && match hor with HInvalid => false | _ => true end)
  || (is_vertical d && negb (dir_eqb d TTB)).

(* returns the buffer and the buffer direction used for the rest of the pipeline *)
Definition ensure_native_direction (hor : hdir) (level : N) (d : dir) (l : list glyph) : list glyph * dir :=
  let h := native_hor hor d l in
  if needs_flip h d then (reverse_graphemes level l, dir_reverse d) else (l, d).

(* ------------------------------------------------------------------ rotate_chars *)
Definition nominal (f : font) (c : N) : N := match cmap_lookup f c with Some g => g | None => 0 end.
Definition has_glyph (f : font) (c : N) : bool := match cmap_lookup f c with Some _ => true | None => false end.

Definition rot_one (f : font) (tbl : N -> option N) (c : N) : N :=
  match tbl c with Some m => if has_glyph f m then m else c | None => c end.

(* on code points; `target` is the requested direction (ctx.target_direction), not the buffer's *)
Definition rot_cp (f : font) (o : oracle) (target : dir) (c : N) : N :=
  let c1 := if is_backward target then rot_one f (o_mirror o) c else c in
  if is_vertical target then rot_one f (o_vert o) c1 else c1.

Definition rotate_chars (f : font) (o : oracle) (target : dir) (l : list glyph) : list glyph :=
  map (fun g => set_cp g (rot_cp f o target (g_cp g))) l.

(* ------------------------------------------------------------------ normalize (round 1) + map_glyphs_fast *)
Fixpoint cmap14_lookup (l : list (N * N * N)) (base vs : N) : option N :=
  match l with
  | [] => None
  | (b, s, g) :: t => if (b =? base) && (s =? vs) then Some g else cmap14_lookup t base vs
  end.

(* base glyph followed by a variation selector: handle_variation_selector_cluster;
   everything else: glyph_index = nominal glyph, .notdef when unmapped (domain: no decomposition,
   no space fallback, not U+2011) *)
Fixpoint normalize (f : font) (level : N) (nf : option N) (l : list glyph) : list glyph :=
  match l with
  | [] => []
  | b :: t =>
    match t with
    | v :: t' =>
      if g_umark v && is_vs_cp (g_cp v) then
        match cmap14_lookup (f_cmap14 f) (g_cp b) (g_cp v) with
        | Some g =>
          (* replace_glyphs(2, 1): merge_clusters (no-op at level 2), the base survives *)
          let cl := if level =? 2 then g_cluster b else N.min (g_cluster b) (g_cluster v) in
          set_cluster cl (set_gid b g) :: normalize f level nf t'
        | None =>
          set_gid b (nominal f (g_cp b))
          :: set_gid (set_flags v (match nf with Some _ => false | None => g_ign v end) true) (nominal f (g_cp v))
          :: normalize f level nf t'
        end
      else set_gid b (nominal f (g_cp b)) :: normalize f level nf t
    | [] => [set_gid b (nominal f (g_cp b))]
    end
  end.

(* ------------------------------------------------------------------ metrics (face.rs) *)
(* glyph_h_advance: hmtx advance (0 beyond the table) *)
Definition h_advance (f : font) (g : N) : Z := Z.of_N (hadv_of f g).
(* glyph_v_advance: -(vmtx advance), or -(ascender - descender) computed in i32 (since /repo 836488e;
   before that fix the subtraction was done in i16 and wrapped / panicked for differences > 32767) *)
Definition v_advance (f : font) (g : N) : Z :=
  match f_vmetrics f with
  | Some vm => (- Z.of_N (nth (N.to_nat g) (vm_vadv vm) 0%N))%Z
  | None => (- (f_ascender f - f_descender f))%Z
  end.
(* glyph_h_origin: h_advance / 2 (i32 division of a non-negative value) *)
Definition h_origin (f : font) (g : N) : Z := (h_advance f g / 2)%Z.
(* glyph_v_origin without VORG and without glyph extents: the hhea ascender — also when vhea/vmtx exist *)
Definition v_origin (f : font) (g : N) : Z := f_ascender f.

(* ------------------------------------------------------------------ positioning steps *)
(* position_default after clear_positions *)
Definition position_default_one (f : font) (d : dir) (g : glyph) : glyph :=
  if is_horizontal d then set_pos g (h_advance f (g_gid g)) (g_ya g) (g_xo g) (g_yo g)
  else set_pos g (g_xa g) (v_advance f (g_gid g)) (g_xo g - h_origin f (g_gid g))%Z (g_yo g - v_origin f (g_gid g))%Z.
Definition clear_positions (l : list glyph) : list glyph := map (fun g => set_pos g 0 0 0 0) l.
Definition position_default (f : font) (d : dir) (l : list glyph) : list glyph := map (position_default_one f d) l.

(* zero_mark_widths_by_gdef / zero_mark_advances on the glyphs selected by p *)
Definition zero_mark (adjust : bool) (g : glyph) : glyph :=
  if adjust then set_pos g 0 0 (g_xo g - g_xa g)%Z (g_yo g - g_ya g)%Z else set_pos g 0 0 (g_xo g) (g_yo g).
Definition zero_mark_widths (adjust : bool) (l : list glyph) : list glyph :=
  map (fun g => if g_classmark g then zero_mark adjust g else g) l.

(* zero_width_default_ignorables *)
Definition zero_ignorables (enabled : bool) (l : list glyph) : list glyph :=
  if enabled then map (fun g => if g_ign g then set_pos g 0 0 0 0 else g) l else l.

(* fallback position_marks when no glyph has extents: zero_mark_advances on every Mn glyph that has
   a non-mark glyph somewhere before it *)
Fixpoint fallback_marks (adjust : bool) (seen_base : bool) (l : list glyph) : list glyph :=
  match l with
  | [] => []
  | g :: t =>
    if g_umark g then (if seen_base && gc_is_nsm (g_gc g) then zero_mark adjust g else g) :: fallback_marks adjust seen_base t
    else g :: fallback_marks adjust true t
  end.

(* deal_with_variation_selectors *)
Definition deal_with_vs (nf : option N) (l : list glyph) : list glyph :=
  match nf with
  | None => l
  | Some n => map (fun g => if g_vs g then set_flags (set_pos (set_gid g n) 0 0 0 0) (g_ign g) false else g) l
  end.

(* position(): position_default, position_complex, final reverse *)
Definition position (f : font) (d : dir) (zero_ign : bool) (l : list glyph) : list glyph :=
  let adjust := is_forward d in
  let l1 := position_default f d (clear_positions l) in
  let l2 := zero_mark_widths adjust l1 in
  let l3 := zero_ignorables zero_ign l2 in
  let l4 := fallback_marks adjust false l3 in
  if is_backward d then rev l4 else l4.

(* ------------------------------------------------------------------ the pipeline *)
Record request := mkReq {
  r_dir : dir;            (* effective direction (after guess_segment_properties) = target_direction *)
  r_hor : hdir;           (* native horizontal direction of the (guessed or given) script *)
  r_level : N;            (* 0 monotone graphemes, 1 monotone characters, 2 characters *)
  r_nf : option N;        (* not_found_variation_selector *)
  r_zero_ign : bool       (* neither PRESERVE_ nor REMOVE_DEFAULT_IGNORABLES *)
}.

Definition outg := (N * N * Z * Z * Z * Z)%type.
Definition out_of (g : glyph) : outg := (g_gid g, g_cluster g, g_xa g, g_ya g, g_xo g, g_yo g).
Definition og_gid (x : outg) : N := let '(g, _, _, _, _, _) := x in g.
Definition og_xa (x : outg) : Z := let '(_, _, a, _, _, _) := x in a.
Definition og_ya (x : outg) : Z := let '(_, _, _, a, _, _) := x in a.

Definition shape_glyphs (f : font) (o : oracle) (r : request) (text : list (N * N)) : list glyph :=
  let l0 := init_glyphs o text in
  let l1 := form_clusters (r_level r) l0 in
  let '(l2, d) := ensure_native_direction (r_hor r) (r_level r) (r_dir r) l1 in
  let l3 := rotate_chars f o (r_dir r) l2 in
  let l4 := normalize f (r_level r) (r_nf r) l3 in
  let l5 := position f d (r_zero_ign r) l4 in
  deal_with_vs (r_nf r) l5.

Definition shape_simple (f : font) (o : oracle) (r : request) (text : list (N * N)) : list outg :=
  map out_of (shape_glyphs f o r text).

(* ------------------------------------------------------------------ the domain (decidable) *)
Definition plain_char (o : oracle) (c : N) : bool :=
  negb (gc_is_mark (o_gc o c)) && negb ((128 <=? c) && o_ign o c) && negb (o_gc o c =? 29) && negb (c =? 8209).

Fixpoint text_in_domain (f : font) (o : oracle) (nf : option N) (prev_plain : bool) (text : list (N * N)) : bool :=
  match text with
  | [] => true
  | (c, _) :: t =>
    if plain_char o c then text_in_domain f o nf true t
    else is_vs_cp c && gc_is_nsm (o_gc o c) && prev_plain
         && match nf with Some _ => true | None => false end
         && text_in_domain f o nf false t
  end.

Fixpoint strictly_increasing (l : list (N * N)) : bool :=
  match l with
  | (_, a) :: (((_, b) :: _) as t) => (a <? b) && strictly_increasing t
  | _ => true
  end.

Definition in_domain (f : font) (o : oracle) (r : request) (text : list (N * N)) : bool :=
  text_in_domain f o (r_nf r) false text
  && (forallb (fun cc => plain_char o (fst cc)) text || strictly_increasing text).

(* ------------------------------------------------------------------ GPOS / kern position writers
   Transcribed from ot_layout_gpos_table.rs (ValueRecord::apply_to_pos, no device tables),
   ot/layout/GPOS/cursive_pos.rs (main-direction part) and kerning.rs (format 0 pair kerning and the
   state-machine writer), as operations on (x_advance, y_advance, x_offset, y_offset).  They are used
   only by the axis theorems; the glyph-level GPOS model is C07's.  `horizontal` is the buffer direction. *)
Definition pos4 := (Z * Z * Z * Z)%type.

Definition apply_value (horizontal : bool) (v : value_record) (p : pos4) : pos4 :=
  let '(xa, ya, xo, yo) := p in
  let xo := if (vr_xp v =? 0)%Z then xo else (xo + vr_xp v)%Z in
  let yo := if (vr_yp v =? 0)%Z then yo else (yo + vr_yp v)%Z in
  let xa := if negb (vr_xa v =? 0)%Z && horizontal then (xa + vr_xa v)%Z else xa in
  let ya := if negb (vr_ya v =? 0)%Z && negb horizontal then (ya - vr_ya v)%Z else ya in
  (xa, ya, xo, yo).

(* cursive attachment, main direction: (pos[i], pos[j]) for exit anchor of i and entry anchor of j *)
Definition cursive_main (d : dir) (exit_a entry_a : Z * Z) (pi pj : pos4) : pos4 * pos4 :=
  let '(xai, yai, xoi, yoi) := pi in
  let '(xaj, yaj, xoj, yoj) := pj in
  let '(exit_x, exit_y) := exit_a in
  let '(entry_x, entry_y) := entry_a in
  match d with
  | LTR => let dd := (entry_x + xoj)%Z in ((exit_x + xoi, yai, xoi, yoi), (xaj - dd, yaj, xoj - dd, yoj))%Z
  | RTL => let dd := (exit_x + xoi)%Z in ((xai - dd, yai, xoi - dd, yoi), (entry_x + xoj, yaj, xoj, yoj))%Z
  | TTB => let dd := (entry_y + yoj)%Z in ((xai, exit_y + yoi, xoi, yoi), (xaj, yaj - dd, xoj, yoj - dd))%Z
  | BTT => let dd := (exit_y + yoi)%Z in ((xai, yai - dd, xoi, yoi - dd), (xaj, entry_y, xoj, yoj))%Z
  end.

(* kerning.rs, pair kerning of (i, j) by `kern` (kern1 = kern >> 1) *)
Definition kern_pair (horizontal cross_stream : bool) (kern : Z) (pi pj : pos4) : pos4 * pos4 :=
  let '(xai, yai, xoi, yoi) := pi in
  let '(xaj, yaj, xoj, yoj) := pj in
  let k1 := Z.shiftr kern 1 in
  let k2 := (kern - k1)%Z in
  if (kern =? 0)%Z then (pi, pj)
  else if horizontal then
    (if cross_stream then (pi, (xaj, yaj, xoj, kern))
     else ((xai + k1, yai, xoi, yoi), (xaj + k2, yaj, xoj + k2, yoj)))%Z
  else
    (if cross_stream then (pi, (xaj, yaj, kern, yoj))
     else ((xai, yai + k1, xoi, yoi), (xaj, yaj + k2, xoj, yoj + k2)))%Z.
