(* Model/Skip.v — glyph-info accessors, glyph property check and the skipping iterator of
   src/hb/ot_layout_gsubgpos.rs (hb_ot_apply_context_t::check_glyph_property, skipping_iterator_t with
   may_match / may_skip / match_ / next / prev) and the `_hb_glyph_info_*` helpers of
   src/hb/ot_layout.rs that GSUB and GPOS matching use.  Executable, no proofs.

   var1 of an info packs (little endian) glyph_props : u16 (bits 0..15), lig_props : u8 (bits 16..23),
   syllable : u8 (bits 24..31); var2 packs unicode_props : u16 (bits 0..15). *)
From Coq Require Import List NArith Bool Arith.
From RB Require Import Base.Result Model.Buffer Model.Font.
Import ListNotations.
Local Open Scope N_scope.

(* ---------- var1 / var2 accessors (buffer.rs hb_glyph_info_t) ---------- *)

Definition glyph_props (i : info) : N := N.land (var1 i) 65535.
Definition lig_props (i : info) : N := N.land (N.shiftr (var1 i) 16) 255.
Definition syllable (i : info) : N := N.land (N.shiftr (var1 i) 24) 255.
Definition unicode_props (i : info) : N := N.land (var2 i) 65535.

Definition set_var1 (i : info) (v : N) : info := mkInfo (gid i) (mask i) (cluster i) v (var2 i).
Definition set_var2 (i : info) (v : N) : info := mkInfo (gid i) (mask i) (cluster i) (var1 i) v.

Definition set_glyph_props (i : info) (p : N) : info :=
  set_var1 i (N.lor (N.ldiff (var1 i) 65535) (N.land p 65535)).
Definition set_lig_props (i : info) (p : N) : info :=
  set_var1 i (N.lor (N.ldiff (var1 i) 16711680) (N.shiftl (N.land p 255) 16)).
Definition set_unicode_props (i : info) (p : N) : info :=
  set_var2 i (N.lor (N.ldiff (var2 i) 65535) (N.land p 65535)).

(* GlyphPropsFlags *)
Definition GP_BASE : N := 2.
Definition GP_LIGATURE : N := 4.
Definition GP_MARK : N := 8.
Definition GP_SUBSTITUTED : N := 16.
Definition GP_LIGATED : N := 32.
Definition GP_MULTIPLIED : N := 64.
Definition GP_PRESERVE : N := 112.

(* lookup_flags *)
Definition LF_IGNORE_FLAGS : N := 14.
Definition LF_USE_MARK_FILTERING_SET : N := 16.
Definition LF_MARK_ATTACHMENT_TYPE_MASK : N := 65280.

(* UnicodeProps *)
Definition UP_GENERAL_CATEGORY : N := 31.
Definition UP_IGNORABLE : N := 32.
Definition UP_HIDDEN : N := 64.
Definition UP_CONTINUATION : N := 128.
Definition UP_CF_ZWJ : N := 256.
Definition UP_CF_ZWNJ : N := 512.
Definition GC_FORMAT : N := 1.            (* hb_gc::RB_UNICODE_GENERAL_CATEGORY_FORMAT *)
Definition GC_NON_SPACING_MARK : N := 12. (* RB_UNICODE_GENERAL_CATEGORY_NON_SPACING_MARK *)
Definition GC_OTHER_LETTER : N := 7.
Definition GC_PRIVATE_USE : N := 3.

Definition has_bits (x m : N) : bool := negb (N.land x m =? 0).

Definition is_base_glyph (i : info) : bool := has_bits (glyph_props i) GP_BASE.
Definition is_ligature (i : info) : bool := has_bits (glyph_props i) GP_LIGATURE.
Definition is_mark (i : info) : bool := has_bits (glyph_props i) GP_MARK.
Definition substituted (i : info) : bool := has_bits (glyph_props i) GP_SUBSTITUTED.

Definition general_category (i : info) : N := N.land (unicode_props i) UP_GENERAL_CATEGORY.
Definition is_default_ignorable (i : info) : bool := has_bits (unicode_props i) UP_IGNORABLE && negb (substituted i).
Definition is_hidden (i : info) : bool := has_bits (unicode_props i) UP_HIDDEN.
Definition is_unicode_format (i : info) : bool := general_category i =? GC_FORMAT.
Definition is_zwnj (i : info) : bool := is_unicode_format i && has_bits (unicode_props i) UP_CF_ZWNJ.
Definition is_zwj (i : info) : bool := is_unicode_format i && has_bits (unicode_props i) UP_CF_ZWJ.

(* lig_props helpers (ot_layout.rs) *)
Definition IS_LIG_BASE : N := 16.
Definition lig_id (i : info) : N := N.shiftr (lig_props i) 5.
Definition ligated_internal (i : info) : bool := has_bits (lig_props i) IS_LIG_BASE.
Definition lig_comp (i : info) : N := if ligated_internal i then 0 else N.land (lig_props i) 15.
Definition lig_num_comps (i : info) : N :=
  if is_ligature i && ligated_internal i then N.land (lig_props i) 15 else 1.
(* (lig_id << 5) on u8 truncates; lig_id <= 7 always *)
Definition set_lig_props_for_ligature (i : info) (id ncomps : N) : info :=
  set_lig_props i (N.lor (N.lor (N.land (N.shiftl id 5) 255) IS_LIG_BASE) (N.land ncomps 15)).
Definition set_lig_props_for_mark (i : info) (id comp : N) : info :=
  set_lig_props i (N.lor (N.land (N.shiftl id 5) 255) (N.land comp 15)).
Definition set_lig_props_for_component (i : info) (comp : N) : info := set_lig_props_for_mark i 0 comp.

(* ---------- glyph classes from GDEF (face.rs glyph_props) ---------- *)

Definition has_glyph_classes (f : font) : bool :=
  match f_gdef f with Some gd => match gd_classes gd with [] => false | _ => true end | None => false end.

Definition face_glyph_props (f : font) (g : N) : N :=
  match f_gdef f with
  | None => 0
  | Some _ =>
    let c := gdef_class f g in
    if c =? 1 then GP_BASE
    else if c =? 2 then GP_LIGATURE
    else if c =? 3 then N.lor (N.land (N.shiftl (gdef_mark_attach_class f g) 8) 65535) GP_MARK
    else 0
  end.

(* ---------- check_glyph_property ---------- *)

(* lookup props = flags | mark_filtering_set << 16 (ot_layout_common.rs lookup_props) *)
Definition lookup_props_of {S} (l : lookup S) : N :=
  match lk_mark_filtering_set l with
  | Some s => if has_bits (lk_flags l) LF_USE_MARK_FILTERING_SET then N.lor (lk_flags l) (N.shiftl s 16) else lk_flags l
  | None => lk_flags l
  end.

Definition check_glyph_property (f : font) (i : info) (match_props : N) : bool :=
  let gp := glyph_props i in
  let lf := N.land match_props 65535 in
  if has_bits (N.land gp lf) LF_IGNORE_FLAGS then false
  else if has_bits gp GP_MARK then
    if has_bits lf LF_USE_MARK_FILTERING_SET then
      match f_gdef f with
      | Some _ => gdef_in_mark_set f (N.shiftr match_props 16) (gid i)
      | None => false
      end
    else if has_bits lf LF_MARK_ATTACHMENT_TYPE_MASK then
      N.land lf LF_MARK_ATTACHMENT_TYPE_MASK =? N.land gp LF_MARK_ATTACHMENT_TYPE_MASK
    else true
  else true.

(* ---------- skipping iterator ---------- *)

Inductive may_skip_t := SKIP_NO | SKIP_YES | SKIP_MAYBE.
Inductive match_t := MATCH | NOT_MATCH | SKIP.

(* the fields of skipping_iterator_t that do not change while it runs *)
Record iter_cfg := mkIter {
  it_props : N;          (* lookup_props *)
  it_ignore_zwnj : bool;
  it_ignore_zwj : bool;
  it_ignore_hidden : bool;
  it_mask : N;           (* u32::MAX for context matching, the lookup mask for input matching *)
  it_syllable : N
}.

Definition may_skip (f : font) (c : iter_cfg) (i : info) : may_skip_t :=
  if negb (check_glyph_property f i (it_props c)) then SKIP_YES
  else if is_default_ignorable i
          && (it_ignore_zwnj c || negb (is_zwnj i))
          && (it_ignore_zwj c || negb (is_zwj i))
          && (it_ignore_hidden c || negb (is_hidden i)) then SKIP_MAYBE
  else SKIP_NO.

(* `pred`: the match function already applied to the current glyph_data (None = no matching enabled) *)
Definition iter_match (f : font) (c : iter_cfg) (pred : option (N -> bool)) (i : info) : match_t :=
  match may_skip f c i with
  | SKIP_YES => SKIP
  | sk =>
    if (N.land (mask i) (it_mask c) =? 0) || (negb (it_syllable c =? 0) && negb (it_syllable c =? syllable i)) then
      (* MATCH_NO *)
      match sk with SKIP_NO => NOT_MATCH | _ => SKIP end
    else
      match pred with
      | Some p => if p (gid i) then MATCH else match sk with SKIP_NO => NOT_MATCH | _ => SKIP end
      | None => match sk with SKIP_NO => MATCH | _ => SKIP end
      end
  end.

(* next(): scans l = info[buf_idx+1 ..]; `i` is the absolute index of the head of l.
   inl p: matched at absolute index p.  inr u: failed, `unsafe_to` = u. *)
Fixpoint iter_next (f : font) (c : iter_cfg) (pred : option (N -> bool)) (l : list info) (i : nat) : nat + nat :=
  match l with
  | [] => inr i
  | x :: t =>
    match iter_match f c pred x with
    | MATCH => inl i
    | NOT_MATCH => inr (S i)
    | SKIP => iter_next f c pred t (S i)
    end
  end.

(* prev(): scans l = rev (out_info[0 .. buf_idx)); `n` = length l = absolute index of the head + 1.
   inl p: matched at index p.  inr u: failed, `unsafe_from` = u. *)
Fixpoint iter_prev (f : font) (c : iter_cfg) (pred : option (N -> bool)) (l : list info) (n : nat) : nat + nat :=
  match l with
  | [] => inr O
  | x :: t =>
    match iter_match f c pred x with
    | MATCH => inl (n - 1)%nat
    | NOT_MATCH => inr (Nat.max (n - 1) 1 - 1)%nat
    | SKIP => iter_prev f c pred t (n - 1)%nat
    end
  end.
