(* Model/Tag.v — executable model of script / language tag selection (property C18).
   Follows src/hb/tag.rs (tags_from_script_and_language, parse_private_use_subtag, lang_cmp,
   tags_from_language, all_tags_from_script), src/hb/tag_table.rs (tags_from_complex_language and
   its helpers; the rules and the registry come from Gen/LangTable.v), src/hb/common.rs
   (Language::from_str, Script::from_str) and src/hb/ot_layout.rs / ot_map.rs (select_script,
   select_script_language, required feature, find_language_feature).

   Strings are byte lists.  Every *str* slice of the code (`&s[..i]`, `&s[i..]`) is modelled by
   str_to / str_from, which fail (None = panic) when i is not a char boundary, exactly like Rust;
   byte-slice operations never fail here because their indices are clamped by `min`.
   Results: `None` = the code panics, `Some r` = it returns r.
   `binary_search_by` is modelled by a parameter `srch` (its result for the probe string); the
   executable instance scans linearly for the first Equal row; the theorems quantify over every
   result permitted for a binary search.  No proofs in this file. *)
From Coq Require Import List NArith Bool Arith.
From RB Require Import Base.Bytes Gen.LangTable.
Import ListNotations.
Local Open Scope N_scope.

(* ------------------------------------------------------------------ bytes, UTF-8, ASCII classes *)

Definition is_cont (b : N) : bool := (128 <=? b) && (b <? 192).

(* str::is_char_boundary *)
Definition boundary (s : bytes) (i : nat) : bool :=
  match i with
  | O => true
  | _ => match nth_error s i with
         | Some b => negb (is_cont b)
         | None => Nat.eqb i (length s)
         end
  end.

Definition str_to (s : bytes) (i : nat) : option bytes := if boundary s i then Some (firstn i s) else None.
Definition str_from (s : bytes) (i : nat) : option bytes := if boundary s i then Some (skipn i s) else None.

Definition in_range (lo hi b : N) : bool := (lo <=? b) && (b <=? hi).

(* RFC 3629 well-formed byte sequences (what a Rust `str` always holds) *)
Fixpoint utf8_valid (s : bytes) : bool :=
  match s with
  | [] => true
  | b0 :: t =>
    if b0 <? 128 then utf8_valid t
    else if in_range 194 223 b0 then
      match t with b1 :: t1 => in_range 128 191 b1 && utf8_valid t1 | _ => false end
    else if in_range 224 239 b0 then
      match t with
      | b1 :: b2 :: t2 =>
          (if b0 =? 224 then in_range 160 191 b1 else if b0 =? 237 then in_range 128 159 b1 else in_range 128 191 b1)
          && in_range 128 191 b2 && utf8_valid t2
      | _ => false
      end
    else if in_range 240 244 b0 then
      match t with
      | b1 :: b2 :: b3 :: t3 =>
          (if b0 =? 240 then in_range 144 191 b1 else if b0 =? 244 then in_range 128 143 b1 else in_range 128 191 b1)
          && in_range 128 191 b2 && in_range 128 191 b3 && utf8_valid t3
      | _ => false
      end
    else false
  end.

Definition is_upper (b : N) := in_range 65 90 b.
Definition is_lower (b : N) := in_range 97 122 b.
Definition is_digit (b : N) := in_range 48 57 b.
Definition is_alpha (b : N) := is_upper b || is_lower b.
Definition is_alnum (b : N) := is_alpha b || is_digit b.
Definition lower_b (b : N) : N := if is_upper b then b + 32 else b.
Definition upper_b (b : N) : N := if is_lower b then b - 32 else b.
Definition lower (s : bytes) : bytes := map lower_b s.

Definition is_nil {A} (l : list A) : bool := match l with [] => true | _ => false end.

Fixpoint bytes_eqb (a b : bytes) : bool :=
  match a, b with
  | [], [] => true
  | x :: a', y :: b' => (x =? y) && bytes_eqb a' b'
  | _, _ => false
  end.

(* lexicographic order of byte strings (= Ord for str and for [u8]) *)
Fixpoint cmp_bytes (a b : bytes) : comparison :=
  match a, b with
  | [], [] => Eq
  | [], _ => Lt
  | _, [] => Gt
  | x :: a', y :: b' => match x ?= y with Eq => cmp_bytes a' b' | c => c end
  end.

Fixpoint is_prefix (p s : bytes) : bool :=
  match p, s with
  | [], _ => true
  | x :: p', y :: s' => (x =? y) && is_prefix p' s'
  | _, [] => false
  end.

(* str::find(char) for an ASCII char: byte index of the first occurrence *)
Fixpoint find_byte (c : N) (s : bytes) : option nat :=
  match s with
  | [] => None
  | x :: t => if x =? c then Some O else option_map S (find_byte c t)
  end.

(* str::find(&str): byte index of the first occurrence *)
Fixpoint find_sub (p s : bytes) : option nat :=
  if is_prefix p s then Some O
  else match s with [] => None | _ :: t => option_map S (find_sub p t) end.

Definition byte_is (s : bytes) (i : nat) (c : N) : bool :=
  match nth_error s i with Some b => b =? c | None => false end.

Definition DASH : N := 45.

(* ------------------------------------------------------------------ tags *)

Definition tag4 (a b c d : N) : N := a * 16777216 + b * 65536 + c * 256 + d.

(* Tag::from_bytes_lossy: first four bytes, padded with spaces; the null tag for an empty slice *)
Definition tag_lossy (s : bytes) : N :=
  match s with
  | [] => 0
  | a :: t => tag4 a (nth 0 t 32) (nth 1 t 32) (nth 2 t 32)
  end.

Definition tag_bytes (t : N) : bytes :=
  [N.shiftr t 24 mod 256; N.shiftr t 16 mod 256; N.shiftr t 8 mod 256; t mod 256].

Definition tag_upper (t : N) : N := tag_lossy (map upper_b (tag_bytes t)).

Definition TAG_DFLT : N := 1145457748.  (* 'DFLT' *)
Definition TAG_dflt : N := 1684434036.  (* 'dflt' *)
Definition TAG_latn : N := 1818326126.  (* 'latn' *)

Fixpoint assoc (k : N) (l : list (N * N)) : option N :=
  match l with
  | [] => None
  | (a, b) :: t => if a =? k then Some b else assoc k t
  end.

(* ------------------------------------------------------------------ Language / Script constructors *)

(* Language::from_str *)
Definition language_of (raw : bytes) : option bytes :=
  if is_nil raw then None else Some (if language_lowercases then lower raw else raw).

(* Script::from_str = from_iso15924_tag (from_bytes_lossy s) *)
Definition script_of (raw : bytes) : option N :=
  let t0 := tag_lossy raw in
  if t0 =? 0 then None else
  let t := N.lor (N.land t0 script_norm_and) script_norm_or in
  match assoc t script_aliases with
  | Some sc => Some sc
  | None => if N.land t script_wf_mask =? script_wf_val then Some t else Some script_unknown
  end.

(* ------------------------------------------------------------------ all_tags_from_script *)

Definition CAP : nat := 3.  (* inline capacity of ThreeTags: `is_full` / `left` *)
Definition push_if_room (tags : list N) (t : N) : list N :=
  if (length tags <? CAP)%nat then tags ++ [t] else tags.

Definition old_tag (sc : N) : N :=
  match assoc sc old_script_special with
  | Some t => t
  | None => N.lor sc 536870912
  end.

Definition all_tags_from_script (script : option N) : list N :=
  match script with
  | None => []
  | Some sc =>
    let tags :=
      match assoc sc new_script_tags with
      | Some t2 =>
          let tags := if t2 =? no_gen3_tag then [] else [t2 / 256 * 256 + 51] in
          push_if_room tags t2
      | None => []
      end in
    push_if_room tags (old_tag sc)
  end.

(* ------------------------------------------------------------------ lang_cmp and the registry *)

Definition lang_cmp (s1 s2 : bytes) : option comparison :=
  let da := match find_byte DASH s1 with Some i => i | None => length s1 end in
  let db := match find_byte DASH s2 with Some i => i | None => length s2 end in
  let n := Nat.max da db in
  let ea := Nat.min n (length s1) in
  let eb := Nat.min n (length s2) in
  if lang_cmp_bytes then Some (cmp_bytes (firstn ea s1) (firstn eb s2))
  else match str_to s1 ea, str_to s2 eb with
       | Some a, Some b => Some (cmp_bytes a b)
       | _, _ => None
       end.

Definition row := (bytes * N)%type.
Definition row_at (i : nat) : row := nth i lang_table ([], 0).
Definition nrows : nat := length lang_table.

(* executable stand-in for binary_search_by: first Equal row; None when a comparison panics *)
Fixpoint search_from (tbl : list row) (sub : bytes) (i : nat) : option (option nat) :=
  match tbl with
  | [] => Some None
  | (l, _) :: t =>
    match lang_cmp l sub with
    | None => None
    | Some Eq => Some (Some i)
    | Some _ => search_from t sub (S i)
    end
  end.
Definition search_first (sub : bytes) : option (option nat) := search_from lang_table sub O.

(* `while idx != 0 && LANGUAGES[idx].language == LANGUAGES[idx - 1].language { idx -= 1 }` *)
Fixpoint walk_back (idx : nat) : nat :=
  match idx with
  | O => O
  | S j => if bytes_eqb (fst (row_at (S j))) (fst (row_at j)) then walk_back j else idx
  end.

Fixpoint collect_loop (idx i cnt : nat) (acc : list N) : list N :=
  match cnt with
  | O => acc
  | S c =>
    let r := row_at (idx + i) in
    if negb (bytes_eqb (fst r) (fst (row_at idx))) then acc
    else if snd r =? 0 then acc
    else if (CAP <=? length acc)%nat then acc
    else collect_loop idx (S i) c (acc ++ [snd r])
  end.

(* `let len = min(tags.left(), LANGUAGES.len() - idx - adjust)`, tags empty on entry *)
Definition collect (idx : nat) : list N :=
  collect_loop idx O (Nat.min CAP (nrows - idx - N.to_nat registry_len_adjust)) [].

Definition tfl_found (idx0 : nat) : list N := collect (walk_back idx0).
Definition tfl_notfound (lang : bytes) : list N :=
  if Nat.eqb (length lang) 3 then [tag_upper (tag_lossy lang)] else [].

(* ------------------------------------------------------------------ tags_from_complex_language *)

(* subtag_matches: non-overlapping occurrences of `sub` (match_indices), each followed by the end
   of the string or a non-alphanumeric byte.  `skip` = bytes of the current match still to pass. *)
Fixpoint subtag_scan (sub s : bytes) (skip : nat) : bool :=
  match s with
  | [] => false
  | _ :: t =>
    match skip with
    | S k => subtag_scan sub t k
    | O =>
      if is_prefix sub s then
        match nth_error s (length sub) with
        | None => true
        | Some c => if negb (is_alnum c) then true else subtag_scan sub t (length sub - 1)
        end
      else subtag_scan sub t O
    end
  end.
Definition subtag_matches (language sub : bytes) : bool := subtag_scan sub language O.

Definition lang_matches (language spec : bytes) : bool :=
  is_prefix spec language &&
  (Nat.eqb (length language) (length spec) || byte_is language (length spec) DASH).

Definition strncmp (s1 s2 : bytes) (n : nat) : option bool :=
  let n1 := Nat.min n (length s1) in
  let n2 := Nat.min n (length s2) in
  if strncmp_bytes then Some (bytes_eqb (firstn n1 s1) (firstn n2 s2))
  else match str_to s1 n1, str_to s2 n2 with
       | Some a, Some b => Some (bytes_eqb a b)
       | _, _ => None
       end.

(* one rule: None = panic, Some true = condition holds *)
Definition eval_cond (language rest : bytes) (c : ccond) : option bool :=
  match c with
  | CSub sub => Some (subtag_matches language sub)
  | CExact r => Some (bytes_eqb rest r)
  | CLang spec => Some (lang_matches rest spec)
  | CStrn p n sub =>
      match strncmp rest p (N.to_nat n) with
      | None => None
      | Some false => Some false
      | Some true => Some (subtag_matches language sub)
      end
  end.

Fixpoint eval_rules (language rest : bytes) (rules : list (ccond * list N)) : option (option (list N)) :=
  match rules with
  | [] => Some None
  | (c, tags) :: t =>
    match eval_cond language rest c with
    | None => None
    | Some true => Some (Some tags)
    | Some false => eval_rules language rest t
    end
  end.

Fixpoint arm_of (b : N) (arms : list (N * list (ccond * list N))) : list (ccond * list N) :=
  match arms with
  | [] => []
  | (a, r) :: t => if a =? b then r else arm_of b t
  end.

(* None = panic; Some None = returns false; Some (Some tags) = pushes tags and returns true *)
Definition complex (language : bytes) : option (option (list N)) :=
  match eval_rules language [] complex_prelude with
  | None => None
  | Some (Some t) => Some (Some t)
  | Some None =>
    match language with
    | [] => None                                   (* language.as_bytes()[0] *)
    | b0 :: _ =>
      match arm_of b0 complex_arms with
      | [] => Some None
      | rules =>
        match str_from language 1 with             (* &language[1..] *)
        | None => None
        | Some rest => eval_rules language rest rules
        end
      end
    end
  end.

(* ------------------------------------------------------------------ tags_from_language *)

(* the string handed to the registry search *)
Definition sublang_of (language : bytes) : option bytes :=
  match find_byte DASH language with
  | None => Some language
  | Some i =>
    if (6 <=? length language)%nat then
      match str_from language (i + 1) with           (* language[i + 1..] *)
      | None => None
      | Some rest =>
        let extlang := match find_byte DASH rest with
                       | Some idx => Nat.eqb idx 3
                       | None => Nat.eqb (length language - i - 1) 3
                       end in
        if extlang then
          match nth_error language (i + 1) with        (* language.as_bytes()[i + 1] *)
          | None => None
          | Some b => if is_alpha b then Some rest else Some language
          end
        else Some language
      end
    else Some language
  end.

(* tags_from_language in two halves around the registry search *)
Inductive lang_step :=
| LDone (r : option (list N))     (* finished before the search: panic (None) or the complex matcher's tags *)
| LSearch (sub : bytes).          (* the registry is searched for `sub` *)

Definition tfl_pre (language : bytes) : lang_step :=
  match complex language with
  | None => LDone None
  | Some (Some t) => LDone (Some t)
  | Some None =>
    match sublang_of language with
    | None => LDone None
    | Some sub => LSearch sub
    end
  end.

Definition tfl_post (language : bytes) (r : option (option nat)) : option (list N) :=
  match r with
  | None => None
  | Some (Some idx) => Some (tfl_found idx)
  | Some None => Some (tfl_notfound language)
  end.

Definition tags_from_language (srch : bytes -> option (option nat)) (language : bytes) : option (list N) :=
  match tfl_pre language with
  | LDone r => r
  | LSearch sub => tfl_post language (srch sub)
  end.

(* ------------------------------------------------------------------ tags_from_script_and_language *)

(* the `while i < bytes.len()` loop: returns (private_use_subtag, prefix, final i) *)
Fixpoint pu_scan (lang : bytes) (fuel i : nat) (prefix : bytes) : option (option bytes * bytes * nat) :=
  match fuel with
  | O => Some (None, prefix, i)
  | S f =>
    if negb (i <? length lang)%nat then Some (None, prefix, i)
    else if byte_is lang (i - 1) DASH && byte_is lang (i + 1) DASH then
      if byte_is lang i 120 then
        match str_from lang i with
        | None => None
        | Some pv =>
          if is_nil prefix then
            match str_to lang (i - 1) with
            | None => None
            | Some p => Some (Some pv, p, i)
            end
          else Some (Some pv, prefix, i)
        end
      else
        match str_to lang (i - 1) with
        | None => None
        | Some p => pu_scan lang f (S i) p
        end
    else pu_scan lang f (S i) prefix
  end.

Definition split_language (lang : bytes) : option (option bytes * bytes) :=
  if is_prefix [120; DASH] lang then Some (Some lang, [])
  else
    match pu_scan lang (length lang) 1 [] with
    | None => None
    | Some (pv, prefix, i) =>
      if is_nil prefix then
        match str_to lang i with None => None | Some p => Some (pv, p) end
      else Some (pv, prefix)
    end.

Fixpoint take_alnum (n : nat) (s : bytes) : bytes :=
  match n, s with
  | S k, c :: t => if is_alnum c then c :: take_alnum k t else []
  | _, _ => []
  end.

Definition dflt_quirk (t : N) : N :=
  if N.land t 3755991007 =? TAG_DFLT then N.lxor t 538976288 else t.

(* parse_private_use_subtag: None = panic, Some None = false, Some (Some t) = pushes t, true *)
Definition parse_private (pv : option bytes) (pat : bytes) (norm : N -> N) : option (option N) :=
  match pv with
  | None => Some None
  | Some p =>
    match find_sub pat p with
    | None => Some None
    | Some idx =>
      match str_from p (idx + length pat) with
      | None => None
      | Some rest =>
        let t := map norm (take_alnum 4 rest) in
        if is_nil t then Some None else Some (Some (dflt_quirk (tag_lossy t)))
      end
    end
  end.

Definition HBSC : bytes := [45; 104; 98; 115; 99].  (* "-hbsc" *)
Definition HBOT : bytes := [45; 104; 98; 111; 116]. (* "-hbot" *)

(* on a constructed Language (already lower-cased) *)
Definition tags_of_language (srch : bytes -> option (option nat)) (script : option N) (lang : bytes)
  : option (list N * list N) :=
  match split_language lang with
  | None => None
  | Some (pv, prefix) =>
    match parse_private pv HBSC lower_b with
    | None => None
    | Some sc =>
      match parse_private pv HBOT upper_b with
      | None => None
      | Some lg =>
        let langs :=
          match lg with
          | Some t => Some [t]
          | None =>
            match language_of prefix with
            | None => Some []
            | Some p => tags_from_language srch p
            end
          end in
        match langs with
        | None => None
        | Some ls =>
          Some (match sc with Some t => [t] | None => all_tags_from_script script end, ls)
        end
      end
    end
  end.

(* the hook `verif::tag::tags(script string, language string)` *)
Definition tags_gen (srch : bytes -> option (option nat)) (script : option bytes) (language : option bytes)
  : option (list N * list N) :=
  let sc := match script with Some s => script_of s | None => None end in
  match match language with Some l => language_of l | None => None end with
  | None => Some (all_tags_from_script sc, [])
  | Some lang => tags_of_language srch sc lang
  end.

Definition tags := tags_gen search_first.

(* ------------------------------------------------------------------ GSUB/GPOS script, language, features *)

Record langsys := { ls_req : option nat; ls_feats : list nat }.
Record scriptrec := { sc_default : option langsys; sc_langs : list (N * langsys) }.
Record layout := { ly_scripts : list (N * scriptrec); ly_feats : list N }.

(* RecordList::index — ttf-parser binary-searches the record array; for record arrays sorted by tag
   without duplicates (as OpenType requires; recorded assumption) that is the position of the tag *)
Fixpoint index_of (t : N) (keys : list N) (i : nat) : option nat :=
  match keys with
  | [] => None
  | k :: r => if k =? t then Some i else index_of t r (S i)
  end.

Fixpoint first_index (keys : list N) (cands : list N) : option (nat * N) :=
  match cands with
  | [] => None
  | t :: r => match index_of t keys O with Some i => Some (i, t) | None => first_index keys r end
  end.

Definition select_script (ly : layout) (script_tags : list N) : option (bool * nat * N) :=
  let keys := map fst (ly_scripts ly) in
  match first_index keys script_tags with
  | Some (i, t) => Some (true, i, t)
  | None =>
    match first_index keys script_fallbacks with
    | Some (i, t) => Some (false, i, t)
    | None => None
    end
  end.

Definition select_script_language (ly : layout) (sidx : nat) (lang_tags : list N) : option nat :=
  match nth_error (ly_scripts ly) sidx with
  | None => None
  | Some (_, sr) =>
    let keys := map fst (sc_langs sr) in
    match first_index keys lang_tags with
    | Some (i, _) => Some i
    | None => index_of lang_fallback keys O
    end
  end.

Definition sys_of (ly : layout) (sidx : nat) (lidx : option nat) : option langsys :=
  match nth_error (ly_scripts ly) sidx with
  | None => None
  | Some (_, sr) =>
    match lidx with
    | Some i => option_map snd (nth_error (sc_langs sr) i)
    | None => sc_default sr
    end
  end.

Definition required_feature (ly : layout) (sidx : nat) (lidx : option nat) : option (nat * N) :=
  match sys_of ly sidx lidx with
  | None => None
  | Some sys =>
    match ls_req sys with
    | None => None
    | Some idx => match nth_error (ly_feats ly) idx with Some t => Some (idx, t) | None => None end
    end
  end.

Fixpoint find_in_feats (feats : list N) (idxs : list nat) (ftag : N) : option nat :=
  match idxs with
  | [] => None
  | i :: r => match nth_error feats i with
              | Some t => if t =? ftag then Some i else find_in_feats feats r ftag
              | None => find_in_feats feats r ftag
              end
  end.

Definition find_language_feature (ly : layout) (sidx : nat) (lidx : option nat) (ftag : N) : option nat :=
  match sys_of ly sidx lidx with
  | None => None
  | Some sys => find_in_feats (ly_feats ly) (ls_feats sys) ftag
  end.

Definition opt_list {A} (o : option A) : list A := match o with Some x => [x] | None => [] end.

(* hb_ot_map_builder_t::new + compile, reduced to "which feature indices of this table take part":
   the required feature of the selected language system plus, for every requested feature tag
   (enabled, found through the language system — no global search, no fallback), its index *)
Definition active_features (ly : layout) (script_tags lang_tags requested : list N) : list nat :=
  match select_script ly script_tags with
  | None => []
  | Some (_, sidx, _) =>
    let lidx := select_script_language ly sidx lang_tags in
    opt_list (option_map fst (required_feature ly sidx lidx))
    ++ flat_map (fun t => opt_list (find_language_feature ly sidx lidx t)) requested
  end.
