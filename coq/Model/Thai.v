(* Model/Thai.v — the SARA AM split of src/hb/ot_shaper_thai.rs `preprocess_text` (Thai and Lao), on the
   shared buffer model (Model/Buffer.v), glyph id = code point (the function runs before cmap mapping).

     while idx < len:
       u = cur.glyph_id
       if !is_sara_am(u) { next_glyph(); continue }
       output_glyph(nikhahit(u)); replace_glyph(sara_aa(u))            // both inherit cur's cluster
       end = out_len; start = end - 2
       while start > 0 && is_above_base_mark(out[start-1]) { start -= 1 }
       if start + 2 < end {
           merge_out_clusters(start, end)
           t = out[end-2]; for i in 0..(end-start-2) [.rev()] { out[i+start+1] = out[i+start] }; out[start] = t
       } else if start != 0 && level == 0 { merge_out_clusters(start-1, end) }

   The element-wise loop is `copy_loop d` with the direction `d` a PARAMETER: `Bwd` is the repaired source,
   `Fwd` the loop as it stood (kept to state the defect as a refuted instance).
   Not represented: the unicode-props rewrite of the NIKHAHIT glyph (continuation flag, gc := Mn; var fields
   only) and the budget failure of output_glyph/replace_glyph (one extra glyph per SARA AM never reaches the
   64x budget).  No proofs in this file. *)
From Coq Require Import List NArith Bool Arith.
From RB Require Import Base.Result Gen.CopyLoops Model.Buffer Model.CopyLoop.
Import ListNotations.
Local Open Scope N_scope.

(* (u & !0x0080) *)
Definition fold_lao (u : N) : N := N.ldiff u 128.
Definition is_sara_am (u : N) : bool := fold_lao u =? 3635.                      (* 0x0E33 / 0x0EB3 *)
Definition nikhahit_from_sara_am (u : N) : N := u - 3635 + 3661.                 (* 0x0E4D / 0x0ECD *)
Definition sara_aa_from_sara_am (u : N) : N := u - 1.                            (* 0x0E32 / 0x0EB2 *)
Definition is_above_base_mark (u : N) : bool :=
  let v := fold_lao u in
  ((3636 <=? v) && (v <=? 3639)) || ((3655 <=? v) && (v <=? 3662)) || (v =? 3633) || (v =? 3643).

(* the documented decomposition, as a character-level specification *)
Definition expand (u : N) : list N :=
  if is_sara_am u then [nikhahit_from_sara_am u; sara_aa_from_sara_am u] else [u].

(* while start > 0 && is_above_base_mark(out[start-1]) { start -= 1 } *)
Fixpoint walk_back (out : list info) (start : nat) : nat :=
  match start with
  | O => O
  | S s' => match nth_error out s' with
            | Some x => if is_above_base_mark (gid x) then walk_back out s' else start
            | None => start
            end
  end.

Definition thai_step (d : cl_dir) (b : zbuf) (x : info) (t : list info) : result zbuf :=
  let u := gid x in
  if negb (is_sara_am u) then Ok (with_pr b (pre b ++ [x]) t (S (dead b)))
  else
    let b2 := with_pr b (pre b ++ [set_gid x (nikhahit_from_sara_am u); set_gid x (sara_aa_from_sara_am u)]) t (S (dead b)) in
    let e := length (pre b2) in
    let s := walk_back (pre b2) (e - 2) in
    if (s + 2 <? e)%nat then
      do b3 <- merge_out_clusters b2 s e;
      match nth_error (pre b3) (e - 2) with
      | None => Error Oob
      | Some nk => Ok (with_pr b3 (set_nth s nk (copy_loop d (e - s - 2) (s + 1) s (pre b3))) (rest b3) (dead b3))
      end
    else if (negb (s =? 0)%nat && (level b2 =? 0))%bool then merge_out_clusters b2 (s - 1) e
    else Ok b2.

Fixpoint thai_loop (d : cl_dir) (fuel : nat) (b : zbuf) : result zbuf :=
  match fuel with
  | O => Ok b
  | S f => match rest b with
           | [] => Ok b
           | x :: t => do b' <- thai_step d b x t; thai_loop d f b'
           end
  end.

(* clear_output(); idx = 0; loop; (sync) *)
Definition start_buf (l : list info) (lvl : N) : zbuf := mkZ [] l O true lvl 0 true MAX_LEN_DEFAULT 0.
Definition preprocess_thai (d : cl_dir) (lvl : N) (l : list info) : result zbuf :=
  thai_loop d (length l) (start_buf l lvl).

(* ---------- the per-cluster content predicate (the same rule as the end-to-end oracle of props/C08.py) ----------
   An output cluster value c owns the input characters whose cluster lies in [c, c') where c' is the next
   larger output cluster value (none: unbounded).  Per owner, the output characters must be a permutation of
   the expansion of the owned input characters. *)
Definition mk (u c : N) : info := mkInfo u 0 c 0 0.

Fixpoint insert_sorted (x : N) (l : list N) : list N :=
  match l with [] => [x] | y :: t => if x <=? y then x :: l else y :: insert_sorted x t end.
Definition sortN (l : list N) : list N := fold_right insert_sorted [] l.

Fixpoint dedup_sorted (l : list N) : list N :=
  match l with
  | x :: ((y :: _) as t) => if x =? y then dedup_sorted t else x :: dedup_sorted t
  | _ => l
  end.

Fixpoint list_eqb (a b : list N) : bool :=
  match a, b with
  | [], [] => true
  | x :: a', y :: b' => (x =? y) && list_eqb a' b'
  | _, _ => false
  end.

(* owners in increasing order; each paired with the next one *)
Fixpoint owners_ok (input out : list info) (owners : list N) : bool :=
  match owners with
  | [] => true
  | c :: t =>
    let hi := match t with c' :: _ => Some c' | [] => None end in
    let owned := filter (fun i => (c <=? cluster i) && match hi with Some h => cluster i <? h | None => true end) input in
    let got := filter (fun o => cluster o =? c) out in
    list_eqb (sortN (map gid got)) (sortN (flat_map expand (map gid owned))) && owners_ok input out t
  end.

Definition per_cluster_ok (input out : list info) : bool :=
  let owners := dedup_sorted (sortN (map cluster out)) in
  (* every input character has an owner: the smallest owner is <= the smallest input cluster *)
  match owners, sortN (map cluster input) with
  | [], [] => true
  | c :: _, m :: _ => (c <=? m) && owners_ok input out owners
  | _, _ => false
  end.

Definition thai_ok (d : cl_dir) (lvl : N) (input : list info) : bool :=
  match preprocess_thai d lvl input with
  | Ok b => per_cluster_ok input (pre b) && match rest b with [] => true | _ => false end
  | Error _ => false
  end.

(* all strings of length exactly n / at most n over an alphabet *)
Fixpoint strings_eq (alpha : list N) (n : nat) : list (list N) :=
  match n with
  | O => [[]]
  | S n' => flat_map (fun s => map (fun a => a :: s) alpha) (strings_eq alpha n')
  end.
Fixpoint strings (alpha : list N) (n : nat) : list (list N) :=
  match n with
  | O => strings_eq alpha O
  | S n' => strings alpha n' ++ strings_eq alpha (S n')
  end.

(* cluster assignment A: one cluster per character (levels 1/2, or level 0 with no marks) *)
Definition clusters_distinct (s : list N) : list info :=
  map (fun p => mk (snd p) (N.of_nat (fst p))) (combine (seq 0 (length s)) s).

(* cluster assignment B: as after form_clusters at level 0 — a mark (anything that is not the base
   consonant, SARA AA or SARA AM here) continues the cluster of the preceding character *)
Definition is_markish (u : N) : bool := is_above_base_mark u || (fold_lao u =? 3640).   (* + SARA U below *)
Fixpoint clusters_grapheme_aux (s : list N) (pos cur : N) (first : bool) : list info :=
  match s with
  | [] => []
  | u :: t => let c := if (negb first && (is_markish u || is_sara_am u || (fold_lao u =? 3634)))%bool then cur else pos in
              mk u c :: clusters_grapheme_aux t (pos + 1) c false
  end.
Definition clusters_grapheme (s : list N) : list info := clusters_grapheme_aux s 0 0 true.

Definition thai_alphabet : list N := [3585; 3656; 3657; 3635; 3634; 3640].   (* KO KAI, MAI EK, MAI THO, SARA AM, SARA AA, SARA U *)
Definition lao_alphabet : list N := [3713; 3784; 3763; 3762].                (* KO, MAI EK, Lao AM, Lao AA *)

(* the three cluster regimes under which a string is checked *)
Definition P_thai (s : list N) : bool :=
  thai_ok Bwd 0 (clusters_grapheme s) && thai_ok Bwd 0 (clusters_distinct s) && thai_ok Bwd 1 (clusters_distinct s).
