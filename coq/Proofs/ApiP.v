(* Proofs/ApiP.v — histories of the public buffer API (C05) *)
From Coq Require Import List NArith ZArith Bool Lia.
From RB Require Import Model.Api.
Import ListNotations.
Local Open Scope N_scope.

Section P.
Variable result : Type.
Variable core : request -> N -> N -> result.
Variable empty_result : result.

Lemma Idle_new : Idle a_new.
Proof. unfold Idle, a_new; cbn; repeat split; reflexivity. Qed.

(* adding to an Idle-budget buffer never drops a character (texts below the default budget) *)
Lemma a_add_ok b cp cl :
  a_max_len b = MAX_LEN_DEFAULT -> N.of_nat (length (a_text b)) + 1 <= MAX_LEN_DEFAULT ->
  a_text (a_add b cp cl) = a_text b ++ [(cp, cl)] /\ a_max_len (a_add b cp cl) = MAX_LEN_DEFAULT /\
  a_max_ops (a_add b cp cl) = a_max_ops b /\ a_successful (a_add b cp cl) = a_successful b /\
  a_flags (a_add b cp cl) = a_flags b.
Proof.
  intros Hm Hl. unfold a_add. rewrite Hm.
  destruct (MAX_LEN_DEFAULT <? N.of_nat (length (a_text b)) + 1) eqn:E; [apply N.ltb_lt in E; lia|].
  cbn. auto.
Qed.

Lemma a_add_all_text t : forall b,
  a_max_len b = MAX_LEN_DEFAULT -> N.of_nat (length (a_text b) + length t) <= MAX_LEN_DEFAULT ->
  a_text (a_add_all b t) = a_text b ++ t /\ a_max_len (a_add_all b t) = MAX_LEN_DEFAULT /\
  a_max_ops (a_add_all b t) = a_max_ops b /\ a_successful (a_add_all b t) = a_successful b /\
  a_flags (a_add_all b t) = a_flags b.
Proof.
  unfold a_add_all. induction t as [|[cp cl] t IH]; intros b Hm Hl; cbn [fold_left].
  - rewrite app_nil_r. auto.
  - cbn [fst snd]. cbn [length] in Hl.
    destruct (a_add_ok b cp cl Hm ltac:(lia)) as [A1 [A2 [A3 [A4 A5]]]].
    destruct (IH (a_add b cp cl) A2) as [H1 [H2 [H3 [H4 H5]]]].
    { rewrite A1, app_length. cbn [length]. lia. }
    rewrite H1, H2, H3, H4, H5, A1, A3, A4, A5, <- app_assoc. cbn. auto.
Qed.

Definition small (r : request) : Prop := N.of_nat (length (r_text r)) <= MAX_LEN_DEFAULT.

(* filling an Idle buffer yields exactly the request *)
Lemma fill_idle b r : Idle b -> small r -> request_of (a_fill b r) = r /\ a_max_len (a_fill b r) = MAX_LEN_DEFAULT /\ a_max_ops (a_fill b r) = MAX_OPS_DEFAULT.
Proof.
  intros HI Hs. destruct HI as [Hml [Hmo [_ [_ [_ [_ [_ [_ [_ [Ht _]]]]]]]]]].
  destruct (a_add_all_text (r_text r) b Hml) as [H1 [H2 [H3 _]]].
  { rewrite Ht. cbn. exact Hs. }
  unfold a_fill, a_set_request_fields, request_of. cbn [a_text a_pre a_post a_dir a_script a_lang a_flags a_level a_nfvs a_max_len a_max_ops].
  rewrite H1, H2, H3, Ht, Hmo. cbn [app]. destruct r; auto.
Qed.

(* one use of the buffer with the CURRENT code shape (leave on every path) returns to Idle *)
Lemma use_once_idle b r : Idle b -> small r -> Idle (snd (use_once result core empty_result true b r)).
Proof.
  intros HI Hs. unfold use_once. destruct (a_shape result core empty_result true (a_fill b r)) as [res g] eqn:E.
  cbn [snd]. unfold a_shape in E. cbn [orb] in E. inversion E; subst; clear E.
  unfold Idle, a_clear. cbn. repeat split; reflexivity.
Qed.

Theorem history_idle rs : forall b, Idle b -> Forall small rs -> Idle (history result core empty_result true b rs).
Proof.
  induction rs as [|r t IH]; intros b HI Hs; cbn [history]; [exact HI|].
  inversion Hs; subst. apply IH; [apply use_once_idle; assumption|assumption].
Qed.

(* the result of a request on an Idle buffer is the result on a fresh buffer *)
Lemma use_once_result b r : Idle b -> small r ->
  fst (use_once result core empty_result true b r) = fresh_result result core empty_result true r.
Proof.
  intros HI Hs. unfold fresh_result, use_once.
  destruct (fill_idle b r HI Hs) as [Hb [Hbl Hbo]].
  destruct (fill_idle a_new r Idle_new Hs) as [Hn [Hnl Hno]].
  unfold a_shape. cbn [orb]. rewrite Hb, Hn, Hbl, Hbo, Hnl, Hno.
  assert (Hlen : length (a_text (a_fill b r)) = length (a_text (a_fill a_new r))).
  { unfold request_of in Hb, Hn. inversion Hb. inversion Hn. congruence. }
  rewrite Hlen. reflexivity.
Qed.

Theorem history_independent rs r :
  Forall small rs -> small r ->
  fst (use_once result core empty_result true (history result core empty_result true a_new rs) r)
  = fresh_result result core empty_result true r.
Proof.
  intros Hs Hr. apply use_once_result; [apply history_idle; [apply Idle_new|exact Hs]|exact Hr].
Qed.

(* clear gives a fresh buffer except for the flags (an input the caller sets) *)
Theorem clear_fresh b : a_max_len b = MAX_LEN_DEFAULT -> a_max_ops b = MAX_OPS_DEFAULT ->
  a_clear b = mkA [] [] [] 0 0 [] (a_flags b) 0 None MAX_LEN_DEFAULT MAX_OPS_DEFAULT 0 0 false false true 0 0.
Proof. intros H1 H2. unfold a_clear. rewrite H1, H2. reflexivity. Qed.

End P.

(* the defect fixed by the enter/leave pairing: with the OLD shape (no leave for an empty buffer) the
   history [shape ""; push 20000 characters] differs from the fresh run: characters are dropped *)
Definition long_text (n : nat) : list (N * N) := map (fun i => (65, N.of_nat i)) (seq 0 n).
Definition req_of_text (t : list (N * N)) : request := mkReq t [] [] 0 0 [] 3 0 None.

Lemma old_shape_drops_text :
  let core := fun (r : request) (_ _ : N) => N.of_nat (length (r_text r)) in
  fst (use_once N core 0 false (history N core 0 false a_new [req_of_text []]) (req_of_text (long_text (N.to_nat 16400))))
  <> fresh_result N core 0 false (req_of_text (long_text (N.to_nat 16400))).
Proof. vm_compute. discriminate. Qed.

(* ---- schedules: threads own their buffers; face and plan are shared immutably ---- *)
Section Sched.
Variables (St Op : Type) (stp : St -> Op -> St).

Definition thread := (St * list Op)%type.
Definition advance (t : thread) : thread :=
  match snd t with [] => t | o :: rest => (stp (fst t) o, rest) end.
Definition final_of (t : thread) : St := fold_left stp (snd t) (fst t).

Fixpoint upd (i : nat) (ths : list thread) : list thread :=
  match ths, i with
  | [], _ => []
  | t :: r, O => advance t :: r
  | t :: r, S k => t :: upd k r
  end.

Fixpoint run_sched (ths : list thread) (sched : list nat) : list thread :=
  match sched with [] => ths | i :: t => run_sched (upd i ths) t end.

Lemma final_advance t : final_of (advance t) = final_of t.
Proof. destruct t as [s [|o r]]; reflexivity. Qed.

Lemma final_upd i : forall ths, map final_of (upd i ths) = map final_of ths.
Proof.
  induction i as [|k IH]; intros [|t r]; cbn; try reflexivity; [rewrite final_advance; reflexivity|rewrite IH; reflexivity].
Qed.

(* whatever the interleaving, every thread is on its way to the state it reaches when run alone *)
Theorem schedule_independent sched : forall ths, map final_of (run_sched ths sched) = map final_of ths.
Proof.
  induction sched as [|i t IH]; intros ths; cbn; [reflexivity|]. rewrite IH. apply final_upd.
Qed.
End Sched.
