(* Proofs/AttachP.v — propagate_attachment_offsets (Model/Attach.v): the resolution invariant, the
   attachment theorems in pen coordinates (marks: C07_mark_attach; cursive cross axis: part of
   C07_cursive) and the recursion-depth facts (C07_attach_depth). *)
From Coq Require Import List NArith ZArith Bool Arith Lia.
From RB Require Import Model.Buffer Model.Font Model.Gpos Model.Attach Proofs.GposP.
Import ListNotations.
Local Open Scope Z_scope.

(* ---------- advance sums ---------- *)

Lemma adv_sum_ext : forall n ps ps' a,
  (forall k, xa (getp ps' k) = xa (getp ps k) /\ ya (getp ps' k) = ya (getp ps k)) ->
  adv_sum ps' a n = adv_sum ps a n.
Proof.
  induction n; intros ps ps' a H; cbn; [reflexivity|].
  rewrite (IHn ps ps' (S a) H). destruct (adv_sum ps (S a) n). destruct (H a) as [-> ->]. reflexivity.
Qed.

Lemma adv_sum_split : forall m n ps a,
  adv_sum ps a (m + n) =
  (fst (adv_sum ps a m) + fst (adv_sum ps (a + m) n), snd (adv_sum ps a m) + snd (adv_sum ps (a + m) n)).
Proof.
  induction m; intros n ps a; cbn [Nat.add adv_sum].
  - rewrite Nat.add_0_r. destruct (adv_sum ps a n); cbn; f_equal; lia.
  - rewrite IHm. replace (S a + m)%nat with (a + S m)%nat by lia.
    destruct (adv_sum ps (S a) m), (adv_sum ps (a + S m) n); cbn; f_equal; lia.
Qed.

(* pen k - pen j = the advances of glyphs j .. k-1 *)
Lemma pen_diff : forall ps j k, (j <= k)%nat ->
  fst (pen ps k) = fst (pen ps j) + fst (adv_sum ps j (k - j)) /\
  snd (pen ps k) = snd (pen ps j) + snd (adv_sum ps j (k - j)).
Proof.
  intros ps j k H. unfold pen. replace k with (j + (k - j))%nat at 1 3 by lia.
  rewrite adv_sum_split. cbn. split; reflexivity.
Qed.

(* sums over a reversed array *)
Lemma adv_sum_out_of_range : forall n ps a, (length ps <= a)%nat -> adv_sum ps a n = (0, 0).
Proof.
  induction n; intros ps a H; cbn; [reflexivity|].
  rewrite IHn by lia. unfold getp. rewrite nth_overflow by lia. reflexivity.
Qed.

Lemma getp_rev : forall ps k, (k < length ps)%nat -> getp (rev ps) k = getp ps (length ps - 1 - k).
Proof. intros. unfold getp. rewrite rev_nth by assumption. f_equal. lia. Qed.

(* the sum of ps[a .. a+n) read on the reversed array *)
Lemma adv_sum_rev : forall n ps a, (a + n <= length ps)%nat ->
  adv_sum (rev ps) a n = adv_sum ps (length ps - a - n) n.
Proof.
  induction n; intros ps a H; [reflexivity|].
  assert (R : adv_sum ps (length ps - a - S n) (S n) = adv_sum ps (length ps - a - S n) (n + 1)) by (f_equal; lia).
  rewrite R, adv_sum_split. cbn [adv_sum].
  rewrite IHn by lia. rewrite getp_rev by lia.
  replace (length ps - S a - n)%nat with (length ps - a - S n)%nat by lia.
  replace (length ps - a - S n + n)%nat with (length ps - 1 - a)%nat by lia.
  destruct (adv_sum ps (length ps - a - S n) n) as [sx sy]. cbn. f_equal; lia.
Qed.

(* ---------- structure of one propagate call ---------- *)

Definition cleared (ps : list pos) (i : nat) : list pos := upd ps i (set_chain (getp ps i) 0).

Lemma chain_nonzero_in_range : forall ps i, chain (getp ps i) <> 0 -> (i < length ps)%nat.
Proof.
  intros ps i H. destruct (Nat.lt_ge_cases i (length ps)) as [|Hge]; [assumption|].
  exfalso. apply H. unfold getp. rewrite nth_overflow by lia. reflexivity.
Qed.

Lemma parent_index_range : forall ps i j, parent_index ps i = Some j -> (j < length ps)%nat.
Proof.
  unfold parent_index. intros ps i j H.
  destruct ((Z.of_nat i + chain (getp ps i) <? 0) || (Z.of_nat (length ps) <=? Z.of_nat i + chain (getp ps i))) eqn:E; [discriminate|].
  inversion H; subst. apply orb_false_iff in E. destruct E as [E1 E2].
  apply Z.ltb_ge in E1. apply Z.leb_gt in E2. lia.
Qed.

(* parent_index depends on the length and on the chain of i only *)
Lemma parent_index_ext : forall ps ps' i,
  length ps' = length ps -> chain (getp ps' i) = chain (getp ps i) -> parent_index ps' i = parent_index ps i.
Proof. unfold parent_index. intros ps ps' i -> ->. reflexivity. Qed.

(* the value attach_accumulate writes into position i, as a function of the two positions and the sums *)
Definition accum_val (d : direction) (kind : N) (pi pj : pos) (s : Z * Z) : pos :=
  if (kind =? ATTACH_MARK)%N then
    if is_forward d
    then set_yo (set_xo pi (xo pi + xo pj - fst s)) (yo pi + yo pj - snd s)
    else set_yo (set_xo pi (xo pi + xo pj + fst s)) (yo pi + yo pj + snd s)
  else if (kind =? ATTACH_CURSIVE)%N then
    if is_horizontal d then set_yo pi (yo pi + yo pj) else set_xo pi (xo pi + xo pj)
  else pi.

Definition accum_sum (d : direction) (ps : list pos) (i j : nat) : Z * Z :=
  if is_forward d then adv_sum ps j (i - j) else adv_sum ps (S j) (i - j).

Lemma attach_accumulate_val : forall d ps i j kind,
  (i < length ps)%nat ->
  attach_accumulate d ps i j kind = upd ps i (accum_val d kind (getp ps i) (getp ps j) (accum_sum d ps i j)) \/
  (attach_accumulate d ps i j kind = ps /\ accum_val d kind (getp ps i) (getp ps j) (accum_sum d ps i j) = getp ps i).
Proof.
  intros d ps i j kind Hi. unfold attach_accumulate, accum_val, accum_sum.
  destruct (kind =? ATTACH_MARK)%N.
  - left. destruct (is_forward d); destruct (adv_sum ps _ (i - j)); reflexivity.
  - destruct (kind =? ATTACH_CURSIVE)%N.
    + left. destruct (is_horizontal d); reflexivity.
    + right. split; reflexivity.
Qed.

(* in both cases: position i gets accum_val, everything else is untouched *)
Lemma attach_accumulate_getp : forall d ps i j kind k,
  (i < length ps)%nat ->
  getp (attach_accumulate d ps i j kind) k =
  if Nat.eqb i k then accum_val d kind (getp ps i) (getp ps j) (accum_sum d ps i j) else getp ps k.
Proof.
  intros d ps i j kind k Hi.
  destruct (attach_accumulate_val d ps i j kind Hi) as [E | [E1 E2]].
  - rewrite E, getp_upd. destruct (Nat.eqb_spec i k); cbn [andb]; [|reflexivity].
    destruct (Nat.ltb_spec i (length ps)); [reflexivity | lia].
  - rewrite E1. destruct (Nat.eqb_spec i k) as [->|]; [symmetry; exact E2 | reflexivity].
Qed.

Lemma attach_accumulate_length : forall d ps i j kind, length (attach_accumulate d ps i j kind) = length ps.
Proof.
  intros. unfold attach_accumulate.
  destruct (kind =? ATTACH_MARK)%N; [destruct (is_forward d), (adv_sum ps _ (i - j)); apply length_upd|].
  destruct (kind =? ATTACH_CURSIVE)%N; [destruct (is_horizontal d); apply length_upd | reflexivity].
Qed.

Lemma accum_val_keeps : forall d kind pi pj s,
  xa (accum_val d kind pi pj s) = xa pi /\ ya (accum_val d kind pi pj s) = ya pi /\
  chain (accum_val d kind pi pj s) = chain pi /\ atype (accum_val d kind pi pj s) = atype pi.
Proof.
  intros. unfold accum_val.
  destruct (kind =? ATTACH_MARK)%N; [destruct (is_forward d); cbn; auto|].
  destruct (kind =? ATTACH_CURSIVE)%N; [destruct (is_horizontal d); cbn; auto | auto].
Qed.

(* one unfolding of propagate *)
Lemma propagate_unfold : forall n d ps i,
  propagate n d ps i =
  if chain (getp ps i) =? 0 then Some ps
  else match parent_index ps i with
       | None => Some (cleared ps i)
       | Some j =>
         match n with
         | O => Some (cleared ps i)
         | S n' =>
           match propagate n' d (cleared ps i) j with
           | None => None
           | Some ps2 =>
               if ((atype (getp ps i) =? ATTACH_MARK)%N && negb (j <? i)%nat)%bool then None
               else Some (attach_accumulate d ps2 i j (atype (getp ps i)))
           end
         end
       end.
Proof. intros. destruct n; reflexivity. Qed.

(* ---------- depth of the unresolved chain from a glyph ---------- *)

(* udepth_le n ps k: walking from k along attach links, a resolved glyph (chain 0) or the end of the
   chain is reached after at most n unresolved glyphs *)
Fixpoint udepth_le (n : nat) (ps : list pos) (k : nat) : Prop :=
  chain (getp ps k) = 0 \/
  match parent_index ps k with
  | None => True
  | Some j => match n with O => False | S n' => udepth_le n' ps j end
  end.

(* ps' has the links of ps, some of them cleared *)
Definition links_le (ps' ps : list pos) : Prop :=
  length ps' = length ps /\ forall k, chain (getp ps' k) = chain (getp ps k) \/ chain (getp ps' k) = 0.

Lemma udepth_mono : forall n ps ps' k, links_le ps' ps -> udepth_le n ps k -> udepth_le n ps' k.
Proof.
  induction n; intros ps ps' k [Hl Hc] H; cbn in *.
  - destruct (Hc k) as [E|E]; [|left; exact E].
    destruct H as [H|H]; [left; congruence|]. right.
    rewrite (parent_index_ext ps ps' k Hl E). exact H.
  - destruct (Hc k) as [E|E]; [|left; exact E].
    destruct H as [H|H]; [left; congruence|]. right.
    rewrite (parent_index_ext ps ps' k Hl E).
    destruct (parent_index ps k); [|exact I]. apply (IHn ps ps' n0); [split; assumption | exact H].
Qed.

Lemma udepth_weaken : forall n ps k, udepth_le n ps k -> udepth_le (S n) ps k.
Proof.
  induction n; intros ps k H; cbn in *.
  - destruct H as [H|H]; [left; exact H|]. right. destruct (parent_index ps k); [contradiction | exact I].
  - destruct H as [H|H]; [left; exact H|]. right. destruct (parent_index ps k); [|exact I]. apply IHn. exact H.
Qed.

Lemma links_le_cleared : forall ps i, links_le (cleared ps i) ps.
Proof.
  intros ps i. split; [apply length_upd|]. intro k. unfold cleared. rewrite getp_upd.
  destruct (Nat.eqb i k && Nat.ltb i (length ps))%bool; [right; reflexivity | left; reflexivity].
Qed.

(* a computable depth, used only as a rank witnessing that finite depth excludes cycles *)
Fixpoint cdepth (fuel : nat) (ps : list pos) (k : nat) : nat :=
  match fuel with
  | O => O
  | S f =>
    if chain (getp ps k) =? 0 then O
    else match parent_index ps k with None => O | Some j => S (cdepth f ps j) end
  end.

Lemma cdepth_stable : forall n ps k f, udepth_le n ps k -> (n <= f)%nat -> cdepth (S f) ps k = cdepth (S n) ps k.
Proof.
  induction n; intros ps k f H Hf; cbn [cdepth]; cbn [udepth_le] in H.
  - destruct (Z.eqb_spec (chain (getp ps k)) 0); [reflexivity|].
    destruct H as [H|H]; [contradiction|]. destruct (parent_index ps k); [contradiction | reflexivity].
  - destruct (Z.eqb_spec (chain (getp ps k)) 0); [reflexivity|].
    destruct H as [H|H]; [contradiction|]. destruct (parent_index ps k) as [j|]; [|reflexivity].
    destruct f as [|f']; [lia|]. f_equal. apply IHn; [exact H | lia].
Qed.

(* ---------- the resolution invariant ---------- *)

Section Resolve.
Variable d : direction.
Variable ps0 : list pos.          (* the positions before position_finish_offsets *)
Variable rk : nat -> nat.         (* a rank that decreases along attach links of ps0 (acyclicity) *)
Hypothesis rk_dec : forall k j, chain (getp ps0 k) <> 0 -> parent_index ps0 k = Some j -> (rk j < rk k)%nat.

(* glyph k is resolved in ps: cleared, and accumulated against its resolved, non-pending parent *)
Definition Resolved (Pend : nat -> Prop) (ps : list pos) (k : nat) : Prop :=
  match parent_index ps0 k with
  | None => getp ps k = set_chain (getp ps0 k) 0
  | Some j => chain (getp ps j) = 0 /\ ~ Pend j /\
              getp ps k = accum_val d (atype (getp ps0 k)) (set_chain (getp ps0 k) 0) (getp ps j) (accum_sum d ps0 k j)
  end.

Definition InvP (Pend : nat -> Prop) (ps : list pos) : Prop :=
  length ps = length ps0 /\
  (forall k, xa (getp ps k) = xa (getp ps0 k) /\ ya (getp ps k) = ya (getp ps0 k)) /\
  (forall k, chain (getp ps k) <> 0 -> getp ps k = getp ps0 k) /\
  (forall k, chain (getp ps k) = 0 -> chain (getp ps0 k) = 0 -> getp ps k = getp ps0 k) /\
  (forall k, chain (getp ps k) = 0 -> chain (getp ps0 k) <> 0 ->
     (Pend k /\ getp ps k = set_chain (getp ps0 k) 0) \/ (~ Pend k /\ Resolved Pend ps k)).

Lemma accum_sum_ext : forall ps i j,
  (forall k, xa (getp ps k) = xa (getp ps0 k) /\ ya (getp ps k) = ya (getp ps0 k)) ->
  accum_sum d ps i j = accum_sum d ps0 i j.
Proof. intros. unfold accum_sum. destruct (is_forward d); apply adv_sum_ext; assumption. Qed.

Lemma propagate_inv : forall n ps i ps' (Pend : nat -> Prop),
  InvP Pend ps ->
  (forall k, Pend k -> (rk i < rk k)%nat) -> ~ Pend i ->
  udepth_le n ps i ->
  propagate n d ps i = Some ps' ->
  InvP Pend ps' /\ chain (getp ps' i) = 0 /\ (forall k, chain (getp ps k) = 0 -> getp ps' k = getp ps k).
Proof.
  induction n as [|n IH]; intros ps i ps' Pend Inv Hpend Hnp Hd Hrun;
    rewrite propagate_unfold in Hrun;
    destruct (Z.eqb_spec (chain (getp ps i)) 0) as [Hc0|Hc];
    try (inversion Hrun; subst; split; [exact Inv | split; [exact Hc0 | intros; reflexivity]]).
  (* n = 0, chain <> 0 *)
  - destruct Inv as (Il & Ia & Iu & Iz & Ir).
    assert (Hi : (i < length ps)%nat) by (apply chain_nonzero_in_range; exact Hc).
    assert (Ei : getp ps i = getp ps0 i) by (apply Iu; exact Hc).
    assert (Ep : parent_index ps i = parent_index ps0 i) by (apply parent_index_ext; [exact Il | rewrite Ei; reflexivity]).
    cbn [udepth_le] in Hd. destruct Hd as [Hd|Hd]; [contradiction|].
    destruct (parent_index ps i) as [j|] eqn:Epi; [contradiction|].
    inversion Hrun; subst ps'; clear Hrun.
    assert (Hg : forall k, getp (cleared ps i) k = if Nat.eqb i k then set_chain (getp ps0 i) 0 else getp ps k).
    { intro k. unfold cleared. rewrite getp_upd, Ei. destruct (Nat.eqb_spec i k); cbn [andb]; [|reflexivity].
      destruct (Nat.ltb_spec i (length ps)); [reflexivity | lia]. }
    split; [|split].
    + split; [unfold cleared; rewrite length_upd; exact Il|].
      split; [intro k; rewrite Hg; destruct (Nat.eqb_spec i k) as [->|]; [cbn; split; reflexivity | apply Ia]|].
      split; [intros k Hk; rewrite Hg in *; destruct (Nat.eqb_spec i k); [cbn in Hk; congruence | apply Iu; exact Hk]|].
      split; [intros k Hk Hk0; rewrite Hg in *; destruct (Nat.eqb_spec i k) as [->|]; [rewrite <- Ei in Hk0; contradiction | apply Iz; assumption]|].
      intros k Hk Hk0. rewrite Hg in Hk. rewrite Hg.
      destruct (Nat.eqb_spec i k) as [->|Hne].
      * right. split; [exact Hnp|]. unfold Resolved. rewrite <- Ep. rewrite Hg, Nat.eqb_refl. reflexivity.
      * destruct (Ir k Hk Hk0) as [[P E]|[P R]]; [left; split; assumption|].
        right. split; [exact P|]. unfold Resolved in *. destruct (parent_index ps0 k) as [j|].
        -- destruct R as (R1 & R2 & R3).
           assert (j <> i) by (intro; subst j; contradiction).
           rewrite !Hg. destruct (Nat.eqb_spec i j); [congruence|]. destruct (Nat.eqb_spec i k); [congruence|].
           repeat split; assumption.
        -- rewrite Hg. destruct (Nat.eqb_spec i k); [congruence | exact R].
    + rewrite Hg, Nat.eqb_refl. reflexivity.
    + intros k Hk. rewrite Hg. destruct (Nat.eqb_spec i k) as [->|]; [contradiction | reflexivity].
  (* n = S n, chain <> 0 *)
  - destruct Inv as (Il & Ia & Iu & Iz & Ir).
    assert (Hi : (i < length ps)%nat) by (apply chain_nonzero_in_range; exact Hc).
    assert (Ei : getp ps i = getp ps0 i) by (apply Iu; exact Hc).
    assert (Ep : parent_index ps i = parent_index ps0 i) by (apply parent_index_ext; [exact Il | rewrite Ei; reflexivity]).
    assert (Hc0 : chain (getp ps0 i) <> 0) by (rewrite <- Ei; exact Hc).
    assert (Hg : forall k, getp (cleared ps i) k = if Nat.eqb i k then set_chain (getp ps0 i) 0 else getp ps k).
    { intro k. unfold cleared. rewrite getp_upd, Ei. destruct (Nat.eqb_spec i k); cbn [andb]; [|reflexivity].
      destruct (Nat.ltb_spec i (length ps)); [reflexivity | lia]. }
    cbn [udepth_le] in Hd. destruct Hd as [Hd|Hd]; [contradiction|].
    destruct (parent_index ps i) as [j|] eqn:Epi.
    2:{ (* no parent in range: cleared only *)
      inversion Hrun; subst ps'; clear Hrun.
      split; [|split].
      + split; [unfold cleared; rewrite length_upd; exact Il|].
        split; [intro k; rewrite Hg; destruct (Nat.eqb_spec i k) as [->|]; [cbn; split; reflexivity | apply Ia]|].
        split; [intros k Hk; rewrite Hg in *; destruct (Nat.eqb_spec i k); [cbn in Hk; congruence | apply Iu; exact Hk]|].
        split; [intros k Hk Hk0; rewrite Hg in *; destruct (Nat.eqb_spec i k) as [->|]; [contradiction | apply Iz; assumption]|].
        intros k Hk Hk0. rewrite Hg in Hk. rewrite Hg.
        destruct (Nat.eqb_spec i k) as [->|Hne].
        * right. split; [exact Hnp|]. unfold Resolved. rewrite <- Ep. rewrite Hg, Nat.eqb_refl. reflexivity.
        * destruct (Ir k Hk Hk0) as [[P E]|[P R]]; [left; split; assumption|].
          right. split; [exact P|]. unfold Resolved in *. destruct (parent_index ps0 k) as [j|].
          -- destruct R as (R1 & R2 & R3).
             assert (j <> i) by (intro; subst j; contradiction).
             rewrite !Hg. destruct (Nat.eqb_spec i j); [congruence|]. destruct (Nat.eqb_spec i k); [congruence|].
             repeat split; assumption.
          -- rewrite Hg. destruct (Nat.eqb_spec i k); [congruence | exact R].
      + rewrite Hg, Nat.eqb_refl. reflexivity.
      + intros k Hk. rewrite Hg. destruct (Nat.eqb_spec i k) as [->|]; [contradiction | reflexivity]. }
    (* parent j: recursive call with i pending *)
    destruct (propagate n d (cleared ps i) j) as [ps2|] eqn:Erec; [|discriminate].
    destruct ((atype (getp ps i) =? ATTACH_MARK)%N && negb (j <? i)%nat)%bool eqn:Eassert; [discriminate|].
    inversion Hrun; subst ps'; clear Hrun.
    assert (Hrk : (rk j < rk i)%nat) by (apply rk_dec; [exact Hc0 | rewrite <- Ep; reflexivity]).
    assert (Hji : j <> i) by (intro; subst; lia).
    set (Pend' := fun k => Pend k \/ k = i).
    assert (Inv1 : InvP Pend' (cleared ps i)).
    { split; [unfold cleared; rewrite length_upd; exact Il|].
      split; [intro k; rewrite Hg; destruct (Nat.eqb_spec i k) as [->|]; [cbn; split; reflexivity | apply Ia]|].
      split; [intros k Hk; rewrite Hg in *; destruct (Nat.eqb_spec i k); [cbn in Hk; congruence | apply Iu; exact Hk]|].
      split; [intros k Hk Hk0; rewrite Hg in *; destruct (Nat.eqb_spec i k) as [->|]; [contradiction | apply Iz; assumption]|].
      intros k Hk Hk0. rewrite Hg in Hk. rewrite Hg.
      destruct (Nat.eqb_spec i k) as [->|Hne].
      - left. split; [right; reflexivity | reflexivity].
      - destruct (Ir k Hk Hk0) as [[P E]|[P R]]; [left; split; [left; exact P | exact E]|].
        right. split; [intros [P'|P']; [contradiction | congruence]|].
        unfold Resolved in *. destruct (parent_index ps0 k) as [j'|].
        + destruct R as (R1 & R2 & R3).
          assert (j' <> i) by (intro; subst j'; contradiction).
          rewrite !Hg. destruct (Nat.eqb_spec i j'); [congruence|]. destruct (Nat.eqb_spec i k); [congruence|].
          repeat split; [assumption | intros [P'|P']; [contradiction | congruence] | assumption].
        + rewrite Hg. destruct (Nat.eqb_spec i k); [congruence | exact R]. }
    assert (Hd1 : udepth_le n (cleared ps i) j) by (apply (udepth_mono n ps); [apply links_le_cleared | exact Hd]).
    assert (Hp1 : forall k, Pend' k -> (rk j < rk k)%nat).
    { intros k [P| ->]; [specialize (Hpend k P); lia | exact Hrk]. }
    assert (Hnp1 : ~ Pend' j).
    { intros [P|P]; [specialize (Hpend j P); lia | contradiction]. }
    destruct (IH (cleared ps i) j ps2 Pend' Inv1 Hp1 Hnp1 Hd1 Erec) as (Inv2 & Hj0 & Hfrozen).
    destruct Inv2 as (Jl & Ja & Ju & Jz & Jr).
    assert (Hi2 : (i < length ps2)%nat) by (rewrite Jl, <- Il; exact Hi).
    assert (E2i : getp ps2 i = set_chain (getp ps0 i) 0).
    { rewrite Hfrozen; [rewrite Hg, Nat.eqb_refl; reflexivity | rewrite Hg, Nat.eqb_refl; reflexivity]. }
    assert (Hg2 : forall k, getp (attach_accumulate d ps2 i j (atype (getp ps i))) k =
                   if Nat.eqb i k then accum_val d (atype (getp ps0 i)) (set_chain (getp ps0 i) 0) (getp ps2 j) (accum_sum d ps0 i j)
                   else getp ps2 k).
    { intro k. rewrite attach_accumulate_getp by exact Hi2. rewrite E2i, Ei.
      rewrite (accum_sum_ext ps2 i j Ja). reflexivity. }
    split; [|split].
    + split; [rewrite attach_accumulate_length; exact Jl|].
      split.
      { intro k. rewrite Hg2. destruct (Nat.eqb_spec i k) as [->|]; [|apply Ja].
        destruct (accum_val_keeps d (atype (getp ps0 k)) (set_chain (getp ps0 k) 0) (getp ps2 j) (accum_sum d ps0 k j)) as (A1 & A2 & _).
        rewrite A1, A2. cbn. split; reflexivity. }
      split.
      { intros k Hk. rewrite Hg2 in *. destruct (Nat.eqb_spec i k) as [->|]; [|apply Ju; exact Hk].
        destruct (accum_val_keeps d (atype (getp ps0 k)) (set_chain (getp ps0 k) 0) (getp ps2 j) (accum_sum d ps0 k j)) as (_ & _ & A3 & _).
        rewrite A3 in Hk. cbn in Hk. congruence. }
      split.
      { intros k Hk Hk0. rewrite Hg2 in *. destruct (Nat.eqb_spec i k) as [->|]; [contradiction | apply Jz; assumption]. }
      intros k Hk Hk0. rewrite Hg2 in Hk. rewrite Hg2.
      destruct (Nat.eqb_spec i k) as [->|Hne].
      * right. split; [exact Hnp|]. unfold Resolved. rewrite <- Ep.
        rewrite !Hg2. destruct (Nat.eqb_spec k j); [congruence|]. rewrite Nat.eqb_refl.
        split; [exact Hj0|]. split; [intro P; apply Hnp1; left; exact P | reflexivity].
      * destruct (Jr k Hk Hk0) as [[[P|P] E]|[P R]]; [left; split; assumption | congruence |].
        right. split; [intro P'; apply P; left; exact P'|].
        unfold Resolved in *. destruct (parent_index ps0 k) as [j'|].
        -- destruct R as (R1 & R2 & R3).
           assert (j' <> i) by (intro; subst j'; apply R2; right; reflexivity).
           rewrite !Hg2. destruct (Nat.eqb_spec i j'); [congruence|]. destruct (Nat.eqb_spec i k); [congruence|].
           split; [exact R1|]. split; [intro P'; apply R2; left; exact P' | exact R3].
        -- rewrite Hg2. destruct (Nat.eqb_spec i k); [congruence | exact R].
    + rewrite Hg2, Nat.eqb_refl.
      destruct (accum_val_keeps d (atype (getp ps0 i)) (set_chain (getp ps0 i) 0) (getp ps2 j) (accum_sum d ps0 i j)) as (_ & _ & A3 & _).
      rewrite A3. reflexivity.
    + intros k Hk. rewrite Hg2. destruct (Nat.eqb_spec i k) as [->|Hne]; [contradiction|].
      rewrite Hfrozen; [rewrite Hg; destruct (Nat.eqb_spec i k); [congruence | reflexivity]|].
      rewrite Hg. destruct (Nat.eqb_spec i k); [congruence | exact Hk].
Qed.

End Resolve.

(* ---------- the whole pass: position_finish_offsets ---------- *)

(* 64 as a unary numeral: never unfold it during proof search or conversion *)
Opaque MAX_NESTING_LEVEL.

Lemma cdepth_S : forall f ps k,
  cdepth (S f) ps k =
  if chain (getp ps k) =? 0 then O
  else match parent_index ps k with None => O | Some j => S (cdepth f ps j) end.
Proof. reflexivity. Qed.

(* finite depth everywhere gives a rank that decreases along the links: no cycles *)
Lemma cdepth_decreases : forall n ps k j,
  (forall x, udepth_le n ps x) ->
  chain (getp ps k) <> 0 -> parent_index ps k = Some j ->
  (cdepth (S n) ps j < cdepth (S n) ps k)%nat.
Proof.
  intros n ps k j H Hc Hp.
  pose proof (H k) as Hk. destruct n as [|m]; cbn [udepth_le] in Hk.
  - destruct Hk as [Hk|Hk]; [contradiction|]. rewrite Hp in Hk. contradiction.
  - destruct Hk as [Hk|Hk]; [contradiction|]. rewrite Hp in Hk.
    rewrite (cdepth_S (S m) ps k). destruct (Z.eqb_spec (chain (getp ps k)) 0); [contradiction|].
    rewrite Hp. rewrite (cdepth_stable m ps j (S m) Hk) by lia. lia.
Qed.

Lemma InvP_links : forall d ps0 Pend ps, InvP d ps0 Pend ps -> links_le ps ps0.
Proof.
  intros d ps0 Pend ps (Il & _ & Iu & _). split; [exact Il|].
  intro k. destruct (Z.eq_dec (chain (getp ps k)) 0) as [E|E]; [right; exact E|].
  left. rewrite (Iu k E). reflexivity.
Qed.

Lemma InvP_init : forall d ps0, InvP d ps0 (fun _ => False) ps0.
Proof.
  intros. split; [reflexivity|]. split; [intro; split; reflexivity|].
  split; [reflexivity|]. split; [reflexivity|]. intros k H1 H2. contradiction.
Qed.

Lemma propagate_all_inv : forall d ps0 rk,
  (forall k j, chain (getp ps0 k) <> 0 -> parent_index ps0 k = Some j -> (rk j < rk k)%nat) ->
  (forall k, udepth_le MAX_NESTING_LEVEL ps0 k) ->
  forall is ps F,
  InvP d ps0 (fun _ => False) ps ->
  propagate_all d ps is = Some F ->
  InvP d ps0 (fun _ => False) F /\
  (forall i, In i is -> chain (getp F i) = 0) /\
  (forall k, chain (getp ps k) = 0 -> getp F k = getp ps k).
Proof.
  intros d ps0 rk Hrk Hdepth. induction is as [|i t IH]; intros ps F Inv Hrun; cbn [propagate_all] in Hrun.
  - inversion Hrun; subst. split; [exact Inv|]. split; [intros i []|]. reflexivity.
  - destruct (propagate MAX_NESTING_LEVEL d ps i) as [ps1|] eqn:E1; [|discriminate].
    destruct (propagate_inv d ps0 rk Hrk MAX_NESTING_LEVEL ps i ps1 (fun _ => False) Inv) as (Inv1 & Hi0 & Hfr1); auto.
    { intros k []. }
    { apply (udepth_mono _ ps0); [eapply InvP_links; exact Inv | apply Hdepth]. }
    destruct (IH ps1 F Inv1 Hrun) as (InvF & Hall & Hfr).
    split; [exact InvF|]. split.
    + intros k [->|Hk]; [rewrite (Hfr _ Hi0); exact Hi0 | apply Hall; exact Hk].
    + intros k Hk. rewrite Hfr; [apply Hfr1; exact Hk | rewrite Hfr1; assumption].
Qed.

(* the result of position_finish_offsets, glyph by glyph *)
Theorem finish_resolved : forall d ps0 F,
  (forall k, udepth_le MAX_NESTING_LEVEL ps0 k) ->
  position_finish_offsets d true ps0 = Some F ->
  length F = length ps0 /\
  (forall k, xa (getp F k) = xa (getp ps0 k) /\ ya (getp F k) = ya (getp ps0 k)) /\
  (forall k, chain (getp ps0 k) = 0 -> getp F k = getp ps0 k) /\
  (forall i, chain (getp ps0 i) <> 0 ->
     match parent_index ps0 i with
     | None => getp F i = set_chain (getp ps0 i) 0
     | Some j => getp F i = accum_val d (atype (getp ps0 i)) (set_chain (getp ps0 i) 0) (getp F j) (accum_sum d ps0 i j)
     end).
Proof.
  intros d ps0 F Hdepth Hrun. unfold position_finish_offsets in Hrun.
  set (rk := cdepth (S MAX_NESTING_LEVEL) ps0).
  assert (Hrk : forall k j, chain (getp ps0 k) <> 0 -> parent_index ps0 k = Some j -> (rk j < rk k)%nat)
    by (intros; apply cdepth_decreases; assumption).
  destruct (propagate_all_inv d ps0 rk Hrk Hdepth _ ps0 F (InvP_init d ps0) Hrun) as (Inv & Hall & Hfr).
  destruct Inv as (Il & Ia & Iu & Iz & Ir).
  assert (Hz : forall k, chain (getp F k) = 0).
  { intro k. destruct (Nat.lt_ge_cases k (length ps0)) as [Hk|Hk].
    - apply Hall. apply in_seq. lia.
    - unfold getp. rewrite nth_overflow by lia. reflexivity. }
  split; [exact Il|]. split; [exact Ia|]. split; [intros k Hk; apply Iz; [apply Hz | exact Hk]|].
  intros i Hi. destruct (Ir i (Hz i) Hi) as [[[] _]|[_ R]].
  unfold Resolved in R. destruct (parent_index ps0 i); [destruct R as (_ & _ & R); exact R | exact R].
Qed.

(* ---------- geometry: marks ---------- *)

(* forward processing directions (LTR, TTB): the final array is F itself *)
Theorem mark_attach_forward : forall d ps0 F i j ma ba,
  is_forward d = true ->
  (forall k, udepth_le MAX_NESTING_LEVEL ps0 k) ->
  position_finish_offsets d true ps0 = Some F ->
  chain (getp ps0 i) <> 0 -> atype (getp ps0 i) = ATTACH_MARK -> parent_index ps0 i = Some j -> (j < i)%nat ->
  xo (getp ps0 i) = fst ba - fst ma -> yo (getp ps0 i) = snd ba - snd ma ->
  anchor_abs F i ma = anchor_abs F j ba.
Proof.
  intros d ps0 F i j ma ba Hf Hd Hrun Hc Ht Hp Hji Hx Hy.
  destruct (finish_resolved d ps0 F Hd Hrun) as (Hl & Ha & _ & Hr).
  specialize (Hr i Hc). rewrite Hp in Hr.
  unfold accum_val, accum_sum in Hr. rewrite Ht, Hf in Hr. cbn in Hr.
  destruct (pen_diff F j i ltac:(lia)) as [Px Py].
  rewrite (adv_sum_ext (i - j) ps0 F j Ha) in Px, Py.
  unfold anchor_abs, origin. rewrite Hr. cbn [xo yo set_xo set_yo set_chain fst snd].
  f_equal; lia.
Qed.

(* backward processing direction (RTL): the buffer is reversed at the end of `position` *)
Theorem mark_attach_backward : forall d ps0 F i j ma ba,
  is_forward d = false ->
  (forall k, udepth_le MAX_NESTING_LEVEL ps0 k) ->
  position_finish_offsets d true ps0 = Some F ->
  chain (getp ps0 i) <> 0 -> atype (getp ps0 i) = ATTACH_MARK -> parent_index ps0 i = Some j -> (j < i)%nat ->
  xo (getp ps0 i) = fst ba - fst ma -> yo (getp ps0 i) = snd ba - snd ma ->
  anchor_abs (rev F) (length F - 1 - i) ma = anchor_abs (rev F) (length F - 1 - j) ba.
Proof.
  intros d ps0 F i j ma ba Hf Hd Hrun Hc Ht Hp Hji Hx Hy.
  destruct (finish_resolved d ps0 F Hd Hrun) as (Hl & Ha & _ & Hr).
  assert (Hi : (i < length F)%nat) by (rewrite Hl; apply chain_nonzero_in_range; exact Hc).
  specialize (Hr i Hc). rewrite Hp in Hr.
  unfold accum_val, accum_sum in Hr. rewrite Ht, Hf in Hr. cbn in Hr.
  destruct (pen_diff (rev F) (length F - 1 - i) (length F - 1 - j) ltac:(lia)) as [Px Py].
  replace (length F - 1 - j - (length F - 1 - i))%nat with (i - j)%nat in Px, Py by lia.
  rewrite adv_sum_rev in Px, Py by lia.
  replace (length F - (length F - 1 - i) - (i - j))%nat with (S j) in Px, Py by lia.
  rewrite (adv_sum_ext (i - j) ps0 F (S j) Ha) in Px, Py.
  unfold anchor_abs, origin. rewrite !getp_rev by lia.
  replace (length F - 1 - (length F - 1 - i))%nat with i by lia.
  replace (length F - 1 - (length F - 1 - j))%nat with j by lia.
  rewrite Hr. cbn [xo yo set_xo set_yo set_chain fst snd].
  f_equal; lia.
Qed.

(* ---------- geometry: cursive, cross axis ---------- *)

(* a cursive child c of parent p: on the cross axis the child's offset accumulates the parent's;
   with the cross offset the attachment wrote (exit - entry or entry - exit, see cursive_cross) the two
   anchors get the same cross coordinate.  `cross` selects the cross-axis component. *)
Definition cross_off (d : direction) (p : pos) : Z := if is_horizontal d then yo p else xo p.
Definition cross_of (d : direction) (a : anchor) : Z := if is_horizontal d then snd a else fst a.

Theorem cursive_cross_final : forall d ps0 F c p a_c a_p,
  (forall k, udepth_le MAX_NESTING_LEVEL ps0 k) ->
  position_finish_offsets d true ps0 = Some F ->
  chain (getp ps0 c) <> 0 -> atype (getp ps0 c) = ATTACH_CURSIVE -> parent_index ps0 c = Some p ->
  cross_off d (getp ps0 c) = cross_of d a_p - cross_of d a_c ->
  cross_off d (getp F c) + cross_of d a_c = cross_off d (getp F p) + cross_of d a_p.
Proof.
  intros d ps0 F c p a_c a_p Hd Hrun Hc Ht Hp Hoff.
  destruct (finish_resolved d ps0 F Hd Hrun) as (_ & _ & _ & Hr).
  specialize (Hr c Hc). rewrite Hp in Hr.
  unfold accum_val in Hr. rewrite Ht in Hr. cbn in Hr.
  unfold cross_off in *. rewrite Hr. destruct (is_horizontal d); cbn; lia.
Qed.

(* ---------- recursion depth ---------- *)

(* the nesting argument bounds the recursion depth of propagate *)
Lemma propagate_depth_le : forall n ps i, (propagate_depth n ps i <= n)%nat.
Proof.
  induction n; intros ps i; cbn.
  - destruct (chain (getp ps i) =? 0); [lia|]. destruct (parent_index ps i); lia.
  - destruct (chain (getp ps i) =? 0); [lia|]. destruct (parent_index ps i); [|lia].
    specialize (IHn (upd ps i (set_chain (getp ps i) 0)) n0). lia.
Qed.

(* the witness family for the unbounded recursion of the unrepaired code: n glyphs, each the cursive
   child of its successor (what the RightToLeft lookup flag produces): the call on glyph 0 nests n-1 deep *)
Definition chain_fwd (n : nat) : list pos := repeat (mkPos 0 0 0 0 1 ATTACH_CURSIVE) n.

Lemma nth_repeat_in : forall A (a dflt : A) n k, (k < n)%nat -> nth k (repeat a n) dflt = a.
Proof. induction n; destruct k; cbn; intros; try lia; auto. apply IHn. lia. Qed.

Lemma getp_chain_fwd : forall n k, (k < n)%nat -> getp (chain_fwd n) k = mkPos 0 0 0 0 1 ATTACH_CURSIVE.
Proof. intros. unfold getp, chain_fwd. apply nth_repeat_in. assumption. Qed.

(* without a nesting bound the recursion depth equals the number of links of the chain *)
Lemma unbounded_depth_chain : forall m d ps k fuel,
  length ps = (k + S m)%nat ->
  (forall t, (k <= t < k + S m)%nat -> chain (getp ps t) = 1 /\ atype (getp ps t) = ATTACH_CURSIVE) ->
  (m < fuel)%nat ->
  exists ps', propagate_unbounded fuel d ps k = Some (ps', m) /\ length ps' = length ps.
Proof.
  induction m; intros d ps k fuel Hl Hall Hf; (destruct fuel as [|fuel]; [lia|]); cbn [propagate_unbounded].
  - destruct (Hall k ltac:(lia)) as [Hc Ht]. rewrite Hc. cbn [Z.eqb].
    unfold parent_index. rewrite Hc, Hl.
    replace ((Z.of_nat k + 1 <? 0) || (Z.of_nat (k + 1) <=? Z.of_nat k + 1))%bool with true
      by (symmetry; apply orb_true_iff; right; apply Z.leb_le; lia).
    eexists. split; [reflexivity | rewrite length_upd; exact Hl].
  - destruct (Hall k ltac:(lia)) as [Hc Ht]. rewrite Hc. cbn [Z.eqb].
    unfold parent_index at 1. rewrite Hc, Hl.
    replace ((Z.of_nat k + 1 <? 0) || (Z.of_nat (k + S (S m)) <=? Z.of_nat k + 1))%bool with false
      by (symmetry; apply orb_false_iff; split; [apply Z.ltb_ge | apply Z.leb_gt]; lia).
    replace (Z.to_nat (Z.of_nat k + 1)) with (S k) by lia.
    destruct (IHm d (upd ps k (set_chain (getp ps k) 0)) (S k) fuel) as (ps2 & E2 & L2).
    + rewrite length_upd. lia.
    + intros t Ht'. rewrite getp_upd_other by lia. apply Hall. lia.
    + lia.
    + rewrite E2, Ht. cbn [N.eqb Pos.eqb ATTACH_CURSIVE ATTACH_MARK andb].
      eexists. split; [reflexivity|]. rewrite attach_accumulate_length, L2, length_upd. exact Hl.
Qed.

Corollary unbounded_depth_witness : forall n d, (0 < n)%nat ->
  exists ps', propagate_unbounded n d (chain_fwd n) 0 = Some (ps', (n - 1)%nat).
Proof.
  intros n d Hn. destruct (unbounded_depth_chain (n - 1) d (chain_fwd n) 0 n) as (ps' & E & _).
  - unfold chain_fwd. rewrite repeat_length. lia.
  - intros t Ht. rewrite getp_chain_fwd by lia. split; reflexivity.
  - lia.
  - exists ps'. exact E.
Qed.

(* ====================================================================================== *)
(* cursive attachment: one connection on a buffer without earlier attachments, then the finish *)

Lemma rcmo_noop : forall fuel d ps c np, chain (getp ps c) = 0 -> reverse_cursive_minor_offset fuel d ps c np = ps.
Proof. intros. destruct fuel; cbn; [reflexivity|]. rewrite H. reflexivity. Qed.

Lemma adv_sum_zero : forall n ps a,
  (forall k, (a <= k < a + n)%nat -> xa (getp ps k) = 0 /\ ya (getp ps k) = 0) -> adv_sum ps a n = (0, 0).
Proof.
  induction n; intros ps a H; cbn; [reflexivity|].
  rewrite IHn by (intros; apply H; lia). destruct (H a ltac:(lia)) as [-> ->]. reflexivity.
Qed.

(* normalisation of reads after writes at the two known indices *)
Ltac getp_norm :=
  repeat (rewrite getp_upd; rewrite ?length_upd);
  repeat match goal with
         | |- context [(?a =? ?a)%nat] => rewrite (Nat.eqb_refl a)
         | H : (?a < ?b)%nat |- context [(?a <? ?b)%nat] => rewrite (proj2 (Nat.ltb_lt a b) H)
         | |- context [(?a =? ?b)%nat] => rewrite (proj2 (Nat.eqb_neq a b)) by lia
         end;
  cbn [andb].

Section OneConnection.
Variables (flag : bool) (ps : list pos) (i j : nat) (ex en : anchor).
Hypothesis Hij : (i < j < length ps)%nat.
Hypothesis fresh : forall k, chain (getp ps k) = 0.

Let Hi : (i < length ps)%nat. Proof. lia. Qed.
Let Hj : (j < length ps)%nat. Proof. lia. Qed.

(* the positions after the connection, for each processing direction *)
Lemma connect_other : forall d k, k <> i -> k <> j -> getp (cursive_connect d flag ps i j ex en) k = getp ps k.
Proof.
  intros d k Hki Hkj. unfold cursive_connect, cursive_cross, cursive_main.
  destruct ex as [exx exy], en as [enx eny].
  destruct d, flag;
    rewrite rcmo_noop by (getp_norm; cbn; apply fresh);
    match goal with |- context [if ?c then _ else _] => destruct c end;
    getp_norm; reflexivity.
Qed.

Lemma connect_length : forall d, length (cursive_connect d flag ps i j ex en) = length ps.
Proof.
  intros d. unfold cursive_connect, cursive_cross, cursive_main.
  destruct ex as [exx exy], en as [enx eny].
  destruct d, flag;
    rewrite rcmo_noop by (getp_norm; cbn; apply fresh);
    match goal with |- context [if ?c then _ else _] => destruct c end;
    rewrite ?length_upd; reflexivity.
Qed.

(* resolve the 2-cycle test of cursive_cross: the parent has no link, the child's link is not zero *)
Ltac connect_unfold :=
  unfold cursive_connect, cursive_cross, cursive_main;
  rewrite rcmo_noop by (getp_norm; cbn; apply fresh);
  match goal with
  | |- context [if (?a =? ?b)%Z then _ else _] =>
      let E := fresh "E" in
      destruct (Z.eqb_spec a b) as [E|E];
      [exfalso; revert E; getp_norm; cbn; rewrite ?fresh; lia|]
  end.

Lemma connect_ltr :
  let ps0 := cursive_connect LTR flag ps i j ex en in
  let pi := getp ps i in let pj := getp ps j in
  getp ps0 i = (if flag then mkPos (fst ex + xo pi) (ya pi) (xo pi) (snd en - snd ex) (Z.of_nat j - Z.of_nat i) ATTACH_CURSIVE
                else mkPos (fst ex + xo pi) (ya pi) (xo pi) (yo pi) 0 (atype pi)) /\
  getp ps0 j = (if flag then mkPos (xa pj - (fst en + xo pj)) (ya pj) (- fst en) (yo pj) 0 (atype pj)
                else mkPos (xa pj - (fst en + xo pj)) (ya pj) (- fst en) (snd ex - snd en) (Z.of_nat i - Z.of_nat j) ATTACH_CURSIVE).
Proof.
  cbn zeta. destruct ex as [exx exy], en as [enx eny]. cbn [fst snd].
  destruct flag; connect_unfold; getp_norm; unfold set_chain, set_atype, set_yo, set_xo, set_xa; cbn;
    rewrite ?fresh; split; f_equal; lia.
Qed.

Lemma connect_rtl :
  let ps0 := cursive_connect RTL flag ps i j ex en in
  let pi := getp ps i in let pj := getp ps j in
  getp ps0 i = (if flag then mkPos (xa pi - (fst ex + xo pi)) (ya pi) (- fst ex) (snd en - snd ex) (Z.of_nat j - Z.of_nat i) ATTACH_CURSIVE
                else mkPos (xa pi - (fst ex + xo pi)) (ya pi) (- fst ex) (yo pi) 0 (atype pi)) /\
  getp ps0 j = (if flag then mkPos (fst en + xo pj) (ya pj) (xo pj) (yo pj) 0 (atype pj)
                else mkPos (fst en + xo pj) (ya pj) (xo pj) (snd ex - snd en) (Z.of_nat i - Z.of_nat j) ATTACH_CURSIVE).
Proof.
  cbn zeta. destruct ex as [exx exy], en as [enx eny]. cbn [fst snd].
  destruct flag; connect_unfold; getp_norm; unfold set_chain, set_atype, set_yo, set_xo, set_xa; cbn;
    rewrite ?fresh; split; f_equal; lia.
Qed.

Lemma connect_ttb :
  let ps0 := cursive_connect TTB flag ps i j ex en in
  let pi := getp ps i in let pj := getp ps j in
  getp ps0 i = (if flag then mkPos (xa pi) (snd ex + yo pi) (fst en - fst ex) (yo pi) (Z.of_nat j - Z.of_nat i) ATTACH_CURSIVE
                else mkPos (xa pi) (snd ex + yo pi) (xo pi) (yo pi) 0 (atype pi)) /\
  getp ps0 j = (if flag then mkPos (xa pj) (ya pj - (snd en + yo pj)) (xo pj) (- snd en) 0 (atype pj)
                else mkPos (xa pj) (ya pj - (snd en + yo pj)) (fst ex - fst en) (- snd en) (Z.of_nat i - Z.of_nat j) ATTACH_CURSIVE).
Proof.
  cbn zeta. destruct ex as [exx exy], en as [enx eny]. cbn [fst snd].
  destruct flag; connect_unfold; getp_norm; unfold set_chain, set_atype, set_yo, set_xo, set_ya; cbn;
    rewrite ?fresh; split; f_equal; lia.
Qed.

End OneConnection.

(* ---------- one link, resolved ---------- *)

Lemma udepth_le_more : forall m n ps k, (n <= m)%nat -> udepth_le n ps k -> udepth_le m ps k.
Proof.
  induction m; intros n ps k H Hd.
  - replace n with O in Hd by lia. exact Hd.
  - destruct (Nat.eq_dec n (S m)) as [->|]; [exact Hd|]. apply udepth_weaken. apply (IHm n); [lia | exact Hd].
Qed.

Lemma max_nesting_pos : (1 <= MAX_NESTING_LEVEL)%nat.
Proof. Transparent MAX_NESTING_LEVEL. unfold MAX_NESTING_LEVEL. lia. Opaque MAX_NESTING_LEVEL. Qed.

Lemma finish_one_link : forall d ps0 c p F,
  (forall k, k <> c -> chain (getp ps0 k) = 0) ->
  chain (getp ps0 c) <> 0 -> parent_index ps0 c = Some p -> p <> c ->
  position_finish_offsets d true ps0 = Some F ->
  length F = length ps0 /\
  (forall k, k <> c -> getp F k = getp ps0 k) /\
  getp F c = accum_val d (atype (getp ps0 c)) (set_chain (getp ps0 c) 0) (getp ps0 p) (accum_sum d ps0 c p).
Proof.
  intros d ps0 c p F Hz Hc Hp Hpc Hrun.
  assert (Hd : forall k, udepth_le MAX_NESTING_LEVEL ps0 k).
  { intro k. apply (udepth_le_more _ 1); [apply max_nesting_pos|].
    destruct (Nat.eq_dec k c) as [->|Hk]; [|left; apply Hz; exact Hk].
    cbn. right. rewrite Hp. left. apply Hz. exact Hpc. }
  destruct (finish_resolved d ps0 F Hd Hrun) as (Hl & _ & Hroot & Hr).
  split; [exact Hl|]. split; [intros k Hk; apply Hroot; apply Hz; exact Hk|].
  specialize (Hr c Hc). rewrite Hp in Hr. rewrite Hr. rewrite (Hroot p) by (apply Hz; exact Hpc). reflexivity.
Qed.

Lemma pen_S : forall ps m,
  pen ps (S m) = (fst (pen ps m) + xa (getp ps m), snd (pen ps m) + ya (getp ps m)).
Proof.
  intros. unfold pen. replace (S m) with (m + 1)%nat by lia. rewrite adv_sum_split. cbn. f_equal; lia.
Qed.

Lemma pen_snd_zero : forall ps m, (forall k, ya (getp ps k) = 0) -> snd (pen ps m) = 0.
Proof. intros ps m H. induction m; [reflexivity|]. rewrite pen_S. cbn. rewrite IHm, H. reflexivity. Qed.

Lemma pen_fst_zero : forall ps m, (forall k, xa (getp ps k) = 0) -> fst (pen ps m) = 0.
Proof. intros ps m H. induction m; [reflexivity|]. rewrite pen_S. cbn. rewrite IHm, H. reflexivity. Qed.

(* the advance sum of i .. j-1 when only glyph i advances *)
Lemma adv_sum_first_only : forall ps i j,
  (i < j)%nat -> (forall k, (i < k < j)%nat -> xa (getp ps k) = 0 /\ ya (getp ps k) = 0) ->
  adv_sum ps i (j - i) = (xa (getp ps i), ya (getp ps i)).
Proof.
  intros ps i j Hij H. replace (j - i)%nat with (S (j - i - 1)) by lia. cbn [adv_sum].
  rewrite adv_sum_zero by (intros; apply H; lia). f_equal; lia.
Qed.

(* the advance sum of i+1 .. j when only glyph j advances *)
Lemma adv_sum_last_only : forall ps i j,
  (i < j)%nat -> (forall k, (i < k < j)%nat -> xa (getp ps k) = 0 /\ ya (getp ps k) = 0) ->
  adv_sum ps (S i) (j - i) = (xa (getp ps j), ya (getp ps j)).
Proof.
  intros ps i j Hij H. replace (j - i)%nat with ((j - i - 1) + 1)%nat by lia. rewrite adv_sum_split.
  rewrite adv_sum_zero by (intros; apply H; lia). cbn.
  replace (S (i + (j - i - 1))) with j by lia. f_equal; lia.
Qed.

Section OneConnectionFinal.
Variables (flag : bool) (ps : list pos) (i j : nat) (ex en : anchor) (F : list pos).
Hypothesis Hij : (i < j < length ps)%nat.
Hypothesis fresh : forall k, chain (getp ps k) = 0.
(* the glyphs strictly between the two (skipped by the lookup) do not advance the pen *)
Hypothesis between : forall k, (i < k < j)%nat -> xa (getp ps k) = 0 /\ ya (getp ps k) = 0.

Ltac one_link d :=
  match goal with
  | Hrun : position_finish_offsets d true ?ps0 = Some F |- _ =>
    let c := constr:(if flag then i else j) in
    let p := constr:(if flag then j else i) in
    idtac
  end.

(* LTR *)
Theorem cursive_single_ltr :
  (forall k, ya (getp ps k) = 0) ->
  position_finish_offsets LTR true (cursive_connect LTR flag ps i j ex en) = Some F ->
  anchor_abs F j en = anchor_abs F i ex.
Proof.
  intros axis Hrun.
  destruct (connect_ltr flag ps i j ex en Hij fresh) as [Ci Cj]. cbn zeta in Ci, Cj.
  pose proof (connect_other flag ps i j ex en Hij fresh LTR) as Co.
  pose proof (connect_length flag ps i j ex en Hij fresh LTR) as Cl.
  set (ps0 := cursive_connect LTR flag ps i j ex en) in *.
  assert (Hz : forall k, k <> (if flag then i else j) -> chain (getp ps0 k) = 0).
  { intros k Hk. destruct (Nat.eq_dec k i) as [->|Hki]; [rewrite Ci; destruct flag; [congruence | reflexivity]|].
    destruct (Nat.eq_dec k j) as [->|Hkj]; [rewrite Cj; destruct flag; [reflexivity | congruence]|].
    rewrite Co by assumption. apply fresh. }
  destruct (finish_one_link LTR ps0 (if flag then i else j) (if flag then j else i) F Hz) as (Fl & Fo & Fc); auto.
  { destruct flag; [rewrite Ci | rewrite Cj]; cbn; lia. }
  { unfold parent_index. rewrite Cl. destruct flag; [rewrite Ci | rewrite Cj]; cbn [chain];
      match goal with |- (if ?c then _ else _) = _ => replace c with false by (symmetry; apply orb_false_iff; split; [apply Z.ltb_ge | apply Z.leb_gt]; lia) end;
      f_equal; lia. }
  { destruct flag; lia. }
  assert (Fya : forall k, ya (getp F k) = 0).
  { intro k. destruct (Nat.eq_dec k (if flag then i else j)) as [E|E].
    - rewrite E, Fc. destruct (accum_val_keeps LTR (atype (getp ps0 (if flag then i else j))) (set_chain (getp ps0 (if flag then i else j)) 0)
                                  (getp ps0 (if flag then j else i)) (accum_sum LTR ps0 (if flag then i else j) (if flag then j else i))) as (_ & A & _).
      rewrite A. destruct flag; [rewrite Ci | rewrite Cj]; cbn; apply axis.
    - rewrite Fo by exact E. destruct (Nat.eq_dec k i) as [->|Hki]; [rewrite Ci; destruct flag; cbn; apply axis|].
      destruct (Nat.eq_dec k j) as [->|Hkj]; [rewrite Cj; destruct flag; cbn; apply axis|].
      rewrite Co by assumption. apply axis. }
  assert (Fbetween : forall k, (i < k < j)%nat -> xa (getp F k) = 0 /\ ya (getp F k) = 0).
  { intros k Hk. rewrite Fo by (destruct flag; lia). rewrite Co by lia. apply between. exact Hk. }
  destruct (pen_diff F i j ltac:(lia)) as [Px _].
  rewrite (adv_sum_first_only F i j ltac:(lia) Fbetween) in Px. cbn [fst] in Px.
  unfold anchor_abs, origin. rewrite !pen_snd_zero by exact Fya. rewrite Px.
  destruct flag.
  - rewrite Fc, (Fo j) by lia. unfold accum_val. rewrite Ci, Cj. cbn. f_equal; lia.
  - rewrite Fc, (Fo i) by lia. unfold accum_val. rewrite Ci, Cj. cbn. f_equal; lia.
Qed.

(* TTB *)
Theorem cursive_single_ttb :
  (forall k, xa (getp ps k) = 0) ->
  position_finish_offsets TTB true (cursive_connect TTB flag ps i j ex en) = Some F ->
  anchor_abs F j en = anchor_abs F i ex.
Proof.
  intros axis Hrun.
  destruct (connect_ttb flag ps i j ex en Hij fresh) as [Ci Cj]. cbn zeta in Ci, Cj.
  pose proof (connect_other flag ps i j ex en Hij fresh TTB) as Co.
  pose proof (connect_length flag ps i j ex en Hij fresh TTB) as Cl.
  set (ps0 := cursive_connect TTB flag ps i j ex en) in *.
  assert (Hz : forall k, k <> (if flag then i else j) -> chain (getp ps0 k) = 0).
  { intros k Hk. destruct (Nat.eq_dec k i) as [->|Hki]; [rewrite Ci; destruct flag; [congruence | reflexivity]|].
    destruct (Nat.eq_dec k j) as [->|Hkj]; [rewrite Cj; destruct flag; [reflexivity | congruence]|].
    rewrite Co by assumption. apply fresh. }
  destruct (finish_one_link TTB ps0 (if flag then i else j) (if flag then j else i) F Hz) as (Fl & Fo & Fc); auto.
  { destruct flag; [rewrite Ci | rewrite Cj]; cbn; lia. }
  { unfold parent_index. rewrite Cl. destruct flag; [rewrite Ci | rewrite Cj]; cbn [chain];
      match goal with |- (if ?c then _ else _) = _ => replace c with false by (symmetry; apply orb_false_iff; split; [apply Z.ltb_ge | apply Z.leb_gt]; lia) end;
      f_equal; lia. }
  { destruct flag; lia. }
  assert (Fxa : forall k, xa (getp F k) = 0).
  { intro k. destruct (Nat.eq_dec k (if flag then i else j)) as [E|E].
    - rewrite E, Fc. destruct (accum_val_keeps TTB (atype (getp ps0 (if flag then i else j))) (set_chain (getp ps0 (if flag then i else j)) 0)
                                  (getp ps0 (if flag then j else i)) (accum_sum TTB ps0 (if flag then i else j) (if flag then j else i))) as (A & _).
      rewrite A. destruct flag; [rewrite Ci | rewrite Cj]; cbn; apply axis.
    - rewrite Fo by exact E. destruct (Nat.eq_dec k i) as [->|Hki]; [rewrite Ci; destruct flag; cbn; apply axis|].
      destruct (Nat.eq_dec k j) as [->|Hkj]; [rewrite Cj; destruct flag; cbn; apply axis|].
      rewrite Co by assumption. apply axis. }
  assert (Fbetween : forall k, (i < k < j)%nat -> xa (getp F k) = 0 /\ ya (getp F k) = 0).
  { intros k Hk. rewrite Fo by (destruct flag; lia). rewrite Co by lia. apply between. exact Hk. }
  destruct (pen_diff F i j ltac:(lia)) as [_ Py].
  rewrite (adv_sum_first_only F i j ltac:(lia) Fbetween) in Py. cbn [snd] in Py.
  unfold anchor_abs, origin. rewrite !pen_fst_zero by exact Fxa. rewrite Py.
  destruct flag.
  - rewrite Fc, (Fo j) by lia. unfold accum_val. rewrite Ci, Cj. cbn. f_equal; lia.
  - rewrite Fc, (Fo i) by lia. unfold accum_val. rewrite Ci, Cj. cbn. f_equal; lia.
Qed.

Lemma rev_field_zero : forall (fld : pos -> Z) l, fld pos0 = 0 -> (forall k, fld (getp l k) = 0) -> forall k, fld (getp (rev l) k) = 0.
Proof.
  intros fld l H0 H k. destruct (Nat.lt_ge_cases k (length l)).
  - rewrite getp_rev by assumption. apply H.
  - unfold getp. rewrite nth_overflow by (rewrite rev_length; lia). exact H0.
Qed.

(* RTL: the buffer is reversed after the finish *)
Theorem cursive_single_rtl :
  (forall k, ya (getp ps k) = 0) ->
  position_finish_offsets RTL true (cursive_connect RTL flag ps i j ex en) = Some F ->
  anchor_abs (rev F) (length F - 1 - j) en = anchor_abs (rev F) (length F - 1 - i) ex.
Proof.
  intros axis Hrun.
  destruct (connect_rtl flag ps i j ex en Hij fresh) as [Ci Cj]. cbn zeta in Ci, Cj.
  pose proof (connect_other flag ps i j ex en Hij fresh RTL) as Co.
  pose proof (connect_length flag ps i j ex en Hij fresh RTL) as Cl.
  set (ps0 := cursive_connect RTL flag ps i j ex en) in *.
  assert (Hz : forall k, k <> (if flag then i else j) -> chain (getp ps0 k) = 0).
  { intros k Hk. destruct (Nat.eq_dec k i) as [->|Hki]; [rewrite Ci; destruct flag; [congruence | reflexivity]|].
    destruct (Nat.eq_dec k j) as [->|Hkj]; [rewrite Cj; destruct flag; [reflexivity | congruence]|].
    rewrite Co by assumption. apply fresh. }
  destruct (finish_one_link RTL ps0 (if flag then i else j) (if flag then j else i) F Hz) as (Fl & Fo & Fc); auto.
  { destruct flag; [rewrite Ci | rewrite Cj]; cbn; lia. }
  { unfold parent_index. rewrite Cl. destruct flag; [rewrite Ci | rewrite Cj]; cbn [chain];
      match goal with |- (if ?c then _ else _) = _ => replace c with false by (symmetry; apply orb_false_iff; split; [apply Z.ltb_ge | apply Z.leb_gt]; lia) end;
      f_equal; lia. }
  { destruct flag; lia. }
  assert (FL : length F = length ps) by (rewrite Fl; exact Cl).
  assert (Fya : forall k, ya (getp F k) = 0).
  { intro k. destruct (Nat.eq_dec k (if flag then i else j)) as [E|E].
    - rewrite E, Fc. destruct (accum_val_keeps RTL (atype (getp ps0 (if flag then i else j))) (set_chain (getp ps0 (if flag then i else j)) 0)
                                  (getp ps0 (if flag then j else i)) (accum_sum RTL ps0 (if flag then i else j) (if flag then j else i))) as (_ & A & _).
      rewrite A. destruct flag; [rewrite Ci | rewrite Cj]; cbn; apply axis.
    - rewrite Fo by exact E. destruct (Nat.eq_dec k i) as [->|Hki]; [rewrite Ci; destruct flag; cbn; apply axis|].
      destruct (Nat.eq_dec k j) as [->|Hkj]; [rewrite Cj; destruct flag; cbn; apply axis|].
      rewrite Co by assumption. apply axis. }
  assert (Fbetween : forall k, (i < k < j)%nat -> xa (getp F k) = 0 /\ ya (getp F k) = 0).
  { intros k Hk. rewrite Fo by (destruct flag; lia). rewrite Co by lia. apply between. exact Hk. }
  destruct (pen_diff (rev F) (length F - 1 - j) (length F - 1 - i) ltac:(lia)) as [Px _].
  replace (length F - 1 - i - (length F - 1 - j))%nat with (j - i)%nat in Px by lia.
  rewrite adv_sum_rev in Px by lia.
  replace (length F - (length F - 1 - j) - (j - i))%nat with (S i) in Px by lia.
  rewrite (adv_sum_last_only F i j ltac:(lia) Fbetween) in Px. cbn [fst] in Px.
  unfold anchor_abs, origin.
  rewrite !pen_snd_zero by (apply (rev_field_zero ya); [reflexivity | exact Fya]).
  rewrite Px. rewrite !getp_rev by lia.
  replace (length F - 1 - (length F - 1 - i))%nat with i by lia.
  replace (length F - 1 - (length F - 1 - j))%nat with j by lia.
  destruct flag.
  - rewrite Fc, (Fo j) by lia. unfold accum_val. rewrite Ci, Cj. cbn. f_equal; lia.
  - rewrite Fc, (Fo i) by lia. unfold accum_val. rewrite Ci, Cj. cbn. f_equal; lia.
Qed.

End OneConnectionFinal.


(* ---------- a decision procedure for the depth hypothesis (used by the non-vacuity examples) ---------- *)

Fixpoint udepth_leb (n : nat) (ps : list pos) (k : nat) : bool :=
  (chain (getp ps k) =? 0) ||
  match parent_index ps k with
  | None => true
  | Some j => match n with O => false | S n' => udepth_leb n' ps j end
  end.

Lemma udepth_leb_sound : forall n ps k, udepth_leb n ps k = true -> udepth_le n ps k.
Proof.
  induction n; intros ps k H; cbn in *; apply orb_true_iff in H; destruct H as [H|H];
    try (left; apply Z.eqb_eq; exact H); right; destruct (parent_index ps k); try exact I; try discriminate.
  apply IHn. exact H.
Qed.

Lemma all_depth_ok : forall n ps,
  forallb (udepth_leb n ps) (seq 0 (length ps)) = true -> forall k, udepth_le n ps k.
Proof.
  intros n ps H k. destruct (Nat.lt_ge_cases k (length ps)) as [Hk|Hk].
  - apply udepth_leb_sound. rewrite forallb_forall in H. apply H. apply in_seq. lia.
  - destruct n; left; unfold getp; rewrite nth_overflow by lia; reflexivity.
Qed.
