(* Proofs/BufferBoundFrameP.v — the output-length bound without any hypothesis on the final buffer's budget. *)
From Coq Require Import List NArith Bool Lia.
From RB Require Import Base.Result Model.Buffer Model.BufferOps Proofs.BufferBoundP Proofs.BufferFrameP.
Import ListNotations.
Local Open Scope N_scope.

Lemma run_output_length_all l lvl fl ops b' :
  N.of_nat (length l) * MAX_LEN_FACTOR <= USIZE_MAX ->
  run (init_buf l lvl fl) ops = Ok (Some b') -> out_mode b' = false ->
  N.of_nat (length (pre b' ++ rest b')) <= N.max (N.of_nat (length l) * 64) 16384.
Proof.
  intros H E Ho. apply (run_output_length l lvl fl ops b' H E Ho).
  destruct (run_frame ops _ _ E) as [Hm _]. exact Hm.
Qed.

(* in output mode both halves obey the bound *)
Lemma run_output_length_outmode l lvl fl ops b' :
  N.of_nat (length l) * MAX_LEN_FACTOR <= USIZE_MAX ->
  run (init_buf l lvl fl) ops = Ok (Some b') -> out_mode b' = true ->
  N.of_nat (length (pre b')) <= N.max (N.of_nat (length l) * 64) 16384 /\
  N.of_nat (dead b' + length (rest b')) <= N.max (N.of_nat (length l) * 64) 16384.
Proof.
  intros H E Ho. destruct (init_J_and_budget l lvl fl H) as [HJ Hmax].
  pose proof (run_J ops _ _ E HJ) as HJ'. unfold J in HJ'. rewrite Ho in HJ'.
  destruct (run_frame ops _ _ E) as [Hm _]. rewrite Hm, Hmax in HJ'. exact HJ'.
Qed.
