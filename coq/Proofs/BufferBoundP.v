(* Proofs/BufferBoundP.v — the length budget (C01): every operation of the buffer alphabet keeps the
   buffer length and the output length within max_len, and never changes max_len. *)
From Coq Require Import List NArith Bool Arith Lia.
From RB Require Import Base.Result Model.Buffer Model.BufferOps.
Import ListNotations.
Local Open Scope N_scope.

Definition Bounded (b : zbuf) : Prop :=
  N.of_nat (blen b) <= max_len b /\ N.of_nat (length (pre b)) <= max_len b /\ N.of_nat (length (pre b) + length (rest b)) <= max_len b
  \/ False.

(* a simpler, sufficient invariant: everything the buffer holds, on both sides, fits the budget *)
Definition Fits (b : zbuf) : Prop :=
  N.of_nat (blen b) <= max_len b /\ N.of_nat (length (pre b)) <= max_len b.

Lemma map_range_length {A} (f : A -> A) : forall l s e, length (map_range f s e l) = length l.
Proof. induction l as [|x l IH]; intros s e; simpl; [reflexivity|]. destruct e; [reflexivity|]. destruct s; simpl; rewrite IH; reflexivity. Qed.

Lemma map_suffix_run_length f c l : length (map_suffix_run f c l) = length l.
Proof.
  unfold map_suffix_run. rewrite app_length, map_length, firstn_length, skipn_length.
  pose proof (Nat.le_sub_l (length l) (run_len c (rev l))). lia.
Qed.

Lemma merge_array_length l s e r c0 c : merge_array l s e = Ok (r, c0, c) -> length r = length l.
Proof.
  unfold merge_array. destruct (nth_error l s); [|discriminate]. destruct (nth_error l (e - 1)); [|discriminate].
  intros H; inversion H; subst. apply map_range_length.
Qed.

(* frame: what an operation may change *)
Definition same_shape (b b' : zbuf) : Prop :=
  length (pre b') = length (pre b) /\ length (rest b') = length (rest b) /\ dead b' = dead b /\ max_len b' = max_len b.

Lemma same_shape_Fits b b' : same_shape b b' -> Fits b -> Fits b'.
Proof. intros [H1 [H2 [H3 H4]]] [F1 F2]. unfold Fits, blen in *. rewrite H1, H2, H3, H4. auto. Qed.

Lemma same_shape_refl b : same_shape b b.
Proof. repeat split. Qed.

Lemma same_shape_trans a b c : same_shape a b -> same_shape b c -> same_shape a c.
Proof. intros [A1 [A2 [A3 A4]]] [B1 [B2 [B3 B4]]]. repeat split; congruence. Qed.

Lemma merge_clusters_shape b s e b' : merge_clusters b s e = Ok b' -> dead b = length (pre b) \/ out_mode b = true -> same_shape b b'.
Proof.
  unfold merge_clusters. destruct (e - s <? 2)%nat; [intros E _; inversion E; apply same_shape_refl|].
  destruct (level b =? 2); [intros E _; inversion E; apply same_shape_refl|].
  destruct (out_mode b) eqn:Eo.
  - destruct (s <? dead b)%nat; [discriminate|].
    destruct (merge_array (rest b) (s - dead b) (e - dead b)) as [[[r c0] c]|] eqn:E; cbn [bind]; [|discriminate].
    intros H _; inversion H; subst. apply merge_array_length in E.
    repeat split; cbn; auto. destruct (_ && _)%bool; [apply map_suffix_run_length|reflexivity].
  - destruct (merge_array (pre b ++ rest b) s e) as [[[r c0] c]|] eqn:E; cbn [bind]; [|discriminate].
    intros H [Hd|Hd]; [|discriminate]. inversion H; subst. apply merge_array_length in E. rewrite app_length in E.
    repeat split; cbn; auto; rewrite ?firstn_length, ?skipn_length; lia.
Qed.

(* ---- the invariant ---- *)

Definition J (b : zbuf) : Prop :=
  if out_mode b
  then N.of_nat (length (pre b)) <= max_len b /\ N.of_nat (dead b + length (rest b)) <= max_len b
  else N.of_nat (length (pre b) + length (rest b)) <= max_len b.

(* same lengths on both sides, same dead, same budget, same mode *)
Definition same_shape' (b b' : zbuf) : Prop :=
  length (pre b') = length (pre b) /\ length (rest b') = length (rest b) /\ dead b' = dead b /\
  max_len b' = max_len b /\ out_mode b' = out_mode b.

Lemma shape_J b b' : same_shape' b b' -> J b -> J b'.
Proof. intros [H1 [H2 [H3 [H4 H5]]]]. unfold J. rewrite H1, H2, H3, H4, H5. auto. Qed.

Lemma shape_refl b : same_shape' b b.
Proof. repeat split. Qed.

Lemma shape_trans a b c : same_shape' a b -> same_shape' b c -> same_shape' a c.
Proof. intros [A1 [A2 [A3 [A4 A5]]]] [B1 [B2 [B3 [B4 B5]]]]. repeat split; congruence. Qed.

(* total length and budget preserved (in-place operations re-split the array at `dead`) *)
Definition same_total (b b' : zbuf) : Prop :=
  (length (pre b') + length (rest b') = length (pre b) + length (rest b))%nat /\ max_len b' = max_len b /\ out_mode b' = out_mode b.

Lemma of_arr_total b a : length a = length (arr b) -> same_total b (of_arr b a).
Proof.
  intros H. unfold of_arr, same_total, arr in *. cbn. rewrite app_length in H.
  repeat split. rewrite <- H. rewrite <- (firstn_skipn (dead b) a) at 3. rewrite app_length. reflexivity.
Qed.

Lemma total_J_inplace b b' : out_mode b = false -> same_total b b' -> J b -> J b'.
Proof. intros Ho [H1 [H2 H3]]. unfold J. rewrite H3, Ho, H1, H2. auto. Qed.

Lemma flag_while_length c stop m l : length (fst (flag_while_ne_fwd c stop m l)) = length l.
Proof.
  induction l as [|x l IH]; simpl; [reflexivity|]. destruct (cluster x =? stop); [reflexivity|].
  destruct (flag_while_ne_fwd c stop m l) as [t' a]. simpl in IH. destruct (cluster x =? c); simpl; rewrite IH; reflexivity.
Qed.

Lemma slice_glue_length {A} (l : list A) s e : (s <= e)%nat ->
  (length (firstn s l) + (length (slice l s e) + length (skipn e l)) = length l)%nat.
Proof. intros H. unfold slice. rewrite !firstn_length, !skipn_length. lia. Qed.

Lemma infos_set_glyph_flags_length lvl l s e c m r :
  (s <= e)%nat -> infos_set_glyph_flags lvl l s e c m = Ok r -> length (fst r) = length l.
Proof.
  intros Hse. unfold infos_set_glyph_flags. destruct (s =? e)%nat; [intros E; inversion E; reflexivity|].
  destruct (nth_error l s); [|discriminate]. destruct (nth_error l (e - 1)); [|discriminate].
  destruct (_ || _)%bool.
  - intros E; inversion E; subst. cbn [fst flag_all_ne]. rewrite !app_length, map_length. apply slice_glue_length, Hse.
  - destruct (c =? cluster i).
    + pose proof (flag_while_length c (cluster i) m (rev (slice l s e))) as H1.
      destruct (flag_while_ne_fwd c (cluster i) m (rev (slice l s e))) as [r' ap]. intros E; inversion E; subst. cbn [fst] in *.
      rewrite !app_length, rev_length, H1, rev_length. apply slice_glue_length, Hse.
    + pose proof (flag_while_length c (cluster i0) m (slice l s e)) as H1.
      destruct (flag_while_ne_fwd c (cluster i0) m (slice l s e)) as [mid' ap]. intros E; inversion E; subst. cbn [fst] in *.
      rewrite !app_length, H1. apply slice_glue_length, Hse.
Qed.

Lemma add_scratch_shape b a : same_shape' b (add_scratch b a).
Proof. unfold add_scratch. destruct a; [|apply shape_refl]. repeat split. Qed.

(* flag calls: same lengths on both sides in output mode, same total in in-place mode *)
Lemma J_with_scratch b x : J (with_scratch b x) = J b.
Proof. reflexivity. Qed.

Lemma set_glyph_flags_J b m s e interior from_out b' :
  set_glyph_flags b m s e interior from_out = Ok b' -> J b -> J b'.
Proof.
  unfold set_glyph_flags.
  set (s0 := match s with Some x => x | None => 0%nat end).
  set (e0 := Nat.min (match e with Some x => x | None => blen b end) (blen b)).
  destruct (e0 <? s0)%nat eqn:Ees.
  - cbn [andb].
    destruct interior, from_out; cbn [andb negb]; try discriminate; try (intros E HJ; inversion E; subst; exact HJ).
    + (* interior, from_out *) destruct (out_mode b) eqn:Eo; cbn [negb andb]; [|discriminate].
      cbn [orb]. cbn [out_mode with_scratch negb]. rewrite Eo. cbn [negb pre rest dead level with_scratch].
      destruct (length (pre b) <? s0)%nat eqn:E1; [discriminate|]. apply Nat.ltb_ge in E1.
      destruct (e0 <? dead b)%nat; [discriminate|].
      destruct (find_min_cluster (level b) (rest b) 0 (e0 - dead b) U32_MAX) as [c1|]; cbn [bind]; [|discriminate].
      destruct (find_min_cluster (level b) (pre b) s0 (length (pre b)) c1) as [c|]; cbn [bind]; [|discriminate].
      destruct (infos_set_glyph_flags (level b) (pre b) s0 (length (pre b)) c m) as [r1|] eqn:F1; cbn [bind]; [|discriminate].
      destruct (infos_set_glyph_flags (level b) (rest b) 0 (e0 - dead b) c m) as [r2|] eqn:F2; cbn [bind]; [|discriminate].
      intros E; inversion E; subst. apply shape_J.
      eapply shape_trans; [|apply add_scratch_shape]. eapply shape_trans; [|apply add_scratch_shape].
      repeat split; cbn; auto; [exact (infos_set_glyph_flags_length _ _ _ _ _ _ _ E1 F1)|exact (infos_set_glyph_flags_length _ _ _ _ _ _ _ (Nat.le_0_l _) F2)].
    + (* not interior, from_out *) destruct (out_mode b) eqn:Eo; cbn [negb andb]; [|intros E HJ; inversion E; subst; exact HJ].
      cbn [orb]. cbn [out_mode with_scratch negb]. rewrite Eo. cbn [negb pre rest dead level with_scratch].
      destruct (length (pre b) <? s0)%nat; [discriminate|]. destruct (e0 <? dead b)%nat; [discriminate|].
      intros E; inversion E; subst. unfold J. cbn. rewrite Eo, !map_range_length. intros H; exact H.
  - apply Nat.ltb_ge in Ees. cbn [andb].
    destruct (interior && negb from_out && (e0 - s0 <? 2)%nat)%bool; [intros E HJ; inversion E; subst; exact HJ|].
    cbv zeta.
    destruct (negb from_out || negb (out_mode (with_scratch b (N.lor (scratch b) SCRATCH_HAS_GLYPH_FLAGS))))%bool eqn:G5.
    + cbn [out_mode with_scratch pre rest dead level].
      destruct (out_mode b) eqn:Eo.
      * destruct (s0 <? dead b)%nat eqn:Esd; [discriminate|]. apply Nat.ltb_ge in Esd.
        destruct (negb interior).
        -- intros E; inversion E; subst. unfold J. cbn. rewrite Eo, map_range_length. intros H; exact H.
        -- destruct (find_min_cluster (level b) (rest b) (s0 - dead b) (e0 - dead b) U32_MAX) as [c|]; cbn [bind]; [|discriminate].
           destruct (infos_set_glyph_flags (level b) (rest b) (s0 - dead b) (e0 - dead b) c m) as [r|] eqn:F; cbn [bind]; [|discriminate].
           intros E; inversion E; subst. apply shape_J. eapply shape_trans; [|apply add_scratch_shape].
           assert (Hse : (s0 - dead b <= e0 - dead b)%nat) by (clear - Ees; lia).
           repeat split; cbn; auto. exact (infos_set_glyph_flags_length _ _ _ _ _ _ _ Hse F).
      * destruct (negb interior).
        -- intros E; inversion E; subst. apply (total_J_inplace b); [exact Eo|].
           unfold same_total. cbn. rewrite firstn_length, skipn_length, map_range_length, app_length. repeat split; auto. lia.
        -- destruct (find_min_cluster (level b) (pre b ++ rest b) s0 e0 U32_MAX) as [c|]; cbn [bind]; [|discriminate].
           destruct (infos_set_glyph_flags (level b) (pre b ++ rest b) s0 e0 c m) as [r|] eqn:F; cbn [bind]; [|discriminate].
           intros E; inversion E; subst. intros HJ. eapply shape_J; [apply add_scratch_shape|].
           pose proof (infos_set_glyph_flags_length _ _ _ _ _ _ _ Ees F) as HL. rewrite app_length in HL.
           unfold J in *. cbn. rewrite Eo in *. rewrite firstn_length, skipn_length. lia.
    + cbn [out_mode with_scratch pre rest dead level].
      destruct (length (pre b) <? s0)%nat eqn:E1; [discriminate|]. apply Nat.ltb_ge in E1.
      destruct (e0 <? dead b)%nat; [discriminate|].
      assert (Eo : out_mode b = true).
      { cbn [out_mode with_scratch] in G5. destruct (out_mode b); [reflexivity|]. destruct from_out; discriminate. }
      destruct (negb interior).
      * intros E; inversion E; subst. unfold J. cbn. rewrite Eo, !map_range_length. intros H; exact H.
      * destruct (find_min_cluster (level b) (rest b) 0 (e0 - dead b) U32_MAX) as [c1|]; cbn [bind]; [|discriminate].
        destruct (find_min_cluster (level b) (pre b) s0 (length (pre b)) c1) as [c|]; cbn [bind]; [|discriminate].
        destruct (infos_set_glyph_flags (level b) (pre b) s0 (length (pre b)) c m) as [r1|] eqn:F1; cbn [bind]; [|discriminate].
        destruct (infos_set_glyph_flags (level b) (rest b) 0 (e0 - dead b) c m) as [r2|] eqn:F2; cbn [bind]; [|discriminate].
        intros E; inversion E; subst. apply shape_J.
        eapply shape_trans; [|apply add_scratch_shape]. eapply shape_trans; [|apply add_scratch_shape].
        repeat split; cbn; auto; [exact (infos_set_glyph_flags_length _ _ _ _ _ _ _ E1 F1)|exact (infos_set_glyph_flags_length _ _ _ _ _ _ _ (Nat.le_0_l _) F2)].
Qed.

Lemma run_len_le' c l : (run_len c l <= length l)%nat.
Proof. induction l as [|x l IH]; cbn; [lia|]. destruct (cluster x =? c); lia. Qed.

(* ---- merges ---- *)

Lemma merge_clusters_J b s e b' : merge_clusters b s e = Ok b' -> J b -> J b'.
Proof.
  unfold merge_clusters. destruct (e - s <? 2)%nat; [intros E HJ; inversion E; subst; exact HJ|].
  destruct (level b =? 2); [intros E HJ; inversion E; subst; exact HJ|].
  destruct (out_mode b) eqn:Eo.
  - destruct (s <? dead b)%nat; [discriminate|].
    destruct (merge_array (rest b) (s - dead b) (e - dead b)) as [[[r c0] c]|] eqn:E; cbn [bind]; [|discriminate].
    intros H; inversion H; subst. apply merge_array_length in E. apply shape_J.
    repeat split; cbn; auto. destruct (_ && _)%bool; [apply map_suffix_run_length|reflexivity].
  - destruct (merge_array (pre b ++ rest b) s e) as [[[r c0] c]|] eqn:E; cbn [bind]; [|discriminate].
    intros H; inversion H; subst. apply merge_array_length in E. apply (total_J_inplace b); [exact Eo|].
    unfold same_total. cbn. rewrite firstn_length, skipn_length, E, app_length. repeat split; auto. lia.
Qed.

Lemma merge_clusters_full_J b s e b' : merge_clusters_full b s e = Ok b' -> J b -> J b'.
Proof.
  unfold merge_clusters_full. destruct (e - s <? 2)%nat; [intros E HJ; inversion E; subst; exact HJ|].
  destruct (level b =? 2); [apply set_glyph_flags_J|apply merge_clusters_J].
Qed.

(* output-mode frame of a merge: needed by replace_glyphs / delete_glyph *)
Lemma merge_clusters_full_outframe b s e b' :
  merge_clusters_full b s e = Ok b' -> out_mode b = true ->
  length (pre b') = length (pre b) /\ length (rest b') = length (rest b) /\ dead b' = dead b /\ max_len b' = max_len b /\ out_mode b' = true.
Proof.
  intros E Ho. assert (HJ : forall M, J (mkZ (pre b) (rest b) (dead b) true (level b) (bflags b) (ok b) M (scratch b)) -> True) by auto.
  unfold merge_clusters_full in E. destruct (e - s <? 2)%nat; [inversion E; subst; auto|].
  destruct (level b =? 2).
  - (* level 2: flags only; lengths from the cluster-list preservation on each side are not needed: use J-shape argument *)
    unfold unsafe_to_break, set_glyph_flags in E.
    set (s0 := s) in *. set (e0 := Nat.min e (blen b)) in *.
    destruct (e0 <? s0)%nat eqn:Ees; cbn [andb negb] in E; [discriminate|].
    apply Nat.ltb_ge in Ees.
    destruct (e0 - s0 <? 2)%nat; cbn [andb] in E; [inversion E; subst; auto|].
    cbv zeta in E. cbn [orb negb out_mode with_scratch pre rest dead level] in E. rewrite Ho in E.
    destruct (s0 <? dead b)%nat eqn:Esd; [discriminate|]. apply Nat.ltb_ge in Esd. cbn [negb] in E.
    destruct (find_min_cluster (level b) (rest b) (s0 - dead b) (e0 - dead b) U32_MAX) as [c|]; cbn [bind] in E; [|discriminate].
    destruct (infos_set_glyph_flags (level b) (rest b) (s0 - dead b) (e0 - dead b) c BREAK_CONCAT) as [r|] eqn:F; cbn [bind] in E; [|discriminate].
    inversion E; subst. assert (Hse : (s0 - dead b <= e0 - dead b)%nat) by lia.
    pose proof (infos_set_glyph_flags_length _ _ _ _ _ _ _ Hse F) as HL.
    unfold add_scratch. destruct (snd r); cbn; auto.
  - unfold merge_clusters in E. destruct (e - s <? 2)%nat; [inversion E; subst; auto|].
    destruct (level b =? 2); [inversion E; subst; auto|]. rewrite Ho in E.
    destruct (s <? dead b)%nat; [discriminate|].
    destruct (merge_array (rest b) (s - dead b) (e - dead b)) as [[[r c0] c]|] eqn:E2; cbn [bind] in E; [|discriminate].
    inversion E; subst. apply merge_array_length in E2. cbn. repeat split; auto.
    destruct (_ && _)%bool; [apply map_suffix_run_length|reflexivity].
Qed.

Lemma merge_out_clusters_J b s e b' : merge_out_clusters b s e = Ok b' -> J b -> J b'.
Proof.
  unfold merge_out_clusters. destruct (level b =? 2); [intros E HJ; inversion E; subst; exact HJ|].
  destruct (e - s <? 2)%nat; [intros E HJ; inversion E; subst; exact HJ|].
  destruct (nth_error (pre b) s); [|discriminate]. destruct (nth_error (pre b) (e - 1)); [|discriminate].
  intros E; inversion E; subst. apply shape_J. repeat split; cbn; auto; [apply map_range_length|].
  match goal with |- length (if ?c then _ else _) = _ => destruct c end; [|reflexivity].
  rewrite app_length, map_length, firstn_length, skipn_length.
  pose proof (run_len_le' (cluster i0) (rest b)). lia.
Qed.

(* ---- ensure / streaming ---- *)

Lemma ensure_spec b n : let '(okk, b') := ensure b n in
  pre b' = pre b /\ rest b' = rest b /\ dead b' = dead b /\ max_len b' = max_len b /\ out_mode b' = out_mode b /\
  (okk = true -> (n < blen b)%nat \/ N.of_nat n <= max_len b).
Proof.
  unfold ensure. destruct (n <? blen b)%nat eqn:E1; [apply Nat.ltb_lt in E1; cbn; repeat split; auto|].
  destruct (max_len b <? N.of_nat n) eqn:E2; cbn; repeat split; auto; try discriminate.
  intros _. right. apply N.ltb_ge in E2. exact E2.
Qed.

(* growth of the out-buffer by n after a successful make_room_for stays within the budget *)
Lemma room_bound b n : out_mode b = true -> J b -> fst (make_room_for b n) = true ->
  N.of_nat (length (pre b) + n) <= max_len b.
Proof.
  intros Ho HJ Hok. unfold make_room_for, out_len in Hok. rewrite Ho in Hok.
  pose proof (ensure_spec b (length (pre b) + n)) as Hs. destruct (ensure b (length (pre b) + n)) as [okk b1]. cbv beta iota zeta in Hs.
  cbn in Hok. subst okk. destruct Hs as [_ [_ [_ [_ [_ Hs]]]]]. specialize (Hs eq_refl).
  unfold J in HJ. rewrite Ho in HJ. destruct HJ as [_ H2]. unfold blen in Hs. destruct Hs as [Hs|Hs]; lia.
Qed.

Lemma room_J b n : J b -> J (snd (make_room_for b n)).
Proof.
  intros HJ. unfold make_room_for. pose proof (ensure_spec b (out_len b + n)) as Hs.
  destruct (ensure b (out_len b + n)) as [okk b1]. cbv beta iota zeta in Hs. cbn. destruct Hs as [H1 [H2 [H3 [H4 [H5 _]]]]].
  unfold J in *. rewrite H1, H2, H3, H4, H5. exact HJ.
Qed.

Lemma room_frame b n : let b1 := snd (make_room_for b n) in
  pre b1 = pre b /\ rest b1 = rest b /\ dead b1 = dead b /\ max_len b1 = max_len b /\ out_mode b1 = out_mode b.
Proof.
  unfold make_room_for. pose proof (ensure_spec b (out_len b + n)) as Hs.
  destruct (ensure b (out_len b + n)) as [okk b1]. cbv beta iota zeta in Hs. cbn. tauto.
Qed.

Ltac mk_room b n Ho HJ :=
  let Hb := fresh "Hb" in let HJ1 := fresh "HJ1" in let Hf := fresh "Hf" in
  pose proof (room_bound b n Ho HJ) as Hb; pose proof (room_J b n HJ) as HJ1; pose proof (room_frame b n) as Hf;
  destruct (make_room_for b n) as [okk b1]; cbn [fst snd] in Hb, HJ1, Hf; cbv zeta in Hf;
  destruct Hf as [F1 [F2 [F3 [F4 F5]]]].

Ltac unJ Ho := unfold J in *; cbn [pre rest dead max_len out_mode with_pr];
  repeat match goal with H : out_mode _ = _ |- _ => rewrite H in * end.

Lemma next_glyph_J b b' : next_glyph b = Ok b' -> J b -> J b'.
Proof.
  unfold next_glyph. destruct (rest b) as [|x t] eqn:Er; [discriminate|].
  destruct (out_mode b) eqn:Ho; intros E HJ.
  - mk_room b 1%nat Ho HJ. destruct okk; inversion E; subst; [|exact HJ1].
    unfold J in *. cbn. rewrite ?F5, ?F4. rewrite Ho in *. rewrite Er in HJ. cbn in HJ. rewrite app_length. cbn. specialize (Hb eq_refl). split; [exact Hb|lia].
  - inversion E; subst. unfold J in *. cbn. rewrite ?F5, ?F4. rewrite Ho in *. rewrite Er in HJ. rewrite app_length. cbn in *. lia.
Qed.

Lemma next_glyphs_J b n b' : next_glyphs b n = Ok b' -> J b -> J b'.
Proof.
  unfold next_glyphs. destruct (length (rest b) <? n)%nat eqn:En; [discriminate|]. apply Nat.ltb_ge in En.
  destruct (out_mode b) eqn:Ho; intros E HJ.
  - mk_room b n Ho HJ. destruct okk; inversion E; subst; [|exact HJ1].
    unfold J in *. cbn. rewrite ?F5, ?F4. rewrite Ho in *. rewrite app_length, firstn_length, skipn_length, Nat.min_l by exact En.
    specialize (Hb eq_refl). split; [exact Hb|lia].
  - inversion E; subst. unfold J in *. cbn. rewrite ?F5, ?F4. rewrite Ho in *. rewrite app_length, firstn_length, skipn_length, Nat.min_l by exact En. lia.
Qed.

Lemma skip_glyph_J b b' : skip_glyph b = Ok b' -> J b -> J b'.
Proof.
  unfold skip_glyph. destruct (rest b) as [|x t] eqn:Er; [discriminate|]. intros E HJ. inversion E; subst.
  unfold J in *. cbn. destruct (out_mode b); rewrite Er in HJ; cbn in *; [lia|rewrite app_length; cbn; lia].
Qed.

Lemma replace_glyph_J b g b' : out_mode b = true -> replace_glyph b g = Ok b' -> J b -> J b'.
Proof.
  intros Ho. unfold replace_glyph. destruct (rest b) as [|x t] eqn:Er; [discriminate|]. intros E HJ.
  mk_room b 1%nat Ho HJ. destruct okk; inversion E; subst; [|exact HJ1].
  unfold J in *. cbn. rewrite ?F5, ?F4. rewrite Ho in *. rewrite Er in HJ. cbn in HJ. rewrite app_length. cbn. specialize (Hb eq_refl). split; [exact Hb|lia].
Qed.

Lemma output_glyph_J b g b' : out_mode b = true -> output_glyph b g = Ok b' -> J b -> J b'.
Proof.
  intros Ho. unfold output_glyph. intros E HJ. mk_room b 1%nat Ho HJ.
  destruct okk; cbn [negb] in E; [|inversion E; subst; exact HJ1]. specialize (Hb eq_refl).
  destruct (rest b) as [|x t] eqn:Er.
  - destruct (rev (pre b)) as [|l t']; inversion E; subst; [exact HJ|].
    unfold J in *. cbn. rewrite ?F5, ?F4. rewrite Ho in *. rewrite Er in *. rewrite app_length. cbn in *. split; [exact Hb|lia].
  - inversion E; subst. unfold J in *. cbn. rewrite ?F5, ?F4. rewrite Ho in *. rewrite Er in *. rewrite app_length. cbn in *. split; [exact Hb|lia].
Qed.

Lemma output_info_J b i b' : out_mode b = true -> output_info b i = Ok b' -> J b -> J b'.
Proof.
  intros Ho. unfold output_info. intros E HJ. mk_room b 1%nat Ho HJ.
  destruct okk; cbn [negb] in E; inversion E; subst; [|exact HJ1]. specialize (Hb eq_refl).
  unfold J in *. cbn. rewrite ?F5, ?F4. rewrite Ho in *. rewrite app_length. cbn. split; [exact Hb|tauto].
Qed.

Lemma copy_glyph_J b b' : out_mode b = true -> copy_glyph b = Ok b' -> J b -> J b'.
Proof.
  intros Ho. unfold copy_glyph. intros E HJ. mk_room b 1%nat Ho HJ.
  destruct okk; cbn [negb] in E; [|inversion E; subst; exact HJ1]. specialize (Hb eq_refl).
  destruct (rest b) as [|x t] eqn:Er; [discriminate|]. inversion E; subst.
  unfold J in *. cbn. rewrite ?F5, ?F4. rewrite Ho in *. rewrite Er in *. rewrite app_length. cbn in *. split; [exact Hb|lia].
Qed.

Lemma replace_glyphs_J b n gs b' : out_mode b = true -> replace_glyphs b n gs = Ok b' -> J b -> J b'.
Proof.
  intros Ho. unfold replace_glyphs. intros E HJ. mk_room b (length gs) Ho HJ.
  destruct okk; cbn [negb] in E; [|inversion E; subst; exact HJ1]. specialize (Hb eq_refl).
  destruct (length (rest b) <? n)%nat eqn:En; [discriminate|]. apply Nat.ltb_ge in En.
  destruct (merge_clusters_full b (dead b) (dead b + n)) as [b2|] eqn:E2; cbn [bind] in E; [|discriminate].
  destruct (merge_clusters_full_outframe _ _ _ _ E2 Ho) as [G1 [G2 [G3 [G4 G5]]]].
  destruct (rest b2) as [|orig t] eqn:Er; [discriminate|]. inversion E; subst.
  unfold J in *. cbn. rewrite G5, G4. rewrite Ho in HJ. rewrite app_length, map_length, G1.
  split; [exact Hb|]. rewrite skipn_length, G2, G3. lia.
Qed.

Lemma delete_glyph_J b b' : delete_glyph b = Ok b' -> J b -> J b'.
Proof.
  unfold delete_glyph. destruct (rest b) as [|x t] eqn:Er; [discriminate|]. intros E HJ.
  assert (Hsk : forall b1, skip_glyph b = Ok b1 -> J b1) by (intros b1 H1; eapply skip_glyph_J; eauto).
  unfold skip_glyph in Hsk. rewrite Er in Hsk.
  match type of E with (if ?c then _ else _) = _ => destruct c end.
  { unfold skip_glyph in E. rewrite Er in E. apply Hsk, E. }
  destruct (out_mode b && (0 <? length (pre b))%nat)%bool eqn:G.
  - destruct (last_cluster (pre b)) as [old|]; [|discriminate].
    eapply skip_glyph_J; [exact E|]. apply (shape_J b); [|exact HJ].
    repeat split; cbn; rewrite ?Er; auto. destruct (cluster x <? old); [apply map_suffix_run_length|reflexivity].
  - destruct t as [|y t'].
    + unfold skip_glyph in E. rewrite Er in E. apply Hsk, E.
    + destruct (merge_clusters_full b (dead b) (dead b + 2)) as [b1|] eqn:E1; cbn [bind] in E; [|discriminate].
      eapply skip_glyph_J; [exact E|]. eapply merge_clusters_full_J; eauto.
Qed.

Lemma move_to_J b i r b' : move_to b i = Ok (r, b') -> J b -> J b'.
Proof.
  unfold move_to. destruct (out_mode b) eqn:Ho; cbn [negb]; intros E HJ.
  - destruct (negb (ok b)); [inversion E; subst; exact HJ|].
    destruct (length (pre b) + length (rest b) <? i)%nat eqn:Ei; [discriminate|]. apply Nat.ltb_ge in Ei.
    destruct (length (pre b) <? i)%nat eqn:E1.
    + apply Nat.ltb_lt in E1. mk_room b (i - length (pre b))%nat Ho HJ.
      destruct okk; cbn [negb] in E; inversion E; subst; [|exact HJ1]. specialize (Hb eq_refl).
      unfold J in *. cbn. rewrite ?F5, ?F4. rewrite Ho in *. rewrite app_length, firstn_length, skipn_length.
      assert (Hmin : Nat.min (i - length (pre b)) (length (rest b)) = (i - length (pre b))%nat) by lia. rewrite Hmin.
      split; [exact Hb|lia].
    + apply Nat.ltb_ge in E1. destruct (i <? length (pre b))%nat eqn:E2; [|inversion E; subst; exact HJ]. apply Nat.ltb_lt in E2.
      destruct (dead b <? length (pre b) - i)%nat eqn:E3.
      * apply Nat.ltb_lt in E3.
        pose proof (ensure_spec b (blen b + (length (pre b) - i - dead b))) as Hs.
        destruct (ensure b (blen b + (length (pre b) - i - dead b))) as [okk b1]. cbv beta iota zeta in Hs.
        destruct Hs as [H1 [H2 [H3 [H4 [H5 H6]]]]].
        destruct okk; cbn [negb] in E; inversion E; subst.
        -- specialize (H6 eq_refl). unfold J in *. cbn. rewrite ?F5, ?F4. rewrite Ho in *. rewrite firstn_length, app_length, skipn_length. unfold blen in H6.
           split; [lia|]. destruct H6 as [H6|H6]; lia.
        -- unfold J in *. rewrite H1, H2, H3, H4, H5. exact HJ.
      * apply Nat.ltb_ge in E3. inversion E; subst. unfold J in *. cbn. rewrite ?F5, ?F4. rewrite Ho in *. rewrite firstn_length, app_length, skipn_length. lia.
  - destruct (blen b <? i)%nat; [discriminate|]. inversion E; subst. unfold J in *. cbn. rewrite ?F5, ?F4. rewrite Ho in *.
    rewrite firstn_length, skipn_length, app_length. lia.
Qed.

Lemma clear_output_J b : out_mode b = false -> J b -> J (clear_output b).
Proof. intros Ho HJ. unfold clear_output, J in *. rewrite Ho in *. cbn. rewrite app_length. split; lia. Qed.

Lemma sync_J b b' : sync b = Ok (Some b') -> J b -> J b'.
Proof.
  unfold sync. destruct (out_mode b) eqn:Ho; cbn [negb]; [|discriminate]. destruct (negb (ok b)); [discriminate|].
  destruct (next_glyphs b (length (rest b))) as [b1|] eqn:E1; cbn [bind]; [|discriminate].
  intros E HJ. pose proof (next_glyphs_J _ _ _ E1 HJ) as H1.
  destruct (negb (ok b1)); [discriminate|]. inversion E; subst.
  (* next_glyphs keeps the mode and the budget; the new array is its out-buffer *)
  assert (Hfr : out_mode b1 = true /\ max_len b1 = max_len b).
  { unfold next_glyphs in E1. destruct (length (rest b) <? length (rest b))%nat; [discriminate|]. rewrite Ho in E1.
    pose proof (room_frame b (length (rest b))) as Hf. destruct (make_room_for b (length (rest b))) as [okk b2]. cbn [snd] in Hf. cbv zeta in Hf.
    destruct Hf as [_ [_ [_ [Hf4 Hf5]]]]. destruct okk; inversion E1; subst; cbn; rewrite ?Hf4, ?Hf5, ?Ho; auto. }
  destruct Hfr as [Ho1 Hm1]. unfold J in *. rewrite Ho1 in H1. cbn. rewrite <- Hm1. destruct H1 as [H1 _]. lia.
Qed.

(* ---- in-place ---- *)

Lemma of_arr_J b a : out_mode b = false -> length a = length (arr b) -> J b -> J (of_arr b a).
Proof. intros Ho Hl. apply total_J_inplace; [exact Ho|apply of_arr_total, Hl]. Qed.

Lemma of_arr_J_le b a : out_mode b = false -> (length a <= length (arr b))%nat -> J b -> J (of_arr b a).
Proof.
  intros Ho Hl HJ. unfold J, of_arr, arr in *. cbn. rewrite Ho in *. rewrite app_length in Hl.
  rewrite firstn_length, skipn_length. lia.
Qed.

Lemma reverse_range_J b s e b' : out_mode b = false -> reverse_range b s e = Ok b' -> J b -> J b'.
Proof.
  intros Ho. unfold reverse_range. destruct (e - s <? 2)%nat eqn:E2; [intros E HJ; inversion E; subst; exact HJ|]. apply Nat.ltb_ge in E2.
  destruct (length (arr b) <? e)%nat eqn:Ee; [discriminate|]. apply Nat.ltb_ge in Ee.
  intros E; inversion E; subst. apply of_arr_J; [exact Ho|].
  rewrite !app_length, rev_length. unfold slice. rewrite !firstn_length, !skipn_length. lia.
Qed.

Lemma frame_mode_of_arr b a : out_mode (of_arr b a) = out_mode b.
Proof. reflexivity. Qed.

Lemma merge_full_mode b s e b' : merge_clusters_full b s e = Ok b' -> out_mode b = false -> out_mode b' = false.
Proof.
  intros E Ho. unfold merge_clusters_full in E. destruct (e - s <? 2)%nat; [inversion E; subst; exact Ho|].
  destruct (level b =? 2).
  - unfold unsafe_to_break, set_glyph_flags in E.
    repeat match type of E with
           | (if ?c then _ else _) = _ => destruct c; try discriminate; try (inversion E; subst; exact Ho)
           end.
    all: cbv zeta in E; cbn [out_mode with_scratch pre rest dead level orb negb] in E; rewrite ?Ho in E; cbn [negb orb] in E.
    all: repeat match type of E with
           | bind ?x _ = _ => destruct x; cbn [bind] in E; try discriminate
           | (if ?c then _ else _) = _ => destruct c; try discriminate
           end.
    all: inversion E; subst; unfold add_scratch; repeat match goal with |- context [if ?c then _ else _] => destruct c end; cbn; exact Ho.
  - unfold merge_clusters in E. destruct (e - s <? 2)%nat; [inversion E; subst; exact Ho|].
    destruct (level b =? 2); [inversion E; subst; exact Ho|]. rewrite Ho in E.
    destruct (merge_array (pre b ++ rest b) s e) as [[[r c0] c]|]; cbn [bind] in E; [|discriminate]. inversion E; subst. exact Ho.
Qed.

Lemma reverse_range_mode b s e b' : reverse_range b s e = Ok b' -> out_mode b' = out_mode b.
Proof.
  unfold reverse_range. destruct (e - s <? 2)%nat; [intros E; inversion E; reflexivity|].
  destruct (length (arr b) <? e)%nat; [discriminate|]. intros E; inversion E; reflexivity.
Qed.

Lemma move_elem_length a i j : (j <= i)%nat -> length (move_elem a i j) = length a.
Proof.
  intros Hji. unfold move_elem. destruct (nth_error a i) as [t|] eqn:E; [|reflexivity].
  assert (Hi : (i < length a)%nat) by (apply nth_error_Some; rewrite E; discriminate).
  rewrite !app_length. cbn [length]. unfold slice. rewrite !firstn_length. rewrite (skipn_length (S i)), (skipn_length j). lia.
Qed.

Lemma find_j_le cmp a x start : forall j, (find_j cmp a x start j <= j)%nat.
Proof.
  induction j as [|j IH]; cbn [find_j]; [lia|]. destruct (start <? S j)%nat; [|lia].
  destruct (nth_error a j) as [y|]; [|lia]. destruct (cmp y x); [|lia]. lia.
Qed.

Lemma sort_loop_J cmp start is : forall b b', out_mode b = false -> sort_loop cmp b start is = Ok b' -> J b -> J b'.
Proof.
  induction is as [|i t IH]; intros b b' Ho; cbn [sort_loop]; [intros E HJ; inversion E; subst; exact HJ|].
  destruct (nth_error (arr b) i) as [x|]; [|discriminate].
  destruct (i =? find_j cmp (arr b) x start i)%nat; [apply IH, Ho|].
  destruct (merge_clusters_full b (find_j cmp (arr b) x start i) (S i)) as [b1|] eqn:E1; cbn [bind]; [|discriminate].
  intros E HJ. pose proof (merge_full_mode _ _ _ _ E1 Ho) as Ho1.
  eapply IH; [|exact E|].
  - exact Ho1.
  - apply of_arr_J; [exact Ho1| |eapply merge_clusters_full_J; eauto].
    apply move_elem_length.
    (* find_j is computed on the array before the merge; the bound only needs j <= i *)
    apply find_j_le.
Qed.

Lemma rg_loop_J grp merge is : forall b start b', out_mode b = false -> rg_loop grp merge b start is = Ok b' -> J b -> J b'.
Proof.
  induction is as [|i t IH]; intros b start b' Ho; cbn [rg_loop].
  - destruct merge.
    + destruct (merge_clusters_full b start (blen b)) as [b1|] eqn:E1; cbn [bind]; [|discriminate].
      pose proof (merge_full_mode _ _ _ _ E1 Ho) as Ho1.
      destruct (reverse_range b1 start (blen b1)) as [b2|] eqn:E2; cbn [bind]; [|discriminate].
      intros E HJ. pose proof (reverse_range_mode _ _ _ _ E2) as Ho2. rewrite Ho1 in Ho2. unfold reverse in E.
      apply (reverse_range_J _ _ _ _ Ho2 E). apply (reverse_range_J _ _ _ _ Ho1 E2). apply (merge_clusters_full_J _ _ _ _ E1 HJ).
    + cbn [bind]. destruct (reverse_range b start (blen b)) as [b2|] eqn:E2; cbn [bind]; [|discriminate].
      intros E HJ. pose proof (reverse_range_mode _ _ _ _ E2) as Ho2. rewrite Ho in Ho2. unfold reverse in E.
      apply (reverse_range_J _ _ _ _ Ho2 E). apply (reverse_range_J _ _ _ _ Ho E2 HJ).
  - destruct (nth_error (arr b) (i - 1)) as [x|]; [|discriminate].
    destruct (nth_error (arr b) i) as [y|]; [|discriminate].
    destruct (grp x y); [apply IH, Ho|].
    destruct merge.
    + destruct (merge_clusters_full b start i) as [b1|] eqn:E1; cbn [bind]; [|discriminate].
      pose proof (merge_full_mode _ _ _ _ E1 Ho) as Ho1.
      destruct (reverse_range b1 start i) as [b2|] eqn:E2; cbn [bind]; [|discriminate].
      intros E HJ. pose proof (reverse_range_mode _ _ _ _ E2) as Ho2. rewrite Ho1 in Ho2.
      apply (IH _ _ _ Ho2 E). apply (reverse_range_J _ _ _ _ Ho1 E2). apply (merge_clusters_full_J _ _ _ _ E1 HJ).
    + cbn [bind]. destruct (reverse_range b start i) as [b2|] eqn:E2; cbn [bind]; [|discriminate].
      intros E HJ. pose proof (reverse_range_mode _ _ _ _ E2) as Ho2. rewrite Ho in Ho2.
      apply (IH _ _ _ Ho2 E). apply (reverse_range_J _ _ _ _ Ho E2 HJ).
Qed.

Lemma prefix_map_length {A} (g : A -> A) n (l : list A) : length (map g (firstn n l) ++ skipn n l) = length l.
Proof. rewrite app_length, map_length, <- app_length, firstn_skipn. reflexivity. Qed.

Lemma back_len c m (kept : list info) :
  length (match kept with
          | k :: _ => if c <? cluster k
                      then map (fun i => set_cluster i c m) (firstn (run_len (cluster k) kept) kept) ++ skipn (run_len (cluster k) kept) kept
                      else kept
          | [] => kept
          end) = length kept.
Proof. destruct kept as [|k kk]; [reflexivity|]. destruct (c <? cluster k); [apply prefix_map_length|reflexivity]. Qed.

Lemma dgi_length lvl flt fuel : forall kept l t,
  (length (fst (dgi_loop fuel lvl flt kept l t)) <= length kept + length l)%nat.
Proof.
  induction fuel as [|fuel IH]; intros kept l t; cbn [dgi_loop].
  - cbn [fst]. rewrite app_length, rev_length. lia.
  - destruct l as [|x l']; [cbn [fst length]; rewrite rev_length; lia|].
    destruct (flt x).
    + destruct l' as [|y l''].
      * eapply Nat.le_trans; [apply IH|]. rewrite back_len. cbn [length]. lia.
      * destruct (cluster y =? cluster x); [eapply Nat.le_trans; [apply IH|]; cbn [length]; lia|].
        destruct kept as [|k kk].
        -- destruct (lvl =? 2).
           ++ eapply Nat.le_trans; [apply IH|]. destruct (cluster x <? cluster y); cbn [length tl]; lia.
           ++ eapply Nat.le_trans; [apply IH|]. rewrite prefix_map_length. cbn [length]. lia.
        -- eapply Nat.le_trans; [apply IH|]. rewrite (back_len (cluster x) (mask x) (k :: kk)). cbn [length]. lia.
    + eapply Nat.le_trans; [apply IH|]. cbn [length]. lia.
Qed.

(* ---- the whole alphabet: the budget is an invariant of every operation sequence ---- *)

Ltac guards :=
  repeat match goal with
         | |- (if ?c then _ else _) = _ -> _ => let G := fresh "G" in destruct c eqn:G; [try discriminate|try discriminate]
         end.

Ltac viaJ lem :=
  match goal with
  | |- match ?x with Ok _ => _ | Error _ => _ end = _ -> _ =>
      let E := fresh "E" in let Heq := fresh "Heq" in
      destruct x eqn:E; [|discriminate]; intros Heq; inversion Heq; subst; eapply lem; eauto
  end.

Theorem step_J b o r b' : step b o = Ok (Some (r, b')) -> J b -> J b'.
Proof.
  destruct o; cbn [step]; guards.
  - viaJ next_glyph_J.
  - viaJ next_glyphs_J.
  - viaJ skip_glyph_J.
  - viaJ replace_glyph_J.
  - viaJ replace_glyphs_J.
  - viaJ output_glyph_J.
  - viaJ output_info_J.
  - viaJ copy_glyph_J.
  - viaJ delete_glyph_J.
  - destruct (move_to b i) as [[r0 b0]|] eqn:Em; [|discriminate]. intros Heq; inversion Heq; subst. eapply move_to_J; eauto.
  - viaJ merge_clusters_full_J.
  - viaJ merge_out_clusters_J.
  - viaJ set_glyph_flags_J.
  - unfold unsafe_to_concat. destruct (produce_concat b); [viaJ set_glyph_flags_J|intros Heq; inversion Heq; subst; auto].
  - viaJ set_glyph_flags_J.
  - unfold unsafe_to_concat_from_outbuffer. destruct (produce_concat b); [viaJ set_glyph_flags_J|intros Heq; inversion Heq; subst; auto].
  - intros Heq; inversion Heq; subst. apply clear_output_J. exact G.
  - destruct (sync b) as [[b0|]|] eqn:Es; try discriminate. intros Heq; inversion Heq; subst. eapply sync_J; eauto.
  - viaJ reverse_range_J.
  - viaJ reverse_range_J.
  - unfold reverse_groups. destruct (blen b =? 0)%nat; [intros Heq; inversion Heq; subst; auto|]. viaJ rg_loop_J.
  - intros Heq; inversion Heq; subst. apply of_arr_J; [exact G|rewrite map_length; reflexivity].
  - intros Heq; inversion Heq; subst. unfold set_masks. destruct (m =? 0); [auto|]. cbv zeta.
    destruct (_ && _)%bool; (apply of_arr_J; [exact G|rewrite map_length; reflexivity]).
  - unfold sort. viaJ sort_loop_J.
  - pose proof (dgi_length (level b) flt_odd (length (arr b)) [] (arr b) false) as Hd.
    unfold delete_glyphs_inplace in *. destruct (dgi_loop (length (arr b)) (level b) flt_odd [] (arr b) false) as [a touched].
    cbn [fst length] in Hd. intros Heq; inversion Heq; subst. intros HJ. eapply shape_J; [apply add_scratch_shape|].
    assert (HJ2 := of_arr_J_le b a G Hd HJ). exact HJ2.
Qed.

Theorem run_J ops : forall b b', run b ops = Ok (Some b') -> J b -> J b'.
Proof.
  induction ops as [|o t IH]; intros b b'; cbn [run]; [intros E HJ; inversion E; subst; exact HJ|].
  destruct (step b o) as [[[r b1]|]|] eqn:E; try discriminate.
  intros E2 HJ. eapply IH; [exact E2|eapply step_J; eauto].
Qed.

(* max_len never changes *)
Lemma J_init l lvl fl : N.of_nat (length l) * MAX_LEN_FACTOR <= USIZE_MAX -> J (init_buf l lvl fl).
Proof.
  intros H. unfold J, init_buf, enter_max_len. cbn.
  destruct (N.of_nat (length l) * MAX_LEN_FACTOR <=? USIZE_MAX) eqn:E; [|apply N.leb_gt in E; lia].
  unfold MAX_LEN_FACTOR in *. lia.
Qed.

(* after enter() on n characters the invariant holds, with max_len = max (64 n) 16384 *)
Lemma init_J_and_budget l lvl fl : N.of_nat (length l) * MAX_LEN_FACTOR <= USIZE_MAX ->
  J (init_buf l lvl fl) /\ max_len (init_buf l lvl fl) = N.max (N.of_nat (length l) * 64) 16384.
Proof.
  intros H. split; [apply J_init, H|].
  unfold init_buf, enter_max_len. cbn. destruct (N.of_nat (length l) * MAX_LEN_FACTOR <=? USIZE_MAX) eqn:E; [reflexivity|].
  apply N.leb_gt in E. lia.
Qed.

(* whatever sequence of buffer operations runs on a buffer of n characters, a completed (in-place)
   buffer holds at most max(64 n, 16384) glyphs *)
Lemma run_output_length l lvl fl ops b' :
  N.of_nat (length l) * MAX_LEN_FACTOR <= USIZE_MAX ->
  run (init_buf l lvl fl) ops = Ok (Some b') -> out_mode b' = false -> max_len b' = max_len (init_buf l lvl fl) ->
  N.of_nat (length (pre b' ++ rest b')) <= N.max (N.of_nat (length l) * 64) 16384.
Proof.
  intros H E Ho Hm. destruct (init_J_and_budget l lvl fl H) as [HJ Hmax].
  pose proof (run_J ops _ _ E HJ) as HJ'. unfold J in HJ'. rewrite Ho in HJ'. rewrite app_length, Hm, Hmax in *. exact HJ'.
Qed.
