(* Proofs/BufferEquivAllP.v — C15: EVERY operation of the buffer alphabet, and every finite sequence of
   operations, commutes with a strictly increasing relabelling of the cluster values.
   f : N -> N is strictly increasing; CS is the set of cluster values in play (C02's subset invariant keeps
   every buffer inside it) and both the values of CS and their relabellings fit a u32 — U32_MAX is the
   "no cluster yet" sentinel of the minimum scans.  Operation arguments that carry cluster values are
   relabelled with the buffer (`rl_op`): the cluster of an info handed to output_info and the bounds of a
   non-global set_masks range. *)
From Coq Require Import List NArith Bool Arith Lia.
From RB Require Import Base.Result Model.Buffer Model.BufferOps Proofs.BufferP Proofs.BufferEquivP.
Import ListNotations.
Local Open Scope N_scope.

Section EquivAll.
Variable f : N -> N.
Hypothesis f_mono : forall a b, a < b -> f a < f b.
Variable CS : list N.
Hypothesis H_S : forall c, In c CS -> c <= U32_MAX /\ f c <= U32_MAX.
Notation Inv := (Inv CS).
Notation AllIn := (AllIn CS).

Notation rl := (rl f).
Notation rll := (rll f).
Notation rlb := (rlb f).

Definition lift (r : result zbuf) : result zbuf := match r with Ok b' => Ok (rlb b') | Error e => Error e end.

Lemma lift_bind (r : result zbuf) (k k' : zbuf -> result zbuf) :
  (forall b1, k' (rlb b1) = lift (k b1)) ->
  (do b1 <- lift r; k' b1) = lift (do b1 <- r; k b1).
Proof. intros H. destruct r as [b1|e]; cbn [lift bind]; [apply H|reflexivity]. Qed.

Lemma rlb_fields b : out_mode (rlb b) = out_mode b /\ level (rlb b) = level b /\ dead (rlb b) = dead b /\
  bflags (rlb b) = bflags b /\ ok (rlb b) = ok b /\ max_len (rlb b) = max_len b /\ scratch (rlb b) = scratch b /\
  pre (rlb b) = rll (pre b) /\ rest (rlb b) = rll (rest b).
Proof. repeat split. Qed.

Lemma blen_rlb b : blen (rlb b) = blen b.
Proof. unfold blen. cbn [rlb dead rest with_pr]. rewrite rll_length. reflexivity. Qed.

Lemma arr_rlb b : arr (rlb b) = rll (arr b).
Proof. unfold arr. cbn [rlb pre rest with_pr]. rewrite rll_app. reflexivity. Qed.

Lemma rlb_of_arr b a : rlb (of_arr b a) = of_arr (rlb b) (rll a).
Proof. unfold of_arr. rewrite rlb_with_pr. cbn [rlb dead with_pr]. rewrite rll_firstn, rll_skipn. reflexivity. Qed.

Lemma rlb_with_scratch b s : rlb (with_scratch b s) = with_scratch (rlb b) s.
Proof. reflexivity. Qed.

Lemma rlb_add_scratch b a : rlb (add_scratch b a) = add_scratch (rlb b) a.
Proof. unfold add_scratch. destruct a; reflexivity. Qed.

(* ---- next_glyphs ---- *)
Lemma next_glyphs_equiv b n : next_glyphs (rlb b) n = lift (next_glyphs b n).
Proof.
  unfold next_glyphs. rewrite (make_room_rlb f). cbn [BufferEquivP.rlb rest pre dead out_mode with_pr]. rewrite rll_length.
  destruct (length (rest b) <? n)%nat; [reflexivity|].
  destruct (out_mode b).
  - destruct (make_room_for b n) as [okk b1]. cbn [fst snd]. destruct okk; [|reflexivity].
    cbn [lift]. rewrite rlb_with_pr, rll_app, rll_firstn, rll_skipn. reflexivity.
  - cbn [lift]. rewrite rlb_with_pr, rll_app, rll_firstn, rll_skipn. reflexivity.
Qed.

(* ---- glyph flags ---- *)
Lemma cluster_rl x : cluster (rl x) = f (cluster x).
Proof. reflexivity. Qed.

Lemma find_min_cluster_equiv lvl l s e init :
  find_min_cluster lvl (rll l) s e (f init) =
  match find_min_cluster lvl l s e init with Ok c => Ok (f c) | Error er => Error er end.
Proof.
  unfold find_min_cluster. destruct (s =? e)%nat; [reflexivity|]. rewrite !rll_nth.
  destruct (nth_error l s) as [first|]; cbn [option_map]; [|reflexivity].
  destruct (nth_error l (e - 1)) as [last|]; cbn [option_map]; [|reflexivity].
  rewrite !cluster_rl, <- rll_slice, <- (rl_min f f_mono).
  destruct (lvl =? 1); rewrite !(f_min f f_mono); reflexivity.
Qed.

Lemma mcl_min l : forall a b, min_cluster_list l (N.min a b) = N.min a (min_cluster_list l b).
Proof.
  unfold min_cluster_list. induction l as [|y l IH]; intros a b; cbn [fold_left]; [reflexivity|].
  rewrite <- N.min_assoc. apply IH.
Qed.

(* with the sentinel as initial value and a non-empty range whose first glyph is in S *)
Lemma fmc_top_equiv lvl l s e : AllIn l -> (s =? e)%nat = false ->
  find_min_cluster lvl (rll l) s e U32_MAX =
  match find_min_cluster lvl l s e U32_MAX with Ok c => Ok (f c) | Error er => Error er end.
Proof.
  intros HA Hse. unfold find_min_cluster. rewrite Hse, !rll_nth.
  destruct (nth_error l s) as [first|] eqn:E1; cbn [option_map]; [|reflexivity].
  destruct (nth_error l (e - 1)) as [last|]; cbn [option_map]; [|reflexivity].
  rewrite !cluster_rl, <- rll_slice.
  destruct (H_S (cluster first) (AllIn_nth CS l s first HA E1)) as [B1 B2].
  f_equal. destruct (lvl =? 1).
  - rewrite !N.min_assoc.
    rewrite (N.min_comm (min_cluster_list _ U32_MAX) (f (cluster first))), <- mcl_min, (N.min_l _ _ B2).
    rewrite (N.min_comm (min_cluster_list _ U32_MAX) (cluster first)), <- mcl_min, (N.min_l _ _ B1).
    rewrite (f_min f f_mono), (rl_min f f_mono). reflexivity.
  - rewrite !N.min_assoc, (N.min_r _ _ B2), (N.min_r _ _ B1), (f_min f f_mono). reflexivity.
Qed.

Lemma infos_empty lvl l s c m : infos_set_glyph_flags lvl l s s c m = Ok (l, false).
Proof. unfold infos_set_glyph_flags. rewrite Nat.eqb_refl. reflexivity. Qed.

Lemma fmc_empty lvl l s init : find_min_cluster lvl l s s init = Ok init.
Proof. unfold find_min_cluster. rewrite Nat.eqb_refl. reflexivity. Qed.

Lemma flag_while_equiv c stop m : forall l,
  flag_while_ne_fwd (f c) (f stop) m (rll l) = (rll (fst (flag_while_ne_fwd c stop m l)), snd (flag_while_ne_fwd c stop m l)).
Proof.
  induction l as [|x t IH]; [rewrite rll_nil; reflexivity|].
  rewrite rll_cons. cbn [flag_while_ne_fwd]. rewrite cluster_rl, !(f_eqb f f_mono).
  destruct (cluster x =? stop); [cbn [fst snd]; rewrite rll_cons; reflexivity|].
  rewrite IH. destruct (flag_while_ne_fwd c stop m t) as [t' a]. cbn [fst snd].
  destruct (cluster x =? c); cbn [fst snd]; rewrite rll_cons, ?rl_or_mask; reflexivity.
Qed.

Lemma flag_all_equiv c m l :
  flag_all_ne (f c) m (rll l) = (rll (fst (flag_all_ne c m l)), snd (flag_all_ne c m l)).
Proof.
  unfold flag_all_ne. cbn [fst snd]. f_equal.
  - Transparent BufferEquivP.rll. unfold BufferEquivP.rll. rewrite !map_map. apply map_ext. intros x.
    rewrite cluster_rl, (f_eqb f f_mono). destruct (cluster x =? c); [reflexivity|symmetry; apply rl_or_mask].
  - unfold BufferEquivP.rll. induction l as [|x t IH]; [reflexivity|]. cbn [map existsb]. rewrite cluster_rl, (f_eqb f f_mono), IH. reflexivity.
Qed.
Opaque BufferEquivP.rll.

Lemma infos_set_glyph_flags_equiv lvl l s e c m :
  infos_set_glyph_flags lvl (rll l) s e (f c) m =
  match infos_set_glyph_flags lvl l s e c m with Ok r => Ok (rll (fst r), snd r) | Error er => Error er end.
Proof.
  unfold infos_set_glyph_flags. destruct (s =? e)%nat; [reflexivity|]. rewrite !rll_nth.
  destruct (nth_error l s) as [first|]; cbn [option_map]; [|reflexivity].
  destruct (nth_error l (e - 1)) as [last|]; cbn [option_map]; [|reflexivity].
  rewrite !cluster_rl, !(f_eqb f f_mono), <- rll_firstn, <- rll_slice, <- rll_skipn.
  destruct ((lvl =? 2) || negb (c =? cluster first) && negb (c =? cluster last))%bool.
  - rewrite flag_all_equiv. destruct (flag_all_ne c m (slice l s e)) as [mid' ap]. cbn [fst snd]. rewrite !rll_app. reflexivity.
  - destruct (c =? cluster first).
    + rewrite <- rll_rev, flag_while_equiv. destruct (flag_while_ne_fwd c (cluster first) m (rev (slice l s e))) as [r ap].
      cbn [fst snd]. rewrite !rll_app, rll_rev. reflexivity.
    + rewrite flag_while_equiv. destruct (flag_while_ne_fwd c (cluster last) m (slice l s e)) as [r ap].
      cbn [fst snd]. rewrite !rll_app. reflexivity.
Qed.

Lemma rll_map_or_mask m s e l : map_range (or_mask m) s e (rll l) = rll (map_range (or_mask m) s e l).
Proof. symmetry. apply rll_map_range. intros x. apply rl_or_mask. Qed.

Lemma set_glyph_flags_equiv b m s e i fo : Inv b -> set_glyph_flags (rlb b) m s e i fo = lift (set_glyph_flags b m s e i fo).
Proof.
  intros [HP HR]. unfold set_glyph_flags. rewrite blen_rlb.
  set (s0 := match s with Some x => x | None => O end).
  set (e0 := Nat.min (match e with Some x => x | None => blen b end) (blen b)).
  cbn [BufferEquivP.rlb out_mode scratch with_pr with_scratch pre rest dead level].
  destruct ((e0 <? s0)%nat && i && negb fo)%bool; [reflexivity|].
  destruct ((e0 <? s0)%nat && negb i && negb fo)%bool; [reflexivity|].
  destruct ((e0 <? s0)%nat && negb (out_mode b) && negb i)%bool; [reflexivity|].
  destruct ((e0 <? s0)%nat && negb (out_mode b))%bool; [reflexivity|].
  destruct (i && negb fo && (e0 - s0 <? 2)%nat)%bool; [reflexivity|].
  rewrite !rll_length.
  destruct (negb fo || negb (out_mode b))%bool.
  - destruct (out_mode b).
    + destruct (s0 <? dead b)%nat; [reflexivity|]. destruct (negb i).
      * cbn [lift]. rewrite rll_map_or_mask. reflexivity.
      * destruct (s0 - dead b =? e0 - dead b)%nat eqn:Ese.
        -- apply Nat.eqb_eq in Ese. rewrite Ese, !fmc_empty. cbn [bind]. rewrite !infos_empty. cbn [bind lift fst snd]. reflexivity.
        -- rewrite (fmc_top_equiv _ _ _ _ HR Ese).
           destruct (find_min_cluster (level b) (rest b) (s0 - dead b) (e0 - dead b) U32_MAX) as [c|]; cbn [bind lift]; [|reflexivity].
           rewrite infos_set_glyph_flags_equiv.
           destruct (infos_set_glyph_flags (level b) (rest b) (s0 - dead b) (e0 - dead b) c m) as [[r a]|]; cbn [bind lift fst snd]; [|reflexivity].
           rewrite rlb_add_scratch. reflexivity.
    + rewrite <- rll_app. destruct (negb i).
      * cbn [lift]. rewrite rll_map_or_mask, <- rll_firstn, <- rll_skipn. reflexivity.
      * destruct (s0 =? e0)%nat eqn:Ese.
        -- apply Nat.eqb_eq in Ese. rewrite Ese, !fmc_empty. cbn [bind]. rewrite !infos_empty. cbn [bind lift fst snd].
           rewrite <- rll_firstn, <- rll_skipn. reflexivity.
        -- rewrite (fmc_top_equiv _ _ _ _ (AllIn_app CS _ _ HP HR) Ese).
           destruct (find_min_cluster (level b) (pre b ++ rest b) s0 e0 U32_MAX) as [c|]; cbn [bind lift]; [|reflexivity].
           rewrite infos_set_glyph_flags_equiv.
           destruct (infos_set_glyph_flags (level b) (pre b ++ rest b) s0 e0 c m) as [[r a]|]; cbn [bind lift fst snd]; [|reflexivity].
           rewrite rlb_add_scratch, <- rll_firstn, <- rll_skipn. reflexivity.
  - destruct (length (pre b) <? s0)%nat; [reflexivity|]. destruct (e0 <? dead b)%nat; [reflexivity|].
    destruct (negb i).
    + cbn [lift]. rewrite !rll_map_or_mask. reflexivity.
    + destruct (0 =? e0 - dead b)%nat eqn:Ee.
      * apply Nat.eqb_eq in Ee. rewrite <- Ee, !fmc_empty. cbn [bind].
        destruct (s0 =? length (pre b))%nat eqn:Es.
        -- apply Nat.eqb_eq in Es. rewrite Es, !fmc_empty. cbn [bind]. rewrite !infos_empty. cbn [bind lift fst snd]. reflexivity.
        -- rewrite (fmc_top_equiv _ _ _ _ HP Es).
           destruct (find_min_cluster (level b) (pre b) s0 (length (pre b)) U32_MAX) as [c|]; cbn [bind lift]; [|reflexivity].
           rewrite infos_set_glyph_flags_equiv.
           destruct (infos_set_glyph_flags (level b) (pre b) s0 (length (pre b)) c m) as [[r1 a1]|]; cbn [bind lift fst snd]; [|reflexivity].
           rewrite !infos_empty. cbn [bind lift fst snd]. rewrite !rlb_add_scratch. reflexivity.
      * rewrite (fmc_top_equiv _ _ _ _ HR Ee).
        destruct (find_min_cluster (level b) (rest b) 0 (e0 - dead b) U32_MAX) as [c1|]; cbn [bind lift]; [|reflexivity].
        rewrite find_min_cluster_equiv.
        destruct (find_min_cluster (level b) (pre b) s0 (length (pre b)) c1) as [c|]; cbn [bind lift]; [|reflexivity].
        rewrite !infos_set_glyph_flags_equiv.
        destruct (infos_set_glyph_flags (level b) (pre b) s0 (length (pre b)) c m) as [[r1 a1]|]; cbn [bind lift fst snd]; [|reflexivity].
        destruct (infos_set_glyph_flags (level b) (rest b) 0 (e0 - dead b) c m) as [[r2 a2]|]; cbn [bind lift fst snd]; [|reflexivity].
        rewrite !rlb_add_scratch. reflexivity.
Qed.

Lemma unsafe_to_break_equiv b s e : Inv b -> unsafe_to_break (rlb b) s e = lift (unsafe_to_break b s e).
Proof. apply set_glyph_flags_equiv. Qed.
Lemma unsafe_to_break_out_equiv b s e : Inv b -> unsafe_to_break_from_outbuffer (rlb b) s e = lift (unsafe_to_break_from_outbuffer b s e).
Proof. apply set_glyph_flags_equiv. Qed.
Lemma unsafe_to_concat_equiv b s e : Inv b -> unsafe_to_concat (rlb b) s e = lift (unsafe_to_concat b s e).
Proof. intros HI. unfold unsafe_to_concat, produce_concat. cbn [BufferEquivP.rlb bflags with_pr]. destruct (negb _); [apply set_glyph_flags_equiv; exact HI|reflexivity]. Qed.
Lemma unsafe_to_concat_out_equiv b s e : Inv b -> unsafe_to_concat_from_outbuffer (rlb b) s e = lift (unsafe_to_concat_from_outbuffer b s e).
Proof. intros HI. unfold unsafe_to_concat_from_outbuffer, produce_concat. cbn [BufferEquivP.rlb bflags with_pr]. destruct (negb _); [apply set_glyph_flags_equiv; exact HI|reflexivity]. Qed.

Lemma merge_clusters_full_equiv b s e : Inv b -> merge_clusters_full (rlb b) s e = lift (merge_clusters_full b s e).
Proof.
  intros HI. unfold merge_clusters_full. cbn [BufferEquivP.rlb level with_pr]. destruct (e - s <? 2)%nat; [reflexivity|].
  destruct (level b =? 2); [apply unsafe_to_break_equiv; exact HI|apply (merge_clusters_equiv f f_mono)].
Qed.

(* ---- remaining streaming operations ---- *)
Lemma skip_glyph_lift b : skip_glyph (rlb b) = lift (skip_glyph b).
Proof. apply skip_glyph_equiv. Qed.

Lemma replace_glyphs_equiv b n gs : Inv b -> replace_glyphs (rlb b) n gs = lift (replace_glyphs b n gs).
Proof.
  intros HI. unfold replace_glyphs. rewrite (make_room_rlb f). destruct (make_room_for b (length gs)) as [okk b1]. cbn [fst snd].
  destruct (negb okk); [reflexivity|]. cbn [BufferEquivP.rlb rest dead with_pr]. rewrite rll_length.
  destruct (length (rest b) <? n)%nat; [reflexivity|].
  change (with_pr b (rll (pre b)) (rll (rest b)) (dead b)) with (rlb b).
  rewrite (merge_clusters_full_equiv _ _ _ HI).
  destruct (merge_clusters_full b (dead b) (dead b + n)) as [b2|]; cbn [bind lift]; [|reflexivity].
  cbn [BufferEquivP.rlb rest pre dead with_pr]. destruct (rest b2) as [|orig t]; [rewrite rll_nil; reflexivity|].
  rewrite rll_cons. cbn [lift]. rewrite rlb_with_pr, rll_app, <- rll_cons, rll_skipn. f_equal. f_equal. f_equal.
  Transparent BufferEquivP.rll. unfold BufferEquivP.rll. rewrite map_map. apply map_ext. intros g. symmetry. apply rl_set_gid. Opaque BufferEquivP.rll.
Qed.

Lemma output_info_equiv b i : output_info (rlb b) (rl i) = lift (output_info b i).
Proof.
  unfold output_info. rewrite (make_room_rlb f). destruct (make_room_for b 1) as [okk b1]. cbn [fst snd].
  destruct (negb okk); [reflexivity|]. cbn [lift BufferEquivP.rlb pre rest dead with_pr]. rewrite rlb_with_pr, rll_app. reflexivity.
Qed.

Lemma last_cluster_rll l : last_cluster (rll l) = option_map f (last_cluster l).
Proof.
  unfold last_cluster. rewrite <- rll_rev. destruct (rev l) as [|x t]; [rewrite rll_nil; reflexivity|]. rewrite rll_cons. reflexivity.
Qed.

Lemma delete_glyph_equiv b : Inv b -> delete_glyph (rlb b) = lift (delete_glyph b).
Proof.
  intros HI. unfold delete_glyph. cbn [BufferEquivP.rlb rest pre dead out_mode with_pr].
  destruct (rest b) as [|x t] eqn:Er; [rewrite rll_nil; reflexivity|]. rewrite rll_cons, cluster_rl.
  rewrite last_cluster_rll, rll_length.
  assert (Hn : match rll t with y :: _ => cluster y =? f (cluster x) | [] => false end =
               match t with y :: _ => cluster y =? cluster x | [] => false end).
  { destruct t as [|y t']; [rewrite rll_nil; reflexivity|]. rewrite rll_cons, cluster_rl. apply (f_eqb f f_mono). }
  rewrite Hn.
  assert (Hp : match option_map f (last_cluster (pre b)) with Some pc => (0 <? length (pre b))%nat && (pc =? f (cluster x)) | None => false end =
               match last_cluster (pre b) with Some pc => (0 <? length (pre b))%nat && (pc =? cluster x) | None => false end).
  { destruct (last_cluster (pre b)) as [pc|]; cbn [option_map]; [rewrite (f_eqb f f_mono)|]; reflexivity. }
  rewrite Hp.
  change (with_pr b (rll (pre b)) (rl x :: rll t) (dead b)) with (with_pr b (rll (pre b)) (rll (x :: t)) (dead b)).
  rewrite <- Er.
  change (with_pr b (rll (pre b)) (rll (rest b)) (dead b)) with (rlb b).
  destruct (_ || _)%bool; [apply skip_glyph_lift|].
  destruct (out_mode b && (0 <? length (pre b))%nat)%bool.
  - destruct (last_cluster (pre b)) as [old|]; cbn [option_map]; [|reflexivity].
    rewrite (f_ltb f f_mono).
    match goal with |- skip_glyph ?A = lift (skip_glyph ?B) => replace A with (rlb B); [apply skip_glyph_lift|] end.
    rewrite rlb_with_pr, Er, rll_cons. f_equal.
    destruct (cluster x <? old); [|reflexivity].
    apply (rll_map_suffix_run f f_mono). intros y. apply (rl_set_cluster f f_mono).
  - destruct t as [|y t']; [rewrite rll_nil|rewrite rll_cons].
    + apply skip_glyph_lift.
    + rewrite (merge_clusters_full_equiv _ _ _ HI).
      destruct (merge_clusters_full b (dead b) (dead b + 2)) as [b1|]; cbn [bind lift]; [apply skip_glyph_lift|reflexivity].
Qed.

Definition lift2 (r : result (bool * zbuf)) : result (bool * zbuf) :=
  match r with Ok (x, b') => Ok (x, rlb b') | Error e => Error e end.

Lemma move_to_equiv b i : move_to (rlb b) i = lift2 (move_to b i).
Proof.
  unfold move_to. rewrite blen_rlb. cbn [BufferEquivP.rlb out_mode ok pre rest dead with_pr]. rewrite !rll_length.
  destruct (negb (out_mode b)).
  - destruct (blen b <? i)%nat; [reflexivity|]. cbn [lift2]. rewrite rlb_with_pr, <- rll_app, rll_firstn, rll_skipn. reflexivity.
  - destruct (negb (ok b)); [reflexivity|].
    destruct (length (pre b) + length (rest b) <? i)%nat; [reflexivity|].
    change (with_pr b (rll (pre b)) (rll (rest b)) (dead b)) with (rlb b).
    destruct (length (pre b) <? i)%nat.
    + rewrite (make_room_rlb f). destruct (make_room_for b (i - length (pre b))) as [okk b1]. cbn [fst snd].
      destruct (negb okk); [reflexivity|]. cbn [lift2]. rewrite rlb_with_pr, rll_app, rll_firstn, rll_skipn. reflexivity.
    + destruct (i <? length (pre b))%nat; [|reflexivity].
      destruct (dead b <? length (pre b) - i)%nat.
      * rewrite (ensure_rlb f). destruct (ensure b (blen b + (length (pre b) - i - dead b))) as [okk b1]. cbn [fst snd].
        destruct (negb okk); [reflexivity|]. cbn [lift2]. rewrite rlb_with_pr, rll_firstn, rll_app, rll_skipn. reflexivity.
      * cbn [lift2]. rewrite rlb_with_pr, rll_firstn, rll_app, rll_skipn. reflexivity.
Qed.

Lemma merge_out_clusters_equiv b s e : merge_out_clusters (rlb b) s e = lift (merge_out_clusters b s e).
Proof.
  unfold merge_out_clusters. cbn [BufferEquivP.rlb level pre rest dead with_pr].
  destruct (level b =? 2); [reflexivity|]. destruct (e - s <? 2)%nat; [reflexivity|]. rewrite !rll_nth.
  destruct (nth_error (pre b) s) as [first|]; cbn [option_map]; [|reflexivity].
  destruct (nth_error (pre b) (e - 1)) as [last|]; cbn [option_map]; [|reflexivity].
  rewrite !cluster_rl, <- rll_slice, <- (rl_min f f_mono), <- rll_firstn, <- rll_rev, <- !rll_skipn, !(rl_run_len f f_mono), rll_length.
  cbn [lift]. rewrite rlb_with_pr. f_equal. f_equal.
  - symmetry. apply rll_map_range. intros x. apply (rl_set_cluster f f_mono).
  - destruct (_ =? _)%nat; [|reflexivity]. rewrite rll_app, rll_skipn. f_equal.
    rewrite <- rll_firstn.
    Transparent BufferEquivP.rll. unfold BufferEquivP.rll. rewrite !map_map. apply map_ext. intros x. symmetry. apply (rl_set_cluster f f_mono). Opaque BufferEquivP.rll.
Qed.

Lemma clear_output_equiv b : clear_output (rlb b) = rlb (clear_output b).
Proof.
  unfold clear_output. cbn [BufferEquivP.rlb out_mode pre rest with_pr level bflags ok max_len scratch].
  destruct (out_mode b); unfold BufferEquivP.rlb, with_pr; cbn; rewrite ?rll_app, ?rll_nil; reflexivity.
Qed.

Definition lift_opt (r : result (option zbuf)) : result (option zbuf) :=
  match r with Ok (Some b') => Ok (Some (rlb b')) | Ok None => Ok None | Error e => Error e end.

Lemma sync_equiv b : sync (rlb b) = lift_opt (sync b).
Proof.
  unfold sync. cbn [BufferEquivP.rlb out_mode ok rest with_pr level bflags max_len]. rewrite rll_length.
  destruct (negb (out_mode b)); [reflexivity|]. destruct (negb (ok b)); [reflexivity|].
  change (with_pr b (rll (pre b)) (rll (rest b)) (dead b)) with (rlb b).
  rewrite next_glyphs_equiv. destruct (next_glyphs b (length (rest b))) as [b1|]; cbn [bind lift lift_opt]; [|reflexivity].
  cbn [BufferEquivP.rlb ok with_pr pre scratch]. destruct (negb (ok b1)); [reflexivity|].
  cbn [lift_opt]. unfold BufferEquivP.rlb, with_pr. cbn. rewrite rll_nil. reflexivity.
Qed.

(* ---- in-place operations ---- *)
Lemma reverse_range_equiv b s e : reverse_range (rlb b) s e = lift (reverse_range b s e).
Proof.
  unfold reverse_range. rewrite arr_rlb, rll_length. destruct (e - s <? 2)%nat; [reflexivity|].
  destruct (length (arr b) <? e)%nat; [reflexivity|]. cbn [lift].
  rewrite rlb_of_arr, !rll_app, rll_firstn, rll_rev, rll_slice, rll_skipn. reflexivity.
Qed.

Lemma reverse_equiv b : reverse (rlb b) = lift (reverse b).
Proof. unfold reverse. rewrite blen_rlb. apply reverse_range_equiv. Qed.

Lemma rl_set_mask x m : rl (set_mask x m) = set_mask (rl x) m.
Proof. reflexivity. Qed.

Lemma reset_masks_equiv b m : reset_masks (rlb b) m = rlb (reset_masks b m).
Proof.
  unfold reset_masks. rewrite arr_rlb, rlb_of_arr. f_equal.
  Transparent BufferEquivP.rll. unfold BufferEquivP.rll. rewrite !map_map. reflexivity. Opaque BufferEquivP.rll.
Qed.

(* a range is relabelled unless it is the global one *)
Definition rl_range (cs ce : N) : N * N := if ((cs =? 0) && (ce =? U32_MAX))%bool then (cs, ce) else (f cs, f ce).

Lemma f_zero_only x : f x = 0 -> x = 0.
Proof.
  intros H. destruct (N.eq_dec x 0) as [E|E]; [exact E|]. assert (L : 0 < x) by lia. apply f_mono in L. lia.
Qed.

(* a non-global range must stay non-global after relabelling: its end is not sent to the sentinel *)
Definition range_ok (cs ce : N) : Prop := ((cs =? 0) && (ce =? U32_MAX))%bool = true \/ f ce <> U32_MAX.

Lemma set_masks_equiv_all b v m cs ce : range_ok cs ce ->
  set_masks (rlb b) v m (fst (rl_range cs ce)) (snd (rl_range cs ce)) = rlb (set_masks b v m cs ce).
Proof.
  intros Hok. unfold rl_range, set_masks. destruct (m =? 0) eqn:Em; [destruct ((cs =? 0) && (ce =? U32_MAX))%bool; reflexivity|].
  destruct ((cs =? 0) && (ce =? U32_MAX))%bool eqn:Eg; cbn [fst snd].
  - rewrite Eg. rewrite arr_rlb, rlb_of_arr. f_equal.
    Transparent BufferEquivP.rll. unfold BufferEquivP.rll. rewrite !map_map. reflexivity. Opaque BufferEquivP.rll.
  - assert (Eg' : ((f cs =? 0) && (f ce =? U32_MAX))%bool = false).
    { destruct Hok as [H|H]; [rewrite H in Eg; discriminate|]. apply andb_false_iff. right. apply N.eqb_neq. exact H. }
    rewrite Eg'. rewrite arr_rlb, rlb_of_arr. f_equal.
    Transparent BufferEquivP.rll. unfold BufferEquivP.rll. rewrite !map_map. apply map_ext. intros x.
    rewrite cluster_rl, (f_leb f f_mono), (f_ltb f f_mono).
    destruct ((cs <=? cluster x) && (cluster x <? ce))%bool; reflexivity. Opaque BufferEquivP.rll.
Qed.

(* sort with a comparison that does not look at clusters *)
Section Sort.
Variable cmp : info -> info -> bool.
Hypothesis cmp_rl : forall x y, cmp (rl x) (rl y) = cmp x y.

Lemma find_j_equiv a x start : forall j, find_j cmp (rll a) (rl x) start j = find_j cmp a x start j.
Proof.
  induction j as [|j IH]; cbn [find_j]; [reflexivity|]. destruct (start <? S j)%nat; [|reflexivity].
  rewrite rll_nth. destruct (nth_error a j) as [y|]; cbn [option_map]; [|reflexivity].
  rewrite cmp_rl, IH. reflexivity.
Qed.

Lemma move_elem_equiv a i j : move_elem (rll a) i j = rll (move_elem a i j).
Proof.
  unfold move_elem. rewrite rll_nth. destruct (nth_error a i) as [t|]; cbn [option_map]; [|reflexivity].
  rewrite !rll_app, rll_firstn, rll_slice, rll_skipn, rll_cons, rll_nil. reflexivity.
Qed.

Lemma sort_loop_equiv start is : forall b, Inv b -> sort_loop cmp (rlb b) start is = lift (sort_loop cmp b start is).
Proof.
  induction is as [|i t IH]; intros b HI; cbn [sort_loop]; [reflexivity|].
  rewrite arr_rlb, rll_nth. destruct (nth_error (arr b) i) as [x|]; cbn [option_map]; [|reflexivity].
  rewrite find_j_equiv. destruct (i =? find_j cmp (arr b) x start i)%nat; [apply IH; exact HI|].
  rewrite (merge_clusters_full_equiv _ _ _ HI).
  destruct (merge_clusters_full b (find_j cmp (arr b) x start i) (S i)) as [b1|] eqn:Em; cbn [bind lift]; [|reflexivity].
  rewrite arr_rlb, move_elem_equiv, <- rlb_of_arr. apply IH.
  apply Inv_of_arr, move_elem_ok, Inv_arr. eapply merge_clusters_full_ok; eauto.
Qed.

Lemma sort_equiv b s e : Inv b -> sort cmp (rlb b) s e = lift (sort cmp b s e).
Proof. apply sort_loop_equiv. Qed.
End Sort.

(* reverse_groups with a grouping function that does not look at clusters *)
Section Groups.
Variable grp : info -> info -> bool.
Hypothesis grp_rl : forall x y, grp (rl x) (rl y) = grp x y.

Lemma rg_loop_equiv merge is : forall b start, Inv b -> rg_loop grp merge (rlb b) start is = lift (rg_loop grp merge b start is).
Proof.
  induction is as [|i t IH]; intros b start HI; cbn [rg_loop].
  - rewrite blen_rlb.
    assert (H1 : (if merge then merge_clusters_full (rlb b) start (blen b) else Ok (rlb b)) = lift (if merge then merge_clusters_full b start (blen b) else Ok b)).
    { destruct merge; [apply merge_clusters_full_equiv; exact HI|reflexivity]. }
    rewrite H1. destruct (if merge then merge_clusters_full b start (blen b) else Ok b) as [b1|]; cbn [bind lift]; [|reflexivity].
    rewrite blen_rlb, reverse_range_equiv. destruct (reverse_range b1 start (blen b1)) as [b2|]; cbn [bind lift]; [|reflexivity].
    apply reverse_equiv.
  - rewrite arr_rlb, !rll_nth.
    destruct (nth_error (arr b) (i - 1)) as [x|]; cbn [option_map]; [|reflexivity].
    destruct (nth_error (arr b) i) as [y|]; cbn [option_map]; [|reflexivity].
    rewrite grp_rl. destruct (grp x y); [apply IH; exact HI|].
    assert (H1 : (if merge then merge_clusters_full (rlb b) start i else Ok (rlb b)) = lift (if merge then merge_clusters_full b start i else Ok b)).
    { destruct merge; [apply merge_clusters_full_equiv; exact HI|reflexivity]. }
    rewrite H1. destruct (if merge then merge_clusters_full b start i else Ok b) as [b1|] eqn:Em; cbn [bind lift]; [|reflexivity].
    assert (HI1 : Inv b1).
    { destruct merge; [eapply merge_clusters_full_ok; eauto|inversion Em; subst; exact HI]. }
    rewrite reverse_range_equiv. destruct (reverse_range b1 start i) as [b2|] eqn:Er; cbn [bind lift]; [|reflexivity].
    apply IH. eapply reverse_range_ok; eauto.
Qed.

Lemma reverse_groups_equiv merge b : Inv b -> reverse_groups grp merge (rlb b) = lift (reverse_groups grp merge b).
Proof. intros HI. unfold reverse_groups. rewrite blen_rlb. destruct (blen b =? 0)%nat; [reflexivity|apply rg_loop_equiv; exact HI]. Qed.
End Groups.

(* delete_glyphs_inplace with a filter that does not look at clusters *)
Section Delete.
Variable flt : info -> bool.
Hypothesis flt_rl : forall x, flt (rl x) = flt x.

Definition backf (c mx : N) (kept_rev : list info) : list info :=
  match kept_rev with
  | k :: _ => if c <? cluster k
              then (let n := run_len (cluster k) kept_rev in
                    map (fun i => set_cluster i c mx) (firstn n kept_rev) ++ skipn n kept_rev)
              else kept_rev
  | [] => kept_rev
  end.

Lemma rll_map_set_cluster c m l : map (fun i => set_cluster i (f c) m) (rll l) = rll (map (fun i => set_cluster i c m) l).
Proof.
  Transparent BufferEquivP.rll. unfold BufferEquivP.rll. rewrite !map_map. apply map_ext. intros x. symmetry. apply (rl_set_cluster f f_mono). Opaque BufferEquivP.rll.
Qed.

Lemma backf_equiv c mx kept : backf (f c) mx (rll kept) = rll (backf c mx kept).
Proof.
  unfold backf. destruct kept as [|k kr]; [rewrite rll_nil; reflexivity|]. rewrite rll_cons, cluster_rl, (f_ltb f f_mono).
  destruct (c <? cluster k); [|rewrite rll_cons; reflexivity].
  cbv zeta. rewrite <- rll_cons, (rl_run_len f f_mono), <- rll_firstn, <- rll_skipn, rll_map_set_cluster, <- rll_app. reflexivity.
Qed.

Lemma dgi_unfold fuel lvl kept x tl t :
  dgi_loop (S fuel) lvl flt kept (x :: tl) t =
  if flt x then
    match tl with
    | y :: _ =>
        if cluster y =? cluster x then dgi_loop fuel lvl flt kept tl t
        else match kept with
             | _ :: _ => dgi_loop fuel lvl flt (backf (cluster x) (mask x) kept) tl t
             | [] =>
               if lvl =? 2 then
                 dgi_loop fuel lvl flt kept (if cluster x <? cluster y then or_mask BREAK_CONCAT y :: List.tl tl else tl) true
               else
                 let cm := N.min (cluster x) (cluster y) in
                 let n := if cm =? cluster y then 1%nat else S (run_len (cluster y) (List.tl tl)) in
                 dgi_loop fuel lvl flt kept (map (fun i => set_cluster i cm 0) (firstn n tl) ++ skipn n tl) t
             end
    | [] => dgi_loop fuel lvl flt (backf (cluster x) (mask x) kept) tl t
    end
  else dgi_loop fuel lvl flt (x :: kept) tl t.
Proof. reflexivity. Qed.

Lemma dgi_equiv lvl : forall fuel kept l t,
  dgi_loop fuel lvl flt (rll kept) (rll l) t =
  (rll (fst (dgi_loop fuel lvl flt kept l t)), snd (dgi_loop fuel lvl flt kept l t)).
Proof.
  induction fuel as [|fuel IH]; intros kept l t.
  - cbn [dgi_loop fst snd]. rewrite rll_app, rll_rev. reflexivity.
  - destruct l as [|x tl]; [cbn [dgi_loop fst snd]; rewrite rll_nil, rll_rev; reflexivity|].
    rewrite rll_cons, !dgi_unfold, flt_rl, cluster_rl. cbn [mask BufferEquivP.rl].
    destruct (flt x); [|rewrite <- rll_cons; apply IH].
    destruct tl as [|y tl'].
    + rewrite rll_nil, backf_equiv. exact (IH _ [] t).
    + rewrite rll_cons, cluster_rl, (f_eqb f f_mono). destruct (cluster y =? cluster x); [rewrite <- rll_cons; apply IH|].
      destruct kept as [|k kr].
      * rewrite rll_nil. destruct (lvl =? 2).
        -- rewrite (f_ltb f f_mono). cbn [List.tl].
           destruct (cluster x <? cluster y); [rewrite <- rl_or_mask, <- rll_cons|rewrite <- rll_cons]; exact (IH [] _ true).
        -- cbv zeta. rewrite <- (f_min f f_mono), (f_eqb f f_mono). cbn [List.tl]. rewrite (rl_run_len f f_mono).
           rewrite <- rll_cons, <- rll_firstn, <- rll_skipn, rll_map_set_cluster, <- rll_app. exact (IH [] _ t).
      * rewrite rll_cons. rewrite <- (rll_cons f k kr), backf_equiv, <- rll_cons. apply IH.
Qed.

Lemma delete_glyphs_inplace_equiv lvl l :
  delete_glyphs_inplace lvl flt (rll l) = (rll (fst (delete_glyphs_inplace lvl flt l)), snd (delete_glyphs_inplace lvl flt l)).
Proof. unfold delete_glyphs_inplace. rewrite rll_length. exact (dgi_equiv lvl (length l) [] l false). Qed.
End Delete.

(* ---- every operation, every sequence ---- *)
Definition rl_op (o : bop) : bop :=
  match o with
  | OOutputInfo i => OOutputInfo (rl i)
  | OSetMasks v m cs ce => OSetMasks v m (fst (rl_range cs ce)) (snd (rl_range cs ce))
  | _ => o
  end.

(* admissible operations: infos handed to output_info carry a cluster of CS (C02's op_ok); a non-global
   set_masks range stays non-global *)
Definition rl_ok (o : bop) : Prop :=
  match o with
  | OOutputInfo i => In (cluster i) CS
  | OSetMasks _ _ cs ce => range_ok cs ce
  | _ => True
  end.

Definition lift_step (r : result (option (bool * zbuf))) : result (option (bool * zbuf)) :=
  match r with Ok (Some (x, b')) => Ok (Some (x, rlb b')) | Ok None => Ok None | Error e => Error e end.

Ltac by_lift lem HI :=
  rewrite (lem _ HI) || rewrite (lem _ _ HI) || rewrite (lem _ _ _ HI) || rewrite lem;
  match goal with |- context [lift ?X] => destruct X; reflexivity end.

Theorem step_equiv b o : rl_ok o -> Inv b -> step (rlb b) (rl_op o) = lift_step (step b o).
Proof.
  intros Hok HI.
  destruct o; cbn [rl_op step]; rewrite ?blen_rlb; cbn [BufferEquivP.rlb out_mode with_pr level dead];
  change (with_pr b (rll (pre b)) (rll (rest b)) (dead b)) with (rlb b).
  - rewrite (next_glyph_equiv f). destruct (next_glyph b); reflexivity.
  - rewrite next_glyphs_equiv. destruct (next_glyphs b n); reflexivity.
  - rewrite (skip_glyph_equiv f). destruct (skip_glyph b); reflexivity.
  - destruct (out_mode b); [|reflexivity]. rewrite (replace_glyph_equiv f). destruct (replace_glyph b g); reflexivity.
  - destruct (out_mode b); [|reflexivity]. rewrite (replace_glyphs_equiv _ _ _ HI). destruct (replace_glyphs b num_in gs); reflexivity.
  - destruct (out_mode b); [|reflexivity]. rewrite (output_glyph_equiv f). destruct (output_glyph b g); reflexivity.
  - destruct (out_mode b); [|reflexivity]. rewrite output_info_equiv. destruct (output_info b i); reflexivity.
  - destruct (out_mode b); [|reflexivity]. rewrite (copy_glyph_equiv f). destruct (copy_glyph b); reflexivity.
  - rewrite (delete_glyph_equiv _ HI). destruct (delete_glyph b); reflexivity.
  - rewrite move_to_equiv. destruct (move_to b i) as [[x b1]|]; reflexivity.
  - destruct (e <? s)%nat; [reflexivity|]. destruct (blen b <? e)%nat; [reflexivity|].
    rewrite (merge_clusters_full_equiv _ _ _ HI). destruct (merge_clusters_full b s e); reflexivity.
  - destruct (e <? s)%nat; [reflexivity|]. destruct (negb (out_mode b)); [reflexivity|].
    rewrite merge_out_clusters_equiv. destruct (merge_out_clusters b s e); reflexivity.
  - rewrite (unsafe_to_break_equiv _ _ _ HI). destruct (unsafe_to_break b s e); reflexivity.
  - rewrite (unsafe_to_concat_equiv _ _ _ HI). destruct (unsafe_to_concat b s e); reflexivity.
  - rewrite (unsafe_to_break_out_equiv _ _ _ HI). destruct (unsafe_to_break_from_outbuffer b s e); reflexivity.
  - rewrite (unsafe_to_concat_out_equiv _ _ _ HI). destruct (unsafe_to_concat_from_outbuffer b s e); reflexivity.
  - destruct (out_mode b); [reflexivity|]. rewrite clear_output_equiv. reflexivity.
  - rewrite sync_equiv. destruct (sync b) as [[b1|]|]; reflexivity.
  - destruct (out_mode b); [reflexivity|]. rewrite reverse_equiv. destruct (reverse b); reflexivity.
  - destruct (out_mode b); [reflexivity|]. destruct (e <? s)%nat; [reflexivity|]. rewrite reverse_range_equiv. destruct (reverse_range b s e); reflexivity.
  - destruct (out_mode b); [reflexivity|]. rewrite (reverse_groups_equiv grp_cont); [destruct (reverse_groups grp_cont merge b); reflexivity|reflexivity|exact HI].
  - destruct (out_mode b); [reflexivity|]. rewrite reset_masks_equiv. reflexivity.
  - destruct (out_mode b); [reflexivity|]. rewrite (set_masks_equiv_all _ _ _ _ _ Hok). reflexivity.
  - destruct (out_mode b); [reflexivity|]. rewrite (sort_equiv cmp_v1); [destruct (sort cmp_v1 b s e); reflexivity|reflexivity|exact HI].
  - destruct (out_mode b); [reflexivity|]. rewrite arr_rlb, (delete_glyphs_inplace_equiv flt_odd); [|reflexivity].
    destruct (delete_glyphs_inplace (level b) flt_odd (arr b)) as [a t]. cbn [fst snd lift_step].
    rewrite rlb_add_scratch, rlb_with_pr, rll_firstn, rll_skipn. reflexivity.
Qed.

Definition lift_run (r : result (option zbuf)) : result (option zbuf) :=
  match r with Ok (Some b') => Ok (Some (rlb b')) | Ok None => Ok None | Error e => Error e end.

Lemma rl_ok_op_ok o : rl_ok o -> op_ok CS o.
Proof. destruct o; cbn; auto. Qed.

Theorem run_equiv ops : forall b, Forall rl_ok ops -> Inv b -> run (rlb b) (map rl_op ops) = lift_run (run b ops).
Proof.
  induction ops as [|o t IH]; intros b Hall HI; cbn [run map]; [reflexivity|].
  inversion Hall as [|o' t' Ho Ht]; subst.
  rewrite (step_equiv _ _ Ho HI). destruct (step b o) as [[[x b1]|]|] eqn:E; cbn [lift_step]; [|reflexivity|reflexivity].
  apply IH; [exact Ht|]. eapply step_ok; [apply rl_ok_op_ok; exact Ho|exact HI|exact E].
Qed.
End EquivAll.
