(* Proofs/BufferEquivP.v — cluster values are opaque labels (C15): relabelling the clusters of a
   buffer by a strictly increasing map commutes with the buffer operations. *)
From Coq Require Import List NArith Bool Arith Lia.
From RB Require Import Base.Result Model.Buffer Model.BufferOps.
Import ListNotations.
Local Open Scope N_scope.

Section Equiv.
Variable f : N -> N.
Hypothesis f_mono : forall a b, a < b -> f a < f b.

Lemma f_inj a b : f a = f b -> a = b.
Proof.
  intros H. destruct (N.lt_trichotomy a b) as [L|[E|G]]; [apply f_mono in L; lia|exact E|apply f_mono in G; lia].
Qed.

Lemma f_eqb a b : (f a =? f b) = (a =? b).
Proof.
  destruct (N.eqb_spec a b) as [->|Hne]; [apply N.eqb_refl|].
  apply N.eqb_neq. intros H. apply Hne, f_inj, H.
Qed.

Lemma f_ltb a b : (f a <? f b) = (a <? b).
Proof.
  destruct (N.ltb_spec a b) as [L|G]; [apply N.ltb_lt, f_mono, L|].
  apply N.ltb_ge. destruct (N.eq_dec a b) as [->|Hne]; [apply N.le_refl|].
  assert (b < a) by lia. apply f_mono in H. lia.
Qed.

Lemma f_leb a b : (f a <=? f b) = (a <=? b).
Proof.
  destruct (N.leb_spec a b) as [L|G].
  - apply N.leb_le. destruct (N.eq_dec a b) as [->|Hne]; [apply N.le_refl|]. assert (a < b) by lia. apply f_mono in H. lia.
  - apply N.leb_gt, f_mono, G.
Qed.

Lemma f_min a b : f (N.min a b) = N.min (f a) (f b).
Proof.
  destruct (N.le_ge_cases a b) as [L|G].
  - rewrite N.min_l by exact L. symmetry. apply N.min_l. apply N.leb_le. rewrite f_leb. apply N.leb_le, L.
  - rewrite N.min_r by exact G. symmetry. apply N.min_r. apply N.leb_le. rewrite f_leb. apply N.leb_le, G.
Qed.

Definition rl (x : info) : info := mkInfo (gid x) (mask x) (f (cluster x)) (var1 x) (var2 x).
Definition rll (l : list info) : list info := map rl l.
Definition rlb (b : zbuf) : zbuf := with_pr b (rll (pre b)) (rll (rest b)) (dead b).

Lemma rl_set_cluster x c m : rl (set_cluster x c m) = set_cluster (rl x) (f c) m.
Proof. unfold set_cluster, rl. cbn. rewrite f_eqb. destruct (cluster x =? c); reflexivity. Qed.

Lemma rl_or_mask m x : rl (or_mask m x) = or_mask m (rl x).
Proof. reflexivity. Qed.

Lemma rl_set_gid x g : rl (set_gid x g) = set_gid (rl x) g.
Proof. reflexivity. Qed.

Lemma rl_min l : forall init, f (min_cluster_list l init) = min_cluster_list (rll l) (f init).
Proof.
  unfold min_cluster_list, rll. induction l as [|x l IH]; intros init; cbn; [reflexivity|]. rewrite IH, f_min. reflexivity.
Qed.

Lemma rl_run_len c l : run_len (f c) (rll l) = run_len c l.
Proof. unfold rll. induction l as [|x l IH]; cbn; [reflexivity|]. rewrite f_eqb. destruct (cluster x =? c); [rewrite IH|]; reflexivity. Qed.

Lemma rll_app a b : rll (a ++ b) = rll a ++ rll b.
Proof. apply map_app. Qed.
Lemma rll_firstn n l : rll (firstn n l) = firstn n (rll l).
Proof. unfold rll. symmetry. apply firstn_map. Qed.
Lemma rll_skipn n l : rll (skipn n l) = skipn n (rll l).
Proof. unfold rll. symmetry. apply skipn_map. Qed.
Lemma rll_slice l s e : rll (slice l s e) = slice (rll l) s e.
Proof. unfold slice. rewrite rll_firstn, rll_skipn. reflexivity. Qed.
Lemma rll_rev l : rll (rev l) = rev (rll l).
Proof. apply map_rev. Qed.
Lemma rll_length l : length (rll l) = length l.
Proof. apply map_length. Qed.

Lemma rll_nth l i : nth_error (rll l) i = option_map rl (nth_error l i).
Proof. apply nth_error_map. Qed.

Lemma rll_map_range g g' s e l : (forall x, rl (g x) = g' (rl x)) -> rll (map_range g s e l) = map_range g' s e (rll l).
Proof.
  intros H. unfold rll. revert s e. induction l as [|x l IH]; intros s e; simpl; [reflexivity|].
  destruct e as [|e]; [reflexivity|]. destruct s as [|s]; simpl; rewrite ?H, IH; reflexivity.
Qed.

Lemma rll_map_suffix_run g g' c l : (forall x, rl (g x) = g' (rl x)) ->
  rll (map_suffix_run g c l) = map_suffix_run g' (f c) (rll l).
Proof.
  intros H. unfold map_suffix_run. rewrite <- rll_rev, rl_run_len, rll_length, rll_app, rll_firstn. f_equal.
  rewrite <- rll_skipn. unfold rll. rewrite !map_map. apply map_ext. exact H.
Qed.

Lemma rll_cons x l : rll (x :: l) = rl x :: rll l.
Proof. reflexivity. Qed.
Lemma rll_nil : rll [] = [].
Proof. reflexivity. Qed.
Lemma rll_single x : [rl x] = rll [x].
Proof. reflexivity. Qed.

Opaque rll.

(* merge_array commutes with the relabelling (array, old cluster, new cluster all relabelled) *)
Theorem merge_array_equiv l s e :
  merge_array (rll l) s e =
  match merge_array l s e with
  | Ok (r, c0, c) => Ok (rll r, f c0, f c)
  | Error er => Error er
  end.
Proof.
  unfold merge_array. rewrite !rll_nth.
  destruct (nth_error l s) as [first|]; cbn [option_map]; [|reflexivity].
  destruct (nth_error l (e - 1)) as [last|]; cbn [option_map]; [|reflexivity].
  cbn [cluster rl]. rewrite <- rll_slice, <- rl_min, f_eqb, <- rll_skipn, rl_run_len.
  f_equal. f_equal. f_equal.
  symmetry. apply rll_map_range. intros x. apply rl_set_cluster.
Qed.

(* the streaming operations never look at a cluster value *)
Lemma ensure_rlb b n : ensure (rlb b) n = (fst (ensure b n), rlb (snd (ensure b n))).
Proof.
  unfold ensure, rlb, blen. cbn [rest dead with_pr max_len]. rewrite rll_length.
  destruct (n <? dead b + length (rest b))%nat; [reflexivity|]. destruct (max_len b <? N.of_nat n); reflexivity.
Qed.

Lemma make_room_rlb b n : make_room_for (rlb b) n = (fst (make_room_for b n), rlb (snd (make_room_for b n))).
Proof.
  unfold make_room_for, out_len. cbn [out_mode rlb with_pr pre]. rewrite rll_length.
  change (if out_mode b then length (pre b) else 0%nat) with (out_len b). apply ensure_rlb.
Qed.

Lemma next_glyph_equiv b : next_glyph (rlb b) = match next_glyph b with Ok b' => Ok (rlb b') | Error e => Error e end.
Proof.
  unfold next_glyph. rewrite make_room_rlb. cbn [rlb rest pre dead out_mode with_pr].
  destruct (rest b) as [|x t]; [rewrite rll_nil; reflexivity|]. rewrite rll_cons.
  destruct (out_mode b).
  - destruct (make_room_for b 1) as [okk b1]. cbn [fst snd]. destruct okk; [|reflexivity].
    cbn. rewrite rll_single, <- rll_app. reflexivity.
  - cbn. rewrite rll_single, <- rll_app. reflexivity.
Qed.

Lemma skip_glyph_equiv b : skip_glyph (rlb b) = match skip_glyph b with Ok b' => Ok (rlb b') | Error e => Error e end.
Proof.
  unfold skip_glyph. cbn [rlb rest pre dead out_mode with_pr]. destruct (rest b) as [|x t]; [rewrite rll_nil; reflexivity|].
  rewrite rll_cons. destruct (out_mode b); cbn; [reflexivity|rewrite rll_single, <- rll_app; reflexivity].
Qed.

Lemma replace_glyph_equiv b g : replace_glyph (rlb b) g = match replace_glyph b g with Ok b' => Ok (rlb b') | Error e => Error e end.
Proof.
  unfold replace_glyph. rewrite make_room_rlb. cbn [rlb rest pre dead out_mode with_pr].
  destruct (rest b) as [|x t]; [rewrite rll_nil; reflexivity|]. rewrite rll_cons.
  destruct (make_room_for b 1) as [okk b1]. cbn [fst snd]. destruct okk; [|reflexivity].
  cbn. rewrite <- rl_set_gid, rll_single, <- rll_app. reflexivity.
Qed.

Lemma copy_glyph_equiv b : copy_glyph (rlb b) = match copy_glyph b with Ok b' => Ok (rlb b') | Error e => Error e end.
Proof.
  unfold copy_glyph. rewrite make_room_rlb. cbn [rlb rest pre dead out_mode with_pr].
  destruct (make_room_for b 1) as [okk b1]. cbn [fst snd]. destruct okk; cbn [negb]; [|reflexivity].
  destruct (rest b) as [|x t]; [rewrite rll_nil; reflexivity|]. rewrite rll_cons.
  cbn. rewrite rll_single, <- rll_app, <- rll_cons. reflexivity.
Qed.

Lemma output_glyph_equiv b g : output_glyph (rlb b) g = match output_glyph b g with Ok b' => Ok (rlb b') | Error e => Error e end.
Proof.
  unfold output_glyph. rewrite make_room_rlb. cbn [rlb rest pre dead out_mode with_pr].
  destruct (make_room_for b 1) as [okk b1]. cbn [fst snd]. destruct okk; cbn [negb]; [|reflexivity].
  destruct (rest b) as [|x t].
  - rewrite rll_nil, <- rll_rev. destruct (rev (pre b)) as [|l t']; [rewrite rll_nil; reflexivity|].
    rewrite rll_cons. cbn. rewrite <- rl_set_gid, rll_single, <- rll_app. reflexivity.
  - rewrite rll_cons. cbn. rewrite <- rl_set_gid, rll_single, <- rll_app, <- rll_cons. reflexivity.
Qed.

Lemma rlb_with_pr b p r d : rlb (with_pr b p r d) = with_pr (rlb b) (rll p) (rll r) d.
Proof. reflexivity. Qed.

(* merge_clusters (levels 0/1), both modes *)
Theorem merge_clusters_equiv b s e :
  merge_clusters (rlb b) s e = match merge_clusters b s e with Ok b' => Ok (rlb b') | Error er => Error er end.
Proof.
  unfold merge_clusters. cbn [rlb level out_mode dead pre rest with_pr].
  destruct (e - s <? 2)%nat; [reflexivity|]. destruct (level b =? 2); [reflexivity|].
  destruct (out_mode b).
  - destruct (s <? dead b)%nat; [reflexivity|].
    rewrite merge_array_equiv. destruct (merge_array (rest b) (s - dead b) (e - dead b)) as [[[r c0] c]|]; cbn [bind]; [|reflexivity].
    rewrite f_eqb. f_equal.
    destruct ((s =? dead b)%nat && negb (c0 =? c))%bool; [|reflexivity].
    rewrite rlb_with_pr. unfold rlb. cbn [with_pr pre rest dead level bflags ok max_len scratch out_mode].
    rewrite (rll_map_suffix_run (fun i => set_cluster i c 0) (fun i => set_cluster i (f c) 0) c0 (pre b)); [reflexivity|].
    intros x. apply rl_set_cluster.
  - rewrite <- rll_app, merge_array_equiv.
    destruct (merge_array (pre b ++ rest b) s e) as [[[r c0] c]|]; cbn [bind]; [|reflexivity].
    unfold rlb. cbn [with_pr pre rest dead]. rewrite rll_firstn, rll_skipn. reflexivity.
Qed.

(* set_masks with a relabelled, non-global range *)
Lemma set_masks_equiv b v m cs ce :
  negb ((cs =? 0) && (ce =? U32_MAX)) = true -> negb ((f cs =? 0) && (f ce =? U32_MAX)) = true ->
  dead b = length (pre b) ->
  set_masks (rlb b) v m (f cs) (f ce) = rlb (set_masks b v m cs ce).
Proof.
  intros H1 H2 Hd. unfold set_masks. destruct (m =? 0); [reflexivity|]. cbv zeta.
  apply negb_true_iff in H1. apply negb_true_iff in H2. rewrite H1, H2.
  unfold of_arr, arr, rlb. cbn [pre rest dead with_pr].
  rewrite <- rll_app.
  assert (E : map (fun i => if (f cs <=? cluster i) && (cluster i <? f ce) then set_mask i (N.lor (N.ldiff (mask i) m) (N.land v m)) else i) (rll (pre b ++ rest b))
            = rll (map (fun i => if (cs <=? cluster i) && (cluster i <? ce) then set_mask i (N.lor (N.ldiff (mask i) m) (N.land v m)) else i) (pre b ++ rest b))).
  { Transparent rll. unfold rll. rewrite !map_map. apply map_ext. intros x. cbn [cluster rl]. rewrite f_leb, f_ltb.
    destruct ((cs <=? cluster x) && (cluster x <? ce))%bool; reflexivity. }
  rewrite E, rll_firstn, rll_skipn. reflexivity.
Qed.

End Equiv.
