(* Proofs/BufferFlagFrameP.v — the glyph-flag calls (unsafe_to_break / unsafe_to_concat and their out-buffer forms, all of
   them instances of set_glyph_flags) write flag bits and nothing else: any per-glyph projection that or_mask leaves alone
   (glyph id, cluster, the feature bits of the mask when the value written is a flag value, the scratch variables) is
   unchanged, glyph by glyph.  Generic form of the cluster statement of Proofs/BufferMonoP.v (same proof). *)
From Coq Require Import List NArith Bool Arith Lia.
From RB Require Import Base.Result Model.Buffer Proofs.BufferMonoP Proofs.BufferMaskP.
Import ListNotations.
Local Open Scope N_scope.

Section FlagFrame.
  Variable Q : Type.
  Variable q : info -> Q.
  Variable m : N.
  Hypothesis q_or_mask : forall x, q (or_mask m x) = q x.

  Definition mq (l : list info) : list Q := map q l.

  Lemma mq_app l1 l2 : mq (l1 ++ l2) = mq l1 ++ mq l2.
  Proof. apply map_app. Qed.

  Lemma mq_rev l : mq (rev l) = rev (mq l).
  Proof. apply map_rev. Qed.

  Lemma mq_map_range_mask s e l : mq (map_range (or_mask m) s e l) = mq l.
  Proof. apply map_p_map_range. exact q_or_mask. Qed.

  Lemma mq_flag_while c stop l : mq (fst (flag_while_ne_fwd c stop m l)) = mq l.
  Proof.
    induction l as [|x l IH]; cbn [flag_while_ne_fwd]; [reflexivity|]. destruct (cluster x =? stop); [reflexivity|].
    destruct (flag_while_ne_fwd c stop m l) as [t' a]. cbn [fst] in IH.
    destruct (cluster x =? c); cbn [fst mq map]; fold (mq t'); rewrite IH; [|rewrite q_or_mask]; reflexivity.
  Qed.

  Lemma mq_flag_all c l : mq (fst (flag_all_ne c m l)) = mq l.
  Proof.
    cbn [flag_all_ne fst]. induction l as [|x l IH]; cbn [map mq]; [reflexivity|]. fold (mq l).
    unfold mq in IH. rewrite IH. destruct (cluster x =? c); [|rewrite q_or_mask]; reflexivity.
  Qed.

  Lemma infos_set_glyph_flags_mq lvl l s e c r :
    (s <= e)%nat -> infos_set_glyph_flags lvl l s e c m = Ok r -> mq (fst r) = mq l.
  Proof.
    intros Hse. unfold infos_set_glyph_flags.
    destruct (s =? e)%nat; [intros E; inversion E; subst; reflexivity|].
    destruct (nth_error l s) as [first|]; [|discriminate].
    destruct (nth_error l (e - 1)) as [last|]; [|discriminate].
    destruct ((lvl =? 2) || (negb (c =? cluster first) && negb (c =? cluster last)))%bool.
    - pose proof (mq_flag_all c (slice l s e)) as H1.
      destruct (flag_all_ne c m (slice l s e)) as [mid' ap]. intros E; inversion E; subst. cbn [fst] in *.
      rewrite !mq_app, H1, <- !mq_app, slice_glue by exact Hse. reflexivity.
    - destruct (c =? cluster first).
      + pose proof (mq_flag_while c (cluster first) (rev (slice l s e))) as H1.
        destruct (flag_while_ne_fwd c (cluster first) m (rev (slice l s e))) as [r' ap]. intros E; inversion E; subst. cbn [fst] in *.
        rewrite !mq_app, mq_rev, H1, mq_rev, rev_involutive, <- !mq_app, slice_glue by exact Hse. reflexivity.
      + pose proof (mq_flag_while c (cluster last) (slice l s e)) as H1.
        destruct (flag_while_ne_fwd c (cluster last) m (slice l s e)) as [mid' ap]. intros E; inversion E; subst. cbn [fst] in *.
        rewrite !mq_app, H1, <- !mq_app, slice_glue by exact Hse. reflexivity.
  Qed.


  Lemma set_glyph_flags_mq b s e interior from_out b' :
    set_glyph_flags b m s e interior from_out = Ok b' -> mq (pre b' ++ rest b') = mq (pre b ++ rest b).
  Proof.
    unfold set_glyph_flags.
    set (s0 := match s with Some x => x | None => 0%nat end).
    set (e0 := Nat.min (match e with Some x => x | None => blen b end) (blen b)).
    destruct (e0 <? s0)%nat eqn:Ees.
    - cbn [andb].
      destruct interior, from_out; cbn [andb negb]; try discriminate; try (intros E; inversion E; subst; reflexivity).
      + (* interior, from_out *) destruct (out_mode b) eqn:Eo; cbn [negb andb]; [|discriminate].
        cbn [orb]. cbn [out_mode with_scratch negb]. rewrite Eo. cbn [negb pre rest dead level with_scratch].
        destruct (length (pre b) <? s0)%nat eqn:E1; [discriminate|]. apply Nat.ltb_ge in E1.
        destruct (e0 <? dead b)%nat; [discriminate|].
        destruct (find_min_cluster (level b) (rest b) 0 (e0 - dead b) U32_MAX) as [c1|]; cbn [bind]; [|discriminate].
        destruct (find_min_cluster (level b) (pre b) s0 (length (pre b)) c1) as [c|]; cbn [bind]; [|discriminate].
        destruct (infos_set_glyph_flags (level b) (pre b) s0 (length (pre b)) c m) as [r1|] eqn:F1; cbn [bind]; [|discriminate].
        destruct (infos_set_glyph_flags (level b) (rest b) 0 (e0 - dead b) c m) as [r2|] eqn:F2; cbn [bind]; [|discriminate].
        intros E; inversion E; subst.
        destruct (add_scratch_frame (add_scratch (with_pr (with_scratch b (N.lor (scratch b) SCRATCH_HAS_GLYPH_FLAGS)) (fst r1) (fst r2) (dead b)) (snd r1)) (snd r2)) as [-> ->].
        destruct (add_scratch_frame (with_pr (with_scratch b (N.lor (scratch b) SCRATCH_HAS_GLYPH_FLAGS)) (fst r1) (fst r2) (dead b)) (snd r1)) as [-> ->].
        cbn. rewrite !mq_app.
        rewrite (infos_set_glyph_flags_mq _ _ _ _ _ _ E1 F1), (infos_set_glyph_flags_mq _ _ _ _ _ _ (Nat.le_0_l _) F2). reflexivity.
      + (* not interior, from_out *) destruct (out_mode b) eqn:Eo; cbn [negb andb]; [|intros E; inversion E; subst; reflexivity].
        cbn [orb]. cbn [out_mode with_scratch negb]. rewrite Eo. cbn [negb pre rest dead level with_scratch].
        destruct (length (pre b) <? s0)%nat; [discriminate|]. destruct (e0 <? dead b)%nat; [discriminate|].
        intros E; inversion E; subst. cbn. rewrite !mq_app, !mq_map_range_mask. reflexivity.
    - apply Nat.ltb_ge in Ees. cbn [andb].
      destruct (interior && negb from_out && (e0 - s0 <? 2)%nat)%bool; [intros E; inversion E; subst; reflexivity|].
      cbv zeta.
      destruct (negb from_out || negb (out_mode (with_scratch b (N.lor (scratch b) SCRATCH_HAS_GLYPH_FLAGS))))%bool.
      + cbn [out_mode with_scratch pre rest dead level].
        destruct (out_mode b).
        * destruct (s0 <? dead b)%nat; [discriminate|].
          destruct (negb interior).
          -- intros E; inversion E; subst. cbn. rewrite !mq_app, mq_map_range_mask. reflexivity.
          -- destruct (find_min_cluster (level b) (rest b) (s0 - dead b) (e0 - dead b) U32_MAX) as [c|]; cbn [bind]; [|discriminate].
             destruct (infos_set_glyph_flags (level b) (rest b) (s0 - dead b) (e0 - dead b) c m) as [r|] eqn:F; cbn [bind]; [|discriminate].
             intros E; inversion E; subst.
             destruct (add_scratch_frame (with_pr (with_scratch b (N.lor (scratch b) SCRATCH_HAS_GLYPH_FLAGS)) (pre b) (fst r) (dead b)) (snd r)) as [-> ->].
             assert (Lse : (s0 - dead b <= e0 - dead b)%nat) by (clear - Ees; lia).
             cbn. rewrite !mq_app. rewrite (infos_set_glyph_flags_mq _ _ _ _ _ _ Lse F). reflexivity.
        * destruct (negb interior).
          -- intros E; inversion E; subst. cbn. rewrite firstn_skipn, mq_map_range_mask. reflexivity.
          -- destruct (find_min_cluster (level b) (pre b ++ rest b) s0 e0 U32_MAX) as [c|]; cbn [bind]; [|discriminate].
             destruct (infos_set_glyph_flags (level b) (pre b ++ rest b) s0 e0 c m) as [r|] eqn:F; cbn [bind]; [|discriminate].
             intros E; inversion E; subst.
             destruct (add_scratch_frame (with_pr (with_scratch b (N.lor (scratch b) SCRATCH_HAS_GLYPH_FLAGS)) (firstn (dead b) (fst r)) (skipn (dead b) (fst r)) (dead b)) (snd r)) as [-> ->].
             cbn. rewrite firstn_skipn. apply (infos_set_glyph_flags_mq _ _ _ _ _ _ Ees F).
      + cbn [out_mode with_scratch pre rest dead level].
        destruct (length (pre b) <? s0)%nat eqn:E1; [discriminate|]. apply Nat.ltb_ge in E1.
        destruct (e0 <? dead b)%nat; [discriminate|].
        destruct (negb interior).
        * intros E; inversion E; subst. cbn. rewrite !mq_app, !mq_map_range_mask. reflexivity.
        * destruct (find_min_cluster (level b) (rest b) 0 (e0 - dead b) U32_MAX) as [c1|]; cbn [bind]; [|discriminate].
          destruct (find_min_cluster (level b) (pre b) s0 (length (pre b)) c1) as [c|]; cbn [bind]; [|discriminate].
          destruct (infos_set_glyph_flags (level b) (pre b) s0 (length (pre b)) c m) as [r1|] eqn:F1; cbn [bind]; [|discriminate].
          destruct (infos_set_glyph_flags (level b) (rest b) 0 (e0 - dead b) c m) as [r2|] eqn:F2; cbn [bind]; [|discriminate].
          intros E; inversion E; subst.
          destruct (add_scratch_frame (add_scratch (with_pr (with_scratch b (N.lor (scratch b) SCRATCH_HAS_GLYPH_FLAGS)) (fst r1) (fst r2) (dead b)) (snd r1)) (snd r2)) as [-> ->].
          destruct (add_scratch_frame (with_pr (with_scratch b (N.lor (scratch b) SCRATCH_HAS_GLYPH_FLAGS)) (fst r1) (fst r2) (dead b)) (snd r1)) as [-> ->].
          cbn. rewrite !mq_app.
          rewrite (infos_set_glyph_flags_mq _ _ _ _ _ _ E1 F1), (infos_set_glyph_flags_mq _ _ _ _ _ _ (Nat.le_0_l _) F2). reflexivity.
  Qed.

End FlagFrame.

(* instances: glyph ids always; feature bits when the value written consists of flag bits only *)
Lemma gid_or_mask m x : gid (or_mask m x) = gid x.
Proof. reflexivity. Qed.

Theorem set_glyph_flags_gids b m s e interior from_out b' :
  set_glyph_flags b m s e interior from_out = Ok b' -> map gid (pre b' ++ rest b') = map gid (pre b ++ rest b).
Proof. apply (set_glyph_flags_mq _ gid m (gid_or_mask m)). Qed.

Theorem set_glyph_flags_fbits b m s e interior from_out b' : N.ldiff m GLYPH_FLAGS_DEFINED = 0 ->
  set_glyph_flags b m s e interior from_out = Ok b' -> map fbits (pre b' ++ rest b') = map fbits (pre b ++ rest b).
Proof. intro Hm. apply (set_glyph_flags_mq _ fbits m (fun x => fbits_or_mask m x Hm)). Qed.

(* in output mode a flag call on the input side (not the from-out-buffer form) leaves the out-buffer alone *)
Lemma out_mode_add_scratch b a : out_mode (add_scratch b a) = out_mode b.
Proof. unfold add_scratch. destruct a; reflexivity. Qed.

Lemma set_glyph_flags_outmode_pre b m s e interior b' : out_mode b = true ->
  set_glyph_flags b m s e interior false = Ok b' -> pre b' = pre b /\ out_mode b' = true.
Proof.
  intros Hm. unfold set_glyph_flags.
  set (s0 := match s with Some x => x | None => 0%nat end).
  set (e0 := Nat.min (match e with Some x => x | None => blen b end) (blen b)).
  rewrite Hm. cbn [negb andb].
  destruct (e0 <? s0)%nat; cbn [andb].
  - destruct interior; cbn [andb negb]; [discriminate|].
    intros E; inversion E; subst. cbn [pre out_mode with_scratch]. split; [reflexivity|exact Hm].
  - rewrite !andb_true_r.
    destruct (interior && (e0 - s0 <? 2)%nat)%bool; [intros E; inversion E; subst; split; [reflexivity|exact Hm]|].
    cbv zeta. cbn [orb out_mode with_scratch pre rest dead level]. rewrite Hm.
    destruct (s0 <? dead b)%nat; [discriminate|].
    destruct (negb interior).
    + intros E; inversion E; subst. cbn [pre out_mode with_pr with_scratch]. split; [reflexivity|exact Hm].
    + destruct (find_min_cluster (level b) (rest b) (s0 - dead b) (e0 - dead b) U32_MAX) as [c|]; cbn [bind]; [|discriminate].
      destruct (infos_set_glyph_flags (level b) (rest b) (s0 - dead b) (e0 - dead b) c m) as [r|]; cbn [bind]; [|discriminate].
      intros E; inversion E; subst.
      rewrite out_mode_add_scratch.
      destruct (add_scratch_frame (with_pr (with_scratch b (N.lor (scratch b) SCRATCH_HAS_GLYPH_FLAGS)) (pre b) (fst r) (dead b)) (snd r)) as [-> _].
      cbn [pre out_mode with_pr with_scratch]. split; [reflexivity|exact Hm].
Qed.

(* delete_glyph in output mode at EVERY cluster level: the deleted glyph goes, every other glyph keeps what set_cluster and
   or_mask (with the flag value of unsafe_to_break) leave alone *)
Section DeleteAllLevels.
  Variable Q : Type.
  Variable q : info -> Q.
  Hypothesis q_set_cluster : forall i c m, q (set_cluster i c m) = q i.
  Hypothesis q_or_mask : forall x, q (or_mask BREAK_CONCAT x) = q x.

  Theorem delete_glyph_q_all_levels b b' : out_mode b = true -> delete_glyph b = Ok b' ->
    exists x t, rest b = x :: t /\ map q (pre b') = map q (pre b) /\ map q (rest b') = map q t.
  Proof.
    intros Hm H. destruct (N.eq_dec (level b) 2) as [L2|L2]; [|eapply delete_glyph_q; eassumption].
    revert H. unfold delete_glyph.
    destruct (rest b) as [|x t] eqn:Hr; [discriminate|].
    assert (Hskip : forall b0, rest b0 = x :: t -> out_mode b0 = true -> forall b1, skip_glyph b0 = Ok b1 -> pre b1 = pre b0 /\ rest b1 = t).
    { intros b0 H0 Hm0 b1. unfold skip_glyph. rewrite H0, Hm0. intro H. injection H as <-. cbn [pre rest with_pr]. split; reflexivity. }
    set (next_same := match t with y :: _ => cluster y =? cluster x | [] => false end).
    set (prev_same := match last_cluster (pre b) with Some pc => (0 <? length (pre b))%nat && (pc =? cluster x) | None => false end).
    rewrite Hm. cbn [andb].
    destruct (next_same || prev_same)%bool.
    - intro H. destruct (Hskip b Hr Hm b' H) as [Hp Hrest]. exists x, t. rewrite Hp, Hrest. repeat split; reflexivity.
    - destruct (0 <? length (pre b))%nat eqn:Hlen.
      + destruct (last_cluster (pre b)) as [old|]; [|discriminate].
        intro H.
        set (pre' := if cluster x <? old then map_suffix_run (fun i => set_cluster i (cluster x) (mask x)) old (pre b) else pre b) in H.
        destruct (Hskip (with_pr b pre' (x :: t) (dead b)) eq_refl Hm b' H) as [Hp Hrest].
        exists x, t. rewrite Hp, Hrest. cbn [pre with_pr]. repeat split; try reflexivity.
        unfold pre'. destruct (cluster x <? old); [|reflexivity].
        apply map_p_map_suffix_run. intro i. apply q_set_cluster.
      + destruct t as [|y t'].
        * intro H. destruct (Hskip b Hr Hm b' H) as [Hp Hrest]. exists x, []. rewrite Hp, Hrest. repeat split; reflexivity.
        * unfold merge_clusters_full.
          destruct (dead b + 2 - dead b <? 2)%nat eqn:E; [apply Nat.ltb_lt in E; lia|].
          apply N.eqb_eq in L2. rewrite L2. unfold unsafe_to_break.
          destruct (set_glyph_flags b BREAK_CONCAT (Some (dead b)) (Some (dead b + 2)%nat) true false) as [b1|] eqn:Hf; cbn [bind]; [|discriminate].
          intro H.
          destruct (set_glyph_flags_outmode_pre _ _ _ _ _ _ Hm Hf) as [Hp1 Hm1].
          pose proof (set_glyph_flags_mq Q q BREAK_CONCAT q_or_mask _ _ _ _ _ _ Hf) as Hall.
          apply Nat.ltb_ge in Hlen. assert (Hnil : pre b = []) by (destruct (pre b); [reflexivity|cbn in Hlen; lia]).
          rewrite Hp1, Hnil in Hall. cbn [app] in Hall. rewrite Hr in Hall. unfold mq in Hall.
          destruct (rest b1) as [|x1 t1] eqn:Hr1; [discriminate Hall|].
          cbn [map] in Hall. injection Hall as _ Ht.
          revert H. unfold skip_glyph. rewrite Hr1, Hm1. intro H. injection H as <-. cbn [pre rest with_pr].
          exists x, (y :: t'). repeat split; [rewrite Hp1; reflexivity|exact Ht].
  Qed.
End DeleteAllLevels.

Lemma fbits_or_mask_break x : fbits (or_mask BREAK_CONCAT x) = fbits x.
Proof. apply fbits_or_mask. reflexivity. Qed.

Theorem delete_glyph_fbits_all_levels b b' : out_mode b = true -> delete_glyph b = Ok b' ->
  exists x t, rest b = x :: t /\ map fbits (pre b') = map fbits (pre b) /\ map fbits (rest b') = map fbits t.
Proof. apply delete_glyph_q_all_levels; [exact fbits_set_cluster|exact fbits_or_mask_break]. Qed.

Theorem delete_glyph_gids_all_levels b b' : out_mode b = true -> delete_glyph b = Ok b' ->
  exists x t, rest b = x :: t /\ map gid (pre b') = map gid (pre b) /\ map gid (rest b') = map gid t.
Proof. apply delete_glyph_q_all_levels; [exact gid_set_cluster|intro x; reflexivity]. Qed.

(* ---- every finite sequence of pure bookkeeping operations (cluster merges in both buffers, the four flag calls, and the
   cursor steps next_glyph / next_glyphs; any arguments, any mode, any level) keeps, glyph by glyph, what set_cluster and flag-valued or_mask leave alone *)
From RB Require Import Model.BufferOps.

Definition bookkeeping (o : bop) : bool :=
  match o with
  | OMergeClusters _ _ | OMergeOut _ _ | OUnsafeToBreak _ _ | OUnsafeToConcat _ _ | OUnsafeToBreakOut _ _ | OUnsafeToConcatOut _ _
  | ONextGlyph | ONextGlyphs _ => true
  | _ => false
  end.

Section BookkeepingRuns.
  Variable Q : Type.
  Variable q : info -> Q.
  Hypothesis q_set_cluster : forall i c m, q (set_cluster i c m) = q i.
  Hypothesis q_flag_mask : forall m x, N.ldiff m GLYPH_FLAGS_DEFINED = 0 -> q (or_mask m x) = q x.

  Lemma flags_q b m s e i f b' : N.ldiff m GLYPH_FLAGS_DEFINED = 0 ->
    set_glyph_flags b m s e i f = Ok b' -> map q (pre b' ++ rest b') = map q (pre b ++ rest b).
  Proof. intros Hm. apply (set_glyph_flags_mq Q q m (fun x => q_flag_mask m x Hm)). Qed.

  Lemma ensure_parts b n : pre (snd (ensure b n)) = pre b /\ rest (snd (ensure b n)) = rest b.
  Proof. unfold ensure. destruct (n <? blen b)%nat; [split; reflexivity|]. destruct (max_len b <? N.of_nat n); split; reflexivity. Qed.

  Lemma merge_out_q b s e b' : merge_out_clusters b s e = Ok b' -> map q (pre b' ++ rest b') = map q (pre b ++ rest b).
  Proof.
    unfold merge_out_clusters.
    destruct (level b =? 2); [intro H; inversion H; subst; reflexivity|].
    destruct (e - s <? 2)%nat; [intro H; inversion H; subst; reflexivity|].
    destruct (nth_error (pre b) s) as [first|]; [|discriminate].
    destruct (nth_error (pre b) (e - 1)) as [last|]; [|discriminate].
    intro H; inversion H; subst. cbn [pre rest with_pr]. rewrite !map_app.
    rewrite (map_p_map_range _ q); [|intro x; apply q_set_cluster].
    f_equal.
    match goal with |- map q (if ?c then _ else _) = _ => destruct c end; [|reflexivity].
    rewrite map_app, map_map. rewrite (map_ext _ q); [|intro x; apply q_set_cluster].
    rewrite <- map_app, firstn_skipn. reflexivity.
  Qed.

  Lemma step_bookkeeping_q b o r b' : bookkeeping o = true -> step b o = Ok (Some (r, b')) ->
    map q (pre b' ++ rest b') = map q (pre b ++ rest b).
  Proof.
    destruct o; cbn [bookkeeping]; try discriminate; intros _; cbn [step].
    - (* next_glyph *)
      unfold next_glyph. destruct (rest b) as [|x t] eqn:Hr; [discriminate|].
      destruct (out_mode b).
      + unfold make_room_for. destruct (ensure b (out_len b + 1)) as [okk b1] eqn:E.
        pose proof (ensure_parts b (out_len b + 1)) as [Hp Hrs]. rewrite E in Hp, Hrs. cbn [snd] in Hp, Hrs.
        destruct okk; intro H; inversion H; subst; cbn [pre rest with_pr].
        * rewrite <- app_assoc. reflexivity.
        * rewrite Hp, Hrs, Hr. reflexivity.
      + intro H; inversion H; subst. cbn [pre rest with_pr]. rewrite <- app_assoc. reflexivity.
    - (* next_glyphs *)
      unfold next_glyphs. destruct (length (rest b) <? n)%nat; [discriminate|].
      destruct (out_mode b).
      + unfold make_room_for. destruct (ensure b (out_len b + n)) as [okk b1] eqn:E.
        pose proof (ensure_parts b (out_len b + n)) as [Hp Hrs]. rewrite E in Hp, Hrs. cbn [snd] in Hp, Hrs.
        destruct okk; intro H; inversion H; subst; cbn [pre rest with_pr].
        * rewrite <- app_assoc, firstn_skipn. reflexivity.
        * rewrite Hp, Hrs. reflexivity.
      + intro H; inversion H; subst. cbn [pre rest with_pr]. rewrite <- app_assoc, firstn_skipn. reflexivity.
    - (* merge_clusters *)
      destruct (e <? s)%nat; [discriminate|]. destruct (blen b <? e)%nat; [discriminate|].
      unfold merge_clusters_full.
      destruct (e - s <? 2)%nat; [intro H; inversion H; subst; reflexivity|].
      destruct (level b =? 2).
      + unfold unsafe_to_break. destruct (set_glyph_flags b BREAK_CONCAT (Some s) (Some e) true false) as [b1|] eqn:E; [|discriminate].
        intro H; inversion H; subst. eapply flags_q; [|exact E]. reflexivity.
      + destruct (merge_clusters b s e) as [b1|] eqn:E; [|discriminate].
        intro H; inversion H; subst.
        destruct (merge_clusters_q Q q q_set_cluster _ _ _ _ E) as [[Hp Hr]|[_ Ha]]; [|exact Ha].
        rewrite !map_app, Hp, Hr. reflexivity.
    - (* merge_out_clusters *)
      destruct (e <? s)%nat; [discriminate|]. destruct (negb (out_mode b)); [discriminate|].
      destruct (merge_out_clusters b s e) as [b1|] eqn:E; [|discriminate].
      intro H; inversion H; subst. exact (merge_out_q _ _ _ _ E).
    - unfold unsafe_to_break. destruct (set_glyph_flags b BREAK_CONCAT s e true false) as [b1|] eqn:E; [|discriminate].
      intro H; inversion H; subst. eapply flags_q; [|exact E]. reflexivity.
    - unfold unsafe_to_concat. destruct (produce_concat b); [|intro H; inversion H; subst; reflexivity].
      destruct (set_glyph_flags b UNSAFE_TO_CONCAT s e false false) as [b1|] eqn:E; [|discriminate].
      intro H; inversion H; subst. eapply flags_q; [|exact E]. reflexivity.
    - unfold unsafe_to_break_from_outbuffer. destruct (set_glyph_flags b BREAK_CONCAT s e true true) as [b1|] eqn:E; [|discriminate].
      intro H; inversion H; subst. eapply flags_q; [|exact E]. reflexivity.
    - unfold unsafe_to_concat_from_outbuffer. destruct (produce_concat b); [|intro H; inversion H; subst; reflexivity].
      destruct (set_glyph_flags b UNSAFE_TO_CONCAT s e false true) as [b1|] eqn:E; [|discriminate].
      intro H; inversion H; subst. eapply flags_q; [|exact E]. reflexivity.
  Qed.

  Theorem run_bookkeeping_q : forall ops b b', forallb bookkeeping ops = true -> run b ops = Ok (Some b') ->
    map q (pre b' ++ rest b') = map q (pre b ++ rest b).
  Proof.
    induction ops as [|o ops IH]; intros b b' Hb H.
    - cbn [run] in H. inversion H; subst. reflexivity.
    - cbn [forallb] in Hb. apply andb_true_iff in Hb as [Ho Hops].
      cbn [run] in H. destruct (step b o) as [[[r b1]|]|] eqn:E; try discriminate.
      rewrite (IH _ _ Hops H). eapply step_bookkeeping_q; eassumption.
  Qed.
End BookkeepingRuns.

Theorem run_bookkeeping_gids ops b b' : forallb bookkeeping ops = true -> run b ops = Ok (Some b') ->
  map gid (pre b' ++ rest b') = map gid (pre b ++ rest b).
Proof. apply run_bookkeeping_q; [exact gid_set_cluster|intros m x _; reflexivity]. Qed.

Theorem run_bookkeeping_fbits ops b b' : forallb bookkeeping ops = true -> run b ops = Ok (Some b') ->
  map fbits (pre b' ++ rest b') = map fbits (pre b ++ rest b).
Proof. apply run_bookkeeping_q; [exact fbits_set_cluster|intros m x Hm; apply fbits_or_mask; exact Hm]. Qed.
