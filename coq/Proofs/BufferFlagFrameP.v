(* Proofs/BufferFlagFrameP.v — the glyph-flag calls (unsafe_to_break / unsafe_to_concat and their out-buffer forms, all of
   them instances of set_glyph_flags) write flag bits and nothing else: any per-glyph projection that or_mask leaves alone
   (glyph id, cluster, the feature bits of the mask when the value written is a flag value, the scratch variables) is
   unchanged, glyph by glyph.  Generic form of the cluster statement of Proofs/BufferMonoP.v (same proof). *)
From Coq Require Import List NArith Bool Arith Lia.
From RB Require Import Base.Result Model.Buffer Proofs.BufferMonoP Proofs.BufferMaskP.
Import ListNotations.
Local Open Scope N_scope.

Section FlagFrame.
  Variable Q : Type.
  Variable q : info -> Q.
  Variable m : N.
  Hypothesis q_or_mask : forall x, q (or_mask m x) = q x.

  Definition mq (l : list info) : list Q := map q l.

  Lemma mq_app l1 l2 : mq (l1 ++ l2) = mq l1 ++ mq l2.
  Proof. apply map_app. Qed.

  Lemma mq_rev l : mq (rev l) = rev (mq l).
  Proof. apply map_rev. Qed.

  Lemma mq_map_range_mask s e l : mq (map_range (or_mask m) s e l) = mq l.
  Proof. apply map_p_map_range. exact q_or_mask. Qed.

  Lemma mq_flag_while c stop l : mq (fst (flag_while_ne_fwd c stop m l)) = mq l.
  Proof.
    induction l as [|x l IH]; cbn [flag_while_ne_fwd]; [reflexivity|]. destruct (cluster x =? stop); [reflexivity|].
    destruct (flag_while_ne_fwd c stop m l) as [t' a]. cbn [fst] in IH.
    destruct (cluster x =? c); cbn [fst mq map]; fold (mq t'); rewrite IH; [|rewrite q_or_mask]; reflexivity.
  Qed.

  Lemma mq_flag_all c l : mq (fst (flag_all_ne c m l)) = mq l.
  Proof.
    cbn [flag_all_ne fst]. induction l as [|x l IH]; cbn [map mq]; [reflexivity|]. fold (mq l).
    unfold mq in IH. rewrite IH. destruct (cluster x =? c); [|rewrite q_or_mask]; reflexivity.
  Qed.

  Lemma infos_set_glyph_flags_mq lvl l s e c r :
    (s <= e)%nat -> infos_set_glyph_flags lvl l s e c m = Ok r -> mq (fst r) = mq l.
  Proof.
    intros Hse. unfold infos_set_glyph_flags.
    destruct (s =? e)%nat; [intros E; inversion E; subst; reflexivity|].
    destruct (nth_error l s) as [first|]; [|discriminate].
    destruct (nth_error l (e - 1)) as [last|]; [|discriminate].
    destruct ((lvl =? 2) || (negb (c =? cluster first) && negb (c =? cluster last)))%bool.
    - pose proof (mq_flag_all c (slice l s e)) as H1.
      destruct (flag_all_ne c m (slice l s e)) as [mid' ap]. intros E; inversion E; subst. cbn [fst] in *.
      rewrite !mq_app, H1, <- !mq_app, slice_glue by exact Hse. reflexivity.
    - destruct (c =? cluster first).
      + pose proof (mq_flag_while c (cluster first) (rev (slice l s e))) as H1.
        destruct (flag_while_ne_fwd c (cluster first) m (rev (slice l s e))) as [r' ap]. intros E; inversion E; subst. cbn [fst] in *.
        rewrite !mq_app, mq_rev, H1, mq_rev, rev_involutive, <- !mq_app, slice_glue by exact Hse. reflexivity.
      + pose proof (mq_flag_while c (cluster last) (slice l s e)) as H1.
        destruct (flag_while_ne_fwd c (cluster last) m (slice l s e)) as [mid' ap]. intros E; inversion E; subst. cbn [fst] in *.
        rewrite !mq_app, H1, <- !mq_app, slice_glue by exact Hse. reflexivity.
  Qed.


  Lemma set_glyph_flags_mq b s e interior from_out b' :
    set_glyph_flags b m s e interior from_out = Ok b' -> mq (pre b' ++ rest b') = mq (pre b ++ rest b).
  Proof.
    unfold set_glyph_flags.
    set (s0 := match s with Some x => x | None => 0%nat end).
    set (e0 := Nat.min (match e with Some x => x | None => blen b end) (blen b)).
    destruct (e0 <? s0)%nat eqn:Ees.
    - cbn [andb].
      destruct interior, from_out; cbn [andb negb]; try discriminate; try (intros E; inversion E; subst; reflexivity).
      + (* interior, from_out *) destruct (out_mode b) eqn:Eo; cbn [negb andb]; [|discriminate].
        cbn [orb]. cbn [out_mode with_scratch negb]. rewrite Eo. cbn [negb pre rest dead level with_scratch].
        destruct (length (pre b) <? s0)%nat eqn:E1; [discriminate|]. apply Nat.ltb_ge in E1.
        destruct (e0 <? dead b)%nat; [discriminate|].
        destruct (find_min_cluster (level b) (rest b) 0 (e0 - dead b) U32_MAX) as [c1|]; cbn [bind]; [|discriminate].
        destruct (find_min_cluster (level b) (pre b) s0 (length (pre b)) c1) as [c|]; cbn [bind]; [|discriminate].
        destruct (infos_set_glyph_flags (level b) (pre b) s0 (length (pre b)) c m) as [r1|] eqn:F1; cbn [bind]; [|discriminate].
        destruct (infos_set_glyph_flags (level b) (rest b) 0 (e0 - dead b) c m) as [r2|] eqn:F2; cbn [bind]; [|discriminate].
        intros E; inversion E; subst.
        destruct (add_scratch_frame (add_scratch (with_pr (with_scratch b (N.lor (scratch b) SCRATCH_HAS_GLYPH_FLAGS)) (fst r1) (fst r2) (dead b)) (snd r1)) (snd r2)) as [-> ->].
        destruct (add_scratch_frame (with_pr (with_scratch b (N.lor (scratch b) SCRATCH_HAS_GLYPH_FLAGS)) (fst r1) (fst r2) (dead b)) (snd r1)) as [-> ->].
        cbn. rewrite !mq_app.
        rewrite (infos_set_glyph_flags_mq _ _ _ _ _ _ E1 F1), (infos_set_glyph_flags_mq _ _ _ _ _ _ (Nat.le_0_l _) F2). reflexivity.
      + (* not interior, from_out *) destruct (out_mode b) eqn:Eo; cbn [negb andb]; [|intros E; inversion E; subst; reflexivity].
        cbn [orb]. cbn [out_mode with_scratch negb]. rewrite Eo. cbn [negb pre rest dead level with_scratch].
        destruct (length (pre b) <? s0)%nat; [discriminate|]. destruct (e0 <? dead b)%nat; [discriminate|].
        intros E; inversion E; subst. cbn. rewrite !mq_app, !mq_map_range_mask. reflexivity.
    - apply Nat.ltb_ge in Ees. cbn [andb].
      destruct (interior && negb from_out && (e0 - s0 <? 2)%nat)%bool; [intros E; inversion E; subst; reflexivity|].
      cbv zeta.
      destruct (negb from_out || negb (out_mode (with_scratch b (N.lor (scratch b) SCRATCH_HAS_GLYPH_FLAGS))))%bool.
      + cbn [out_mode with_scratch pre rest dead level].
        destruct (out_mode b).
        * destruct (s0 <? dead b)%nat; [discriminate|].
          destruct (negb interior).
          -- intros E; inversion E; subst. cbn. rewrite !mq_app, mq_map_range_mask. reflexivity.
          -- destruct (find_min_cluster (level b) (rest b) (s0 - dead b) (e0 - dead b) U32_MAX) as [c|]; cbn [bind]; [|discriminate].
             destruct (infos_set_glyph_flags (level b) (rest b) (s0 - dead b) (e0 - dead b) c m) as [r|] eqn:F; cbn [bind]; [|discriminate].
             intros E; inversion E; subst.
             destruct (add_scratch_frame (with_pr (with_scratch b (N.lor (scratch b) SCRATCH_HAS_GLYPH_FLAGS)) (pre b) (fst r) (dead b)) (snd r)) as [-> ->].
             assert (Lse : (s0 - dead b <= e0 - dead b)%nat) by (clear - Ees; lia).
             cbn. rewrite !mq_app. rewrite (infos_set_glyph_flags_mq _ _ _ _ _ _ Lse F). reflexivity.
        * destruct (negb interior).
          -- intros E; inversion E; subst. cbn. rewrite firstn_skipn, mq_map_range_mask. reflexivity.
          -- destruct (find_min_cluster (level b) (pre b ++ rest b) s0 e0 U32_MAX) as [c|]; cbn [bind]; [|discriminate].
             destruct (infos_set_glyph_flags (level b) (pre b ++ rest b) s0 e0 c m) as [r|] eqn:F; cbn [bind]; [|discriminate].
             intros E; inversion E; subst.
             destruct (add_scratch_frame (with_pr (with_scratch b (N.lor (scratch b) SCRATCH_HAS_GLYPH_FLAGS)) (firstn (dead b) (fst r)) (skipn (dead b) (fst r)) (dead b)) (snd r)) as [-> ->].
             cbn. rewrite firstn_skipn. apply (infos_set_glyph_flags_mq _ _ _ _ _ _ Ees F).
      + cbn [out_mode with_scratch pre rest dead level].
        destruct (length (pre b) <? s0)%nat eqn:E1; [discriminate|]. apply Nat.ltb_ge in E1.
        destruct (e0 <? dead b)%nat; [discriminate|].
        destruct (negb interior).
        * intros E; inversion E; subst. cbn. rewrite !mq_app, !mq_map_range_mask. reflexivity.
        * destruct (find_min_cluster (level b) (rest b) 0 (e0 - dead b) U32_MAX) as [c1|]; cbn [bind]; [|discriminate].
          destruct (find_min_cluster (level b) (pre b) s0 (length (pre b)) c1) as [c|]; cbn [bind]; [|discriminate].
          destruct (infos_set_glyph_flags (level b) (pre b) s0 (length (pre b)) c m) as [r1|] eqn:F1; cbn [bind]; [|discriminate].
          destruct (infos_set_glyph_flags (level b) (rest b) 0 (e0 - dead b) c m) as [r2|] eqn:F2; cbn [bind]; [|discriminate].
          intros E; inversion E; subst.
          destruct (add_scratch_frame (add_scratch (with_pr (with_scratch b (N.lor (scratch b) SCRATCH_HAS_GLYPH_FLAGS)) (fst r1) (fst r2) (dead b)) (snd r1)) (snd r2)) as [-> ->].
          destruct (add_scratch_frame (with_pr (with_scratch b (N.lor (scratch b) SCRATCH_HAS_GLYPH_FLAGS)) (fst r1) (fst r2) (dead b)) (snd r1)) as [-> ->].
          cbn. rewrite !mq_app.
          rewrite (infos_set_glyph_flags_mq _ _ _ _ _ _ E1 F1), (infos_set_glyph_flags_mq _ _ _ _ _ _ (Nat.le_0_l _) F2). reflexivity.
  Qed.

End FlagFrame.

(* instances: glyph ids always; feature bits when the value written consists of flag bits only *)
Lemma gid_or_mask m x : gid (or_mask m x) = gid x.
Proof. reflexivity. Qed.

Theorem set_glyph_flags_gids b m s e interior from_out b' :
  set_glyph_flags b m s e interior from_out = Ok b' -> map gid (pre b' ++ rest b') = map gid (pre b ++ rest b).
Proof. apply (set_glyph_flags_mq _ gid m (gid_or_mask m)). Qed.

Theorem set_glyph_flags_fbits b m s e interior from_out b' : N.ldiff m GLYPH_FLAGS_DEFINED = 0 ->
  set_glyph_flags b m s e interior from_out = Ok b' -> map fbits (pre b' ++ rest b') = map fbits (pre b ++ rest b).
Proof. intro Hm. apply (set_glyph_flags_mq _ fbits m (fun x => fbits_or_mask m x Hm)). Qed.
