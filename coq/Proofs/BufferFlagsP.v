(* Proofs/BufferFlagsP.v — what the flag-setting primitives of the buffer guarantee (C03):
   on a non-decreasing range the minimum cluster is found without scanning (level 0), and
   unsafe_to_break flags exactly the glyphs of the range whose cluster is not the minimum, i.e. every
   cluster boundary strictly inside the range. *)
From Coq Require Import List NArith Bool Arith Lia Sorted.
From RB Require Import Base.Result Model.Buffer Model.BufferOps Proofs.BufferMonoP.
Import ListNotations.
Local Open Scope N_scope.

Definition flag_ne (c m : N) (x : info) : info := if cluster x =? c then x else or_mask m x.
Definition ni_info (L : list info) : Prop := StronglySorted (fun a b => cluster b <= cluster a) L.

Lemma slice_In {A} (l : list A) s e x : In x (slice l s e) -> In x (skipn s l).
Proof. unfold slice. apply In_firstn. Qed.

Lemma skipn_nth_cons {A} : forall (l : list A) s x, nth_error l s = Some x -> skipn s l = x :: skipn (S s) l.
Proof. induction l as [|y l IH]; intros [|s] x H; cbn in *; try discriminate; [congruence|apply IH, H]. Qed.

Lemma first_le_rest l s first x :
  nd (cls l) -> nth_error l s = Some first -> In x (skipn s l) -> cluster first <= cluster x.
Proof.
  intros Hnd E1 Hx. rewrite (skipn_nth_cons l s first E1) in Hx. destruct Hx as [<-|Hx]; [apply N.le_refl|].
  apply (cls_cross l (S s)); [exact Hnd|apply nth_error_firstn_S, E1|exact Hx].
Qed.

(* the minimum of a non-decreasing range is its first element's cluster: levels 0 and 1 agree *)
Lemma find_min_cluster_nd lvl l s e init first :
  nd (cls l) -> (s < e)%nat -> (e <= length l)%nat -> nth_error l s = Some first ->
  find_min_cluster lvl l s e init = Ok (N.min init (cluster first)).
Proof.
  intros Hnd Hse Hel E1. unfold find_min_cluster.
  destruct (s =? e)%nat eqn:E; [apply Nat.eqb_eq in E; lia|]. rewrite E1.
  destruct (nth_error l (e - 1)) as [last|] eqn:E2.
  2:{ apply nth_error_None in E2. lia. }
  assert (Hfl : cluster first <= cluster last).
  { apply (first_le_rest l s); [exact Hnd|exact E1|].
    apply (In_skipn_le last l s (e - 1)); [lia|apply nth_error_skipn_In, E2]. }
  f_equal. rewrite (N.min_l _ _ Hfl).
  destruct (lvl =? 1); [|reflexivity].
  assert (Hscan : forall L a, (forall x, In x L -> cluster first <= cluster x) ->
                   N.min (fold_left (fun c i => N.min c (cluster i)) L a) (cluster first) = N.min a (cluster first)).
  { induction L as [|y L IH]; intros a HL; cbn; [reflexivity|].
    rewrite IH by (intros x Hx; apply HL; right; exact Hx).
    pose proof (HL y (or_introl eq_refl)) as Hy. lia. }
  unfold min_cluster_list. apply Hscan. intros x Hx.
  apply slice_In in Hx. eapply first_le_rest; eauto.
Qed.

(* once the cluster equals the lower bound c on a non-increasing list, it stays c *)
Lemma ni_tail_all_c c : forall L x, ni_info (x :: L) -> cluster x = c -> (forall y, In y L -> c <= cluster y) ->
  map (flag_ne c 0) L = L /\ forall m, map (flag_ne c m) L = L.
Proof.
  intros L x Hs Ex Hge. assert (Hall : forall y, In y L -> cluster y = c).
  { intros y Hy. inversion Hs as [|a b Hs' Hf]; subst. rewrite Forall_forall in Hf. specialize (Hf y Hy). specialize (Hge y Hy). lia. }
  assert (G : forall m, map (flag_ne c m) L = L).
  { intros m. clear - Hall. induction L as [|y L IH]; cbn; [reflexivity|].
    unfold flag_ne at 1. rewrite (Hall y (or_introl eq_refl)), N.eqb_refl. f_equal. apply IH. intros z Hz. apply Hall. right. exact Hz. }
  split; [apply G|exact G].
Qed.

(* the backward loop of _infos_set_glyph_flags on a non-increasing list whose elements are all >= c:
   it flags exactly the elements whose cluster is not c *)
Lemma flag_while_nonincreasing c m : forall L,
  (forall x, In x L -> c <= cluster x) -> ni_info L ->
  fst (flag_while_ne_fwd c c m L) = map (flag_ne c m) L.
Proof.
  induction L as [|x L IH]; intros Hge Hs; cbn; [reflexivity|].
  destruct (cluster x =? c) eqn:E.
  - apply N.eqb_eq in E. cbn. unfold flag_ne at 1. rewrite E, N.eqb_refl. f_equal.
    destruct (ni_tail_all_c c L x Hs E (fun y Hy => Hge y (or_intror Hy))) as [_ G]. symmetry. apply G.
  - inversion Hs as [|a b Hs' Hall]; subst.
    specialize (IH (fun w Hw => Hge w (or_intror Hw)) Hs').
    destruct (flag_while_ne_fwd c c m L) as [t' a]. cbn in IH. cbn. unfold flag_ne at 1. rewrite E. f_equal. exact IH.
Qed.

Lemma ni_snoc x : forall M, ni_info M -> (forall z, In z M -> cluster x <= cluster z) -> ni_info (M ++ [x]).
Proof.
  induction M as [|z M IHM]; intros HM Hx; cbn; [constructor; constructor|].
  inversion HM; subst. constructor; [apply IHM; auto; intros w Hw; apply Hx; right; exact Hw|].
  apply Forall_app. split; [assumption|constructor; [apply Hx; left; reflexivity|constructor]].
Qed.

Lemma nd_rev_ni L : nd (cls L) -> ni_info (rev L).
Proof.
  induction L as [|x L IH]; intros Hs; cbn; [constructor|].
  unfold nd in Hs. cbn in Hs. inversion Hs as [|y L' Hs' Hall]; subst.
  apply ni_snoc; [apply IH, Hs'|]. intros z Hz. apply in_rev in Hz.
  rewrite Forall_forall in Hall. apply Hall. apply in_map. exact Hz.
Qed.

(* interior flagging on a non-decreasing array at the monotone levels: exactly the glyphs of [s,e)
   whose cluster differs from the range minimum (= the first element's cluster) get the mask *)
Theorem infos_set_glyph_flags_nd lvl l s e m first :
  lvl <> 2 -> nd (cls l) -> (s < e)%nat -> (e <= length l)%nat -> nth_error l s = Some first ->
  exists ap, infos_set_glyph_flags lvl l s e (cluster first) m =
    Ok (firstn s l ++ map (flag_ne (cluster first) m) (slice l s e) ++ skipn e l, ap).
Proof.
  intros Hl Hnd Hse Hel E1. unfold infos_set_glyph_flags.
  destruct (s =? e)%nat eqn:E; [apply Nat.eqb_eq in E; lia|]. rewrite E1.
  destruct (nth_error l (e - 1)) as [last|] eqn:E2.
  2:{ apply nth_error_None in E2. lia. }
  destruct (lvl =? 2) eqn:El; [apply N.eqb_eq in El; contradiction|].
  rewrite N.eqb_refl. cbn [negb andb orb].
  pose proof (flag_while_nonincreasing (cluster first) m (rev (slice l s e))) as HF.
  destruct (flag_while_ne_fwd (cluster first) (cluster first) m (rev (slice l s e))) as [r ap] eqn:EF.
  cbn [fst] in HF. exists ap. rewrite HF.
  - rewrite <- map_rev, rev_involutive. reflexivity.
  - intros x Hx. apply in_rev in Hx. apply slice_In in Hx. eapply first_le_rest; eauto.
  - apply nd_rev_ni. unfold slice. rewrite cls_firstn, cls_skipn. apply nd_firstn, nd_skipn, Hnd.
Qed.

(* level 2: every glyph of the range whose cluster differs from the given cluster is flagged *)
Theorem infos_set_glyph_flags_lvl2 l s e c m first last :
  (s < e)%nat -> nth_error l s = Some first -> nth_error l (e - 1) = Some last ->
  infos_set_glyph_flags 2 l s e c m =
    Ok (firstn s l ++ map (flag_ne c m) (slice l s e) ++ skipn e l,
        existsb (fun x => negb (cluster x =? c)) (slice l s e)).
Proof.
  intros Hse E1 E2. unfold infos_set_glyph_flags.
  destruct (s =? e)%nat eqn:E; [apply Nat.eqb_eq in E; lia|]. rewrite E1, E2. reflexivity.
Qed.

(* set_cluster keeps the flags of a glyph whose cluster does not change *)
Lemma set_cluster_same x m : set_cluster x (cluster x) m = x.
Proof. unfold set_cluster. rewrite N.eqb_refl. reflexivity. Qed.

(* the flagged glyphs really carry the mask bits; nothing else of the glyph changes *)
Lemma flag_ne_has_mask c m x : cluster x <> c -> N.land (mask (flag_ne c m x)) m = m.
Proof.
  intros H. unfold flag_ne. destruct (cluster x =? c) eqn:E; [apply N.eqb_eq in E; contradiction|].
  cbn. apply N.bits_inj. intros n. rewrite N.land_spec, N.lor_spec. destruct (N.testbit m n); [rewrite orb_true_r; reflexivity|apply andb_false_r].
Qed.

Lemma flag_ne_keeps c m x : cluster (flag_ne c m x) = cluster x /\ gid (flag_ne c m x) = gid x.
Proof. unfold flag_ne. destruct (cluster x =? c); cbn; auto. Qed.

(* buffer level: unsafe_to_break(start, end) in in-place mode on a non-decreasing buffer at a monotone
   level (cluster values are u32 in the code: the hypothesis cluster first <= U32_MAX is that domain) *)
Theorem unsafe_to_break_inplace_nd b s e first :
  out_mode b = false -> level b <> 2 -> Mono b -> (s + 2 <= e)%nat -> (e <= blen b)%nat ->
  nth_error (pre b ++ rest b) s = Some first -> dead b = length (pre b) -> cluster first <= U32_MAX ->
  exists b', unsafe_to_break b (Some s) (Some e) = Ok b' /\
    pre b' ++ rest b' = firstn s (arr b) ++ map (flag_ne (cluster first) BREAK_CONCAT) (slice (arr b) s e) ++ skipn e (arr b).
Proof.
  intros Hout Hl HM Hse He E1 Hd Hu. unfold unsafe_to_break, set_glyph_flags.
  assert (Hlen : blen b = length (pre b ++ rest b)) by (unfold blen; rewrite app_length, Hd; reflexivity).
  rewrite (Nat.min_l e (blen b)) by exact He.
  destruct (e <? s)%nat eqn:Ees; [apply Nat.ltb_lt in Ees; lia|]. cbn [andb].
  destruct (e - s <? 2)%nat eqn:E2; [apply Nat.ltb_lt in E2; lia|]. cbn [andb negb].
  cbv zeta. cbn [orb out_mode with_scratch pre rest dead level]. rewrite Hout.
  assert (L1 : (s < e)%nat) by lia. assert (L2 : (e <= length (pre b ++ rest b))%nat) by lia.
  rewrite (find_min_cluster_nd (level b) (pre b ++ rest b) s e U32_MAX first HM L1 L2 E1).
  cbn [bind]. rewrite (N.min_r _ _ Hu).
  destruct (infos_set_glyph_flags_nd (level b) (pre b ++ rest b) s e BREAK_CONCAT first Hl HM L1 L2 E1) as [ap Hap].
  rewrite Hap. cbn [bind fst snd].
  eexists. split; [reflexivity|].
  match goal with |- pre (add_scratch ?x ?a) ++ rest (add_scratch ?x ?a) = _ => destruct (add_scratch_frame x a) as [-> ->] end.
  cbn. rewrite firstn_skipn. reflexivity.
Qed.
