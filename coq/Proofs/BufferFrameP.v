(* Proofs/BufferFrameP.v — the fields no buffer operation ever writes: the length budget max_len, the
   cluster level and the buffer flags are the same after every operation and every operation sequence.
   Used to drop the `max_len b' = max_len b` hypothesis of the output-length bound (C01). *)
From Coq Require Import List NArith Bool Arith Lia.
From RB Require Import Base.Result Model.Buffer Model.BufferOps.
Import ListNotations.
Local Open Scope N_scope.

Definition F (b b' : zbuf) : Prop := max_len b' = max_len b /\ level b' = level b /\ bflags b' = bflags b.

Lemma F_refl b : F b b. Proof. repeat split. Qed.
Lemma F_trans a b c : F a b -> F b c -> F a c.
Proof. intros [A1 [A2 A3]] [B1 [B2 B3]]. repeat split; congruence. Qed.

Lemma F_with_pr b p r d : F b (with_pr b p r d). Proof. repeat split. Qed.
Lemma F_with_ok b o : F b (with_ok b o). Proof. repeat split. Qed.
Lemma F_with_scratch b s : F b (with_scratch b s). Proof. repeat split. Qed.
Lemma F_add_scratch b a : F b (add_scratch b a). Proof. unfold add_scratch. destruct a; repeat split. Qed.
Lemma F_of_arr b a : F b (of_arr b a). Proof. repeat split. Qed.

Ltac Ftrans x := apply (F_trans _ x _).

Lemma F_ensure b n : F b (snd (ensure b n)).
Proof. unfold ensure. destruct (_ <? _)%nat; [apply F_refl|]. destruct (_ <? _); [apply F_with_ok|apply F_refl]. Qed.

Lemma F_make_room b n : F b (snd (make_room_for b n)).
Proof. apply F_ensure. Qed.

Lemma F_merge_clusters b s e b' : merge_clusters b s e = Ok b' -> F b b'.
Proof.
  unfold merge_clusters. destruct (_ <? _)%nat; [intros E; inversion E; apply F_refl|].
  destruct (level b =? 2); [intros E; inversion E; apply F_refl|].
  destruct (out_mode b).
  - destruct (_ <? _)%nat; [discriminate|]. destruct (merge_array _ _ _) as [[[r c0] c]|]; cbn [bind]; [|discriminate].
    intros E; inversion E. apply F_with_pr.
  - destruct (merge_array _ _ _) as [[[r c0] c]|]; cbn [bind]; [|discriminate]. intros E; inversion E. apply F_with_pr.
Qed.

Lemma F_set_glyph_flags b m s e i fo b' : set_glyph_flags b m s e i fo = Ok b' -> F b b'.
Proof.
  unfold set_glyph_flags.
  repeat match goal with
         | |- (if ?c then _ else _) = _ -> _ => destruct c
         | |- (let b := _ in _) = _ -> _ => cbv zeta
         end;
  try discriminate;
  try (intros E; inversion E; subst; repeat split; reflexivity);
  cbn [bind];
  repeat match goal with
         | |- (do _ <- ?x; _) = _ -> _ => destruct x as [?|]; cbn [bind]; [|discriminate]
         end;
  try (intros E; inversion E; subst);
  repeat match goal with |- F _ (add_scratch _ _) => eapply F_trans; [|apply F_add_scratch] end;
  repeat split; reflexivity.
Qed.

Lemma F_merge_clusters_full b s e b' : merge_clusters_full b s e = Ok b' -> F b b'.
Proof.
  unfold merge_clusters_full. destruct (_ <? _)%nat; [intros E; inversion E; apply F_refl|].
  destruct (level b =? 2); [apply F_set_glyph_flags|apply F_merge_clusters].
Qed.

Lemma F_merge_out_clusters b s e b' : merge_out_clusters b s e = Ok b' -> F b b'.
Proof.
  unfold merge_out_clusters. destruct (level b =? 2); [intros E; inversion E; apply F_refl|].
  destruct (_ <? _)%nat; [intros E; inversion E; apply F_refl|].
  destruct (nth_error _ _); [|discriminate]. destruct (nth_error _ _); [|discriminate].
  intros E; inversion E. apply F_with_pr.
Qed.

Lemma F_next_glyph b b' : next_glyph b = Ok b' -> F b b'.
Proof.
  unfold next_glyph. destruct (rest b); [discriminate|]. pose proof (F_make_room b 1) as H.
  destruct (out_mode b).
  - destruct (make_room_for b 1) as [okk b1]. cbn [snd] in H. destruct okk; intros E; inversion E; subst; [|exact H].
    Ftrans b1; [exact H|apply F_with_pr].
  - intros E; inversion E. apply F_with_pr.
Qed.

Lemma F_next_glyphs b n b' : next_glyphs b n = Ok b' -> F b b'.
Proof.
  unfold next_glyphs. destruct (_ <? _)%nat; [discriminate|]. pose proof (F_make_room b n) as H.
  destruct (out_mode b).
  - destruct (make_room_for b n) as [okk b1]. cbn [snd] in H. destruct okk; intros E; inversion E; subst; [|exact H].
    Ftrans b1; [exact H|apply F_with_pr].
  - intros E; inversion E. apply F_with_pr.
Qed.

Lemma F_skip_glyph b b' : skip_glyph b = Ok b' -> F b b'.
Proof. unfold skip_glyph. destruct (rest b); [discriminate|]. intros E; inversion E. apply F_with_pr. Qed.

Lemma F_replace_glyph b g b' : replace_glyph b g = Ok b' -> F b b'.
Proof.
  unfold replace_glyph. destruct (rest b); [discriminate|]. pose proof (F_make_room b 1) as H.
  destruct (make_room_for b 1) as [okk b1]. cbn [snd] in H. destruct okk; intros E; inversion E; subst; [|exact H].
  Ftrans b1; [exact H|apply F_with_pr].
Qed.

Lemma F_replace_glyphs b n gs b' : replace_glyphs b n gs = Ok b' -> F b b'.
Proof.
  unfold replace_glyphs. pose proof (F_make_room b (length gs)) as H.
  destruct (make_room_for b (length gs)) as [okk b1]. cbn [snd] in H.
  destruct (negb okk); [intros E; inversion E; subst; exact H|].
  destruct (_ <? _)%nat; [discriminate|].
  destruct (merge_clusters_full b (dead b) (dead b + n)) as [b2|] eqn:Em; cbn [bind]; [|discriminate].
  destruct (rest b2); [discriminate|]. intros E; inversion E.
  Ftrans b2; [eapply F_merge_clusters_full; eauto|apply F_with_pr].
Qed.

Lemma F_output_glyph b g b' : output_glyph b g = Ok b' -> F b b'.
Proof.
  unfold output_glyph. pose proof (F_make_room b 1) as H.
  destruct (make_room_for b 1) as [okk b1]. cbn [snd] in H.
  destruct (negb okk); [intros E; inversion E; subst; exact H|].
  destruct (rest b); [destruct (rev (pre b))|]; intros E; inversion E; try apply F_refl; apply F_with_pr.
Qed.

Lemma F_output_info b i b' : output_info b i = Ok b' -> F b b'.
Proof.
  unfold output_info. pose proof (F_make_room b 1) as H.
  destruct (make_room_for b 1) as [okk b1]. cbn [snd] in H.
  destruct (negb okk); intros E; inversion E; subst; [exact H|apply F_with_pr].
Qed.

Lemma F_copy_glyph b b' : copy_glyph b = Ok b' -> F b b'.
Proof.
  unfold copy_glyph. pose proof (F_make_room b 1) as H.
  destruct (make_room_for b 1) as [okk b1]. cbn [snd] in H.
  destruct (negb okk); [intros E; inversion E; subst; exact H|].
  destruct (rest b); [discriminate|]. intros E; inversion E. apply F_with_pr.
Qed.

Lemma F_delete_glyph b b' : delete_glyph b = Ok b' -> F b b'.
Proof.
  unfold delete_glyph. destruct (rest b) as [|x t]; [discriminate|].
  destruct (_ || _)%bool; [apply F_skip_glyph|].
  destruct (_ && _)%bool.
  - destruct (last_cluster (pre b)); [|discriminate]. intros E. apply F_skip_glyph in E.
    eapply F_trans; [|exact E]. apply F_with_pr.
  - destruct t; [apply F_skip_glyph|].
    destruct (merge_clusters_full b (dead b) (dead b + 2)) as [b1|] eqn:Em; cbn [bind]; [|discriminate].
    intros E. apply F_skip_glyph in E. Ftrans b1; [eapply F_merge_clusters_full; eauto|exact E].
Qed.

Lemma F_move_to b i r b' : move_to b i = Ok (r, b') -> F b b'.
Proof.
  unfold move_to. destruct (negb (out_mode b)).
  - destruct (_ <? _)%nat; [discriminate|]. intros E; inversion E. apply F_with_pr.
  - destruct (negb (ok b)); [intros E; inversion E; apply F_refl|].
    destruct (_ <? _)%nat; [discriminate|]. destruct (_ <? _)%nat.
    + pose proof (F_make_room b (i - length (pre b))) as H. destruct (make_room_for b (i - length (pre b))) as [okk b1]. cbn [snd] in H.
      destruct (negb okk); intros E; inversion E; subst; [exact H|apply F_with_pr].
    + destruct (_ <? _)%nat; [|intros E; inversion E; apply F_refl].
      destruct (_ <? _)%nat.
      * match goal with |- context [ensure b ?n] => pose proof (F_ensure b n) as H; destruct (ensure b n) as [okk b1] end. cbn [snd] in H.
        destruct (negb okk); intros E; inversion E; subst; [exact H|apply F_with_pr].
      * intros E; inversion E. apply F_with_pr.
Qed.

Lemma F_clear_output b : F b (clear_output b).
Proof. unfold clear_output. destruct (out_mode b); repeat split. Qed.

Lemma F_sync b b' : sync b = Ok (Some b') -> F b b'.
Proof.
  unfold sync. destruct (negb (out_mode b)); [discriminate|]. destruct (negb (ok b)); [discriminate|].
  destruct (next_glyphs b (length (rest b))) as [b1|] eqn:E1; cbn [bind]; [|discriminate].
  destruct (negb (ok b1)); [discriminate|]. intros E; inversion E. repeat split.
Qed.

Lemma F_reverse_range b s e b' : reverse_range b s e = Ok b' -> F b b'.
Proof.
  unfold reverse_range. destruct (_ <? _)%nat; [intros E; inversion E; apply F_refl|].
  destruct (_ <? _)%nat; [discriminate|]. intros E; inversion E. apply F_of_arr.
Qed.

Lemma F_reverse b b' : reverse b = Ok b' -> F b b'.
Proof. apply F_reverse_range. Qed.

Lemma F_reset_masks b m : F b (reset_masks b m). Proof. apply F_of_arr. Qed.
Lemma F_set_masks b v m cs ce : F b (set_masks b v m cs ce).
Proof. unfold set_masks. destruct (m =? 0); [apply F_refl|]. cbv zeta. destruct (_ && _)%bool; apply F_of_arr. Qed.

Lemma F_sort_loop cmp start is : forall b b', sort_loop cmp b start is = Ok b' -> F b b'.
Proof.
  induction is as [|i t IH]; intros b b'; cbn [sort_loop]; [intros E; inversion E; apply F_refl|].
  destruct (nth_error (arr b) i); [|discriminate]. destruct (_ =? _)%nat; [apply IH|].
  destruct (merge_clusters_full b _ (S i)) as [b1|] eqn:Em; cbn [bind]; [|discriminate].
  intros E. apply IH in E. Ftrans b1; [eapply F_merge_clusters_full; eauto|].
  eapply F_trans; [apply F_of_arr|exact E].
Qed.

Lemma F_rg_loop grp merge is : forall b start b', rg_loop grp merge b start is = Ok b' -> F b b'.
Proof.
  induction is as [|i t IH]; intros b start b'; cbn [rg_loop].
  - destruct (if merge then merge_clusters_full b start (blen b) else Ok b) as [b1|] eqn:E1; cbn [bind]; [|discriminate].
    destruct (reverse_range b1 start (blen b1)) as [b2|] eqn:E2; cbn [bind]; [|discriminate].
    intros E3. Ftrans b1; [destruct merge; [eapply F_merge_clusters_full; eauto|inversion E1; apply F_refl]|].
    Ftrans b2; [eapply F_reverse_range; eauto|eapply F_reverse; eauto].
  - destruct (nth_error (arr b) (i - 1)); [|discriminate]. destruct (nth_error (arr b) i); [|discriminate].
    destruct (grp _ _); [apply IH|].
    destruct (if merge then merge_clusters_full b start i else Ok b) as [b1|] eqn:E1; cbn [bind]; [|discriminate].
    destruct (reverse_range b1 start i) as [b2|] eqn:E2; cbn [bind]; [|discriminate].
    intros E3. apply IH in E3. Ftrans b1; [destruct merge; [eapply F_merge_clusters_full; eauto|inversion E1; apply F_refl]|].
    Ftrans b2; [eapply F_reverse_range; eauto|exact E3].
Qed.

Theorem step_frame b o r b' : step b o = Ok (Some (r, b')) -> F b b'.
Proof.
  destruct o; cbn [step];
  repeat match goal with |- (if ?c then _ else _) = _ -> _ => destruct c; [try discriminate|try discriminate] end.
  - destruct (next_glyph b) eqn:E; [|discriminate]. intros H; inversion H; subst. eapply F_next_glyph; eauto.
  - destruct (next_glyphs b n) eqn:E; [|discriminate]. intros H; inversion H; subst. eapply F_next_glyphs; eauto.
  - destruct (skip_glyph b) eqn:E; [|discriminate]. intros H; inversion H; subst. eapply F_skip_glyph; eauto.
  - destruct (replace_glyph b g) eqn:E; [|discriminate]. intros H; inversion H; subst. eapply F_replace_glyph; eauto.
  - destruct (replace_glyphs b num_in gs) eqn:E; [|discriminate]. intros H; inversion H; subst. eapply F_replace_glyphs; eauto.
  - destruct (output_glyph b g) eqn:E; [|discriminate]. intros H; inversion H; subst. eapply F_output_glyph; eauto.
  - destruct (output_info b i) eqn:E; [|discriminate]. intros H; inversion H; subst. eapply F_output_info; eauto.
  - destruct (copy_glyph b) eqn:E; [|discriminate]. intros H; inversion H; subst. eapply F_copy_glyph; eauto.
  - destruct (delete_glyph b) eqn:E; [|discriminate]. intros H; inversion H; subst. eapply F_delete_glyph; eauto.
  - destruct (move_to b i) as [[r0 b0]|] eqn:E; [|discriminate]. intros H; inversion H; subst. eapply F_move_to; eauto.
  - destruct (merge_clusters_full b s e) eqn:E; [|discriminate]. intros H; inversion H; subst. eapply F_merge_clusters_full; eauto.
  - destruct (merge_out_clusters b s e) eqn:E; [|discriminate]. intros H; inversion H; subst. eapply F_merge_out_clusters; eauto.
  - destruct (unsafe_to_break b s e) eqn:E; [|discriminate]. intros H; inversion H; subst. eapply F_set_glyph_flags; eauto.
  - unfold unsafe_to_concat. destruct (produce_concat b).
    + destruct (set_glyph_flags b UNSAFE_TO_CONCAT s e false false) eqn:E; [|discriminate]. intros H; inversion H; subst. eapply F_set_glyph_flags; eauto.
    + intros H; inversion H; subst. apply F_refl.
  - destruct (unsafe_to_break_from_outbuffer b s e) eqn:E; [|discriminate]. intros H; inversion H; subst. eapply F_set_glyph_flags; eauto.
  - unfold unsafe_to_concat_from_outbuffer. destruct (produce_concat b).
    + destruct (set_glyph_flags b UNSAFE_TO_CONCAT s e false true) eqn:E; [|discriminate]. intros H; inversion H; subst. eapply F_set_glyph_flags; eauto.
    + intros H; inversion H; subst. apply F_refl.
  - intros H; inversion H; subst. apply F_clear_output.
  - destruct (sync b) as [[b0|]|] eqn:E; try discriminate. intros H; inversion H; subst. eapply F_sync; eauto.
  - destruct (reverse b) eqn:E; [|discriminate]. intros H; inversion H; subst. eapply F_reverse; eauto.
  - destruct (reverse_range b s e) eqn:E; [|discriminate]. intros H; inversion H; subst. eapply F_reverse_range; eauto.
  - destruct (reverse_groups grp_cont merge b) eqn:E; [|discriminate]. intros H; inversion H; subst.
    unfold reverse_groups in E. destruct (_ =? _)%nat; [inversion E; apply F_refl|eapply F_rg_loop; eauto].
  - intros H; inversion H; subst. apply F_reset_masks.
  - intros H; inversion H; subst. apply F_set_masks.
  - destruct (sort cmp_v1 b s e) eqn:E; [|discriminate]. intros H; inversion H; subst. eapply F_sort_loop; eauto.
  - destruct (delete_glyphs_inplace (level b) flt_odd (arr b)) as [a t]. intros H; inversion H; subst.
    eapply F_trans; [|apply F_add_scratch]. apply F_with_pr.
Qed.

Theorem run_frame ops : forall b b', run b ops = Ok (Some b') -> F b b'.
Proof.
  induction ops as [|o t IH]; intros b b'; cbn [run]; [intros E; inversion E; apply F_refl|].
  destruct (step b o) as [[[r b1]|]|] eqn:E; try discriminate.
  intros E2. Ftrans b1; [eapply step_frame; eauto|apply IH; exact E2].
Qed.
