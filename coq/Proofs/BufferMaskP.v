(* Proofs/BufferMaskP.v — the FEATURE bits of a glyph's mask (everything outside the three glyph-flag bits) are not
   touched by cluster bookkeeping: set_cluster, merge_clusters and delete_glyph (the paths that rewrite masks while
   clusters merge) leave them, glyph by glyph, as they were.  User-feature values live in those bits (C14): a glyph
   keeps the value it got from the cluster it was entered with, whatever later happens to that cluster. *)
From Coq Require Import List NArith Bool Arith Lia.
From RB Require Import Base.Result Model.Buffer.
Import ListNotations.
Local Open Scope N_scope.

Definition fbits (i : info) : N := N.ldiff (mask i) GLYPH_FLAGS_DEFINED.

Lemma ldiff_lor_flags a m : N.ldiff (N.lor (N.ldiff a GLYPH_FLAGS_DEFINED) (N.land m GLYPH_FLAGS_DEFINED)) GLYPH_FLAGS_DEFINED
  = N.ldiff a GLYPH_FLAGS_DEFINED.
Proof.
  apply N.bits_inj. intro n.
  rewrite !N.ldiff_spec, N.lor_spec, N.ldiff_spec, N.land_spec.
  destruct (N.testbit a n), (N.testbit m n), (N.testbit GLYPH_FLAGS_DEFINED n); reflexivity.
Qed.

Lemma fbits_set_cluster i c m : fbits (set_cluster i c m) = fbits i.
Proof.
  unfold fbits, set_cluster. destruct (cluster i =? c); [reflexivity|]. cbn [mask]. apply ldiff_lor_flags.
Qed.

(* a flag-only value or-ed into the mask (unsafe_to_break / unsafe_to_concat write 1, 2 or 3) *)
Lemma fbits_or_mask m i : N.ldiff m GLYPH_FLAGS_DEFINED = 0 -> fbits (or_mask m i) = fbits i.
Proof.
  intro H. unfold fbits, or_mask, set_mask. cbn [mask].
  apply N.bits_inj. intro n. rewrite !N.ldiff_spec, N.lor_spec.
  assert (Hn : N.testbit (N.ldiff m GLYPH_FLAGS_DEFINED) n = false) by (rewrite H; apply N.bits_0).
  rewrite N.ldiff_spec in Hn.
  destruct (N.testbit (mask i) n), (N.testbit m n), (N.testbit GLYPH_FLAGS_DEFINED n); cbn in *; try reflexivity; discriminate.
Qed.

Section Projection.
  Variable A : Type.
  Variable p : info -> A.
  Variable f : info -> info.
  Hypothesis pf : forall x, p (f x) = p x.

  Lemma map_p_map_range : forall l s e, map p (map_range f s e l) = map p l.
  Proof.
    induction l as [|x t IH]; intros s e; [reflexivity|].
    cbn [map_range]. destruct e as [|e']; [reflexivity|].
    destruct s as [|s']; cbn [map]; rewrite IH; [rewrite pf|]; reflexivity.
  Qed.

  Lemma map_p_map_suffix_run c l : map p (map_suffix_run f c l) = map p l.
  Proof.
    unfold map_suffix_run. set (k := (length l - run_len c (rev l))%nat).
    rewrite map_app, map_map.
    rewrite (map_ext (fun x => p (f x)) p pf).
    rewrite <- map_app, firstn_skipn. reflexivity.
  Qed.
End Projection.

(* ---- generic form: any per-glyph projection that set_cluster leaves alone (the glyph id, the feature bits, the two
   scratch variables) is carried unchanged, glyph by glyph, through merge_clusters and delete_glyph *)
Section Bookkeeping.
  Variable B : Type.
  Variable q : info -> B.
  Hypothesis q_set_cluster : forall i c m, q (set_cluster i c m) = q i.

Lemma merge_array_q l s e l' a b : merge_array l s e = Ok (l', a, b) -> map q l' = map q l.
Proof.
  unfold merge_array. destruct (nth_error l s); [|discriminate]. destruct (nth_error l (e - 1)); [|discriminate].
  intro H. injection H as H _ _. subst l'. apply map_p_map_range. intro x. apply q_set_cluster.
Qed.

Theorem merge_clusters_q b s e b' : merge_clusters b s e = Ok b' ->
  map q (pre b') = map q (pre b) /\ map q (rest b') = map q (rest b)
  \/ out_mode b = false /\ map q (pre b' ++ rest b') = map q (pre b ++ rest b).
Proof.
  unfold merge_clusters.
  destruct (e - s <? 2)%nat; [intro H; injection H as <-; left; split; reflexivity|].
  destruct (level b =? 2); [intro H; injection H as <-; left; split; reflexivity|].
  destruct (out_mode b) eqn:Hm.
  - destruct (s <? dead b)%nat; [discriminate|].
    destruct (merge_array (rest b) (s - dead b) (e - dead b)) as [[[rest' c0] c]|] eqn:Hma; cbn [bind]; [|discriminate].
    intro H. injection H as <-. left. cbn [pre rest with_pr]. split.
    + destruct ((s =? dead b)%nat && negb (c0 =? c)); [|reflexivity].
      apply map_p_map_suffix_run. intro x. apply q_set_cluster.
    + eapply merge_array_q; eassumption.
  - destruct (merge_array (pre b ++ rest b) s e) as [[[arr0 c0] c]|] eqn:Hma; cbn [bind]; [|discriminate].
    intro H. injection H as <-. right. split; [reflexivity|]. cbn [pre rest with_pr].
    rewrite firstn_skipn. eapply merge_array_q; eassumption.
Qed.

(* delete_glyph in output mode (where GSUB deletes), levels 0 and 1: the deleted glyph goes, every other glyph keeps its
   feature bits - in the branch that merges the cluster BACKWARD into the out-buffer too (the mask handed to set_cluster
   there is the deleted glyph's) *)
Theorem delete_glyph_q b b' : out_mode b = true -> level b <> 2 -> delete_glyph b = Ok b' ->
  exists x t, rest b = x :: t /\ map q (pre b') = map q (pre b) /\ map q (rest b') = map q t.
Proof.
  intros Hm Hl. unfold delete_glyph.
  destruct (rest b) as [|x t] eqn:Hr; [discriminate|].
  assert (Hskip : forall b0, rest b0 = x :: t -> out_mode b0 = true -> forall b1, skip_glyph b0 = Ok b1 -> pre b1 = pre b0 /\ rest b1 = t).
  { intros b0 H0 Hm0 b1. unfold skip_glyph. rewrite H0, Hm0. intro H. injection H as <-. cbn [pre rest with_pr]. split; reflexivity. }
  set (next_same := match t with y :: _ => cluster y =? cluster x | [] => false end).
  set (prev_same := match last_cluster (pre b) with Some pc => (0 <? length (pre b))%nat && (pc =? cluster x) | None => false end).
  rewrite Hm. cbn [andb].
  destruct (next_same || prev_same)%bool.
  - intro H. destruct (Hskip b Hr Hm b' H) as [Hp Hrest]. exists x, t. rewrite Hp, Hrest. repeat split; reflexivity.
  - destruct (0 <? length (pre b))%nat.
    + destruct (last_cluster (pre b)) as [old|]; [|discriminate].
      intro H.
      set (pre' := if cluster x <? old then map_suffix_run (fun i => set_cluster i (cluster x) (mask x)) old (pre b) else pre b) in H.
      destruct (Hskip (with_pr b pre' (x :: t) (dead b)) eq_refl Hm b' H) as [Hp Hrest].
      exists x, t. rewrite Hp, Hrest. cbn [pre with_pr]. repeat split; try reflexivity.
      unfold pre'. destruct (cluster x <? old); [|reflexivity].
      apply map_p_map_suffix_run. intro i. apply q_set_cluster.
    + destruct t as [|y t'].
      * intro H. destruct (Hskip b Hr Hm b' H) as [Hp Hrest]. exists x, []. rewrite Hp, Hrest. repeat split; reflexivity.
      * unfold merge_clusters_full.
        destruct (dead b + 2 - dead b <? 2)%nat eqn:E; [apply Nat.ltb_lt in E; lia|].
        apply N.eqb_neq in Hl. rewrite Hl.
        destruct (merge_clusters b (dead b) (dead b + 2)) as [b1|] eqn:Hmc; cbn [bind]; [|discriminate].
        intro H.
        assert (Hm1 : out_mode b1 = true).
        { revert Hmc. unfold merge_clusters. rewrite E, Hl, Hm.
          destruct (dead b <? dead b)%nat; [discriminate|].
          destruct (merge_array (rest b) (dead b - dead b) (dead b + 2 - dead b)) as [[[r0 c0] c]|]; cbn [bind]; [|discriminate].
          intro H0. injection H0 as <-. exact Hm. }
        destruct (merge_clusters_q _ _ _ _ Hmc) as [[Hp Hrs]|[Hf _]]; [|congruence].
        rewrite Hr in Hrs.
        destruct (rest b1) as [|x1 t1] eqn:Hr1; [discriminate Hrs|].
        cbn [map] in Hrs. injection Hrs as _ Ht.
        revert H. unfold skip_glyph. rewrite Hr1, Hm1. intro H. injection H as <-. cbn [pre rest with_pr].
        exists x, (y :: t'). repeat split; [exact Hp|exact Ht].
Qed.

End Bookkeeping.

Lemma merge_array_fbits l s e l' a b : merge_array l s e = Ok (l', a, b) -> map fbits l' = map fbits l.
Proof. apply merge_array_q. exact fbits_set_cluster. Qed.

Theorem merge_clusters_fbits b s e b' : merge_clusters b s e = Ok b' ->
  map fbits (pre b') = map fbits (pre b) /\ map fbits (rest b') = map fbits (rest b)
  \/ out_mode b = false /\ map fbits (pre b' ++ rest b') = map fbits (pre b ++ rest b).
Proof. apply merge_clusters_q. exact fbits_set_cluster. Qed.

Theorem delete_glyph_fbits b b' : out_mode b = true -> level b <> 2 -> delete_glyph b = Ok b' ->
  exists x t, rest b = x :: t /\ map fbits (pre b') = map fbits (pre b) /\ map fbits (rest b') = map fbits t.
Proof. apply delete_glyph_q. exact fbits_set_cluster. Qed.

(* the glyph ids: cluster bookkeeping never changes which glyphs the buffer holds, or their order *)
Lemma gid_set_cluster i c m : gid (set_cluster i c m) = gid i.
Proof. unfold set_cluster. destruct (cluster i =? c); reflexivity. Qed.

Theorem merge_clusters_gids b s e b' : merge_clusters b s e = Ok b' ->
  map gid (pre b' ++ rest b') = map gid (pre b ++ rest b).
Proof.
  intro H. destruct (merge_clusters_q _ gid gid_set_cluster _ _ _ _ H) as [[Hp Hr]|[_ Ha]]; [|exact Ha].
  rewrite !map_app, Hp, Hr. reflexivity.
Qed.

Theorem delete_glyph_gids b b' : out_mode b = true -> level b <> 2 -> delete_glyph b = Ok b' ->
  exists x t, rest b = x :: t /\ map gid (pre b') = map gid (pre b) /\ map gid (rest b') = map gid t.
Proof. apply delete_glyph_q. exact gid_set_cluster. Qed.

(* non-vacuity: the backward-merging branch on a concrete buffer (descending clusters, as in a run shaped against its
   script's direction): the survivor takes cluster 0 and the deleted glyph's FLAG bits, and keeps its own feature bits *)
Example delete_glyph_backward_example :
  let b := mkZ [mkInfo 10 0x100 1 0 0] [mkInfo 11 0x203 0 0 0] 1 true 0 0 true 16384 0 in
  match delete_glyph b with
  | Ok b' => map (fun i => (cluster i, mask i)) (pre b') = [(0, 0x103)] /\ rest b' = []
  | Error _ => False
  end.
Proof. vm_compute. split; reflexivity. Qed.
