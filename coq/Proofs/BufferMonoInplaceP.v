(* Proofs/BufferMonoInplaceP.v — C02: non-decreasing clusters are preserved by the in-place operations
   (merge_clusters, masks, flags, delete_glyphs_inplace, sort, clear_output) at levels 0/1, and the final
   reversal of a non-decreasing buffer is non-increasing.  Extends Proofs/BufferMonoP.v (streaming part). *)
From Coq Require Import List NArith Bool Arith Lia Sorted.
From RB Require Import Base.Result Model.Buffer Model.BufferOps Proofs.BufferMonoP.
Import ListNotations.
Local Open Scope N_scope.

Lemma Mono_of_arr b a : nd (cls a) -> Mono (of_arr b a).
Proof. intros H. unfold Mono, of_arr. cbn [pre rest with_pr]. rewrite firstn_skipn. exact H. Qed.

Lemma arr_of_arr' b a : arr (of_arr b a) = a.
Proof. unfold arr, of_arr. cbn [pre rest with_pr]. apply firstn_skipn. Qed.

Lemma Mono_arr b : Mono b <-> nd (cls (arr b)).
Proof. reflexivity. Qed.

(* in-place state as left by init / sync: nothing consumed *)
Definition Idle0 (b : zbuf) : Prop := out_mode b = false /\ dead b = O /\ pre b = [].

Lemma Idle0_of_arr b a : Idle0 b -> Idle0 (of_arr b a).
Proof. intros [H1 [H2 H3]]. unfold Idle0, of_arr. cbn [out_mode dead pre with_pr]. rewrite H2. cbn. auto. Qed.

(* ---- merge_clusters in place ---- *)
Lemma merge_clusters_inplace_mono b s e b' :
  Mono b -> out_mode b = false -> (e <= length (arr b))%nat -> merge_clusters b s e = Ok b' ->
  Mono b' /\ out_mode b' = false /\ dead b' = dead b /\ level b' = level b /\ length (arr b') = length (arr b).
Proof.
  intros HM Hout He. unfold merge_clusters.
  destruct (e - s <? 2)%nat eqn:E2; [intros E; inversion E; subst; auto|].
  destruct (level b =? 2); [intros E; inversion E; subst; auto|].
  rewrite Hout. apply Nat.ltb_ge in E2.
  destruct (merge_array (pre b ++ rest b) s e) as [[[r c0] c]|] eqn:E; cbn [bind]; [|discriminate].
  intros Heq; inversion Heq; subst; clear Heq.
  assert (Hse : (s < e)%nat) by lia.
  destruct (merge_array_nd _ _ _ _ _ _ HM Hse He E) as [_ [Hnd [_ Hlen]]].
  split; [unfold Mono; cbn [pre rest with_pr]; rewrite firstn_skipn; exact Hnd|].
  repeat split; cbn [out_mode dead level with_pr]; auto.
  unfold arr. cbn [pre rest with_pr]. rewrite firstn_skipn. exact Hlen.
Qed.

Lemma merge_clusters_full_inplace_mono b s e b' :
  Mono b -> Lvl01 b -> out_mode b = false -> (e <= length (arr b))%nat -> merge_clusters_full b s e = Ok b' ->
  Mono b' /\ out_mode b' = false /\ dead b' = dead b /\ level b' = level b /\ length (arr b') = length (arr b).
Proof.
  intros HM HL Hout He. unfold merge_clusters_full.
  destruct (e - s <? 2)%nat; [intros E; inversion E; subst; auto|].
  destruct (level b =? 2) eqn:El; [apply N.eqb_eq in El; contradiction|].
  apply merge_clusters_inplace_mono; assumption.
Qed.

(* ---- masks ---- *)
Lemma cls_map_keep f l : (forall x, cluster (f x) = cluster x) -> cls (map f l) = cls l.
Proof. intros H. unfold cls. rewrite map_map. apply map_ext. exact H. Qed.

Lemma cluster_set_mask i m : cluster (set_mask i m) = cluster i.
Proof. reflexivity. Qed.

Lemma reset_masks_mono b m : Mono b -> Mono (reset_masks b m).
Proof. intros H. unfold reset_masks. apply Mono_of_arr. rewrite cls_map_keep; [exact H|intros; apply cluster_set_mask]. Qed.

Lemma set_masks_mono b v m cs ce : Mono b -> Mono (set_masks b v m cs ce).
Proof.
  intros H. unfold set_masks. destruct (m =? 0); [exact H|].
  destruct ((cs =? 0) && (ce =? U32_MAX))%bool; apply Mono_of_arr; rewrite cls_map_keep; try exact H.
  - intros; apply cluster_set_mask.
  - intros x. destruct ((cs <=? cluster x) && (cluster x <? ce))%bool; reflexivity.
Qed.

(* ---- reversal ---- *)
Definition AMono (b : zbuf) : Prop := ni (cls (arr b)).

Lemma nd_short (l : list N) : (length l < 2)%nat -> nd l.
Proof.
  destruct l as [|x [|y t]]; cbn; intros H; try lia; [constructor|constructor; constructor].
Qed.

Lemma reverse_Mono_AMono b b' : Idle0 b -> Mono b -> reverse b = Ok b' -> AMono b' /\ Idle0 b'.
Proof.
  intros HIP HM. pose proof HIP as [Hout [Hd Hp]]. unfold reverse, reverse_range, blen. rewrite Hd. cbn [Nat.add].
  assert (Ha : arr b = rest b) by (unfold arr; rewrite Hp; reflexivity).
  destruct (length (rest b) - 0 <? 2)%nat eqn:E2.
  - intros E; inversion E; subst. split; [|exact HIP]. unfold AMono, ni. apply nd_short. rewrite rev_length. unfold cls. rewrite map_length, Ha.
    apply Nat.ltb_lt in E2. lia.
  - rewrite Ha. rewrite Nat.ltb_irrefl. intros E; inversion E; subst; clear E. split; [|apply Idle0_of_arr, HIP].
    unfold AMono, ni. rewrite arr_of_arr'. cbn [firstn app]. unfold slice. cbn [skipn]. rewrite Nat.sub_0_r, firstn_all, skipn_all, app_nil_r.
    rewrite cls_rev, rev_involutive. rewrite <- Ha. exact HM.
Qed.

(* ---- delete_glyphs_inplace ---- *)
Lemma nd_set_run_front c l n : (forall x, In x (cls l) -> c <= x) -> nd (cls l) ->
  nd (cls (map (fun i => set_cluster i c 0) (firstn n l) ++ skipn n l)).
Proof.
  intros Hc Hnd. rewrite cls_app, cls_map_set_cluster. apply nd_app. repeat split.
  - apply nd_repeat.
  - rewrite cls_skipn. apply nd_skipn, Hnd.
  - intros a b Ha Hb. apply repeat_spec in Ha. subst a. apply Hc. rewrite cls_skipn in Hb. eapply In_skipn; eauto.
Qed.

Lemma cls_or_mask m x : cluster (or_mask m x) = cluster x.
Proof. reflexivity. Qed.

Lemma dgi_mono lvl flt : forall fuel kept l t,
  lvl <> 2 -> nd (cls (rev kept ++ l)) -> nd (cls (fst (dgi_loop fuel lvl flt kept l t))).
Proof.
  induction fuel as [|fuel IH]; intros kept l t Hl H; cbn [dgi_loop]; [cbn [fst]; exact H|].
  destruct l as [|x tl]; [cbn [fst]; rewrite app_nil_r in H; exact H|].
  destruct (flt x).
  - (* x is deleted *)
    assert (Hrm : nd (cls (rev kept ++ tl))).
    { rewrite cls_app in *. cbn [cls map] in H. eapply nd_remove; exact H. }
    assert (Hback : forall k kr, kept = k :: kr -> (cluster x <? cluster k) = false).
    { intros k kr ->. apply N.ltb_ge. cbn [rev] in H. rewrite <- app_assoc in H. cbn [app] in H.
      rewrite cls_app in H. apply nd_app in H. destruct H as [_ [H2 _]]. cbn [cls map] in H2.
      apply nd_cons in H2. destruct H2 as [_ H2]. inversion H2; subst. assumption. }
    destruct tl as [|y tl'].
    + destruct kept as [|k kr]; [apply IH; [exact Hl|exact Hrm]|].
      rewrite (Hback k kr eq_refl). apply IH; [exact Hl|exact Hrm].
    + destruct (cluster y =? cluster x) eqn:Ey; [apply IH; [exact Hl|exact Hrm]|].
      destruct kept as [|k kr].
      * (* merge forward *)
        destruct (lvl =? 2) eqn:E2; [apply N.eqb_eq in E2; contradiction|].
        cbn [rev app] in *.
        assert (Hxy : cluster x <= cluster y).
        { cbn [cls map] in H. apply nd_cons in H. destruct H as [_ H]. inversion H; subst. assumption. }
        assert (Hmin : N.min (cluster x) (cluster y) = cluster x) by (apply N.min_l; exact Hxy).
        rewrite Hmin. apply IH; [exact Hl|]. cbn [app].
        apply nd_set_run_front; [|exact Hrm].
        intros z Hz. cbn [cls map] in H. apply nd_cons in H. destruct H as [_ H].
        rewrite Forall_forall in H. apply H. exact Hz.
      * rewrite (Hback k kr eq_refl). apply IH; [exact Hl|exact Hrm].
  - apply IH; [exact Hl|]. cbn [rev]. rewrite <- app_assoc. exact H.
Qed.

Lemma delete_inplace_mono b a t :
  Lvl01 b -> Mono b -> delete_glyphs_inplace (level b) flt_odd (arr b) = (a, t) ->
  Mono (add_scratch (with_pr b (firstn (dead b) a) (skipn (dead b) a) (dead b)) t).
Proof.
  intros HL HM E. unfold delete_glyphs_inplace in E.
  pose proof (dgi_mono (level b) flt_odd (length (arr b)) [] (arr b) false HL HM) as H. rewrite E in H. cbn [fst] in H.
  unfold Mono. destruct (add_scratch_frame (with_pr b (firstn (dead b) a) (skipn (dead b) a) (dead b)) t) as [-> ->].
  cbn [pre rest with_pr]. rewrite firstn_skipn. exact H.
Qed.

(* ---- sort (insertion sort with merge_clusters(j, i+1) before each move) ---- *)
Lemma nth_error_skipn' {A} : forall j (a : list A) m, nth_error (skipn j a) m = nth_error a (j + m).
Proof. induction j as [|j IH]; intros [|x a] m; cbn; auto. destruct m; reflexivity. Qed.

Lemma firstn_S_snoc {A} : forall n (l : list A) x, nth_error l n = Some x -> firstn (S n) l = firstn n l ++ [x].
Proof.
  induction n as [|n IH]; intros [|y l] x H; cbn in H; try discriminate.
  - inversion H; subst. reflexivity.
  - rewrite !firstn_cons. rewrite (IH l x H). reflexivity.
Qed.

Lemma slice_snoc {A} (a : list A) j i t : (j <= i)%nat -> nth_error a i = Some t -> slice a j (S i) = slice a j i ++ [t].
Proof.
  intros Hji Hn. unfold slice. replace (S i - j)%nat with (S (i - j)) by lia.
  apply firstn_S_snoc. rewrite nth_error_skipn'. replace (j + (i - j))%nat with i by lia. exact Hn.
Qed.

Lemma cls_all_eq l c : Forall (fun x => cluster x = c) l -> cls l = repeat c (length l).
Proof. induction 1 as [|x l Hx _ IH]; cbn; [reflexivity|]. rewrite Hx. f_equal. exact IH. Qed.

Lemma find_j_le' cmp a x start : forall j, (find_j cmp a x start j <= j)%nat.
Proof.
  induction j as [|j IH]; cbn [find_j]; [lia|]. destruct (start <? S j)%nat; [|lia].
  destruct (nth_error a j) as [y|]; [|lia]. destruct (cmp y x); [|lia]. lia.
Qed.

Lemma cls_move_elem a i j c : (j <= i)%nat -> (i < length a)%nat ->
  Forall (fun x => cluster x = c) (slice a j (S i)) -> cls (move_elem a i j) = cls a.
Proof.
  intros Hji Hi HF. unfold move_elem.
  destruct (nth_error a i) as [t|] eqn:En; [|reflexivity].
  rewrite (slice_snoc a j i t Hji En) in HF. apply Forall_app in HF. destruct HF as [HF1 HF2].
  pose proof (Forall_inv HF2) as Ht. cbn beta in Ht.
  assert (Ha : firstn j a ++ (slice a j i ++ [t]) ++ skipn (S i) a = a).
  { rewrite <- (slice_snoc a j i t Hji En). apply slice_glue. lia. }
  transitivity (cls (firstn j a ++ (slice a j i ++ [t]) ++ skipn (S i) a)); [|f_equal; exact Ha].
  rewrite !cls_app. f_equal. rewrite (cls_all_eq _ _ HF1). cbn [cls map]. rewrite Ht.
  rewrite <- repeat_cons. reflexivity.
Qed.

(* after an in-place merge of [s, e) every glyph of the range carries the merged cluster *)
Lemma merge_array_range l s e r c0 c : (s < e)%nat -> (e <= length l)%nat -> merge_array l s e = Ok (r, c0, c) ->
  Forall (fun x => cluster x = c) (slice r s e).
Proof.
  intros Hse Hel. unfold merge_array.
  destruct (nth_error l s) as [first|] eqn:E1; [|discriminate].
  destruct (nth_error l (e - 1)) as [last|] eqn:E2; [|discriminate].
  intros Heq. inversion Heq; subst; clear Heq.
  set (c := min_cluster_list (slice l (S s) e) (cluster first)).
  set (e' := if c =? cluster last then e else (e + run_len (cluster last) (skipn e l))%nat).
  assert (He' : (e <= e')%nat /\ (e' <= length l)%nat).
  { unfold e'. destruct (c =? cluster last); [lia|]. pose proof (run_len_le (cluster last) (skipn e l)) as Hr.
    rewrite skipn_length in Hr. lia. }
  rewrite (map_range_split _ l s e') by lia.
  unfold slice at 1. rewrite skipn_app. rewrite firstn_length, Nat.min_l by lia. rewrite Nat.sub_diag. cbn [skipn].
  rewrite skipn_all2 by (rewrite firstn_length; lia). cbn [app].
  rewrite firstn_app. rewrite map_length. unfold slice. rewrite firstn_length, skipn_length.
  replace (e - s - Nat.min (e' - s) (length l - s))%nat with O by lia. cbn [firstn]. rewrite app_nil_r.
  apply Forall_forall. intros x Hx. apply In_firstn in Hx. apply in_map_iff in Hx. destruct Hx as [y [<- _]].
  apply cluster_set_cluster_eq.
Qed.

Lemma merge_inplace_range b s e b' :
  Mono b -> Lvl01 b -> out_mode b = false -> (s + 2 <= e)%nat -> (e <= length (arr b))%nat -> merge_clusters_full b s e = Ok b' ->
  exists c, Forall (fun x => cluster x = c) (slice (arr b') s e).
Proof.
  intros HM HL Hout Hse He. unfold merge_clusters_full.
  destruct (e - s <? 2)%nat eqn:E2; [apply Nat.ltb_lt in E2; lia|].
  destruct (level b =? 2) eqn:El; [apply N.eqb_eq in El; contradiction|].
  unfold merge_clusters. rewrite E2, El, Hout.
  destruct (merge_array (pre b ++ rest b) s e) as [[[r c0] c]|] eqn:E; cbn [bind]; [|discriminate].
  intros Heq; inversion Heq; subst; clear Heq. exists c.
  unfold arr. cbn [pre rest with_pr]. rewrite firstn_skipn.
  assert (Hlt : (s < e)%nat) by lia.
  apply (merge_array_range _ _ _ _ _ _ Hlt He E).
Qed.

Lemma sort_loop_mono cmp start is : forall b b',
  Mono b -> Lvl01 b -> out_mode b = false -> sort_loop cmp b start is = Ok b' -> Mono b' /\ out_mode b' = false /\ dead b' = dead b.
Proof.
  induction is as [|i t IH]; intros b b' HM HL Hout; cbn [sort_loop]; [intros E; inversion E; subst; auto|].
  destruct (nth_error (arr b) i) as [x|] eqn:En; [|discriminate].
  set (j := find_j cmp (arr b) x start i).
  destruct (i =? j)%nat eqn:Eij; [apply IH; assumption|].
  apply Nat.eqb_neq in Eij. pose proof (find_j_le' cmp (arr b) x start i) as Hj. fold j in Hj.
  assert (Hi : (i < length (arr b))%nat) by (apply nth_error_Some; rewrite En; discriminate).
  destruct (merge_clusters_full b j (S i)) as [b1|] eqn:Em; cbn [bind]; [|discriminate].
  assert (G1 : (S i <= length (arr b))%nat) by lia.
  assert (G2 : (j + 2 <= S i)%nat) by lia.
  destruct (merge_clusters_full_inplace_mono b j (S i) b1 HM HL Hout G1 Em) as [HM1 [Hout1 [Hd1 [Hl1 Hlen1]]]].
  destruct (merge_inplace_range b j (S i) b1 HM HL Hout G2 G1 Em) as [c HF].
  intros E. 
  assert (HM2 : Mono (of_arr b1 (move_elem (arr b1) i j))).
  { apply Mono_of_arr. rewrite (cls_move_elem (arr b1) i j c); [exact HM1|lia|lia|exact HF]. }
  assert (HL2 : Lvl01 (of_arr b1 (move_elem (arr b1) i j))) by (unfold Lvl01, of_arr; cbn [level with_pr]; rewrite Hl1; exact HL).
  assert (Hout2 : out_mode (of_arr b1 (move_elem (arr b1) i j)) = false) by (unfold of_arr; cbn [out_mode with_pr]; exact Hout1).
  destruct (IH _ _ HM2 HL2 Hout2 E) as [A [B C]]. repeat split; auto.
  rewrite C. unfold of_arr. cbn [dead with_pr]. exact Hd1.
Qed.

Lemma sort_mono cmp b s e b' : Mono b -> Lvl01 b -> out_mode b = false -> sort cmp b s e = Ok b' -> Mono b'.
Proof. intros HM HL Hout E. unfold sort in E. destruct (sort_loop_mono _ _ _ _ _ HM HL Hout E) as [H _]. exact H. Qed.

(* ---- the in-place alphabet and the combined theorem ---- *)
Definition inplace_op (b : zbuf) (o : bop) : Prop :=
  match o with
  | OMergeClusters s e => (e <= length (arr b))%nat
  | OUnsafeToBreak _ _ | OUnsafeToConcat _ _ | OUnsafeToBreakOut _ _ | OUnsafeToConcatOut _ _
  | OResetMasks _ | OSetMasks _ _ _ _ | OSort _ _ | ODeleteInplace | OClearOutput => True
  | _ => False
  end.

Theorem step_mono_inplace b o r b' :
  inplace_op b o -> Mono b -> Lvl01 b -> out_mode b = false ->
  step b o = Ok (Some (r, b')) -> Mono b'.
Proof.
  intros Hs HM HL Hout. destruct o; cbn [inplace_op] in Hs; try contradiction; cbn [step]; rewrite ?Hout; guards.
  - destruct (merge_clusters_full b s e) as [b0|] eqn:E; [|discriminate]. intros Heq; inversion Heq; subst.
    destruct (merge_clusters_full_inplace_mono _ _ _ _ HM HL Hout Hs E) as [H _]. exact H.
  - via set_glyph_flags_mono.
  - unfold unsafe_to_concat. destruct (produce_concat b); [via set_glyph_flags_mono|intros Heq; inversion Heq; subst; exact HM].
  - via set_glyph_flags_mono.
  - unfold unsafe_to_concat_from_outbuffer. destruct (produce_concat b); [via set_glyph_flags_mono|intros Heq; inversion Heq; subst; exact HM].
  - intros Heq; inversion Heq; subst. apply clear_output_mono; assumption.
  - intros Heq; inversion Heq; subst. apply reset_masks_mono; assumption.
  - intros Heq; inversion Heq; subst. apply set_masks_mono; assumption.
  - destruct (sort cmp_v1 b s e) as [b0|] eqn:E; [|discriminate]. intros Heq; inversion Heq; subst. eapply sort_mono; eauto.
  - destruct (delete_glyphs_inplace (level b) flt_odd (arr b)) as [a t] eqn:E. intros Heq; inversion Heq; subst.
    apply delete_inplace_mono; assumption.
Qed.

(* every operation is a streaming operation when issued in output mode, an in-place operation otherwise *)
Definition mode_op_ok (b : zbuf) (o : bop) : Prop := if out_mode b then stream_op b o else inplace_op b o.

Fixpoint guarded2 (b : zbuf) (ops : list bop) : Prop :=
  match ops with
  | [] => True
  | o :: t => mode_op_ok b o /\ Lvl01 b /\ match step b o with Ok (Some (_, b')) => guarded2 b' t | _ => True end
  end.

Theorem run_mono2 ops : forall b b', Mono b -> guarded2 b ops -> run b ops = Ok (Some b') -> Mono b'.
Proof.
  induction ops as [|o t IH]; intros b b' HM HG; cbn [run]; [intros E; inversion E; subst; exact HM|].
  cbn [guarded2] in HG. destruct HG as [Hs [HL HG]].
  destruct (step b o) as [[[r b1]|]|] eqn:E; try discriminate.
  apply IH; [|exact HG]. unfold mode_op_ok in Hs. destruct (out_mode b) eqn:Hout.
  - eapply step_mono; eauto.
  - eapply step_mono_inplace; eauto.
Qed.

(* the result of a backward run: the final reversal of a non-decreasing buffer is non-increasing *)
Theorem run_then_reverse ops b b1 b2 :
  Mono b -> guarded2 b ops -> run b ops = Ok (Some b1) -> Idle0 b1 -> reverse b1 = Ok b2 -> AMono b2.
Proof.
  intros HM HG Hr HIP Hrev. destruct (reverse_Mono_AMono b1 b2 HIP (run_mono2 ops b b1 HM HG Hr) Hrev) as [H _]. exact H.
Qed.

(* ---- a boolean checker for the guard, sound for guarded2 (used for examples and by the correspondence) ---- *)
Definition stream_opb (b : zbuf) (o : bop) : bool :=
  match o with
  | ONextGlyph | ONextGlyphs _ | OSkip | OReplaceGlyph _ | OReplaceGlyphs _ _ | OOutputGlyph _
  | OCopyGlyph | ODeleteGlyph | OMoveTo _ | OSync
  | OUnsafeToBreak _ _ | OUnsafeToConcat _ _ | OUnsafeToBreakOut _ _ | OUnsafeToConcatOut _ _ => true
  | OMergeClusters s e => (dead b <=? s)%nat && (e <=? blen b)%nat
  | _ => false
  end.

Definition inplace_opb (b : zbuf) (o : bop) : bool :=
  match o with
  | OMergeClusters s e => (e <=? length (arr b))%nat
  | OUnsafeToBreak _ _ | OUnsafeToConcat _ _ | OUnsafeToBreakOut _ _ | OUnsafeToConcatOut _ _
  | OResetMasks _ | OSetMasks _ _ _ _ | OSort _ _ | ODeleteInplace | OClearOutput => true
  | _ => false
  end.

Fixpoint guarded2b (b : zbuf) (ops : list bop) : bool :=
  match ops with
  | [] => true
  | o :: t => (if out_mode b then stream_opb b o else inplace_opb b o) && negb (level b =? 2) &&
              match step b o with Ok (Some (_, b')) => guarded2b b' t | _ => true end
  end.

Lemma stream_opb_sound b o : stream_opb b o = true -> stream_op b o.
Proof.
  destruct o; cbn [stream_opb stream_op]; intros H; try discriminate; auto.
  apply andb_true_iff in H. destruct H as [H1 H2]. apply Nat.leb_le in H1, H2. auto.
Qed.

Lemma inplace_opb_sound b o : inplace_opb b o = true -> inplace_op b o.
Proof.
  destruct o; cbn [inplace_opb inplace_op]; intros H; try discriminate; auto. apply Nat.leb_le in H. exact H.
Qed.

Lemma guarded2b_sound ops : forall b, guarded2b b ops = true -> guarded2 b ops.
Proof.
  induction ops as [|o t IH]; intros b H; cbn [guarded2b guarded2] in *; [exact I|].
  apply andb_true_iff in H. destruct H as [H H3]. apply andb_true_iff in H. destruct H as [H1 H2].
  split; [|split].
  - unfold mode_op_ok. destruct (out_mode b); [apply stream_opb_sound|apply inplace_opb_sound]; exact H1.
  - unfold Lvl01. intros E. rewrite E in H2. discriminate.
  - destruct (step b o) as [[[r b1]|]|]; auto.
Qed.

(* non-vacuity: a guarded sequence mixing both modes (clear_output, streaming substitution, sync, in-place
   merge / sort / delete / masks) from a monotone buffer, then the final reversal *)
Definition ex_buf : zbuf := init_buf [mkInfo 1 0 0 3 0; mkInfo 2 0 1 2 0; mkInfo 3 0 1 1 0; mkInfo 4 0 5 0 0] 0 3.
Definition ex_ops : list bop :=
  [OClearOutput; ONextGlyph; OReplaceGlyphs 1 [7; 8]; ONextGlyph; OSync; OMergeClusters 1 3; OSort 0 4; OSetMasks 1 1 0 2; ODeleteInplace].
Lemma ex_guarded : Mono ex_buf /\ guarded2 ex_buf ex_ops /\
  match run ex_buf ex_ops with
  | Ok (Some b1) => Idle0 b1 /\ match reverse b1 with Ok b2 => map cluster (arr b2) = [5; 0] | _ => False end
  | _ => False
  end.
Proof.
  split; [unfold Mono, nd; cbn; repeat constructor; cbn; lia|].
  split; [apply guarded2b_sound; vm_compute; reflexivity|].
  vm_compute. repeat split; reflexivity.
Qed.


(* ---- the whole backward pipeline as one operation sequence: ... ; sync ; reverse ---- *)
Lemma run_app ops1 : forall ops2 b, run b (ops1 ++ ops2) =
  match run b ops1 with Ok (Some b1) => run b1 ops2 | Ok None => Ok None | Error e => Error e end.
Proof.
  induction ops1 as [|o t IH]; intros ops2 b; cbn [run app]; [reflexivity|].
  destruct (step b o) as [[[r b1]|]|]; [apply IH|reflexivity|reflexivity].
Qed.

Lemma sync_Idle0 b b' : sync b = Ok (Some b') -> Idle0 b'.
Proof.
  unfold sync. destruct (negb (out_mode b)); [discriminate|]. destruct (negb (ok b)); [discriminate|].
  destruct (next_glyphs b (length (rest b))) as [b1|]; cbn [bind]; [|discriminate].
  destruct (negb (ok b1)); [discriminate|]. intros E; inversion E. repeat split.
Qed.

Theorem run_sync_reverse ops b b2 :
  Mono b -> guarded2 b (ops ++ [OSync]) -> run b (ops ++ [OSync; OReverse]) = Ok (Some b2) -> AMono b2.
Proof.
  intros HM HG Hr.
  change (ops ++ [OSync; OReverse]) with (ops ++ ([OSync] ++ [OReverse])) in Hr. rewrite app_assoc in Hr.
  rewrite run_app in Hr.
  destruct (run b (ops ++ [OSync])) as [[b1|]|] eqn:E1; try discriminate.
  pose proof (run_mono2 _ _ _ HM HG E1) as HM1.
  (* the last operation of the first part was a successful sync *)
  rewrite run_app in E1. destruct (run b ops) as [[b0|]|] eqn:E0; try discriminate.
  cbn [run step] in E1. destruct (sync b0) as [[bs|]|] eqn:Es; try discriminate. inversion E1; subst bs.
  pose proof (sync_Idle0 _ _ Es) as HI.
  cbn [run step] in Hr. destruct HI as [Hout [Hd Hp]]. rewrite Hout in Hr.
  destruct (reverse b1) as [br|] eqn:Er; [|discriminate]. inversion Hr; subst br.
  destruct (reverse_Mono_AMono b1 b2 (conj Hout (conj Hd Hp)) HM1 Er) as [H _]. exact H.
Qed.
