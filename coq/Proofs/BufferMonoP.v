(* Proofs/BufferMonoP.v — monotone clusters are preserved by the streaming operations of the buffer
   at the two monotone cluster levels (levels 0 and 1).  `nd` = non-decreasing; the same development
   is instantiated with the reversed order for backward buffers through `rev`. *)
From Coq Require Import List NArith Bool Arith Lia Sorted.
From RB Require Import Base.Result Model.Buffer Model.BufferOps.
Import ListNotations.
Local Open Scope N_scope.

Definition cls (l : list info) : list N := map cluster l.
Definition nd (l : list N) : Prop := StronglySorted N.le l.
Definition Mono (b : zbuf) : Prop := nd (cls (pre b ++ rest b)).

Lemma cls_app l1 l2 : cls (l1 ++ l2) = cls l1 ++ cls l2.
Proof. apply map_app. Qed.

Lemma nd_app l1 l2 : nd (l1 ++ l2) <-> nd l1 /\ nd l2 /\ (forall a b, In a l1 -> In b l2 -> a <= b).
Proof.
  unfold nd. induction l1 as [|x l1 IH]; cbn.
  - split; [intros H; repeat split; [constructor|exact H|intros a b []]|intros [_ [H _]]; exact H].
  - split.
    + intros H. inversion H as [|y l' Hs Hf]; subst. apply IH in Hs. destruct Hs as [H1 [H2 H3]].
      rewrite Forall_app in Hf. destruct Hf as [Hf1 Hf2].
      repeat split; [constructor; assumption|assumption|].
      intros a b [->|Ha] Hb; [eapply Forall_forall in Hf2; eauto|auto].
    + intros [H1 [H2 H3]]. inversion H1 as [|y l' Hs Hf]; subst. constructor.
      * apply IH. repeat split; auto.
      * rewrite Forall_app. split; [assumption|]. apply Forall_forall. intros b Hb. apply H3; [left; reflexivity|exact Hb].
Qed.

Lemma nd_cons x l : nd (x :: l) <-> nd l /\ Forall (N.le x) l.
Proof. split; [intros H; inversion H; auto|intros [H1 H2]; constructor; assumption]. Qed.

Lemma nd_repeat c n : nd (repeat c n).
Proof. induction n; cbn; constructor; [assumption|]. apply Forall_forall. intros y Hy. apply repeat_spec in Hy. subst. apply N.le_refl. Qed.

Lemma nd_firstn n l : nd l -> nd (firstn n l).
Proof. intros H. rewrite <- (firstn_skipn n l) in H. apply nd_app in H. tauto. Qed.

Lemma nd_skipn n l : nd l -> nd (skipn n l).
Proof. intros H. rewrite <- (firstn_skipn n l) in H. apply nd_app in H. tauto. Qed.

Lemma nd_cross n l a b : nd l -> In a (firstn n l) -> In b (skipn n l) -> a <= b.
Proof. intros H. rewrite <- (firstn_skipn n l) in H. apply nd_app in H. destruct H as [_ [_ H]]. apply H. Qed.

Lemma cls_firstn n l : cls (firstn n l) = firstn n (cls l).
Proof. unfold cls. symmetry. apply firstn_map. Qed.

Lemma cls_skipn n l : cls (skipn n l) = skipn n (cls l).
Proof. unfold cls. symmetry. apply skipn_map. Qed.

Lemma cluster_set_cluster_eq x c m : cluster (set_cluster x c m) = c.
Proof. unfold set_cluster. destruct (cluster x =? c) eqn:E; [apply N.eqb_eq in E; exact E|reflexivity]. Qed.

(* ---- map_range as a three-way split ---- *)

Lemma map_range_split {A} (f : A -> A) : forall (l : list A) s e, (s <= e)%nat ->
  map_range f s e l = firstn s l ++ map f (slice l s e) ++ skipn e l.
Proof.
  unfold slice. induction l as [|x l IH]; intros s e Hse.
  - simpl. rewrite firstn_nil, !skipn_nil, firstn_nil. reflexivity.
  - destruct e as [|e].
    + assert (s = 0)%nat by lia. subst. reflexivity.
    + destruct s as [|s]; simpl.
      * specialize (IH 0%nat e ltac:(lia)). simpl in IH. rewrite Nat.sub_0_r in IH. rewrite IH. reflexivity.
      * rewrite (IH s e ltac:(lia)). reflexivity.
Qed.

Lemma cls_map_set_cluster c l : cls (map (fun i => set_cluster i c 0) l) = repeat c (length l).
Proof. induction l as [|x l IH]; cbn; [reflexivity|]. rewrite cluster_set_cluster_eq. f_equal. exact IH. Qed.

(* ---- helpers on positions ---- *)

Lemma In_skipn_le {A} (x : A) : forall l m n, (m <= n)%nat -> In x (skipn n l) -> In x (skipn m l).
Proof.
  induction l as [|y l IH]; intros m n Hmn H.
  - rewrite skipn_nil in H. destruct H.
  - destruct n as [|n]; [assert (m = 0)%nat by lia; subst; exact H|].
    destruct m as [|m]; cbn in *; [right; apply (IH 0%nat n); [lia|exact H]|apply (IH m n); [lia|exact H]].
Qed.

Lemma In_skipn {A} (x : A) l n : In x (skipn n l) -> In x l.
Proof. intros H. apply (In_skipn_le x l 0 n) in H; [exact H|lia]. Qed.

Lemma In_firstn {A} (x : A) : forall l n, In x (firstn n l) -> In x l.
Proof. induction l as [|y l IH]; intros [|n] H; cbn in *; try contradiction. destruct H; [left; assumption|right; eapply IH; eauto]. Qed.

Lemma nth_error_firstn_S {A} : forall (l : list A) s x, nth_error l s = Some x -> In x (firstn (S s) l).
Proof. induction l as [|y l IH]; intros [|s] x H; cbn in *; try discriminate; [left; congruence|right; apply IH, H]. Qed.

Lemma nth_error_skipn_In {A} : forall (l : list A) s x, nth_error l s = Some x -> In x (skipn s l).
Proof. induction l as [|y l IH]; intros [|s] x H; cbn in *; try discriminate; [left; congruence|apply IH, H]. Qed.

Lemma In_cls x l : In x l -> In (cluster x) (cls l).
Proof. apply in_map. Qed.

Lemma min_keep l : forall init, (forall x, In x l -> init <= cluster x) -> min_cluster_list l init = init.
Proof.
  unfold min_cluster_list. induction l as [|y l IH]; intros init H; cbn; [reflexivity|].
  rewrite N.min_l by (apply H; left; reflexivity). apply IH. intros x Hx. apply H. right. exact Hx.
Qed.

Lemma cls_cross l n a b : nd (cls l) -> In a (firstn n l) -> In b (skipn n l) -> cluster a <= cluster b.
Proof.
  intros H Ha Hb. apply (nd_cross n (cls l)); [exact H| |].
  - rewrite <- cls_firstn. apply In_cls, Ha.
  - rewrite <- cls_skipn. apply In_cls, Hb.
Qed.

Lemma run_len_le c l : (run_len c l <= length l)%nat.
Proof. induction l as [|x l IH]; cbn; [lia|]. destruct (cluster x =? c); lia. Qed.

(* merging a range of a non-decreasing array: the minimum is the first element's cluster, no
   continuation into the out-buffer is needed, and the array stays non-decreasing *)
Lemma merge_array_nd l s e r c0 c :
  nd (cls l) -> (s < e)%nat -> (e <= length l)%nat -> merge_array l s e = Ok (r, c0, c) ->
  c = c0 /\ nd (cls r) /\ (forall x, In x (cls r) -> In x (cls l)) /\ length r = length l.
Proof.
  intros Hnd Hse Hel. unfold merge_array.
  destruct (nth_error l s) as [first|] eqn:E1; [|discriminate].
  destruct (nth_error l (e - 1)) as [last|] eqn:E2; [|discriminate].
  intros Heq. inversion Heq; subst; clear Heq.
  assert (Hmin : min_cluster_list (slice l (S s) e) (cluster first) = cluster first).
  { apply min_keep. intros x Hx. unfold slice in Hx. apply In_firstn in Hx.
    apply (cls_cross l (S s)); [exact Hnd|apply nth_error_firstn_S, E1|exact Hx]. }
  rewrite Hmin. split; [reflexivity|].
  set (c := cluster first).
  set (e' := if c =? cluster last then e else (e + run_len (cluster last) (skipn e l))%nat).
  assert (He' : (e <= e')%nat /\ (e' <= length l)%nat).
  { unfold e'. destruct (c =? cluster last); [lia|]. pose proof (run_len_le (cluster last) (skipn e l)) as Hr.
    rewrite skipn_length in Hr. lia. }
  rewrite (map_range_split _ l s e') by lia.
  repeat split.
  - rewrite !cls_app, cls_map_set_cluster.
    apply nd_app. repeat split.
    + rewrite cls_firstn. apply nd_firstn, Hnd.
    + apply nd_app. repeat split; [apply nd_repeat|rewrite cls_skipn; apply nd_skipn, Hnd|].
      intros a b Ha Hb. apply repeat_spec in Ha. subst a.
      unfold cls in Hb. apply in_map_iff in Hb. destruct Hb as [y [<- Hy]].
      apply (cls_cross l (S s)); [exact Hnd|apply nth_error_firstn_S, E1|apply (In_skipn_le y l (S s) e'); [lia|exact Hy]].
    + intros a b Ha Hb. unfold cls in Ha. apply in_map_iff in Ha. destruct Ha as [x [<- Hx]].
      apply in_app_or in Hb. destruct Hb as [Hb|Hb].
      * apply repeat_spec in Hb. subst b. apply (cls_cross l s); [exact Hnd|exact Hx|apply nth_error_skipn_In, E1].
      * unfold cls in Hb. apply in_map_iff in Hb. destruct Hb as [y [<- Hy]].
        apply (cls_cross l s); [exact Hnd|exact Hx|apply (In_skipn_le y l s e'); [lia|exact Hy]].
  - intros x Hx. rewrite !cls_app, cls_map_set_cluster in Hx.
    apply in_app_or in Hx. destruct Hx as [Hx|Hx]; [rewrite cls_firstn in Hx; eapply In_firstn; eauto|].
    apply in_app_or in Hx. destruct Hx as [Hx|Hx].
    + apply repeat_spec in Hx. subst x. apply In_cls. eapply nth_error_In; eauto.
    + rewrite cls_skipn in Hx. eapply In_skipn; eauto.
  - rewrite !app_length, map_length, firstn_length, skipn_length. unfold slice. rewrite firstn_length, skipn_length. lia.
Qed.

(* ---- list-level facts used by the streaming operations ---- *)

Lemma nd_dup A x T : nd (A ++ x :: T) -> nd (A ++ x :: x :: T).
Proof.
  intros H. apply nd_app in H. destruct H as [HA [HT Hc]]. apply nd_app. repeat split; [exact HA| |].
  - apply nd_cons. split; [exact HT|]. constructor; [apply N.le_refl|]. apply nd_cons in HT. tauto.
  - intros a b Ha [<-|Hb]; apply Hc; auto. left; reflexivity.
Qed.

Lemma nd_dup_last A x : nd (A ++ [x]) -> nd (A ++ [x; x]).
Proof. apply (nd_dup A x []). Qed.

Lemma nd_remove A x T : nd (A ++ x :: T) -> nd (A ++ T).
Proof.
  intros H. apply nd_app in H. destruct H as [HA [HT Hc]]. apply nd_app. repeat split; [exact HA| |].
  - apply nd_cons in HT. tauto.
  - intros a b Ha Hb. apply Hc; [exact Ha|right; exact Hb].
Qed.

Lemma nd_replace A o T k m : nd (A ++ o :: T) -> nd (A ++ repeat o k ++ skipn m (o :: T)).
Proof.
  intros H. apply nd_app in H. destruct H as [HA [HT Hc]].
  assert (HoT : forall b, In b (o :: T) -> o <= b).
  { intros b [<-|Hb]; [apply N.le_refl|]. apply nd_cons in HT. destruct HT as [_ HF]. eapply Forall_forall in HF; eauto. }
  apply nd_app. repeat split; [exact HA| |].
  - apply nd_app. repeat split; [apply nd_repeat|apply nd_skipn, HT|].
    intros a b Ha Hb. apply repeat_spec in Ha. subst a. apply HoT. eapply In_skipn; eauto.
  - intros a b Ha Hb. apply in_app_or in Hb. destruct Hb as [Hb|Hb].
    + apply repeat_spec in Hb. subst b. apply Hc; [exact Ha|left; reflexivity].
    + apply Hc; [exact Ha|eapply In_skipn; eauto].
Qed.

Lemma cls_map_set_gid o gs : cls (map (set_gid o) gs) = repeat (cluster o) (length gs).
Proof. induction gs as [|g gs IH]; cbn; [reflexivity|]. f_equal. exact IH. Qed.

(* ---- zipper level ---- *)

Definition Lvl01 (b : zbuf) : Prop := level b <> 2.

Lemma Mono_split b : Mono b <-> nd (cls (pre b)) /\ nd (cls (rest b)) /\
                               (forall x y, In x (cls (pre b)) -> In y (cls (rest b)) -> x <= y).
Proof. unfold Mono. rewrite cls_app. apply nd_app. Qed.

Lemma ensure_frame b n : let b' := snd (ensure b n) in
  pre b' = pre b /\ rest b' = rest b /\ dead b' = dead b /\ out_mode b' = out_mode b /\ level b' = level b.
Proof. unfold ensure. destruct (n <? blen b)%nat; [cbn; auto|]. destruct (max_len b <? N.of_nat n); cbn; auto. Qed.

Lemma ensure_Mono b n : Mono b -> Mono (snd (ensure b n)).
Proof. intros H. unfold Mono. destruct (ensure_frame b n) as [-> [-> _]]. exact H. Qed.

Lemma ensure_Lvl b n : Lvl01 b -> Lvl01 (snd (ensure b n)).
Proof. unfold Lvl01. destruct (ensure_frame b n) as [_ [_ [_ [_ ->]]]]. auto. Qed.

Lemma merge_clusters_mono b s e b' :
  Mono b -> out_mode b = true -> (dead b <= s)%nat -> (e <= blen b)%nat ->
  merge_clusters b s e = Ok b' ->
  Mono b' /\ pre b' = pre b /\ length (rest b') = length (rest b) /\ dead b' = dead b
  /\ out_mode b' = true /\ level b' = level b /\ (forall x, In x (cls (rest b')) -> In x (cls (rest b))).
Proof.
  intros HM Hout Hs He. unfold merge_clusters.
  destruct (e - s <? 2)%nat eqn:E2; [intros E; inversion E; subst; repeat split; auto|].
  destruct (level b =? 2); [intros E; inversion E; subst; repeat split; auto|].
  rewrite Hout. destruct (s <? dead b)%nat eqn:Esd; [apply Nat.ltb_lt in Esd; lia|].
  apply Nat.ltb_ge in E2.
  destruct (merge_array (rest b) (s - dead b) (e - dead b)) as [[[r c0] c]|] eqn:E; cbn [bind]; [|discriminate].
  apply Mono_split in HM. destruct HM as [Hp [Hr Hc]].
  unfold blen in He.
  assert (L1 : (s - dead b < e - dead b)%nat) by lia.
  assert (L2 : (e - dead b <= length (rest b))%nat) by lia.
  destruct (merge_array_nd _ _ _ _ _ _ Hr L1 L2 E) as [-> [Hnd [Hsub Hlen]]].
  rewrite N.eqb_refl, andb_false_r. intros Heq; inversion Heq; subst; clear Heq. cbn.
  repeat split; auto. apply Mono_split. cbn. repeat split; auto.
Qed.

Lemma next_glyph_mono b b' : Mono b -> next_glyph b = Ok b' -> Mono b'.
Proof.
  intros H. unfold next_glyph. destruct (rest b) as [|x t] eqn:Er; [discriminate|].
  assert (Hn : nd (cls ((pre b ++ [x]) ++ t))) by (rewrite <- app_assoc; unfold Mono in H; rewrite Er in H; exact H).
  destruct (out_mode b).
  - pose proof (ensure_Mono b (out_len b + 1) H) as Hm. unfold make_room_for.
    destruct (ensure b (out_len b + 1)) as [okk b1]. cbn in Hm.
    destruct okk; intros E; inversion E; subst; [exact Hn|exact Hm].
  - intros E; inversion E; subst. exact Hn.
Qed.

Lemma skip_glyph_mono b b' : Mono b -> skip_glyph b = Ok b' -> Mono b'.
Proof.
  intros H. unfold skip_glyph. destruct (rest b) as [|x t] eqn:Er; [discriminate|].
  unfold Mono in H. rewrite Er in H. intros E; inversion E; subst. unfold Mono. cbn.
  destruct (out_mode b).
  - rewrite cls_app in *. cbn in H. eapply nd_remove; eauto.
  - rewrite <- app_assoc. exact H.
Qed.

Lemma replace_glyph_mono b g b' : Mono b -> replace_glyph b g = Ok b' -> Mono b'.
Proof.
  intros H. unfold replace_glyph. destruct (rest b) as [|x t] eqn:Er; [discriminate|].
  pose proof (ensure_Mono b (out_len b + 1) H) as Hm. unfold make_room_for.
  destruct (ensure b (out_len b + 1)) as [okk b1]. cbn in Hm.
  destruct okk; intros E; inversion E; subst; [|exact Hm].
  unfold Mono in *. cbn. rewrite Er in H. rewrite <- app_assoc. rewrite cls_app in *. exact H.
Qed.

Lemma copy_glyph_mono b b' : Mono b -> copy_glyph b = Ok b' -> Mono b'.
Proof.
  intros H. unfold copy_glyph.
  pose proof (ensure_Mono b (out_len b + 1) H) as Hm. unfold make_room_for.
  destruct (ensure b (out_len b + 1)) as [okk b1]. cbn in Hm.
  destruct okk; cbn [negb]; [|intros E; inversion E; subst; exact Hm].
  destruct (rest b) as [|x t] eqn:Er; [discriminate|]. intros E; inversion E; subst.
  unfold Mono in *. cbn. rewrite Er in H. rewrite <- app_assoc. rewrite cls_app in *. cbn in *. apply nd_dup, H.
Qed.

Lemma output_glyph_mono b g b' : Mono b -> output_glyph b g = Ok b' -> Mono b'.
Proof.
  intros H. unfold output_glyph.
  pose proof (ensure_Mono b (out_len b + 1) H) as Hm. unfold make_room_for.
  destruct (ensure b (out_len b + 1)) as [okk b1]. cbn in Hm.
  destruct okk; cbn [negb]; [|intros E; inversion E; subst; exact Hm].
  unfold Mono in *.
  destruct (rest b) as [|x t] eqn:Er.
  - destruct (rev (pre b)) as [|l t'] eqn:Ep; intros E; inversion E; subst; [unfold Mono; rewrite Er; exact H|].
    cbn. rewrite app_nil_r in *.
    assert (Hpre : pre b = rev t' ++ [l]) by (rewrite <- (rev_involutive (pre b)), Ep; reflexivity).
    rewrite Hpre in *. rewrite <- app_assoc. rewrite cls_app in *. cbn in *. apply nd_dup_last, H.
  - intros E; inversion E; subst. cbn. rewrite <- app_assoc. rewrite cls_app in *. cbn in *. apply nd_dup, H.
Qed.

Lemma next_glyphs_mono b n b' : Mono b -> next_glyphs b n = Ok b' -> Mono b'.
Proof.
  intros H. unfold next_glyphs. destruct (length (rest b) <? n)%nat; [discriminate|].
  assert (Hn : nd (cls ((pre b ++ firstn n (rest b)) ++ skipn n (rest b)))).
  { rewrite <- app_assoc, firstn_skipn. exact H. }
  destruct (out_mode b).
  - pose proof (ensure_Mono b (out_len b + n) H) as Hm. unfold make_room_for.
    destruct (ensure b (out_len b + n)) as [okk b1]. cbn in Hm.
    destruct okk; intros E; inversion E; subst; [exact Hn|exact Hm].
  - intros E; inversion E; subst. exact Hn.
Qed.

Lemma move_to_mono b i r b' : Mono b -> move_to b i = Ok (r, b') -> Mono b'.
Proof.
  intros H. unfold move_to. destruct (negb (out_mode b)).
  - destruct (blen b <? i)%nat; [discriminate|]. intros E; inversion E; subst. unfold Mono. cbn.
    rewrite firstn_skipn. exact H.
  - destruct (negb (ok b)); [intros E; inversion E; subst; exact H|].
    destruct (length (pre b) + length (rest b) <? i)%nat; [discriminate|].
    destruct (length (pre b) <? i)%nat.
    + pose proof (ensure_Mono b (out_len b + (i - length (pre b))) H) as Hm. unfold make_room_for.
      destruct (ensure b (out_len b + (i - length (pre b)))) as [okk b1]. cbn in Hm.
      destruct okk; cbn [negb]; intros E; inversion E; subst; [|exact Hm].
      unfold Mono. cbn. rewrite <- app_assoc, firstn_skipn. exact H.
    + destruct (i <? length (pre b))%nat; [|intros E; inversion E; subst; exact H].
      assert (Hn : nd (cls (firstn i (pre b) ++ skipn i (pre b) ++ rest b))) by (rewrite app_assoc, firstn_skipn; exact H).
      destruct (dead b <? length (pre b) - i)%nat.
      * pose proof (ensure_Mono b (blen b + (length (pre b) - i - dead b)) H) as Hm.
        destruct (ensure b (blen b + (length (pre b) - i - dead b))) as [okk b1]. cbn in Hm.
        destruct okk; cbn [negb]; intros E; inversion E; subst; [exact Hn|exact Hm].
      * intros E; inversion E; subst. exact Hn.
Qed.

Lemma clear_output_mono b : out_mode b = false -> Mono b -> Mono (clear_output b).
Proof. intros Ho H. unfold clear_output. rewrite Ho. exact H. Qed.

Lemma sync_mono b b' : Mono b -> sync b = Ok (Some b') -> Mono b'.
Proof.
  intros H. unfold sync. destruct (negb (out_mode b)); [discriminate|]. destruct (negb (ok b)); [discriminate|].
  destruct (next_glyphs b (length (rest b))) as [b1|] eqn:E1; cbn [bind]; [|discriminate].
  pose proof (next_glyphs_mono _ _ _ H E1) as H1.
  destruct (negb (ok b1)) eqn:Eok; [discriminate|]. intros E; inversion E; subst. unfold Mono in *. cbn.
  (* after next_glyphs of everything the rest is empty or nothing moved; in both cases the content is pre b1 ++ rest b1 restricted to pre *)
  rewrite cls_app in H1. apply nd_app in H1. tauto.
Qed.

Lemma merge_clusters_full_mono b s e b' :
  Mono b -> Lvl01 b -> out_mode b = true -> (dead b <= s)%nat -> (e <= blen b)%nat ->
  merge_clusters_full b s e = Ok b' ->
  Mono b' /\ pre b' = pre b /\ length (rest b') = length (rest b) /\ dead b' = dead b
  /\ out_mode b' = true /\ level b' = level b /\ (forall x, In x (cls (rest b')) -> In x (cls (rest b))).
Proof.
  intros HM HL Hout Hs He. unfold merge_clusters_full.
  destruct (e - s <? 2)%nat; [intros E; inversion E; subst; repeat split; auto|].
  destruct (level b =? 2) eqn:El; [apply N.eqb_eq in El; contradiction|].
  apply merge_clusters_mono; assumption.
Qed.

Lemma cls_skipn_cons n o T : cls (skipn n (o :: T)) = skipn n (cluster o :: cls T).
Proof. rewrite cls_skipn. reflexivity. Qed.

Lemma replace_glyphs_mono b n gs b' :
  Mono b -> Lvl01 b -> out_mode b = true -> replace_glyphs b n gs = Ok b' -> Mono b'.
Proof.
  intros H HL Hout. unfold replace_glyphs.
  pose proof (ensure_Mono b (out_len b + length gs) H) as Hm. unfold make_room_for.
  destruct (ensure b (out_len b + length gs)) as [okk b1]. cbn in Hm.
  destruct okk; cbn [negb]; [|intros E; inversion E; subst; exact Hm].
  destruct (length (rest b) <? n)%nat eqn:En; [discriminate|]. apply Nat.ltb_ge in En.
  destruct (merge_clusters_full b (dead b) (dead b + n)) as [b2|] eqn:E2; cbn [bind]; [|discriminate].
  assert (He : (dead b + n <= blen b)%nat) by (unfold blen; lia).
  destruct (merge_clusters_full_mono _ _ _ _ H HL Hout (Nat.le_refl _) He E2) as [HM2 _].
  destruct (rest b2) as [|orig t] eqn:Er; [discriminate|].
  intros E; inversion E; subst. unfold Mono in *. cbn. rewrite Er in HM2.
  rewrite !cls_app in *. rewrite cls_map_set_gid, cls_skipn_cons. cbn in HM2. rewrite <- app_assoc. apply nd_replace, HM2.
Qed.

Lemma last_cluster_In l c : last_cluster l = Some c -> In c (cls l).
Proof.
  unfold last_cluster. destruct (rev l) as [|x t] eqn:E; [discriminate|]. intros H; inversion H; subst.
  apply In_cls. apply in_rev. rewrite E. left. reflexivity.
Qed.

Lemma delete_glyph_mono b b' :
  Mono b -> Lvl01 b -> out_mode b = true -> delete_glyph b = Ok b' -> Mono b'.
Proof.
  intros H HL Hout. unfold delete_glyph.
  destruct (rest b) as [|x t] eqn:Er; [discriminate|].
  assert (Hskip : forall b0, skip_glyph b = Ok b0 -> Mono b0) by (intros b0; apply skip_glyph_mono, H).
  unfold skip_glyph in Hskip. rewrite Er in Hskip.
  match goal with |- (if ?c then _ else _) = _ -> _ => destruct c end.
  { unfold skip_glyph. rewrite Er. apply Hskip. }
  rewrite Hout. cbn [andb].
  destruct (0 <? length (pre b))%nat.
  - destruct (last_cluster (pre b)) as [old|] eqn:El; [|discriminate].
    assert (Hle : old <= cluster x).
    { apply Mono_split in H. destruct H as [_ [_ Hc]]. apply Hc; [apply last_cluster_In, El|rewrite Er; left; reflexivity]. }
    destruct (cluster x <? old) eqn:Elt; [apply N.ltb_lt in Elt; lia|].
    unfold skip_glyph. cbn. rewrite Hout. intros E; inversion E; subst.
    specialize (Hskip (with_pr b (pre b) t (S (dead b)))). rewrite Hout in Hskip. apply Hskip. reflexivity.
  - destruct t as [|y t'].
    + unfold skip_glyph. rewrite Er. apply Hskip.
    + destruct (merge_clusters_full b (dead b) (dead b + 2)) as [b1|] eqn:E1; cbn [bind]; [|discriminate].
      assert (He : (dead b + 2 <= blen b)%nat) by (unfold blen; rewrite Er; cbn; lia).
      destruct (merge_clusters_full_mono _ _ _ _ H HL Hout (Nat.le_refl _) He E1) as [HM1 _].
      apply skip_glyph_mono, HM1.
Qed.

(* ---- flag operations do not touch clusters ---- *)

Lemma cls_map_range_mask m s e l : cls (map_range (or_mask m) s e l) = cls l.
Proof.
  revert s e. induction l as [|x l IH]; intros s e; simpl; [reflexivity|].
  destruct e as [|e]; [reflexivity|]. destruct s as [|s]; simpl; rewrite IH; reflexivity.
Qed.

Lemma cls_flag_while c stop m l : cls (fst (flag_while_ne_fwd c stop m l)) = cls l.
Proof.
  induction l as [|x l IH]; simpl; [reflexivity|]. destruct (cluster x =? stop); [reflexivity|].
  destruct (flag_while_ne_fwd c stop m l) as [t' a]. simpl in IH.
  destruct (cluster x =? c); simpl; rewrite IH; reflexivity.
Qed.

Lemma cls_flag_all c m l : cls (fst (flag_all_ne c m l)) = cls l.
Proof.
  simpl. induction l as [|x l IH]; simpl; [reflexivity|]. rewrite IH. destruct (cluster x =? c); reflexivity.
Qed.

Lemma cls_rev l : cls (rev l) = rev (cls l).
Proof. apply map_rev. Qed.

Lemma skipn_skipn_add {A} : forall (l : list A) a b, skipn a (skipn b l) = skipn (a + b) l.
Proof.
  induction l as [|x l IH]; intros a b; [rewrite !skipn_nil; reflexivity|].
  destruct b as [|b]; [rewrite Nat.add_0_r; reflexivity|].
  replace (a + S b)%nat with (S (a + b)) by lia. cbn. apply IH.
Qed.

Lemma slice_glue {A} (l : list A) s e : (s <= e)%nat -> firstn s l ++ slice l s e ++ skipn e l = l.
Proof.
  intros H. unfold slice. rewrite <- (firstn_skipn s l) at 4. f_equal.
  rewrite <- (firstn_skipn (e - s) (skipn s l)) at 2. f_equal.
  rewrite skipn_skipn_add. f_equal. lia.
Qed.

Lemma infos_set_glyph_flags_cls lvl l s e c m r :
  (s <= e)%nat -> infos_set_glyph_flags lvl l s e c m = Ok r -> cls (fst r) = cls l.
Proof.
  intros Hse. unfold infos_set_glyph_flags.
  destruct (s =? e)%nat; [intros E; inversion E; subst; reflexivity|].
  destruct (nth_error l s) as [first|]; [|discriminate].
  destruct (nth_error l (e - 1)) as [last|]; [|discriminate].
  destruct ((lvl =? 2) || (negb (c =? cluster first) && negb (c =? cluster last)))%bool.
  - pose proof (cls_flag_all c m (slice l s e)) as H1.
    destruct (flag_all_ne c m (slice l s e)) as [mid' ap]. intros E; inversion E; subst. cbn [fst] in *.
    rewrite !cls_app, H1, <- !cls_app, slice_glue by exact Hse. reflexivity.
  - destruct (c =? cluster first).
    + pose proof (cls_flag_while c (cluster first) m (rev (slice l s e))) as H1.
      destruct (flag_while_ne_fwd c (cluster first) m (rev (slice l s e))) as [r' ap]. intros E; inversion E; subst. cbn [fst] in *.
      rewrite !cls_app, cls_rev, H1, cls_rev, rev_involutive, <- !cls_app, slice_glue by exact Hse. reflexivity.
    + pose proof (cls_flag_while c (cluster last) m (slice l s e)) as H1.
      destruct (flag_while_ne_fwd c (cluster last) m (slice l s e)) as [mid' ap]. intros E; inversion E; subst. cbn [fst] in *.
      rewrite !cls_app, H1, <- !cls_app, slice_glue by exact Hse. reflexivity.
Qed.

Lemma add_scratch_frame b a : pre (add_scratch b a) = pre b /\ rest (add_scratch b a) = rest b.
Proof. unfold add_scratch. destruct a; cbn; auto. Qed.

Lemma set_glyph_flags_cls b m s e interior from_out b' :
  set_glyph_flags b m s e interior from_out = Ok b' -> cls (pre b' ++ rest b') = cls (pre b ++ rest b).
Proof.
  unfold set_glyph_flags.
  set (s0 := match s with Some x => x | None => 0%nat end).
  set (e0 := Nat.min (match e with Some x => x | None => blen b end) (blen b)).
  destruct (e0 <? s0)%nat eqn:Ees.
  - cbn [andb].
    destruct interior, from_out; cbn [andb negb]; try discriminate; try (intros E; inversion E; subst; reflexivity).
    + (* interior, from_out *) destruct (out_mode b) eqn:Eo; cbn [negb andb]; [|discriminate].
      cbn [orb]. cbn [out_mode with_scratch negb]. rewrite Eo. cbn [negb pre rest dead level with_scratch].
      destruct (length (pre b) <? s0)%nat eqn:E1; [discriminate|]. apply Nat.ltb_ge in E1.
      destruct (e0 <? dead b)%nat; [discriminate|].
      destruct (find_min_cluster (level b) (rest b) 0 (e0 - dead b) U32_MAX) as [c1|]; cbn [bind]; [|discriminate].
      destruct (find_min_cluster (level b) (pre b) s0 (length (pre b)) c1) as [c|]; cbn [bind]; [|discriminate].
      destruct (infos_set_glyph_flags (level b) (pre b) s0 (length (pre b)) c m) as [r1|] eqn:F1; cbn [bind]; [|discriminate].
      destruct (infos_set_glyph_flags (level b) (rest b) 0 (e0 - dead b) c m) as [r2|] eqn:F2; cbn [bind]; [|discriminate].
      intros E; inversion E; subst.
      destruct (add_scratch_frame (add_scratch (with_pr (with_scratch b (N.lor (scratch b) SCRATCH_HAS_GLYPH_FLAGS)) (fst r1) (fst r2) (dead b)) (snd r1)) (snd r2)) as [-> ->].
      destruct (add_scratch_frame (with_pr (with_scratch b (N.lor (scratch b) SCRATCH_HAS_GLYPH_FLAGS)) (fst r1) (fst r2) (dead b)) (snd r1)) as [-> ->].
      cbn. rewrite !cls_app.
      rewrite (infos_set_glyph_flags_cls _ _ _ _ _ _ _ E1 F1), (infos_set_glyph_flags_cls _ _ _ _ _ _ _ (Nat.le_0_l _) F2). reflexivity.
    + (* not interior, from_out *) destruct (out_mode b) eqn:Eo; cbn [negb andb]; [|intros E; inversion E; subst; reflexivity].
      cbn [orb]. cbn [out_mode with_scratch negb]. rewrite Eo. cbn [negb pre rest dead level with_scratch].
      destruct (length (pre b) <? s0)%nat; [discriminate|]. destruct (e0 <? dead b)%nat; [discriminate|].
      intros E; inversion E; subst. cbn. rewrite !cls_app, !cls_map_range_mask. reflexivity.
  - apply Nat.ltb_ge in Ees. cbn [andb].
    destruct (interior && negb from_out && (e0 - s0 <? 2)%nat)%bool; [intros E; inversion E; subst; reflexivity|].
    cbv zeta.
    destruct (negb from_out || negb (out_mode (with_scratch b (N.lor (scratch b) SCRATCH_HAS_GLYPH_FLAGS))))%bool.
    + cbn [out_mode with_scratch pre rest dead level].
      destruct (out_mode b).
      * destruct (s0 <? dead b)%nat; [discriminate|].
        destruct (negb interior).
        -- intros E; inversion E; subst. cbn. rewrite !cls_app, cls_map_range_mask. reflexivity.
        -- destruct (find_min_cluster (level b) (rest b) (s0 - dead b) (e0 - dead b) U32_MAX) as [c|]; cbn [bind]; [|discriminate].
           destruct (infos_set_glyph_flags (level b) (rest b) (s0 - dead b) (e0 - dead b) c m) as [r|] eqn:F; cbn [bind]; [|discriminate].
           intros E; inversion E; subst.
           destruct (add_scratch_frame (with_pr (with_scratch b (N.lor (scratch b) SCRATCH_HAS_GLYPH_FLAGS)) (pre b) (fst r) (dead b)) (snd r)) as [-> ->].
           assert (Lse : (s0 - dead b <= e0 - dead b)%nat) by (clear - Ees; lia).
           cbn. rewrite !cls_app. rewrite (infos_set_glyph_flags_cls _ _ _ _ _ _ _ Lse F). reflexivity.
      * destruct (negb interior).
        -- intros E; inversion E; subst. cbn. rewrite firstn_skipn, cls_map_range_mask. reflexivity.
        -- destruct (find_min_cluster (level b) (pre b ++ rest b) s0 e0 U32_MAX) as [c|]; cbn [bind]; [|discriminate].
           destruct (infos_set_glyph_flags (level b) (pre b ++ rest b) s0 e0 c m) as [r|] eqn:F; cbn [bind]; [|discriminate].
           intros E; inversion E; subst.
           destruct (add_scratch_frame (with_pr (with_scratch b (N.lor (scratch b) SCRATCH_HAS_GLYPH_FLAGS)) (firstn (dead b) (fst r)) (skipn (dead b) (fst r)) (dead b)) (snd r)) as [-> ->].
           cbn. rewrite firstn_skipn. apply (infos_set_glyph_flags_cls _ _ _ _ _ _ _ Ees F).
    + cbn [out_mode with_scratch pre rest dead level].
      destruct (length (pre b) <? s0)%nat eqn:E1; [discriminate|]. apply Nat.ltb_ge in E1.
      destruct (e0 <? dead b)%nat; [discriminate|].
      destruct (negb interior).
      * intros E; inversion E; subst. cbn. rewrite !cls_app, !cls_map_range_mask. reflexivity.
      * destruct (find_min_cluster (level b) (rest b) 0 (e0 - dead b) U32_MAX) as [c1|]; cbn [bind]; [|discriminate].
        destruct (find_min_cluster (level b) (pre b) s0 (length (pre b)) c1) as [c|]; cbn [bind]; [|discriminate].
        destruct (infos_set_glyph_flags (level b) (pre b) s0 (length (pre b)) c m) as [r1|] eqn:F1; cbn [bind]; [|discriminate].
        destruct (infos_set_glyph_flags (level b) (rest b) 0 (e0 - dead b) c m) as [r2|] eqn:F2; cbn [bind]; [|discriminate].
        intros E; inversion E; subst.
        destruct (add_scratch_frame (add_scratch (with_pr (with_scratch b (N.lor (scratch b) SCRATCH_HAS_GLYPH_FLAGS)) (fst r1) (fst r2) (dead b)) (snd r1)) (snd r2)) as [-> ->].
        destruct (add_scratch_frame (with_pr (with_scratch b (N.lor (scratch b) SCRATCH_HAS_GLYPH_FLAGS)) (fst r1) (fst r2) (dead b)) (snd r1)) as [-> ->].
        cbn. rewrite !cls_app.
        rewrite (infos_set_glyph_flags_cls _ _ _ _ _ _ _ E1 F1), (infos_set_glyph_flags_cls _ _ _ _ _ _ _ (Nat.le_0_l _) F2). reflexivity.
Qed.

Lemma set_glyph_flags_mono b m s e i f b' : Mono b -> set_glyph_flags b m s e i f = Ok b' -> Mono b'.
Proof. intros H E. unfold Mono. rewrite (set_glyph_flags_cls _ _ _ _ _ _ _ E). exact H. Qed.

(* ---- the streaming alphabet ---- *)

Definition stream_op (b : zbuf) (o : bop) : Prop :=
  match o with
  | ONextGlyph | ONextGlyphs _ | OSkip | OReplaceGlyph _ | OReplaceGlyphs _ _ | OOutputGlyph _
  | OCopyGlyph | ODeleteGlyph | OMoveTo _ | OSync
  | OUnsafeToBreak _ _ | OUnsafeToConcat _ _ | OUnsafeToBreakOut _ _ | OUnsafeToConcatOut _ _ => True
  | OMergeClusters s e => (dead b <= s)%nat /\ (e <= blen b)%nat
  | _ => False
  end.

Ltac guards :=
  repeat match goal with
         | |- (if ?c then _ else _) = _ -> _ => destruct c; [try discriminate|try discriminate]
         end.

Ltac via lem :=
  match goal with
  | |- match ?x with Ok _ => _ | Error _ => _ end = _ -> _ =>
      let E := fresh "E" in let Heq := fresh "Heq" in
      destruct x eqn:E; [|discriminate]; intros Heq; inversion Heq; subst; eapply lem; eauto
  end.

Theorem step_mono b o r b' :
  stream_op b o -> Mono b -> Lvl01 b -> out_mode b = true ->
  step b o = Ok (Some (r, b')) -> Mono b'.
Proof.
  intros Hs HM HL Hout. destruct o; cbn [stream_op] in Hs; try contradiction; cbn [step]; rewrite ?Hout; guards.
  - via next_glyph_mono.
  - via next_glyphs_mono.
  - via skip_glyph_mono.
  - via replace_glyph_mono.
  - via replace_glyphs_mono.
  - via output_glyph_mono.
  - via copy_glyph_mono.
  - via delete_glyph_mono.
  - destruct (move_to b i) as [[r0 b0]|] eqn:E; [|discriminate]. intros Heq; inversion Heq; subst. eapply move_to_mono; eauto.
  - destruct Hs as [H1 H2].
    destruct (merge_clusters_full b s e) as [b0|] eqn:E; [|discriminate]. intros Heq; inversion Heq; subst.
    destruct (merge_clusters_full_mono _ _ _ _ HM HL Hout H1 H2 E) as [H _]. exact H.
  - via set_glyph_flags_mono.
  - unfold unsafe_to_concat. destruct (produce_concat b); [via set_glyph_flags_mono|intros Heq; inversion Heq; subst; exact HM].
  - via set_glyph_flags_mono.
  - unfold unsafe_to_concat_from_outbuffer. destruct (produce_concat b); [via set_glyph_flags_mono|intros Heq; inversion Heq; subst; exact HM].
  - destruct (sync b) as [[b0|]|] eqn:E; try discriminate. intros Heq; inversion Heq; subst. eapply sync_mono; eauto.
Qed.

(* sequences: every operation is a streaming operation issued in output mode at a monotone level *)
Fixpoint guarded (b : zbuf) (ops : list bop) : Prop :=
  match ops with
  | [] => True
  | o :: t => stream_op b o /\ Lvl01 b /\ out_mode b = true /\
              match step b o with Ok (Some (_, b')) => guarded b' t | _ => True end
  end.

Theorem run_mono ops : forall b b', Mono b -> guarded b ops -> run b ops = Ok (Some b') -> Mono b'.
Proof.
  induction ops as [|o t IH]; intros b b' HM HG; cbn [run]; [intros E; inversion E; subst; exact HM|].
  cbn [guarded] in HG. destruct HG as [Hs [HL [Hout HG]]].
  destruct (step b o) as [[[r b1]|]|] eqn:E; try discriminate.
  apply IH; [eapply step_mono; eauto|exact HG].
Qed.

(* non-increasing clusters (backward buffers): the same through list reversal of the cluster view *)
Definition ni (l : list N) : Prop := nd (rev l).
