(* Proofs/BufferP.v — invariants of the zipper buffer model (Model/Buffer.v, Model/BufferOps.v).
   Part 1: cluster values come from the input (value subset), for every operation and every
   finite operation sequence. *)
From Coq Require Import List NArith Bool Arith Lia.
From RB Require Import Base.Result Model.Buffer Model.BufferOps.
Import ListNotations.
Local Open Scope N_scope.

Section Subset.
Variable S : list N.   (* the set of admissible cluster values *)

Definition okc (x : info) : Prop := In (cluster x) S.
Definition AllIn (l : list info) : Prop := Forall okc l.
Definition Inv (b : zbuf) : Prop := AllIn (pre b) /\ AllIn (rest b).

Lemma cluster_set_cluster x c m : cluster (set_cluster x c m) = c.
Proof. unfold set_cluster. destruct (cluster x =? c) eqn:E; [apply N.eqb_eq in E; exact E|reflexivity]. Qed.

Lemma okc_set_cluster x c m : In c S -> okc (set_cluster x c m).
Proof. intros H. unfold okc. rewrite cluster_set_cluster. exact H. Qed.

Lemma okc_or_mask m x : okc x -> okc (or_mask m x).
Proof. intros H. exact H. Qed.

Lemma okc_set_gid x g : okc x -> okc (set_gid x g).
Proof. intros H. exact H. Qed.

Lemma okc_set_mask x m : okc x -> okc (set_mask x m).
Proof. intros H. exact H. Qed.

Lemma AllIn_firstn n l : AllIn l -> AllIn (firstn n l).
Proof.
  revert n. induction l as [|x l IH]; intros [|n] H; cbn; try constructor.
  - inversion H; assumption.
  - apply IH. inversion H; assumption.
Qed.

Lemma AllIn_skipn n l : AllIn l -> AllIn (skipn n l).
Proof. revert n. induction l as [|x l IH]; intros [|n] H; cbn; auto. inversion H; subst; auto. Qed.

Lemma AllIn_app l1 l2 : AllIn l1 -> AllIn l2 -> AllIn (l1 ++ l2).
Proof. intros H1 H2. apply Forall_app. split; assumption. Qed.

Lemma AllIn_app_inv l1 l2 : AllIn (l1 ++ l2) -> AllIn l1 /\ AllIn l2.
Proof. intros H. apply Forall_app in H. exact H. Qed.

Lemma AllIn_rev l : AllIn l -> AllIn (rev l).
Proof. apply Forall_rev. Qed.

Lemma AllIn_slice l s e : AllIn l -> AllIn (slice l s e).
Proof. intros H. unfold slice. apply AllIn_firstn, AllIn_skipn, H. Qed.

Lemma AllIn_map f l : (forall x, okc x -> okc (f x)) -> AllIn l -> AllIn (map f l).
Proof. intros Hf H. induction H; cbn; constructor; auto. Qed.

Lemma AllIn_nth l i x : AllIn l -> nth_error l i = Some x -> okc x.
Proof. intros H E. apply nth_error_In in E. eapply Forall_forall in H; eauto. Qed.

Lemma AllIn_map_range f s e l : (forall x, okc x -> okc (f x)) -> AllIn l -> AllIn (map_range f s e l).
Proof.
  intros Hf. revert s e. induction l as [|x l IH]; intros s e H; [simpl; constructor|].
  inversion H as [|y l' Hy Hl']; subst. destruct e as [|e]; [exact H|].
  destruct s as [|s]; simpl; constructor; [apply Hf, Hy|apply IH, Hl'|exact Hy|apply IH, Hl'].
Qed.

Lemma min_cluster_in l : forall init, In init S -> AllIn l -> In (min_cluster_list l init) S.
Proof.
  unfold min_cluster_list. induction l as [|x l IH]; intros init Hi H; cbn; [exact Hi|].
  inversion H; subst. apply IH; [|assumption].
  destruct (N.min_dec init (cluster x)) as [E|E]; rewrite E; assumption.
Qed.

Lemma AllIn_map_suffix_run f c l : (forall x, okc x -> okc (f x)) -> AllIn l -> AllIn (map_suffix_run f c l).
Proof.
  intros Hf H. unfold map_suffix_run. apply AllIn_app; [apply AllIn_firstn, H|].
  apply AllIn_map; [exact Hf|apply AllIn_skipn, H].
Qed.

(* ---- merge ---- *)

Lemma merge_array_ok l s e r c0 c :
  AllIn l -> merge_array l s e = Ok (r, c0, c) -> AllIn r /\ In c S.
Proof.
  intros H. unfold merge_array.
  destruct (nth_error l s) as [first|] eqn:E1; [|discriminate].
  destruct (nth_error l (e - 1)) as [last|] eqn:E2; [|discriminate].
  intros Heq. inversion Heq; subst; clear Heq.
  assert (Hc : In (min_cluster_list (slice l (Datatypes.S s) e) (cluster first)) S).
  { apply min_cluster_in; [eapply AllIn_nth; eauto|apply AllIn_slice, H]. }
  split; [|exact Hc]. apply AllIn_map_range; [|exact H]. intros x _. apply okc_set_cluster, Hc.
Qed.

Lemma Inv_with_pr b p r d : AllIn p -> AllIn r -> Inv (with_pr b p r d).
Proof. intros; split; assumption. Qed.

Lemma Inv_with_scratch b s : Inv b -> Inv (with_scratch b s).
Proof. intros H; exact H. Qed.

Lemma Inv_add_scratch b a : Inv b -> Inv (add_scratch b a).
Proof. intros H; unfold add_scratch; destruct a; exact H. Qed.

Lemma Inv_of_arr b a : AllIn a -> Inv (of_arr b a).
Proof. intros H. unfold of_arr. apply Inv_with_pr; [apply AllIn_firstn|apply AllIn_skipn]; exact H. Qed.

Lemma Inv_arr b : Inv b -> AllIn (arr b).
Proof. intros [H1 H2]. apply AllIn_app; assumption. Qed.

Lemma merge_clusters_ok b s e b' : Inv b -> merge_clusters b s e = Ok b' -> Inv b'.
Proof.
  intros [Hp Hr]. unfold merge_clusters.
  destruct (e - s <? 2)%nat; [intros E; inversion E; subst; split; assumption|].
  destruct (level b =? 2); [intros E; inversion E; subst; split; assumption|].
  destruct (out_mode b).
  - destruct (s <? dead b)%nat; [discriminate|].
    destruct (merge_array (rest b) (s - dead b) (e - dead b)) as [[[r c0] c]|] eqn:E; cbn [bind]; [|discriminate].
    intros Heq. inversion Heq; subst; clear Heq.
    destruct (merge_array_ok _ _ _ _ _ _ Hr E) as [Hr' Hc].
    apply Inv_with_pr; [|exact Hr'].
    destruct ((s =? dead b)%nat && negb (c0 =? c))%bool; [|exact Hp].
    apply AllIn_map_suffix_run; [|exact Hp]. intros x _. apply okc_set_cluster, Hc.
  - destruct (merge_array (pre b ++ rest b) s e) as [[[r c0] c]|] eqn:E; cbn [bind]; [|discriminate].
    intros Heq. inversion Heq; subst; clear Heq.
    destruct (merge_array_ok _ _ _ _ _ _ (AllIn_app _ _ Hp Hr) E) as [Hr' _].
    apply Inv_with_pr; [apply AllIn_firstn|apply AllIn_skipn]; exact Hr'.
Qed.

(* ---- flags: clusters are untouched ---- *)

Lemma flag_while_ok c stop m l : AllIn l -> AllIn (fst (flag_while_ne_fwd c stop m l)).
Proof.
  induction l as [|x l IH]; intros H; simpl; [constructor|].
  inversion H as [|y l' Hy Hl']; subst. destruct (cluster x =? stop); [exact H|].
  specialize (IH Hl'). destruct (flag_while_ne_fwd c stop m l) as [t' a]. simpl in IH.
  destruct (cluster x =? c); simpl; constructor; assumption.
Qed.

Lemma flag_all_ok c m l : AllIn l -> AllIn (fst (flag_all_ne c m l)).
Proof. intros H. cbn. apply AllIn_map; [|exact H]. intros x Hx. destruct (cluster x =? c); exact Hx. Qed.

Lemma infos_set_glyph_flags_ok lvl l s e c m r :
  AllIn l -> infos_set_glyph_flags lvl l s e c m = Ok r -> AllIn (fst r).
Proof.
  intros H. unfold infos_set_glyph_flags.
  destruct (s =? e)%nat; [intros E; inversion E; subst; exact H|].
  destruct (nth_error l s) as [first|]; [|discriminate].
  destruct (nth_error l (e - 1)) as [last|]; [|discriminate].
  destruct ((lvl =? 2) || (negb (c =? cluster first) && negb (c =? cluster last)))%bool.
  - pose proof (flag_all_ok c m _ (AllIn_slice l s e H)) as H1.
    destruct (flag_all_ne c m (slice l s e)) as [mid' ap]. intros E; inversion E; subst; cbn.
    apply AllIn_app; [apply AllIn_firstn, H|apply AllIn_app; [exact H1|apply AllIn_skipn, H]].
  - destruct (c =? cluster first).
    + pose proof (flag_while_ok c (cluster first) m _ (AllIn_rev _ (AllIn_slice l s e H))) as H1.
      destruct (flag_while_ne_fwd c (cluster first) m (rev (slice l s e))) as [r' ap]. intros E; inversion E; subst; cbn.
      apply AllIn_app; [apply AllIn_firstn, H|apply AllIn_app; [apply AllIn_rev, H1|apply AllIn_skipn, H]].
    + pose proof (flag_while_ok c (cluster last) m _ (AllIn_slice l s e H)) as H1.
      destruct (flag_while_ne_fwd c (cluster last) m (slice l s e)) as [mid' ap]. intros E; inversion E; subst; cbn.
      apply AllIn_app; [apply AllIn_firstn, H|apply AllIn_app; [exact H1|apply AllIn_skipn, H]].
Qed.

Lemma set_glyph_flags_ok b m s e interior from_out b' :
  Inv b -> set_glyph_flags b m s e interior from_out = Ok b' -> Inv b'.
Proof.
  intros [Hp Hr]. unfold set_glyph_flags.
  set (s0 := match s with Some x => x | None => 0%nat end).
  set (e0 := Nat.min (match e with Some x => x | None => blen b end) (blen b)).
  destruct ((e0 <? s0)%nat && interior && negb from_out)%bool; [discriminate|].
  destruct ((e0 <? s0)%nat && negb interior && negb from_out)%bool; [intros E; inversion E; split; assumption|].
  destruct ((e0 <? s0)%nat && negb (out_mode b) && negb interior)%bool; [intros E; inversion E; split; assumption|].
  destruct ((e0 <? s0)%nat && negb (out_mode b))%bool; [discriminate|].
  destruct (interior && negb from_out && (e0 - s0 <? 2)%nat)%bool; [intros E; inversion E; subst; split; assumption|].
  cbv zeta.
  destruct (negb from_out || negb (out_mode (with_scratch b (N.lor (scratch b) SCRATCH_HAS_GLYPH_FLAGS))))%bool.
  - cbn [out_mode with_scratch pre rest dead level].
    destruct (out_mode b).
    + destruct (s0 <? dead b)%nat; [discriminate|].
      destruct (negb interior).
      * intros E; inversion E; subst. apply Inv_with_pr; [exact Hp|apply AllIn_map_range; [intros; assumption|exact Hr]].
      * destruct (find_min_cluster (level b) (rest b) (s0 - dead b) (e0 - dead b) U32_MAX) as [c|]; cbn [bind]; [|discriminate].
        destruct (infos_set_glyph_flags (level b) (rest b) (s0 - dead b) (e0 - dead b) c m) as [r|] eqn:E2; cbn [bind]; [|discriminate].
        intros E; inversion E; subst. apply Inv_add_scratch, Inv_with_pr; [exact Hp|eapply infos_set_glyph_flags_ok; eauto].
    + destruct (negb interior).
      * intros E; inversion E; subst.
        apply Inv_with_pr; [apply AllIn_firstn|apply AllIn_skipn]; (apply AllIn_map_range; [intros; assumption|apply AllIn_app; assumption]).
      * destruct (find_min_cluster (level b) (pre b ++ rest b) s0 e0 U32_MAX) as [c|]; cbn [bind]; [|discriminate].
        destruct (infos_set_glyph_flags (level b) (pre b ++ rest b) s0 e0 c m) as [r|] eqn:E2; cbn [bind]; [|discriminate].
        intros E; inversion E; subst.
        pose proof (infos_set_glyph_flags_ok _ _ _ _ _ _ _ (AllIn_app _ _ Hp Hr) E2) as H2.
        apply Inv_add_scratch, Inv_with_pr; [apply AllIn_firstn|apply AllIn_skipn]; exact H2.
  - cbn [out_mode with_scratch pre rest dead level].
    destruct (length (pre b) <? s0)%nat; [discriminate|].
    destruct (e0 <? dead b)%nat; [discriminate|].
    destruct (negb interior).
    + intros E; inversion E; subst.
      apply Inv_with_pr; apply AllIn_map_range; try (intros; assumption); assumption.
    + destruct (find_min_cluster (level b) (rest b) 0 (e0 - dead b) U32_MAX) as [c1|]; cbn [bind]; [|discriminate].
      destruct (find_min_cluster (level b) (pre b) s0 (length (pre b)) c1) as [c|]; cbn [bind]; [|discriminate].
      destruct (infos_set_glyph_flags (level b) (pre b) s0 (length (pre b)) c m) as [r1|] eqn:E1; cbn [bind]; [|discriminate].
      destruct (infos_set_glyph_flags (level b) (rest b) 0 (e0 - dead b) c m) as [r2|] eqn:E2; cbn [bind]; [|discriminate].
      intros E; inversion E; subst.
      apply Inv_add_scratch, Inv_add_scratch, Inv_with_pr;
        [exact (infos_set_glyph_flags_ok _ _ _ _ _ _ _ Hp E1)|exact (infos_set_glyph_flags_ok _ _ _ _ _ _ _ Hr E2)].
Qed.

Lemma merge_clusters_full_ok b s e b' : Inv b -> merge_clusters_full b s e = Ok b' -> Inv b'.
Proof.
  intros H. unfold merge_clusters_full.
  destruct (e - s <? 2)%nat; [intros E; inversion E; subst; exact H|].
  destruct (level b =? 2); [apply set_glyph_flags_ok, H|apply merge_clusters_ok, H].
Qed.

Lemma merge_out_clusters_ok b s e b' : Inv b -> merge_out_clusters b s e = Ok b' -> Inv b'.
Proof.
  intros [Hp Hr]. unfold merge_out_clusters.
  destruct (level b =? 2); [intros E; inversion E; subst; split; assumption|].
  destruct (e - s <? 2)%nat; [intros E; inversion E; subst; split; assumption|].
  destruct (nth_error (pre b) s) as [first|] eqn:E1; [|discriminate].
  destruct (nth_error (pre b) (e - 1)) as [last|] eqn:E2; [|discriminate].
  intros E; inversion E; subst; clear E.
  assert (Hc : In (min_cluster_list (slice (pre b) (Datatypes.S s) e) (cluster first)) S).
  { apply min_cluster_in; [exact (AllIn_nth _ _ _ Hp E1)|apply AllIn_slice, Hp]. }
  apply Inv_with_pr.
  - apply AllIn_map_range; [intros x _; apply okc_set_cluster, Hc|exact Hp].
  - match goal with |- AllIn (if ?c then _ else _) => destruct c end; [|exact Hr].
    apply AllIn_app; [apply AllIn_map; [intros x _; apply okc_set_cluster, Hc|apply AllIn_firstn, Hr]|apply AllIn_skipn, Hr].
Qed.

(* ---- streaming ops ---- *)

Lemma ensure_Inv b n : Inv b -> Inv (snd (ensure b n)).
Proof. intros H. unfold ensure. destruct (n <? blen b)%nat; [exact H|]. destruct (max_len b <? N.of_nat n); exact H. Qed.

Lemma make_room_Inv b n : Inv b -> Inv (snd (make_room_for b n)).
Proof. apply ensure_Inv. Qed.

Lemma ensure_pre_rest b n : pre (snd (ensure b n)) = pre b /\ rest (snd (ensure b n)) = rest b /\ dead (snd (ensure b n)) = dead b.
Proof. unfold ensure. destruct (n <? blen b)%nat; [auto|]. destruct (max_len b <? N.of_nat n); auto. Qed.

Ltac room b n :=
  let okk := fresh "okk" in let b1 := fresh "b1" in let E := fresh "Eroom" in
  pose proof (make_room_Inv b n) as ?Hroom;
  destruct (make_room_for b n) as [okk b1] eqn:E.

Lemma next_glyph_ok b b' : Inv b -> next_glyph b = Ok b' -> Inv b'.
Proof.
  intros H. pose proof H as [Hp Hr]. unfold next_glyph. destruct (rest b) as [|x t] eqn:Er; [discriminate|].
  inversion Hr; subst.
  assert (Hn : AllIn (pre b ++ [x])) by (apply AllIn_app; [exact Hp|constructor; [assumption|constructor]]).
  destruct (out_mode b).
  - pose proof (make_room_Inv b 1 H) as Hm.
    destruct (make_room_for b 1) as [okk b1]. cbn in Hm.
    destruct okk; intros E; inversion E; subst; [apply Inv_with_pr; assumption|exact Hm].
  - intros E; inversion E; subst. apply Inv_with_pr; assumption.
Qed.

Lemma next_glyphs_ok b n b' : Inv b -> next_glyphs b n = Ok b' -> Inv b'.
Proof.
  intros [Hp Hr]. unfold next_glyphs. destruct (length (rest b) <? n)%nat; [discriminate|].
  assert (Hn : AllIn (pre b ++ firstn n (rest b))) by (apply AllIn_app; [exact Hp|apply AllIn_firstn, Hr]).
  pose proof (AllIn_skipn n _ Hr) as Hs.
  destruct (out_mode b).
  - pose proof (make_room_Inv b n (conj Hp Hr)) as Hm.
    destruct (make_room_for b n) as [okk b1]. cbn in Hm.
    destruct okk; intros E; inversion E; subst; [apply Inv_with_pr; assumption|exact Hm].
  - intros E; inversion E; subst. apply Inv_with_pr; assumption.
Qed.

Lemma skip_glyph_ok b b' : Inv b -> skip_glyph b = Ok b' -> Inv b'.
Proof.
  intros [Hp Hr]. unfold skip_glyph. destruct (rest b) as [|x t] eqn:Er; [discriminate|].
  inversion Hr; subst. intros E; inversion E; subst. apply Inv_with_pr; [|assumption].
  destruct (out_mode b); [exact Hp|apply AllIn_app; [exact Hp|constructor; [assumption|constructor]]].
Qed.

Lemma replace_glyph_ok b g b' : Inv b -> replace_glyph b g = Ok b' -> Inv b'.
Proof.
  intros H. pose proof H as [Hp Hr]. unfold replace_glyph. destruct (rest b) as [|x t] eqn:Er; [discriminate|].
  inversion Hr; subst.
  pose proof (make_room_Inv b 1 H) as Hm.
  destruct (make_room_for b 1) as [okk b1]. cbn in Hm.
  destruct okk; intros E; inversion E; subst; [|exact Hm].
  apply Inv_with_pr; [|assumption]. apply AllIn_app; [exact Hp|constructor; [apply okc_set_gid; assumption|constructor]].
Qed.

Lemma replace_glyphs_ok b n gs b' : Inv b -> replace_glyphs b n gs = Ok b' -> Inv b'.
Proof.
  intros H. unfold replace_glyphs.
  pose proof (make_room_Inv b (length gs) H) as Hm.
  destruct (make_room_for b (length gs)) as [okk b1]. cbn in Hm.
  destruct okk; cbn [negb]; [|intros E; inversion E; subst; exact Hm].
  destruct (length (rest b) <? n)%nat; [discriminate|].
  destruct (merge_clusters_full b (dead b) (dead b + n)) as [b2|] eqn:E2; cbn [bind]; [|discriminate].
  pose proof (merge_clusters_full_ok _ _ _ _ H E2) as [Hp2 Hr2].
  destruct (rest b2) as [|orig t] eqn:Er; [discriminate|].
  intros E; inversion E; subst. inversion Hr2; subst.
  apply Inv_with_pr.
  - apply AllIn_app; [exact Hp2|]. clear - H2. induction gs; cbn; constructor; auto.
  - rewrite <- Er. apply AllIn_skipn. rewrite Er. exact Hr2.
Qed.

Lemma AllIn_rev_hd l x t : AllIn l -> rev l = x :: t -> okc x.
Proof. intros H E. apply AllIn_rev in H. rewrite E in H. inversion H; assumption. Qed.

Lemma output_glyph_ok b g b' : Inv b -> output_glyph b g = Ok b' -> Inv b'.
Proof.
  intros [Hp Hr]. unfold output_glyph.
  pose proof (make_room_Inv b 1 (conj Hp Hr)) as Hm.
  destruct (make_room_for b 1) as [okk b1]. cbn in Hm.
  destruct okk; cbn [negb]; [|intros E; inversion E; subst; exact Hm].
  destruct (rest b) as [|x t] eqn:Er.
  - destruct (rev (pre b)) as [|l t'] eqn:Ep; intros E; inversion E; subst; [split; [exact Hp|rewrite Er; constructor]|].
    apply Inv_with_pr; [|constructor].
    apply AllIn_app; [exact Hp|constructor; [apply okc_set_gid; exact (AllIn_rev_hd _ _ _ Hp Ep)|constructor]].
  - inversion Hr; subst. intros E; inversion E; subst.
    apply Inv_with_pr; [|exact Hr].
    apply AllIn_app; [exact Hp|constructor; [apply okc_set_gid; assumption|constructor]].
Qed.

Lemma output_info_ok b i b' : okc i -> Inv b -> output_info b i = Ok b' -> Inv b'.
Proof.
  intros Hi [Hp Hr]. unfold output_info.
  pose proof (make_room_Inv b 1 (conj Hp Hr)) as Hm.
  destruct (make_room_for b 1) as [okk b1]. cbn in Hm.
  destruct okk; cbn [negb]; intros E; inversion E; subst; [|exact Hm].
  apply Inv_with_pr; [|exact Hr]. apply AllIn_app; [exact Hp|constructor; [exact Hi|constructor]].
Qed.

Lemma copy_glyph_ok b b' : Inv b -> copy_glyph b = Ok b' -> Inv b'.
Proof.
  intros [Hp Hr]. unfold copy_glyph.
  pose proof (make_room_Inv b 1 (conj Hp Hr)) as Hm.
  destruct (make_room_for b 1) as [okk b1]. cbn in Hm.
  destruct okk; cbn [negb]; [|intros E; inversion E; subst; exact Hm].
  destruct (rest b) as [|x t] eqn:Er; [discriminate|]. inversion Hr; subst.
  intros E; inversion E; subst. apply Inv_with_pr; [|exact Hr].
  apply AllIn_app; [exact Hp|constructor; [assumption|constructor]].
Qed.

Lemma delete_glyph_ok b b' : Inv b -> delete_glyph b = Ok b' -> Inv b'.
Proof.
  intros H. pose proof H as [Hp Hr]. unfold delete_glyph.
  destruct (rest b) as [|x t] eqn:Er; [discriminate|]. inversion Hr; subst.
  match goal with |- (if ?c then _ else _) = _ -> _ => destruct c end; [apply skip_glyph_ok, H|].
  destruct (out_mode b && (0 <? length (pre b))%nat)%bool.
  - destruct (last_cluster (pre b)) as [old|]; [|discriminate].
    apply skip_glyph_ok. apply Inv_with_pr; [|exact Hr].
    destruct (cluster x <? old); [|exact Hp].
    apply AllIn_map_suffix_run; [|exact Hp]. intros y _. apply okc_set_cluster. assumption.
  - destruct t as [|y t'].
    + apply skip_glyph_ok, H.
    + destruct (merge_clusters_full b (dead b) (dead b + 2)) as [b1|] eqn:E1; cbn [bind]; [|discriminate].
      apply skip_glyph_ok. eapply merge_clusters_full_ok; eauto.
Qed.

Lemma move_to_ok b i r b' : Inv b -> move_to b i = Ok (r, b') -> Inv b'.
Proof.
  intros H. pose proof H as [Hp Hr]. unfold move_to.
  destruct (negb (out_mode b)).
  - destruct (blen b <? i)%nat; [discriminate|]. intros E; inversion E; subst.
    apply Inv_with_pr; [apply AllIn_firstn|apply AllIn_skipn]; apply AllIn_app; assumption.
  - destruct (negb (ok b)); [intros E; inversion E; subst; exact H|].
    destruct (length (pre b) + length (rest b) <? i)%nat; [discriminate|].
    destruct (length (pre b) <? i)%nat.
    + pose proof (make_room_Inv b (i - length (pre b)) H) as Hm.
      destruct (make_room_for b (i - length (pre b))) as [okk b1]. cbn in Hm.
      destruct okk; cbn [negb]; intros E; inversion E; subst; [|exact Hm].
      apply Inv_with_pr; [apply AllIn_app; [exact Hp|apply AllIn_firstn, Hr]|apply AllIn_skipn, Hr].
    + destruct (i <? length (pre b))%nat; [|intros E; inversion E; subst; exact H].
      destruct (dead b <? length (pre b) - i)%nat.
      * pose proof (ensure_Inv b (blen b + (length (pre b) - i - dead b)) H) as Hm.
        destruct (ensure b (blen b + (length (pre b) - i - dead b))) as [okk b1]. cbn in Hm.
        destruct okk; cbn [negb]; intros E; inversion E; subst; [|exact Hm].
        apply Inv_with_pr; [apply AllIn_firstn, Hp|apply AllIn_app; [apply AllIn_skipn, Hp|exact Hr]].
      * intros E; inversion E; subst.
        apply Inv_with_pr; [apply AllIn_firstn, Hp|apply AllIn_app; [apply AllIn_skipn, Hp|exact Hr]].
Qed.

Lemma clear_output_ok b : Inv b -> Inv (clear_output b).
Proof.
  intros [Hp Hr]. unfold clear_output. destruct (out_mode b); split; cbn; try constructor; try assumption.
  apply AllIn_app; assumption.
Qed.

Lemma sync_ok b b' : Inv b -> sync b = Ok (Some b') -> Inv b'.
Proof.
  intros H. unfold sync. destruct (negb (out_mode b)); [discriminate|]. destruct (negb (ok b)); [discriminate|].
  destruct (next_glyphs b (length (rest b))) as [b1|] eqn:E1; cbn [bind]; [|discriminate].
  pose proof (next_glyphs_ok _ _ _ H E1) as [Hp1 Hr1].
  destruct (negb (ok b1)); [discriminate|]. intros E; inversion E; subst. split; cbn; [constructor|exact Hp1].
Qed.

(* ---- in-place ops ---- *)

Lemma reverse_range_ok b s e b' : Inv b -> reverse_range b s e = Ok b' -> Inv b'.
Proof.
  intros H. unfold reverse_range. destruct (e - s <? 2)%nat; [intros E; inversion E; subst; exact H|].
  destruct (length (arr b) <? e)%nat; [discriminate|]. intros E; inversion E; subst.
  pose proof (Inv_arr _ H) as Ha. apply Inv_of_arr.
  apply AllIn_app; [apply AllIn_firstn, Ha|apply AllIn_app; [apply AllIn_rev, AllIn_slice, Ha|apply AllIn_skipn, Ha]].
Qed.

Lemma reverse_ok b b' : Inv b -> reverse b = Ok b' -> Inv b'.
Proof. apply reverse_range_ok. Qed.

Lemma reset_masks_ok b m : Inv b -> Inv (reset_masks b m).
Proof. intros H. apply Inv_of_arr, AllIn_map; [intros; assumption|apply Inv_arr, H]. Qed.

Lemma set_masks_ok b v m cs ce : Inv b -> Inv (set_masks b v m cs ce).
Proof.
  intros H. unfold set_masks. destruct (m =? 0); [exact H|]. cbv zeta.
  destruct ((cs =? 0) && (ce =? U32_MAX))%bool; apply Inv_of_arr, AllIn_map; try (apply Inv_arr, H).
  - intros; assumption.
  - intros x Hx. destruct ((cs <=? cluster x) && (cluster x <? ce))%bool; assumption.
Qed.

Lemma move_elem_ok a i j : AllIn a -> AllIn (move_elem a i j).
Proof.
  intros H. unfold move_elem. destruct (nth_error a i) as [t|] eqn:E; [|exact H].
  apply AllIn_app; [apply AllIn_firstn, H|]. apply AllIn_app; [constructor; [eapply AllIn_nth; eauto|constructor]|].
  apply AllIn_app; [apply AllIn_slice, H|apply AllIn_skipn, H].
Qed.

Lemma sort_loop_ok cmp start is : forall b b', Inv b -> sort_loop cmp b start is = Ok b' -> Inv b'.
Proof.
  induction is as [|i t IH]; intros b b' H; cbn [sort_loop]; [intros E; inversion E; subst; exact H|].
  destruct (nth_error (arr b) i) as [x|]; [|discriminate].
  destruct (i =? find_j cmp (arr b) x start i)%nat; [apply IH, H|].
  destruct (merge_clusters_full b (find_j cmp (arr b) x start i) (Datatypes.S i)) as [b1|] eqn:E1; cbn [bind]; [|discriminate].
  apply IH. apply Inv_of_arr, move_elem_ok, Inv_arr. eapply merge_clusters_full_ok; eauto.
Qed.

Lemma sort_ok cmp b s e b' : Inv b -> sort cmp b s e = Ok b' -> Inv b'.
Proof. apply sort_loop_ok. Qed.

Lemma rg_loop_ok grp merge is : forall b start b', Inv b -> rg_loop grp merge b start is = Ok b' -> Inv b'.
Proof.
  induction is as [|i t IH]; intros b start b' H; cbn [rg_loop].
  - destruct merge.
    + destruct (merge_clusters_full b start (blen b)) as [b1|] eqn:E1; cbn [bind]; [|discriminate].
      pose proof (merge_clusters_full_ok _ _ _ _ H E1) as H1.
      destruct (reverse_range b1 start (blen b1)) as [b2|] eqn:E2; cbn [bind]; [|discriminate].
      apply reverse_ok. eapply reverse_range_ok; eauto.
    + cbn [bind]. destruct (reverse_range b start (blen b)) as [b2|] eqn:E2; cbn [bind]; [|discriminate].
      apply reverse_ok. eapply reverse_range_ok; eauto.
  - destruct (nth_error (arr b) (i - 1)) as [x|]; [|discriminate].
    destruct (nth_error (arr b) i) as [y|]; [|discriminate].
    destruct (grp x y); [apply IH, H|].
    destruct merge.
    + destruct (merge_clusters_full b start i) as [b1|] eqn:E1; cbn [bind]; [|discriminate].
      pose proof (merge_clusters_full_ok _ _ _ _ H E1) as H1.
      destruct (reverse_range b1 start i) as [b2|] eqn:E2; cbn [bind]; [|discriminate].
      apply IH. eapply reverse_range_ok; eauto.
    + cbn [bind]. destruct (reverse_range b start i) as [b2|] eqn:E2; cbn [bind]; [|discriminate].
      apply IH. eapply reverse_range_ok; eauto.
Qed.

Lemma reverse_groups_ok grp merge b b' : Inv b -> reverse_groups grp merge b = Ok b' -> Inv b'.
Proof.
  intros H. unfold reverse_groups. destruct (blen b =? 0)%nat; [intros E; inversion E; subst; exact H|].
  apply rg_loop_ok, H.
Qed.

Lemma dgi_loop_ok lvl flt fuel : forall kept l t,
  AllIn kept -> AllIn l -> AllIn (fst (dgi_loop fuel lvl flt kept l t)).
Proof.
  induction fuel as [|fuel IH]; intros kept l t Hk Hl; cbn [dgi_loop].
  - cbn. apply AllIn_app; [apply AllIn_rev, Hk|exact Hl].
  - destruct l as [|x l']; [cbn; apply AllIn_rev, Hk|]. inversion Hl; subst.
    destruct (flt x); [|apply IH; [constructor; assumption|assumption]].
    assert (Hback : forall k, AllIn k -> AllIn
      match k with
      | k0 :: _ => if cluster x <? cluster k0
                   then map (fun i => set_cluster i (cluster x) (mask x)) (firstn (run_len (cluster k0) k) k) ++ skipn (run_len (cluster k0) k) k
                   else k
      | [] => k
      end).
    { intros k Hk'. destruct k as [|k0 k']; [exact Hk'|]. destruct (cluster x <? cluster k0); [|exact Hk'].
      apply AllIn_app; [apply AllIn_map; [intros y _; apply okc_set_cluster; assumption|apply AllIn_firstn, Hk']|apply AllIn_skipn, Hk']. }
    destruct l' as [|y l''].
    + apply IH; [apply Hback, Hk|constructor].
    + destruct (cluster y =? cluster x); [apply IH; assumption|].
      destruct kept as [|k0 k'].
      * inversion H2; subst.
        destruct (lvl =? 2).
        -- apply IH; [constructor|]. destruct (cluster x <? cluster y); [constructor; [apply okc_or_mask; assumption|assumption]|assumption].
        -- apply IH; [constructor|].
           assert (Hcm : In (N.min (cluster x) (cluster y)) S).
           { destruct (N.min_dec (cluster x) (cluster y)) as [E|E]; rewrite E; assumption. }
           apply AllIn_app; [apply AllIn_map; [intros z _; apply okc_set_cluster, Hcm|apply AllIn_firstn, H2]|apply AllIn_skipn, H2].
      * apply IH; [apply (Hback (k0 :: k')), Hk|assumption].
Qed.

Lemma delete_glyphs_inplace_ok lvl flt l : AllIn l -> AllIn (fst (delete_glyphs_inplace lvl flt l)).
Proof. intros H. unfold delete_glyphs_inplace. apply dgi_loop_ok; [constructor|exact H]. Qed.

(* ---- the whole alphabet ---- *)

Definition op_ok (o : bop) : Prop :=
  match o with OOutputInfo i => okc i | _ => True end.

Ltac guards :=
  repeat match goal with
         | |- (if ?c then _ else _) = _ -> _ => destruct c; [try discriminate|try discriminate]
         end.

Ltac via lem :=
  match goal with
  | |- match ?x with Ok _ => _ | Error _ => _ end = _ -> _ =>
      let E := fresh "E" in let Heq := fresh "Heq" in
      destruct x eqn:E; [|discriminate]; intros Heq; inversion Heq; subst; eapply lem; eauto
  end.

Theorem step_ok b o r b' : op_ok o -> Inv b -> step b o = Ok (Some (r, b')) -> Inv b'.
Proof.
  intros Ho H. destruct o; cbn [step]; guards.
  - via next_glyph_ok.
  - via next_glyphs_ok.
  - via skip_glyph_ok.
  - via replace_glyph_ok.
  - via replace_glyphs_ok.
  - via output_glyph_ok.
  - via output_info_ok.
  - via copy_glyph_ok.
  - via delete_glyph_ok.
  - destruct (move_to b i) as [[r0 b0]|] eqn:E; [|discriminate]. intros Heq; inversion Heq; subst. eapply move_to_ok; eauto.
  - via merge_clusters_full_ok.
  - via merge_out_clusters_ok.
  - via set_glyph_flags_ok.
  - unfold unsafe_to_concat. destruct (produce_concat b); [via set_glyph_flags_ok|intros Heq; inversion Heq; subst; exact H].
  - via set_glyph_flags_ok.
  - unfold unsafe_to_concat_from_outbuffer. destruct (produce_concat b); [via set_glyph_flags_ok|intros Heq; inversion Heq; subst; exact H].
  - intros Heq; inversion Heq; subst. apply clear_output_ok, H.
  - destruct (sync b) as [[b0|]|] eqn:E; try discriminate. intros Heq; inversion Heq; subst. eapply sync_ok; eauto.
  - via reverse_ok.
  - via reverse_range_ok.
  - via reverse_groups_ok.
  - intros Heq; inversion Heq; subst. apply reset_masks_ok, H.
  - intros Heq; inversion Heq; subst. apply set_masks_ok, H.
  - via sort_ok.
  - pose proof (delete_glyphs_inplace_ok (level b) flt_odd (arr b) (Inv_arr _ H)) as Hd.
    destruct (delete_glyphs_inplace (level b) flt_odd (arr b)) as [a touched]. cbn in Hd.
    intros Heq; inversion Heq; subst. apply Inv_add_scratch, Inv_with_pr; [apply AllIn_firstn|apply AllIn_skipn]; exact Hd.
Qed.

Theorem run_ok ops : forall b b', Forall op_ok ops -> Inv b -> run b ops = Ok (Some b') -> Inv b'.
Proof.
  induction ops as [|o t IH]; intros b b' Ho H; cbn [run]; [intros E; inversion E; subst; exact H|].
  inversion Ho; subst.
  destruct (step b o) as [[[r b1]|]|] eqn:E; try discriminate.
  apply IH; [assumption|eapply step_ok; eauto].
Qed.

End Subset.
