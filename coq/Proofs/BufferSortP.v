(* Proofs/BufferSortP.v — the element-moving operations of Model/Buffer.v (property C08):
   hb_buffer_t::sort (literal insertion loop with merge_clusters before every move) yields a stable sorted
   permutation of the segment and touches nothing but cluster/mask fields; move_elem is a rotation and equals
   the backward shift loop of the source; delete_glyphs_inplace returns exactly the surviving elements in order.

   The two generic sections (ListFacts, InsSort) are the abstract insertion-sort facts also used by
   Proofs/NormalizeSortP.v (C09's own list model of the same routine); they are repeated here so that the two
   properties build independently. *)
From Coq Require Import List NArith Bool Lia Arith Permutation.
From RB Require Import Base.Result Gen.CopyLoops Model.Buffer Model.CopyLoop Proofs.CopyLoopP.
Import ListNotations.
Local Open Scope N_scope.

Arguments N.add : simpl never.
Arguments N.sub : simpl never.
Arguments N.mul : simpl never.
Arguments N.eqb : simpl never.
Arguments N.ltb : simpl never.
Arguments N.leb : simpl never.
Arguments N.min : simpl never.

(* ------------------------------------------------------------------ generic list facts *)
Section ListFacts.
  Variable A : Type.
  Variable d : A.

  Lemma nth_firstn_lt (l : list A) : forall n p, (p < n)%nat -> nth p (firstn n l) d = nth p l d.
  Proof.
    induction l as [|x l IH]; intros [|n] [|p] H; cbn [firstn nth]; try lia; try reflexivity.
    apply IH. lia.
  Qed.

  Lemma nth_skipn (l : list A) : forall n p, nth p (skipn n l) d = nth (n + p) l d.
  Proof.
    induction l as [|x l IH]; intros [|n] p; cbn [skipn Nat.add]; try reflexivity.
    - destruct p; reflexivity.
    - cbn [nth]. apply IH.
  Qed.

  Lemma skipn_nth_cons (l : list A) : forall i, (i < length l)%nat -> skipn i l = nth i l d :: skipn (S i) l.
  Proof.
    induction l as [|x l IH]; intros [|i] H; cbn [length] in H; try lia; [reflexivity|].
    cbn [skipn nth]. rewrite (IH i) by lia. reflexivity.
  Qed.

  Lemma skipn_skipn' (l : list A) : forall a b, skipn a (skipn b l) = skipn (b + a) l.
  Proof.
    induction l as [|x l IH]; intros a [|b]; cbn [skipn Nat.add]; try reflexivity.
    - destruct a; reflexivity.
    - apply IH.
  Qed.

  Lemma decomp3 (l : list A) j i : (j <= i < length l)%nat ->
    l = firstn j l ++ firstn (i - j) (skipn j l) ++ nth i l d :: skipn (S i) l.
  Proof.
    intros H. rewrite <- (firstn_skipn j l) at 1. f_equal.
    rewrite <- (firstn_skipn (i - j) (skipn j l)) at 1. f_equal.
    rewrite skipn_skipn'. replace (j + (i - j))%nat with i by lia. apply skipn_nth_cons. lia.
  Qed.





  Lemma perm_insert (pre seg : list A) z post :
    Permutation (pre ++ z :: seg ++ post) (pre ++ seg ++ z :: post).
  Proof. apply Permutation_app_head. apply Permutation_middle. Qed.

  Lemma filter_none (p : A -> bool) l : (forall x, In x l -> p x = false) -> filter p l = [].
  Proof.
    induction l as [|x l IH]; intros H; [reflexivity|]. cbn [filter].
    rewrite (H x (or_introl eq_refl)). apply IH. intros y Hy. apply H. right. exact Hy.
  Qed.

  Lemma filter_insert (p : A -> bool) pre seg z post :
    (p z = true -> forall x, In x seg -> p x = false) ->
    filter p (pre ++ z :: seg ++ post) = filter p (pre ++ seg ++ z :: post).
  Proof.
    intros H. rewrite !filter_app. cbn [filter]. rewrite filter_app. f_equal.
    destruct (p z) eqn:Ez; [|reflexivity]. rewrite (filter_none p seg (H eq_refl)). reflexivity.
  Qed.
End ListFacts.

Arguments nth_firstn_lt {A}.
Arguments nth_skipn {A}.
Arguments decomp3 {A}.

(* ------------------------------------------------------------------ the insertion step, abstractly *)
Section InsSort.
  Variable A : Type.
  Variable key : A -> N.
  Variable d : A.

  Fixpoint find_jG (l : list A) (i start j : nat) : nat :=
    match j with
    | O => O
    | S j' => if (start <? j)%nat && (key (nth i l d) <? key (nth j' l d)) then find_jG l i start j' else j
    end.

  (* move element i in front of element j *)
  Definition splice (l : list A) (j i : nat) : list A :=
    firstn j l ++ nth i l d :: firstn (i - j) (skipn j l) ++ skipn (S i) l.

  Definition stepG (start : nat) (l : list A) (i : nat) : list A :=
    let j := find_jG l i start i in if (i =? j)%nat then l else splice l j i.

  Lemma find_jG_spec l i start : forall j0, (start <= j0)%nat ->
    (start <= find_jG l i start j0 <= j0)%nat /\
    (forall p, (find_jG l i start j0 <= p < j0)%nat -> key (nth i l d) < key (nth p l d)) /\
    (find_jG l i start j0 = start \/ key (nth (find_jG l i start j0 - 1) l d) <= key (nth i l d)).
  Proof.
    induction j0 as [|j0 IH]; intros Hs; cbn [find_jG].
    - split; [lia|]. split; [intros; lia|]. left; lia.
    - destruct (Nat.ltb_spec start (S j0)) as [Hlt|Hge]; cbn [andb].
      + destruct (N.ltb_spec (key (nth i l d)) (key (nth j0 l d))) as [Hk|Hk].
        * destruct (IH ltac:(lia)) as [H1 [H2 H3]]. split; [lia|]. split; [|exact H3].
          intros p Hp. destruct (Nat.eq_dec p j0) as [->|]; [exact Hk|apply H2; lia].
        * split; [lia|]. split; [intros; lia|]. right. replace (S j0 - 1)%nat with j0 by lia. exact Hk.
      + split; [lia|]. split; [intros; lia|]. left; lia.
  Qed.

  Lemma find_jG_le l i start : forall j0, (find_jG l i start j0 <= j0)%nat.
  Proof. induction j0 as [|j0 IH]; cbn [find_jG]; [lia|]. destruct (_ && _); lia. Qed.

  Lemma splice_length l j i : (j <= i < length l)%nat -> length (splice l j i) = length l.
  Proof.
    intros H. unfold splice. rewrite app_length. cbn [length]. rewrite app_length.
    rewrite !firstn_length, !skipn_length. lia.
  Qed.

  Lemma nth_splice l j i p : (j <= i < length l)%nat ->
    nth p (splice l j i) d =
      if (p <? j)%nat then nth p l d
      else if (p =? j)%nat then nth i l d
      else if (p <=? i)%nat then nth (p - 1) l d
      else nth p l d.
  Proof.
    intros H. unfold splice.
    assert (Hlen : length (firstn j l) = j) by (rewrite firstn_length; lia).
    destruct (Nat.ltb_spec p j) as [Hp|Hp].
    - rewrite app_nth1 by lia. apply nth_firstn_lt. exact Hp.
    - rewrite app_nth2 by lia. rewrite Hlen.
      destruct (Nat.eqb_spec p j) as [->|Hne].
      + rewrite Nat.sub_diag. reflexivity.
      + destruct (p - j)%nat as [|q] eqn:Eq; [lia|]. cbn [nth].
        assert (Hlen2 : length (firstn (i - j) (skipn j l)) = (i - j)%nat)
          by (rewrite firstn_length, skipn_length; lia).
        destruct (Nat.leb_spec p i) as [Hpi|Hpi].
        * rewrite app_nth1 by lia. rewrite nth_firstn_lt by lia. rewrite nth_skipn. f_equal. lia.
        * rewrite app_nth2 by lia. rewrite Hlen2, nth_skipn. f_equal. lia.
  Qed.

  Definition sorted_seg (l : list A) (a b : nat) : Prop :=
    forall p q, (a <= p <= q)%nat -> (q < b)%nat -> key (nth p l d) <= key (nth q l d).

  Lemma In_seg l j i x : (j <= i < length l)%nat -> In x (firstn (i - j) (skipn j l)) ->
    exists p, (j <= p < i)%nat /\ x = nth p l d.
  Proof.
    intros H Hx. apply (In_nth _ _ d) in Hx as [n [Hn Hx]].
    rewrite firstn_length, skipn_length in Hn.
    rewrite nth_firstn_lt in Hx by lia. rewrite nth_skipn in Hx.
    exists (j + n)%nat. split; [lia|]. symmetry. exact Hx.
  Qed.

  Lemma stepG_facts start l i : (start <= i < length l)%nat -> sorted_seg l start i ->
    length (stepG start l i) = length l
    /\ Permutation (stepG start l i) l
    /\ (forall k, filter (fun x => key x =? k) (stepG start l i) = filter (fun x => key x =? k) l)
    /\ (forall p, (p < start \/ i < p)%nat -> nth p (stepG start l i) d = nth p l d)
    /\ sorted_seg (stepG start l i) start (S i).
  Proof.
    intros Hi Hs. unfold stepG.
    destruct (find_jG_spec l i start i ltac:(lia)) as [Hj [Hgt Hle]].
    set (j := find_jG l i start i) in *.
    destruct (Nat.eqb_spec i j) as [E|E].
    - (* already in place *)
      split; [reflexivity|]. split; [apply Permutation_refl|]. split; [reflexivity|]. split; [reflexivity|].
      intros p q Hpq Hq. destruct (Nat.eq_dec q i) as [->|Hqi]; [|apply Hs; lia].
      destruct (Nat.eq_dec p i) as [->|Hpi]; [lia|].
      destruct Hle as [Hle|Hle]; [lia|]. rewrite <- E in Hle.
      pose proof (Hs p (i - 1)%nat ltac:(lia) ltac:(lia)). lia.
    - assert (Hji : (j <= i < length l)%nat) by lia.
      split; [apply splice_length; exact Hji|].
      pose proof (decomp3 d l j i Hji) as Hl.
      assert (Hseg : forall x, In x (firstn (i - j) (skipn j l)) -> key (nth i l d) < key x).
      { intros x Hx. apply In_seg in Hx as [p [Hp ->]]; [|exact Hji]. apply Hgt. exact Hp. }
      split; [|split; [|split]].
      + unfold splice. rewrite Hl at 5. apply perm_insert.
      + intros k. unfold splice. rewrite Hl at 5. apply filter_insert.
        intros Hz x Hx. apply N.eqb_eq in Hz. apply N.eqb_neq. specialize (Hseg x Hx). lia.
      + intros p Hp. rewrite nth_splice by exact Hji.
        destruct (Nat.ltb_spec p j); [reflexivity|]. destruct (Nat.eqb_spec p j); [lia|].
        destruct (Nat.leb_spec p i); [lia|reflexivity].
      + intros p q Hpq Hq. rewrite !nth_splice by exact Hji.
        destruct (Nat.ltb_spec p j) as [Hpj|Hpj]; destruct (Nat.ltb_spec q j) as [Hqj|Hqj]; try lia.
        * apply Hs; lia.
        * destruct Hle as [Hle|Hle]; [lia|].
          pose proof (Hs p (j - 1)%nat ltac:(lia) ltac:(lia)) as Hp1.
          destruct (Nat.eqb_spec q j) as [_|Hqne]; [lia|].
          destruct (Nat.leb_spec q i) as [_|Hqi]; [|lia].
          destruct (Nat.eq_dec (q - 1) (j - 1)) as [Eq|Nq]; [rewrite Eq; exact Hp1|].
          pose proof (Hgt (q - 1)%nat ltac:(lia)). lia.
        * destruct (Nat.eqb_spec p j) as [Epj|Npj]; destruct (Nat.eqb_spec q j) as [Eqj|Nqj]; try lia.
          -- destruct (Nat.leb_spec q i) as [_|Hqi]; [|lia].
             pose proof (Hgt (q - 1)%nat ltac:(lia)). lia.
          -- destruct (Nat.leb_spec p i) as [_|Hpi]; [|lia]. destruct (Nat.leb_spec q i) as [_|Hqi]; [|lia].
             apply Hs; lia.
  Qed.

  Lemma sortG_facts start : forall n i0 l,
    (start < i0)%nat -> (i0 + n <= length l)%nat -> sorted_seg l start i0 ->
    let r := fold_left (stepG start) (seq i0 n) l in
    length r = length l
    /\ Permutation r l
    /\ (forall k, filter (fun x => key x =? k) r = filter (fun x => key x =? k) l)
    /\ (forall p, (p < start \/ i0 + n <= p)%nat -> nth p r d = nth p l d)
    /\ sorted_seg r start (i0 + n).
  Proof.
    induction n as [|n IH]; intros i0 l Hi Hn Hs; cbn [seq fold_left].
    - rewrite Nat.add_0_r. split; [reflexivity|]. split; [apply Permutation_refl|].
      split; [reflexivity|]. split; [reflexivity|exact Hs].
    - destruct (stepG_facts start l i0 ltac:(lia) Hs) as [L1 [P1 [F1 [O1 S1]]]].
      destruct (IH (S i0) (stepG start l i0) ltac:(lia) ltac:(lia) S1) as [L2 [P2 [F2 [O2 S2]]]].
      cbv zeta. split; [lia|]. split; [eapply Permutation_trans; eassumption|].
      split; [intros k; rewrite F2; apply F1|].
      split; [intros p Hp; rewrite O2 by lia; apply O1; lia|].
      replace (i0 + S n)%nat with (S i0 + n)%nat by lia. exact S2.
  Qed.
End InsSort.


(* ------------------------------------------------------------------ what the moves must preserve *)

(* identity of a glyph: everything except the cluster and the mask (which cluster merging rewrites) *)
Definition core (i : info) : N * N * N := (gid i, var1 i, var2 i).
(* everything except the mask *)
Definition core_c (i : info) : N * N * N * N := (gid i, cluster i, var1 i, var2 i).
Definition dinfo : info := mkInfo 0 0 0 0 0.
Definition dcore : N * N * N := core dinfo.

Lemma core_of_core_c l l' : map core_c l = map core_c l' -> map core l = map core l'.
Proof.
  revert l'. induction l as [|x l IH]; intros [|y l'] H; cbn [map] in *; try discriminate; [reflexivity|].
  pose proof (f_equal (@hd _ (core_c x)) H) as Hx. pose proof (f_equal (@tl _) H) as Hl. cbn [hd tl] in Hx, Hl.
  f_equal; [|apply IH; exact Hl]. unfold core_c in Hx. unfold core. congruence.
Qed.

Lemma set_cluster_core i c m : core (set_cluster i c m) = core i.
Proof. unfold set_cluster. destruct (cluster i =? c); reflexivity. Qed.

Lemma set_cluster_cluster i c m : cluster (set_cluster i c m) = c.
Proof. unfold set_cluster. destruct (N.eqb_spec (cluster i) c); [assumption|reflexivity]. Qed.

Lemma or_mask_core_c m i : core_c (or_mask m i) = core_c i.
Proof. reflexivity. Qed.

Lemma map_range_map {B} (g : info -> B) f : (forall x, g (f x) = g x) ->
  forall l s e, map g (map_range f s e l) = map g l.
Proof.
  intros H. induction l as [|x l IH]; intros s e; [destruct e; reflexivity|].
  destruct e as [|e]; [reflexivity|]. destruct s as [|s]; cbn [map_range map]; rewrite ?H, IH; reflexivity.
Qed.

Lemma map_range_length {A} (f : A -> A) : forall l s e, length (map_range f s e l) = length l.
Proof.
  induction l as [|x l IH]; intros s e; [destruct e; reflexivity|].
  destruct e as [|e]; [reflexivity|]. destruct s as [|s]; cbn [map_range length]; rewrite IH; reflexivity.
Qed.

Lemma map_range_In {A} (f : A -> A) : forall l s e y, In y (map_range f s e l) -> In y l \/ exists x, In x l /\ y = f x.
Proof.
  induction l as [|x l IH]; intros s e y H; [destruct e; left; exact H|].
  destruct e as [|e]; [left; exact H|]. destruct s as [|s]; cbn [map_range] in H; destruct H as [<-|H].
  - right. exists x. split; [left; reflexivity|reflexivity].
  - destruct (IH _ _ _ H) as [H1|[z [Hz ->]]]; [left; right; exact H1|right; exists z; split; [right; exact Hz|reflexivity]].
  - left. left. reflexivity.
  - destruct (IH _ _ _ H) as [H1|[z [Hz ->]]]; [left; right; exact H1|right; exists z; split; [right; exact Hz|reflexivity]].
Qed.

Lemma min_cluster_list_in : forall l init,
  min_cluster_list l init = init \/ exists y, In y l /\ min_cluster_list l init = cluster y.
Proof.
  unfold min_cluster_list. induction l as [|x l IH]; intros init; cbn [fold_left]; [left; reflexivity|].
  destruct (IH (N.min init (cluster x))) as [E|[y [Hy E]]].
  - rewrite E. destruct (N.min_dec init (cluster x)) as [M|M]; rewrite M.
    + left. reflexivity.
    + right. exists x. split; [left; reflexivity|reflexivity].
  - right. exists y. split; [right; exact Hy|exact E].
Qed.


Lemma In_skipn {A} (l : list A) : forall n x, In x (skipn n l) -> In x l.
Proof.
  induction l as [|h t IH]; intros [|n] x H; cbn [skipn] in H; try exact H. right. apply (IH n). exact H.
Qed.

Lemma In_firstn {A} (l : list A) : forall n x, In x (firstn n l) -> In x l.
Proof.
  induction l as [|h t IH]; intros [|n] x H; cbn [firstn] in H; try contradiction.
  destruct H as [<-|H]; [left; reflexivity|right; apply (IH n); exact H].
Qed.

Lemma In_slice {A} (l : list A) s e x : In x (slice l s e) -> In x l.
Proof. unfold slice. intros H. apply In_firstn in H. apply In_skipn in H. exact H. Qed.

Lemma split3 {A} (l : list A) s e : (s <= e)%nat -> firstn s l ++ slice l s e ++ skipn e l = l.
Proof.
  intros H. unfold slice. replace (skipn e l) with (skipn (e - s) (skipn s l)).
  - rewrite firstn_skipn. apply firstn_skipn.
  - rewrite (skipn_skipn' _ l). f_equal. lia.
Qed.

Definition clusters_from (l' l : list info) : Prop := forall x, In x l' -> exists y, In y l /\ cluster x = cluster y.

(* merge_array: only clusters and masks change; every cluster value is one that was there *)
Lemma merge_array_facts l s e l' c0 c : merge_array l s e = Ok (l', c0, c) ->
  map core l' = map core l /\ length l' = length l /\ clusters_from l' l.
Proof.
  unfold merge_array. destruct (nth_error l s) as [first|] eqn:Ef; [|discriminate].
  destruct (nth_error l (e - 1)) as [last|] eqn:El; [|discriminate].
  intros H. injection H as <- _ <-.
  split; [apply map_range_map; intros; apply set_cluster_core|].
  split; [apply map_range_length|].
  intros x Hx. apply map_range_In in Hx as [Hx|[z [Hz ->]]]; [exists x; split; [exact Hx|reflexivity]|].
  rewrite set_cluster_cluster.
  destruct (min_cluster_list_in (slice l (S s) e) (cluster first)) as [E|[y [Hy E]]]; rewrite E.
  - exists first. split; [eapply nth_error_In; exact Ef|reflexivity].
  - exists y. split; [eapply In_slice; exact Hy|reflexivity].
Qed.

Lemma arr_with_pr b a d : arr (with_pr b (firstn d a) (skipn d a) d) = a.
Proof. unfold arr. cbn [pre rest with_pr]. apply firstn_skipn. Qed.

Lemma arr_of_arr b a : arr (of_arr b a) = a.
Proof. unfold of_arr. apply arr_with_pr. Qed.

Lemma flag_while_core_c c stop m : forall l, map core_c (fst (flag_while_ne_fwd c stop m l)) = map core_c l.
Proof.
  induction l as [|x t IH]; [reflexivity|]. cbn [flag_while_ne_fwd].
  destruct (cluster x =? stop); [reflexivity|].
  destruct (flag_while_ne_fwd c stop m t) as [t' a]. cbn [fst] in IH.
  destruct (cluster x =? c); cbn [fst map]; rewrite IH; reflexivity.
Qed.

Lemma flag_all_core_c c m l : map core_c (fst (flag_all_ne c m l)) = map core_c l.
Proof.
  unfold flag_all_ne. cbn [fst]. rewrite map_map. apply map_ext. intros x. destruct (cluster x =? c); reflexivity.
Qed.

Lemma infos_set_glyph_flags_core_c lvl l s e c m r : (s <= e)%nat ->
  infos_set_glyph_flags lvl l s e c m = Ok r -> map core_c (fst r) = map core_c l.
Proof.
  intros Hse. unfold infos_set_glyph_flags. destruct (s =? e)%nat; [intros H; injection H as <-; reflexivity|].
  destruct (nth_error l s) as [first|]; [|discriminate]. destruct (nth_error l (e - 1)) as [last|]; [|discriminate].
  pose proof (split3 l s e Hse) as Hl.
  destruct ((lvl =? 2) || (negb (c =? cluster first) && negb (c =? cluster last)))%bool.
  - pose proof (flag_all_core_c c m (slice l s e)) as Hm. destruct (flag_all_ne c m (slice l s e)) as [mid' ap].
    intros H. injection H as <-. cbn [fst] in *. rewrite !map_app, Hm, <- !map_app, Hl. reflexivity.
  - destruct (c =? cluster first).
    + pose proof (flag_while_core_c c (cluster first) m (rev (slice l s e))) as Hm.
      destruct (flag_while_ne_fwd c (cluster first) m (rev (slice l s e))) as [r' ap].
      intros H. injection H as <-. cbn [fst] in *. rewrite !map_app, map_rev, Hm, <- map_rev, rev_involutive, <- !map_app, Hl.
      reflexivity.
    + pose proof (flag_while_core_c c (cluster last) m (slice l s e)) as Hm.
      destruct (flag_while_ne_fwd c (cluster last) m (slice l s e)) as [mid' ap].
      intros H. injection H as <-. cbn [fst] in *. rewrite !map_app, Hm, <- !map_app, Hl. reflexivity.
Qed.

Lemma arr_add_scratch b ap : arr (add_scratch b ap) = arr b.
Proof. destruct ap; reflexivity. Qed.
Lemma mode_add_scratch b ap : out_mode (add_scratch b ap) = out_mode b.
Proof. destruct ap; reflexivity. Qed.

(* unsafe_to_break in in-place mode: masks only *)
Lemma unsafe_to_break_inplace b s e b1 : out_mode b = false ->
  unsafe_to_break b (Some s) (Some e) = Ok b1 -> map core_c (arr b1) = map core_c (arr b) /\ out_mode b1 = false.
Proof.
  intros Hm. unfold unsafe_to_break, set_glyph_flags.
  set (e' := Nat.min e (blen b)).
  destruct (Nat.ltb_spec e' s) as [|Hse]; [discriminate|].
  destruct (true && negb false && (e' - s <? 2)%nat)%bool; [intros H; injection H as <-; split; [reflexivity|exact Hm]|].
  cbn [negb orb]. cbn [out_mode with_scratch]. rewrite Hm. cbn [pre rest with_scratch dead level].
  destruct (find_min_cluster (level b) (pre b ++ rest b) s e' U32_MAX) as [c|]; cbn [bind]; [|discriminate].
  destruct (infos_set_glyph_flags (level b) (pre b ++ rest b) s e' c BREAK_CONCAT) as [r|] eqn:Er; cbn [bind]; [|discriminate].
  intros H. injection H as <-. rewrite arr_add_scratch, mode_add_scratch. split.
  - rewrite arr_with_pr. eapply infos_set_glyph_flags_core_c; eassumption.
  - cbn [out_mode with_pr with_scratch]. exact Hm.
Qed.

Lemma clusters_from_core_c l' l : map core_c l' = map core_c l -> clusters_from l' l.
Proof.
  intros H x Hx. apply (in_map core_c) in Hx. rewrite H in Hx. apply in_map_iff in Hx as [y [Ey Hy]].
  exists y. split; [exact Hy|]. unfold core_c in Ey. congruence.
Qed.

(* merge_clusters (all levels) in in-place mode *)
Lemma merge_full_inplace b s e b1 : out_mode b = false -> merge_clusters_full b s e = Ok b1 ->
  map core (arr b1) = map core (arr b) /\ out_mode b1 = false /\ clusters_from (arr b1) (arr b).
Proof.
  intros Hm. unfold merge_clusters_full.
  destruct (e - s <? 2)%nat eqn:E2.
  { intros H; injection H as <-. split; [reflexivity|]. split; [exact Hm|]. intros x Hx; exists x; split; [exact Hx|reflexivity]. }
  destruct (level b =? 2) eqn:E3.
  - intros H. apply unsafe_to_break_inplace in H as [Hc Ho]; [|exact Hm].
    split; [apply core_of_core_c; exact Hc|]. split; [exact Ho|]. apply clusters_from_core_c. exact Hc.
  - unfold merge_clusters. rewrite E2, E3, Hm.
    destruct (merge_array (pre b ++ rest b) s e) as [[[a' c0] c]|] eqn:Em; cbn [bind]; [|discriminate].
    intros H. injection H as <-. rewrite arr_with_pr. apply merge_array_facts in Em as [H1 [H2 H3]].
    split; [exact H1|]. split; [exact Hm|exact H3].
Qed.

(* ------------------------------------------------------------------ move_elem: a rotation *)

Lemma move_elem_perm (a : list info) i j : (j <= i < length a)%nat ->
  Permutation (move_elem a i j) a /\ length (move_elem a i j) = length a.
Proof.
  intros H. unfold move_elem. destruct (nth_error a i) as [t|] eqn:Et; [|apply nth_error_None in Et; lia].
  pose proof (decomp3 dinfo a j i H) as Hl. rewrite (nth_error_nth _ _ dinfo Et) in Hl.
  unfold slice.
  remember (firstn j a) as p0. remember (firstn (i - j) (skipn j a)) as sg. remember (skipn (S i) a) as post.
  clear Heqp0 Heqsg Heqpost. rewrite Hl. split.
  - cbn [app]. apply perm_insert.
  - cbn [app]. rewrite ?app_length. cbn [length]. rewrite ?app_length. cbn [length]. lia.
Qed.

(* the source's `t = a[i]; for k in (0..i-j).rev() { a[k+j+1] = a[k+j] }; a[j] = t` is that rotation *)
Lemma shift_loop_is_move_elem (a : list info) i j t : (j <= i < length a)%nat -> nth_error a i = Some t ->
  set_nth j t (copy_loop Bwd (i - j) (j + 1) j a) = move_elem a i j.
Proof.
  intros H Et. rewrite shift_loop; [|lia|lia|right; left; split; [lia|reflexivity]].
  rewrite memmove_closed by lia. unfold move_elem, slice. rewrite Et.
  apply nth_error_ext. intros p. rewrite nth_error_set_nth.
  assert (L1 : length (firstn j a) = j) by (rewrite firstn_length; lia).
  assert (L1' : length (firstn (j + 1) a) = (j + 1)%nat) by (rewrite firstn_length; lia).
  assert (L2 : length (firstn (i - j) (skipn j a)) = (i - j)%nat) by (rewrite firstn_length, skipn_length; lia).
  rewrite !app_length, L1', L2.
  destruct (Nat.ltb_spec j (j + 1 + (i - j + length (skipn (j + 1 + (i - j)) a)))) as [_|]; [|lia].
  rewrite andb_true_r.
  destruct (Nat.eqb_spec p j) as [->|Hne].
  - rewrite nth_error_app2 by lia. rewrite L1, Nat.sub_diag. reflexivity.
  - destruct (Nat.lt_ge_cases p j) as [Hp|Hp].
    + rewrite !nth_error_app1 by lia. rewrite !nth_error_firstn' by lia. reflexivity.
    + rewrite (nth_error_app2 (firstn (j + 1) a)) by lia. rewrite (nth_error_app2 (firstn j a)) by lia.
      rewrite L1, L1'. replace (p - j)%nat with (S (p - (j + 1))) by lia. cbn [app nth_error].
      replace (j + 1 + (i - j))%nat with (S i) by lia. reflexivity.
Qed.

(* ------------------------------------------------------------------ sort *)
Section SortKey.
  Variable key : N * N * N -> N.
  Variable cmp : info -> info -> bool.
  (* cmp a b = true: a must come after b (the source compares modified combining classes, kept in var fields) *)
  Hypothesis Hcmp : forall x y, cmp x y = (key (core y) <? key (core x)).

  Lemma find_j_core a x i start : nth_error a i = Some x -> forall j, (j <= i)%nat ->
    find_j cmp a x start j = find_jG _ key dcore (map core a) i start j.
  Proof.
    intros Ex. induction j as [|j IH]; intros Hj; cbn [find_j find_jG]; [reflexivity|].
    destruct (start <? S j)%nat; cbn [andb]; [|reflexivity].
    assert (Hi : (i < length a)%nat) by (apply nth_error_Some; congruence).
    destruct (nth_error a j) as [y|] eqn:Ey; [|apply nth_error_None in Ey; lia].
    unfold dcore. rewrite !map_nth, (nth_error_nth _ _ dinfo Ex), (nth_error_nth _ _ dinfo Ey), Hcmp.
    destruct (key (core x) <? key (core y)); [apply IH; lia|reflexivity].
  Qed.

  Lemma move_elem_core a i j t : nth_error a i = Some t ->
    map core (move_elem a i j) = splice _ dcore (map core a) j i.
  Proof.
    intros Et. unfold move_elem, splice, slice, dcore. rewrite Et, map_nth, (nth_error_nth _ _ dinfo Et).
    rewrite !map_app. cbn [map app]. repeat (rewrite firstn_map || rewrite skipn_map). reflexivity.
  Qed.

  Lemma sort_loop_core start : forall is_ b b', out_mode b = false ->
    (forall i, In i is_ -> (i < length (arr b))%nat) ->
    sort_loop cmp b start is_ = Ok b' ->
    map core (arr b') = fold_left (stepG _ key dcore start) is_ (map core (arr b))
    /\ out_mode b' = false /\ clusters_from (arr b') (arr b).
  Proof.
    induction is_ as [|i is_ IH]; intros b b' Hm Hin; cbn [sort_loop fold_left].
    - intros H. injection H as <-. split; [reflexivity|]. split; [exact Hm|]. intros x Hx. exists x. split; [exact Hx|reflexivity].
    - assert (Hi : (i < length (arr b))%nat) by (apply Hin; left; reflexivity).
      destruct (nth_error (arr b) i) as [x|] eqn:Ex; [|apply nth_error_None in Ex; lia].
      rewrite (find_j_core _ _ _ start Ex i (le_n i)).
      unfold stepG at 2. set (j := find_jG _ key dcore (map core (arr b)) i start i).
      assert (Hji : (j <= i)%nat) by apply find_jG_le.
      destruct (i =? j)%nat.
      + intros H. apply IH; [exact Hm| |exact H]. intros k Hk. apply Hin. right. exact Hk.
      + destruct (merge_clusters_full b j (S i)) as [b1|] eqn:Em; cbn [bind]; [|discriminate].
        apply merge_full_inplace in Em as [Hc [Hm1 Hcl]]; [|exact Hm].
        assert (Hlen1 : length (arr b1) = length (arr b)) by (rewrite <- (map_length core), Hc, map_length; reflexivity).
        destruct (nth_error (arr b1) i) as [t|] eqn:Et; [|apply nth_error_None in Et; lia].
        intros H. apply IH in H.
        * rewrite arr_of_arr in H. destruct H as [H1 [H2 H3]].
          rewrite (move_elem_core _ _ _ _ Et), Hc in H1. split; [exact H1|]. split; [exact H2|].
          intros y Hy. destruct (H3 y Hy) as [z [Hz Ez]].
          apply (Permutation_in _ (proj1 (move_elem_perm (arr b1) i j ltac:(lia)))) in Hz.
          destruct (Hcl z Hz) as [w [Hw Ew]]. exists w. split; [exact Hw|congruence].
        * unfold of_arr. cbn [out_mode with_pr]. exact Hm1.
        * intros k Hk. rewrite arr_of_arr. rewrite (proj2 (move_elem_perm (arr b1) i j ltac:(lia))), Hlen1.
          apply Hin. right. exact Hk.
  Qed.

  Lemma firstn_nth_ext {A} (d : A) (r l : list A) s : length r = length l ->
    (forall p, (p < s)%nat -> nth p r d = nth p l d) -> firstn s r = firstn s l.
  Proof.
    intros HL H. apply (nth_ext _ _ d d).
    - rewrite !firstn_length, HL. reflexivity.
    - intros n Hn. rewrite firstn_length in Hn. rewrite !nth_firstn_lt by lia. apply H. lia.
  Qed.

  Lemma skipn_nth_ext {A} (d : A) (r l : list A) e : length r = length l ->
    (forall p, (e <= p)%nat -> nth p r d = nth p l d) -> skipn e r = skipn e l.
  Proof.
    intros HL H. apply (nth_ext _ _ d d).
    - rewrite !skipn_length, HL. reflexivity.
    - intros n Hn. rewrite !nth_skipn. apply H. lia.
  Qed.

  (* hb_buffer_t::sort(start, end, cmp) on the lead's buffer model, in-place mode, every cluster level *)
  Theorem sort_perm (b b' : zbuf) (s e : nat) :
    out_mode b = false -> (s <= e <= length (arr b))%nat -> sort cmp b s e = Ok b' ->
    let l := map core (arr b) in
    let r := map core (arr b') in
    length r = length l
    /\ firstn s r = firstn s l /\ skipn e r = skipn e l                                   (* nothing outside moves *)
    /\ Permutation (slice r s e) (slice l s e)                                              (* no glyph lost or duplicated *)
    /\ (forall k, filter (fun c => key c =? k) (slice r s e) = filter (fun c => key c =? k) (slice l s e))   (* stable *)
    /\ (forall p q, (s <= p <= q)%nat -> (q < e)%nat -> key (nth p r dcore) <= key (nth q r dcore))           (* sorted *)
    /\ clusters_from (arr b') (arr b).                                                      (* clusters only merged *)
  Proof.
    intros Hm Hse Hs. cbv zeta. unfold sort in Hs.
    assert (Hin : forall i, In i (seq (S s) (e - S s)) -> (i < length (arr b))%nat).
    { intros i Hi. apply in_seq in Hi. lia. }
    destruct (sort_loop_core s _ b b' Hm Hin Hs) as [Hc [_ Hcl]].
    set (l := map core (arr b)) in *. set (r := map core (arr b')) in *.
    assert (Facts : length r = length l /\ Permutation r l
              /\ (forall k, filter (fun c => key c =? k) r = filter (fun c => key c =? k) l)
              /\ (forall p, (p < s \/ e <= p)%nat -> nth p r dcore = nth p l dcore)
              /\ sorted_seg _ key dcore r s e).
    { destruct (Nat.le_gt_cases e s) as [Hes|Hes].
      - replace (e - S s)%nat with 0%nat in Hc by lia. cbn [seq fold_left] in Hc. rewrite Hc.
        split; [reflexivity|]. split; [apply Permutation_refl|]. split; [reflexivity|]. split; [reflexivity|].
        intros p q Hpq Hq. lia.
      - assert (S0 : sorted_seg _ key dcore l s (S s)).
        { intros p q Hpq Hq. replace q with p by lia. lia. }
        destruct (sortG_facts _ key dcore s (e - S s) (S s) l ltac:(lia) ltac:(unfold l; rewrite map_length; lia) S0)
          as [L [P [F [O Srt]]]].
        rewrite <- Hc in L, P, F, O, Srt. replace (S s + (e - S s))%nat with e in * by lia.
        split; [exact L|]. split; [exact P|]. split; [exact F|]. split; [exact O|exact Srt]. }
    destruct Facts as [L [P [F [O Srt]]]].
    assert (HF : firstn s r = firstn s l) by (apply (firstn_nth_ext dcore); [exact L|intros p Hp; apply O; lia]).
    assert (HS : skipn e r = skipn e l) by (apply (skipn_nth_ext dcore); [exact L|intros p Hp; apply O; lia]).
    assert (Lr : (s <= e)%nat) by lia.
    split; [exact L|]. split; [exact HF|]. split; [exact HS|].
    pose proof (split3 r s e Lr) as Er. pose proof (split3 l s e Lr) as El.
    split; [|split; [|split; [exact Srt|exact Hcl]]].
    - rewrite <- Er, <- El, HF, HS in P. apply Permutation_app_inv_l in P. apply Permutation_app_inv_r in P. exact P.
    - intros k. specialize (F k). rewrite <- Er, <- El, HF, HS, !filter_app in F.
      apply app_inv_head in F. apply app_inv_tail in F. exact F.
  Qed.
End SortKey.

(* ------------------------------------------------------------------ delete_glyphs_inplace *)
Section Delete.
  Variable fc : N * N * N -> bool.
  Variable flt : info -> bool.
  (* the filter looks at the glyph, not at its cluster or mask (the source filters on unicode props / glyph id) *)
  Hypothesis Hf : forall x, flt x = fc (core x).

  Lemma map_partial_core (f : info -> info) n (l : list info) : (forall x, core (f x) = core x) ->
    map core (map f (firstn n l) ++ skipn n l) = map core l /\ length (map f (firstn n l) ++ skipn n l) = length l.
  Proof.
    intros H. split.
    - rewrite map_app, map_map. rewrite (map_ext _ core) by exact H. rewrite <- map_app, firstn_skipn. reflexivity.
    - rewrite app_length, map_length, <- app_length, firstn_skipn. reflexivity.
  Qed.

  Definition keepc (l : list (N * N * N)) : list (N * N * N) := filter (fun c => negb (fc c)) l.

  Lemma dgi_content lvl : forall fuel kept_rev l touched, (length l <= fuel)%nat ->
    map core (fst (dgi_loop fuel lvl flt kept_rev l touched)) = rev (map core kept_rev) ++ keepc (map core l).
  Proof.
    induction fuel as [|fuel IH]; intros kept_rev l touched Hlen.
    - destruct l; [|cbn [length] in Hlen; lia]. cbn [dgi_loop fst map keepc filter]. rewrite !app_nil_r, map_rev. reflexivity.
    - destruct l as [|x t]; [cbn [dgi_loop fst map keepc filter]; rewrite !app_nil_r, map_rev; reflexivity|].
      cbn [length] in Hlen. cbn [dgi_loop]. cbn [map keepc filter]. rewrite <- (Hf x).
      destruct (flt x) eqn:Efx; cbn [negb].
      + (* x is deleted *)
        assert (Back : forall kr : list info,
                 map core (match kr with
                           | k :: _ => if cluster x <? cluster k
                                       then map (fun i => set_cluster i (cluster x) (mask x)) (firstn (run_len (cluster k) kr) kr)
                                            ++ skipn (run_len (cluster k) kr) kr
                                       else kr
                           | [] => kr end) = map core kr).
        { intros [|k kr]; [reflexivity|]. destruct (cluster x <? cluster k); [|reflexivity].
          apply map_partial_core. intros; apply set_cluster_core. }
        destruct t as [|y t'].
        * rewrite IH by (cbn [length]; lia). rewrite Back. reflexivity.
        * destruct (cluster y =? cluster x); [apply IH; cbn [length] in *; lia|].
          destruct kept_rev as [|k kr].
          -- destruct (lvl =? 2).
             ++ rewrite IH.
                ** f_equal. f_equal. destruct (cluster x <? cluster y); reflexivity.
                ** destruct (cluster x <? cluster y); cbn [length tl] in *; lia.
             ++ set (n := if N.min (cluster x) (cluster y) =? cluster y then 1%nat else S (run_len (cluster y) (tl (y :: t')))).
                destruct (map_partial_core (fun i => set_cluster i (N.min (cluster x) (cluster y)) 0) n (y :: t')
                            ltac:(intros; apply set_cluster_core)) as [Hc Hl].
                rewrite IH by (rewrite Hl; cbn [length] in *; lia). rewrite Hc. reflexivity.
          -- rewrite IH by (cbn [length] in *; lia). rewrite (Back (k :: kr)). reflexivity.
      + (* x is kept *)
        rewrite IH by lia. cbn [map rev]. rewrite <- app_assoc. reflexivity.
  Qed.

  Theorem delete_inplace_content lvl (l : list info) :
    map core (fst (delete_glyphs_inplace lvl flt l)) = map core (filter (fun x => negb (flt x)) l).
  Proof.
    unfold delete_glyphs_inplace. rewrite dgi_content by lia. cbn [map rev app]. unfold keepc.
    induction l as [|x t IH]; [reflexivity|]. cbn [map filter]. rewrite <- (Hf x).
    destruct (flt x); cbn [negb map]; rewrite IH; reflexivity.
  Qed.
End Delete.
