(* Proofs/CopyLoopP.v — when an element-wise copy loop equals memmove (C08_shift_loop), the converse
   counter-example, the closed form of memmove, and soundness of the decidable criterion `loop_ok`. *)
From Coq Require Import List Arith Bool Lia NArith Permutation.
From RB Require Import Gen.CopyLoops Model.CopyLoop.
Import ListNotations.

Section Facts.
  Context {T : Type}.
  Implicit Types (x l src dst : list T).

  Lemma set_nth_length l : forall i v, length (set_nth i v l) = length l.
  Proof. induction l as [|h t IH]; intros [|i] v; cbn [set_nth length]; auto. Qed.

  Lemma nth_error_set_nth l : forall i j v,
    nth_error (set_nth j v l) i = if ((i =? j) && (j <? length l))%bool then Some v else nth_error l i.
  Proof.
    induction l as [|h t IH]; intros i j v.
    - cbn [set_nth length]. replace (j <? 0) with false by (symmetry; apply Nat.ltb_ge; lia).
      rewrite andb_false_r. reflexivity.
    - destruct j as [|j]; destruct i as [|i]; cbn [set_nth nth_error length]; try reflexivity.
      rewrite IH. change (S i =? S j) with (i =? j). change (S j <? S (length t)) with (j <? length t). reflexivity.
  Qed.

  Lemma nth_error_ext l : forall l', (forall i, nth_error l i = nth_error l' i) -> l = l'.
  Proof.
    induction l as [|h t IH]; intros [|h' t'] H.
    - reflexivity.
    - specialize (H 0). discriminate.
    - specialize (H 0). discriminate.
    - pose proof (H 0) as H0. cbn in H0. injection H0 as ->. f_equal. apply IH. intros i. exact (H (S i)).
  Qed.

  Lemma nth_error_firstn' l : forall n i, i < n -> nth_error (firstn n l) i = nth_error l i.
  Proof. induction l as [|h t IH]; intros [|n] [|i] H; cbn [firstn nth_error]; try lia; try reflexivity. apply IH. lia. Qed.

  Lemma nth_error_skipn' l : forall n i, nth_error (skipn n l) i = nth_error l (n + i).
  Proof.
    induction l as [|h t IH]; intros [|n] i; cbn [skipn Nat.add]; try reflexivity.
    - destruct i; reflexivity.
    - cbn [nth_error]. apply IH.
  Qed.

  Lemma existsb_rev (f : nat -> bool) (ks : list nat) : existsb f (rev ks) = existsb f ks.
  Proof.
    induction ks as [|k t IH]; [reflexivity|]. cbn [rev existsb]. rewrite existsb_app, IH. cbn [existsb].
    rewrite orb_false_r. apply orb_comm.
  Qed.

  Lemma existsb_seq m n : existsb (Nat.eqb m) (seq 0 n) = (m <? n).
  Proof.
    destruct (Nat.ltb_spec m n) as [H|H].
    - apply existsb_exists. exists m. split; [apply in_seq; lia|apply Nat.eqb_refl].
    - destruct (existsb (Nat.eqb m) (seq 0 n)) eqn:E; [|reflexivity].
      apply existsb_exists in E as [k [Hk Ek]]. apply in_seq in Hk. apply Nat.eqb_eq in Ek. lia.
  Qed.

  (* what the array looks like after the writes for the offsets in ks, all reads taken from src *)
  Definition spec (a b : nat) (ks : list nat) src dst (i : nat) : option T :=
    if ((a <=? i) && existsb (Nat.eqb (i - a)) ks)%bool then nth_error src (i - a + b) else nth_error dst i.

  Lemma copy_from_length a b src : forall ks dst, length (copy_from a b ks src dst) = length dst.
  Proof.
    unfold copy_from. induction ks as [|k t IH]; intros dst; cbn [fold_left]; [reflexivity|].
    rewrite IH. unfold write_from. destruct (nth_error src (k + b)); [apply set_nth_length|reflexivity].
  Qed.

  Lemma copy_steps_length a b : forall ks x, length (copy_steps a b ks x) = length x.
  Proof.
    unfold copy_steps. induction ks as [|k t IH]; intros x; cbn [fold_left]; [reflexivity|].
    rewrite IH. unfold write_from. destruct (nth_error x (k + b)); [apply set_nth_length|reflexivity].
  Qed.

  Lemma spec_snoc a b ks k src dst r v i :
    length r = length dst -> k + a < length dst -> nth_error src (k + b) = Some v ->
    (forall i, nth_error r i = spec a b ks src dst i) ->
    nth_error (set_nth (k + a) v r) i = spec a b (ks ++ [k]) src dst i.
  Proof.
    intros Hlen Ha Hv IH. rewrite nth_error_set_nth, Hlen. unfold spec. rewrite existsb_app. cbn [existsb].
    rewrite orb_false_r. destruct (Nat.ltb_spec (k + a) (length dst)) as [_|]; [|lia]. rewrite andb_true_r.
    destruct (Nat.eqb_spec i (k + a)) as [->|Hne].
    - destruct (Nat.leb_spec a (k + a)) as [_|]; [|lia]. replace (k + a - a) with k by lia.
      rewrite Nat.eqb_refl, orb_true_r. cbn [andb]. symmetry. exact Hv.
    - rewrite IH. unfold spec. destruct (Nat.leb_spec a i) as [Hai|Hai]; cbn [andb]; [|reflexivity].
      destruct (Nat.eqb_spec (i - a) k) as [E|_]; [lia|]. rewrite orb_false_r. reflexivity.
  Qed.

  Lemma copy_from_spec a b src : forall ks dst,
    (forall k, In k ks -> k + a < length dst /\ k + b < length src) ->
    forall i, nth_error (copy_from a b ks src dst) i = spec a b ks src dst i.
  Proof.
    intros ks. induction ks as [|k ks IH] using rev_ind; intros dst Hr i.
    - unfold spec. cbn [existsb]. rewrite andb_false_r. reflexivity.
    - unfold copy_from. rewrite fold_left_app. cbn [fold_left]. fold (copy_from a b ks src dst).
      destruct (Hr k ltac:(apply in_or_app; right; left; reflexivity)) as [Ha Hb].
      unfold write_from. destruct (nth_error src (k + b)) as [v|] eqn:Ev; [|apply nth_error_None in Ev; lia].
      apply spec_snoc; auto.
      + apply copy_from_length.
      + intros i'. apply IH. intros k' Hk'. apply Hr. apply in_or_app. left. exact Hk'.
  Qed.

  (* no step reads a slot that an EARLIER step has written *)
  Definition safe_order (a b : nat) (ks : list nat) : Prop :=
    forall i j, i < j < length ks -> nth i ks 0 + a <> nth j ks 0 + b.

  Lemma copy_steps_spec a b : forall ks x,
    (forall k, In k ks -> k + a < length x /\ k + b < length x) -> safe_order a b ks ->
    forall i, nth_error (copy_steps a b ks x) i = spec a b ks x x i.
  Proof.
    intros ks. induction ks as [|k ks IH] using rev_ind; intros x Hr Hs i.
    - unfold spec. cbn [existsb]. rewrite andb_false_r. reflexivity.
    - unfold copy_steps. rewrite fold_left_app. cbn [fold_left]. fold (copy_steps a b ks x).
      destruct (Hr k ltac:(apply in_or_app; right; left; reflexivity)) as [Ha Hb].
      assert (Hr' : forall k', In k' ks -> k' + a < length x /\ k' + b < length x).
      { intros k' Hk'. apply Hr. apply in_or_app. left. exact Hk'. }
      assert (Hs' : safe_order a b ks).
      { intros p q Hpq. specialize (Hs p q). rewrite app_length in Hs. cbn [length] in Hs.
        rewrite !app_nth1 in Hs by lia. apply Hs. lia. }
      assert (Hk : forall k', In k' ks -> k' + a <> k + b).
      { intros k' Hk'. apply (In_nth _ _ 0) in Hk' as [p [Hp Ep]]. specialize (Hs p (length ks)).
        rewrite app_length in Hs. cbn [length] in Hs. rewrite app_nth1 in Hs by lia.
        rewrite app_nth2, Nat.sub_diag in Hs by lia. cbn [nth] in Hs. rewrite Ep in Hs. apply Hs. lia. }
      pose proof (IH x Hr' Hs') as IHx.
      unfold write_from. rewrite (IHx (k + b)). unfold spec at 1.
      assert (E : ((a <=? k + b) && existsb (Nat.eqb (k + b - a)) ks)%bool = false).
      { destruct (Nat.leb_spec a (k + b)) as [Hab|]; [|reflexivity]. cbn [andb].
        destruct (existsb (Nat.eqb (k + b - a)) ks) eqn:Ex; [|reflexivity].
        apply existsb_exists in Ex as [k' [Hk' Ek']]. apply Nat.eqb_eq in Ek'. specialize (Hk k' Hk'). lia. }
      rewrite E. destruct (nth_error x (k + b)) as [v|] eqn:Ev; [|apply nth_error_None in Ev; lia].
      apply spec_snoc; auto. apply copy_steps_length.
  Qed.

  Lemma order_In d n k : In k (order d n) -> k < n.
  Proof. destruct d; cbn [order]; [|rewrite <- in_rev]; intros H; apply in_seq in H; lia. Qed.

  Lemma order_existsb d n m : existsb (Nat.eqb m) (order d n) = (m <? n).
  Proof. destruct d; cbn [order]; [|rewrite existsb_rev]; apply existsb_seq. Qed.

  Lemma nth_order_fwd n i : i < n -> nth i (seq 0 n) 0 = i.
  Proof. intros H. rewrite seq_nth by lia. reflexivity. Qed.

  Lemma nth_order_bwd n i : i < n -> nth i (rev (seq 0 n)) 0 = n - 1 - i.
  Proof. intros H. rewrite rev_nth by (rewrite seq_length; lia). rewrite seq_length, seq_nth by lia. lia. Qed.

  Lemma safe_fwd a b n : a <= b -> safe_order a b (seq 0 n).
  Proof. intros H i j Hij. rewrite seq_length in Hij. rewrite !nth_order_fwd by lia. lia. Qed.

  Lemma safe_bwd a b n : a >= b -> safe_order a b (rev (seq 0 n)).
  Proof. intros H i j Hij. rewrite rev_length, seq_length in Hij. rewrite !nth_order_bwd by lia. lia. Qed.

  Lemma safe_disjoint a b d n : a + n <= b \/ b + n <= a -> safe_order a b (order d n).
  Proof.
    intros H i j Hij.
    assert (L : length (order d n) = n) by (destruct d; cbn [order]; [|rewrite rev_length]; apply seq_length).
    rewrite L in Hij.
    assert (Hi : nth i (order d n) 0 < n) by (apply (order_In d); apply nth_In; lia).
    assert (Hj : nth j (order d n) 0 < n) by (apply (order_In d); apply nth_In; lia).
    lia.
  Qed.

  Lemma memmove_spec n a b x : n + a <= length x -> n + b <= length x ->
    forall i, nth_error (memmove n a b x) i = spec a b (seq 0 n) x x i.
  Proof.
    intros Ha Hb. unfold memmove. apply copy_from_spec. intros k Hk. apply in_seq in Hk. lia.
  Qed.

  Lemma spec_order d n a b src dst i : spec a b (order d n) src dst i = spec a b (seq 0 n) src dst i.
  Proof. unfold spec. rewrite order_existsb, existsb_seq. reflexivity. Qed.

  (* ---------------------------------------------------------------- C08_shift_loop *)
  Theorem shift_loop d n a b x :
    n + a <= length x -> n + b <= length x ->
    (a < b /\ d = Fwd) \/ (a > b /\ d = Bwd) \/ a = b \/ (a + n <= b \/ b + n <= a) ->
    copy_loop d n a b x = memmove n a b x.
  Proof.
    intros Ha Hb H. apply nth_error_ext. intros i. rewrite memmove_spec by assumption.
    unfold copy_loop. rewrite copy_steps_spec.
    - apply spec_order.
    - intros k Hk. apply order_In in Hk. lia.
    - destruct H as [[H ->]|[[H ->]|[->|H]]].
      + apply safe_fwd. lia.
      + apply safe_bwd. lia.
      + destruct d; [apply safe_fwd|apply safe_bwd]; lia.
      + apply safe_disjoint. exact H.
  Qed.

  (* two distinct arrays: the order of the steps is irrelevant *)
  Theorem loop2_any_order d n a b src dst :
    n + a <= length dst -> n + b <= length src ->
    copy_loop2 d n a b src dst = copy_loop2 Fwd n a b src dst.
  Proof.
    intros Ha Hb. apply nth_error_ext. intros i. unfold copy_loop2.
    rewrite !copy_from_spec by (intros k Hk; apply order_In in Hk; lia).
    rewrite spec_order. reflexivity.
  Qed.

  (* closed form of memmove *)
  Theorem memmove_closed n a b x : n + a <= length x -> n + b <= length x ->
    memmove n a b x = firstn a x ++ firstn n (skipn b x) ++ skipn (a + n) x.
  Proof.
    intros Ha Hb. apply nth_error_ext. intros i. rewrite memmove_spec by assumption. unfold spec.
    rewrite existsb_seq.
    assert (L1 : length (firstn a x) = a) by (rewrite firstn_length; lia).
    assert (L2 : length (firstn n (skipn b x)) = n) by (rewrite firstn_length, skipn_length; lia).
    destruct (Nat.leb_spec a i) as [Hai|Hai]; cbn [andb].
    - rewrite nth_error_app2 by lia. rewrite L1.
      destruct (Nat.ltb_spec (i - a) n) as [Hn|Hn].
      + rewrite nth_error_app1 by lia. rewrite nth_error_firstn' by lia. rewrite nth_error_skipn'. f_equal. lia.
      + rewrite nth_error_app2 by lia. rewrite L2, nth_error_skipn'. f_equal. lia.
    - rewrite nth_error_app1 by lia. rewrite nth_error_firstn' by lia. reflexivity.
  Qed.

  (* ---------------------------------------------------------------- the converse: forward with a = b + 1 *)
  (* after the loop, x[b .. b+n] all hold the ORIGINAL x[b]: the first element is duplicated n times and
     x[b+1 .. b+n-1] are lost *)
  Theorem forward_overlap_duplicates b x : forall n, b + n + 1 <= length x ->
    forall i, i <= n -> nth_error (copy_loop Fwd n (b + 1) b x) (b + i) = nth_error x b.
  Proof.
    induction n as [|n IH]; intros Hlen i Hi.
    - replace i with 0 by lia. rewrite Nat.add_0_r. reflexivity.
    - unfold copy_loop, copy_steps. cbn [order]. rewrite seq_S, fold_left_app. cbn [fold_left Nat.add].
      fold (copy_steps (b + 1) b (seq 0 n) x). change (copy_steps (b + 1) b (seq 0 n) x) with (copy_loop Fwd n (b + 1) b x).
      set (r := copy_loop Fwd n (b + 1) b x).
      assert (Lr : length r = length x) by apply copy_steps_length.
      assert (Hr : forall j, j <= n -> nth_error r (b + j) = nth_error x b) by (intros j Hj; unfold r; apply IH; lia).
      unfold write_from. replace (n + b) with (b + n) by lia. rewrite (Hr n (le_n n)).
      destruct (nth_error x b) as [v|] eqn:Ev; [|apply nth_error_None in Ev; lia].
      rewrite nth_error_set_nth, Lr.
      destruct (Nat.eqb_spec (b + i) (n + (b + 1))) as [_|Hne].
      + destruct (Nat.ltb_spec (n + (b + 1)) (length x)); [reflexivity|lia].
      + cbn [andb]. rewrite (Hr i ltac:(lia)). reflexivity.
  Qed.
End Facts.

(* a concrete witness: three distinct elements, two steps *)
Lemma forward_overlap_refuted :
  exists (x : list nat) (n a b : nat),
    a = b + 1 /\ n + a <= length x /\ n + b <= length x /\
    copy_loop Fwd n a b x = [1; 1; 1] /\ memmove n a b x = [1; 1; 2] /\
    copy_loop Fwd n a b x <> memmove n a b x.
Proof. exists [1; 2; 3], 2, 1, 0. cbn. repeat split; try lia. discriminate. Qed.

(* ---------------------------------------------------------------- the criterion is sound *)
Theorem loop_ok_sound (s : cl_site) : loop_ok s = true ->
  forall (T : Type) (n a b : nat),
    (cl_same_array s = true -> rel_holds (cl_rel_ s) a b ->
       forall x : list T, n + a <= length x -> n + b <= length x ->
       copy_loop (cl_dir_ s) n a b x = memmove n a b x)
    /\ (cl_same_array s = false ->
       forall src dst : list T, n + a <= length dst -> n + b <= length src ->
       copy_loop2 (cl_dir_ s) n a b src dst = copy_loop2 Fwd n a b src dst).
Proof.
  intros Hok T n a b. split.
  - intros Hsame Hrel x Ha Hb. apply shift_loop; try assumption.
    destruct (Nat.eq_dec a b) as [E|E]; [right; right; left; exact E|].
    revert Hok Hrel. unfold loop_ok, rel_holds. rewrite Hsame.
    destruct (cl_rel_ s), (cl_dir_ s); cbn [negb]; intros Hok Hrel; try discriminate;
      first [ left; split; [lia|reflexivity] | right; left; split; [lia|reflexivity] | exfalso; lia ].
  - intros _ src dst Ha Hb. apply loop2_any_order; assumption.
Qed.

Lemma forallb_In {A} (f : A -> bool) l : forallb f l = true -> forall x, In x l -> f x = true.
Proof. intros H x Hx. rewrite forallb_forall in H. apply H. exact Hx. Qed.
