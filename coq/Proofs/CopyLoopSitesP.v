(* Proofs/CopyLoopSitesP.v — the obligation over the REGENERATED site list Gen/CopyLoops.v: every element-wise
   copy loop found in /repo/src/hb runs in the direction that makes it a memmove, and nothing the scanner saw
   is left unclassified.  This file fails to compile when a loop copies forward over a range whose
   destination lies above its source (the Thai NIKHAHIT move before its repair), or when a new
   glyph-moving loop of an unknown shape appears. *)
From Coq Require Import String List Bool.
From RB Require Import Gen.CopyLoops Model.CopyLoop Proofs.CopyLoopP.
Import ListNotations.

Lemma all_copy_loops_ok : forallb loop_ok copy_loops = true /\ unclassified_loops = [] /\ bad_loops = [].
Proof. vm_compute. split; [reflexivity|split; reflexivity]. Qed.

(* hence every listed loop IS a memmove, for every instantiation of its symbolic offsets that satisfies the
   sign relation the translator established *)
Theorem listed_loops_are_memmove (s : cl_site) : In s copy_loops ->
  forall (T : Type) (n a b : nat),
    (cl_same_array s = true -> rel_holds (cl_rel_ s) a b ->
       forall x : list T, n + a <= length x -> n + b <= length x ->
       copy_loop (cl_dir_ s) n a b x = memmove n a b x)
    /\ (cl_same_array s = false ->
       forall src dst : list T, n + a <= length dst -> n + b <= length src ->
       copy_loop2 (cl_dir_ s) n a b src dst = copy_loop2 Fwd n a b src dst).
Proof.
  intros Hin. apply loop_ok_sound. exact (forallb_In loop_ok copy_loops (proj1 all_copy_loops_ok) s Hin).
Qed.

(* the scanner is looking at the real tree: the routines the other theorems model are among the sites *)
Lemma sites_nonempty :
  existsb (fun s => (cl_file s =? "src/hb/buffer.rs")%string) copy_loops = true
  /\ existsb (fun s => (cl_file s =? "src/hb/ot_shaper_thai.rs")%string) copy_loops = true.
Proof. vm_compute. split; reflexivity. Qed.
