(* Proofs/DigestP.v — lemmas about Model/Digest.v *)
From Coq Require Import List NArith Bool Lia Arith.
From RB Require Import Base.ListX Model.Digest.
Import ListNotations.
Local Open Scope N_scope.

Definition bitpos (s g : N) : N := N.shiftr g s mod 64.

Lemma bitpos_lt s g : bitpos s g < 64.
Proof. unfold bitpos. apply N.mod_lt. discriminate. Qed.

Lemma mask_for_pow2 s g : mask_for s g = 2 ^ bitpos s g.
Proof.
  unfold mask_for, bitpos, MASK_BITS. rewrite N.shiftl_1_l.
  change (64 - 1) with (N.ones 6). rewrite N.land_ones. reflexivity.
Qed.

Lemma land_pow2_testbit m p : negb (N.land m (2 ^ p) =? 0) = N.testbit m p.
Proof.
  destruct (N.testbit m p) eqn:Hb.
  - apply negb_true_iff. apply N.eqb_neq. intros H0.
    assert (Ht : N.testbit (N.land m (2 ^ p)) p = true).
    { rewrite N.land_spec, Hb, N.pow2_bits_true. reflexivity. }
    rewrite H0 in Ht. rewrite N.bits_0 in Ht. discriminate.
  - apply negb_false_iff. apply N.eqb_eq. apply N.bits_inj_0. intros q.
    rewrite N.land_spec, N.pow2_bits_eqb.
    destruct (N.eqb_spec p q) as [->|_]; [rewrite Hb|rewrite andb_false_r]; reflexivity.
Qed.

Lemma may_have_glyph_testbit s m g : may_have_glyph s m g = N.testbit m (bitpos s g).
Proof. unfold may_have_glyph. rewrite mask_for_pow2. apply land_pow2_testbit. Qed.

Lemma add_testbit s m g p :
  N.testbit (add s m g) p = N.testbit m p || (bitpos s g =? p).
Proof. unfold add. rewrite mask_for_pow2, N.lor_spec, N.pow2_bits_eqb. reflexivity. Qed.

Lemma add_sound s m g : may_have_glyph s (add s m g) g = true.
Proof.
  rewrite may_have_glyph_testbit, add_testbit, N.eqb_refl. apply orb_true_r.
Qed.

Lemma add_keeps s m g p : N.testbit m p = true -> N.testbit (add s m g) p = true.
Proof. intros H. rewrite add_testbit, H. reflexivity. Qed.

Lemma add_array_keeps s gs : forall m p,
  N.testbit m p = true -> N.testbit (add_array s m gs) p = true.
Proof.
  unfold add_array. induction gs as [|g gs IH]; cbn [fold_left]; intros m p H; [exact H|].
  apply IH. apply add_keeps. exact H.
Qed.

Lemma add_array_sound s gs : forall m g, In g gs -> may_have_glyph s (add_array s m gs) g = true.
Proof.
  unfold add_array. induction gs as [|x gs IH]; cbn [fold_left In]; intros m g Hin; [contradiction|].
  destruct Hin as [->|Hin].
  - rewrite may_have_glyph_testbit. apply (add_array_keeps s gs).
    rewrite <- may_have_glyph_testbit. apply add_sound.
  - apply IH. exact Hin.
Qed.

(* ---- add_range: finite sweep over (bit position of a, distance, offset) ---- *)

Definition sweep2 (P : N -> N -> bool) : bool :=
  forallb (fun pa => forallb (fun d => P pa d) (nrange 63)) (nrange 64).

Lemma sweep2_use (P : N -> N -> bool) :
  sweep2 P = true -> forall pa d, pa < 64 -> d < 63 -> P pa d = true.
Proof.
  intros H pa d Hpa Hd. unfold sweep2 in H.
  pose proof (forallb_nrange 64 _ H pa Hpa) as H1. cbv beta in H1.
  exact (forallb_nrange 63 _ H1 d Hd).
Qed.

Definition P_sound (pa d : N) : bool :=
  let R := range_bits_rel (2 ^ pa) (2 ^ ((pa + d) mod 64)) in
  forallb (fun e => N.testbit R ((pa + e) mod 64)) (nrange (S (N.to_nat d))).

Lemma sweep_sound_ok : sweep2 P_sound = true.
Proof. vm_compute. reflexivity. Qed.

Lemma sweep_sound_use pa d e :
  pa < 64 -> d < 63 -> e <= d ->
  N.testbit (range_bits_rel (2 ^ pa) (2 ^ ((pa + d) mod 64))) ((pa + e) mod 64) = true.
Proof.
  intros Hpa Hd He.
  pose proof (sweep2_use P_sound sweep_sound_ok pa d Hpa Hd) as H.
  unfold P_sound in H. cbv zeta in H.
  exact (forallb_nrange _ _ H e ltac:(lia)).
Qed.

(* checked arithmetic never traps on the non-saturating branch, and agrees with the wrap *)
Definition chk_bits (ma mb : N) : option N :=
  match cadd mb (wsub mb ma) with
  | None => None
  | Some t => csub t (if mb <? ma then 1 else 0)
  end.

Definition P_chk (pa d : N) : bool :=
  let ma := 2 ^ pa in let mb := 2 ^ ((pa + d) mod 64) in
  match chk_bits ma mb with
  | Some r => r =? range_bits_rel ma mb
  | None => false
  end.

Lemma sweep_chk_ok : sweep2 P_chk = true.
Proof. vm_compute. reflexivity. Qed.

Lemma sweep_chk_use pa d :
  pa < 64 -> d < 63 ->
  chk_bits (2 ^ pa) (2 ^ ((pa + d) mod 64)) =
    Some (range_bits_rel (2 ^ pa) (2 ^ ((pa + d) mod 64))).
Proof.
  intros Hpa Hd.
  pose proof (sweep2_use P_chk sweep_chk_ok pa d Hpa Hd) as H.
  unfold P_chk in H. cbv zeta in H.
  destruct (chk_bits (2 ^ pa) (2 ^ ((pa + d) mod 64))) as [r|]; [|discriminate].
  apply N.eqb_eq in H. rewrite H. reflexivity.
Qed.

Lemma shiftr_mono s x y : x <= y -> N.shiftr x s <= N.shiftr y s.
Proof. intros H. rewrite !N.shiftr_div_pow2. apply N.div_le_mono; [apply N.pow_nonzero; discriminate|exact H]. Qed.

Lemma shiftr_lt_M64 s x : x < 2 ^ 16 -> N.shiftr x s < 2 ^ 16.
Proof.
  intros H. rewrite N.shiftr_div_pow2.
  eapply N.le_lt_trans; [|exact H]. apply N.div_le_upper_bound.
  - apply N.pow_nonzero; discriminate.
  - pose proof (N.pow_nonzero 2 s ltac:(discriminate)) as Hnz. nia.
Qed.

Lemma wsub_small x y : y <= x -> x < 2 ^ 16 -> wsub x y = x - y.
Proof.
  intros Hle Hx. unfold wsub, M64.
  replace (x + 2 ^ 64 - y) with ((x - y) + 1 * 2 ^ 64) by lia.
  rewrite N.mod_add by discriminate. apply N.mod_small.
  assert (2 ^ 16 < 2 ^ 64) by (vm_compute; reflexivity). lia.
Qed.

Lemma testbit_MAX64 p : p < 64 -> N.testbit MAX64 p = true.
Proof. intros H. change MAX64 with (N.ones 64). apply N.ones_spec_low. exact H. Qed.

Lemma mod_shift A d : (A + d) mod 64 = (A mod 64 + d) mod 64.
Proof. rewrite N.add_mod_idemp_l by discriminate. reflexivity. Qed.

Theorem add_range_rel_sound s m a b g :
  b < 2 ^ 16 -> a <= g -> g <= b ->
  may_have_glyph s (snd (add_range_rel s m a b)) g = true.
Proof.
  intros Hb Hag Hgb. rewrite may_have_glyph_testbit. unfold add_range_rel.
  destruct (m =? MAX64) eqn:Hm.
  - apply N.eqb_eq in Hm. subst m. cbn [snd]. apply testbit_MAX64. apply bitpos_lt.
  - set (A := N.shiftr a s). set (B := N.shiftr b s). set (G := N.shiftr g s).
    assert (HAG : A <= G) by (apply shiftr_mono; exact Hag).
    assert (HGB : G <= B) by (apply shiftr_mono; exact Hgb).
    assert (HB : B < 2 ^ 16) by (apply shiftr_lt_M64; exact Hb).
    rewrite (wsub_small B A) by lia.
    unfold MASK_BITS. change (64 - 1) with 63.
    destruct (63 <=? B - A) eqn:Hsat.
    + cbn [snd]. apply testbit_MAX64. apply bitpos_lt.
    + apply N.leb_gt in Hsat. cbn [snd]. rewrite N.lor_spec.
      rewrite !mask_for_pow2. unfold bitpos. fold A B G.
      replace B with (A + (B - A)) at 1 by lia.
      replace G with (A + (G - A)) by lia.
      rewrite (mod_shift A (B - A)), (mod_shift A (G - A)).
      rewrite sweep_sound_use; [apply orb_true_r| apply N.mod_lt; discriminate | exact Hsat | lia].
Qed.

Theorem add_range_rel_keeps s m a b p :
  p < 64 -> N.testbit m p = true -> N.testbit (snd (add_range_rel s m a b)) p = true.
Proof.
  intros Hp H. unfold add_range_rel.
  destruct (m =? MAX64); [exact H|].
  destruct (MASK_BITS - 1 <=? _); cbn [snd]; [apply testbit_MAX64; exact Hp|].
  rewrite N.lor_spec, H. reflexivity.
Qed.

Lemma wsub_reversed x y : x < y -> y < 2 ^ 16 -> 63 <= wsub x y.
Proof.
  intros Hlt Hy. unfold wsub, M64.
  assert (H64 : 2 ^ 16 < 2 ^ 64) by (vm_compute; reflexivity).
  rewrite N.mod_small by lia. lia.
Qed.

(* the overflow-checked build never traps, for ANY a and b (a > b saturates, like the release build) *)
Theorem add_range_chk_ok s m a b :
  a < 2 ^ 16 -> b < 2 ^ 16 -> add_range_chk s m a b = Some (add_range_rel s m a b).
Proof.
  intros Ha Hb. unfold add_range_chk, add_range_rel.
  destruct (m =? MAX64); [reflexivity|].
  set (A := N.shiftr a s). set (B := N.shiftr b s).
  assert (HA : A < 2 ^ 16) by (apply shiftr_lt_M64; exact Ha).
  assert (HB : B < 2 ^ 16) by (apply shiftr_lt_M64; exact Hb).
  unfold MASK_BITS. change (64 - 1) with 63.
  destruct (N.le_gt_cases A B) as [HAB|HBA].
  - rewrite (wsub_small B A) by lia.
    destruct (63 <=? B - A) eqn:Hsat; [reflexivity|].
    apply N.leb_gt in Hsat.
    rewrite !mask_for_pow2. unfold bitpos. fold A B.
    assert (HBm : B mod 64 = (A mod 64 + (B - A)) mod 64).
    { rewrite <- mod_shift. f_equal. lia. }
    rewrite HBm.
    pose proof (sweep_chk_use (A mod 64) (B - A) ltac:(apply N.mod_lt; discriminate) Hsat) as Hs.
    unfold chk_bits in Hs.
    destruct (cadd (2 ^ ((A mod 64 + (B - A)) mod 64)) (wsub (2 ^ ((A mod 64 + (B - A)) mod 64)) (2 ^ (A mod 64)))) as [t|]; [|discriminate].
    rewrite Hs. reflexivity.
  - pose proof (wsub_reversed B A HBA HA) as Hw. apply N.leb_le in Hw. rewrite Hw. reflexivity.
Qed.

Lemma may_have_sound m o p : N.testbit m p = true -> N.testbit o p = true -> may_have m o = true.
Proof.
  intros Hm Ho. unfold may_have. apply negb_true_iff. apply N.eqb_neq. intros H0.
  assert (Ht : N.testbit (N.land m o) p = true) by (rewrite N.land_spec, Hm, Ho; reflexivity).
  rewrite H0, N.bits_0 in Ht. discriminate.
Qed.

(* ---- the combined digest ---- *)

(* d over-approximates the glyph set S *)
Definition Sound (shifts : list N) (d : digest) (S : N -> Prop) : Prop :=
  length d = length shifts /\ forall g, S g -> d_may_have_glyph shifts d g = true.

Lemma d_add_length shifts : forall d g, length d = length shifts -> length (d_add shifts d g) = length shifts.
Proof.
  induction shifts as [|s ss IH]; intros [|m ms] g H; cbn in *; try discriminate; try reflexivity.
  f_equal. apply IH. lia.
Qed.

Lemma d_add_sound_self shifts : forall d g, length d = length shifts ->
  d_may_have_glyph shifts (d_add shifts d g) g = true.
Proof.
  induction shifts as [|s ss IH]; intros [|m ms] g H; cbn in *; try discriminate; try reflexivity.
  rewrite add_sound. cbn. apply IH. lia.
Qed.

Lemma d_add_keeps shifts : forall d g h, length d = length shifts ->
  d_may_have_glyph shifts d h = true -> d_may_have_glyph shifts (d_add shifts d g) h = true.
Proof.
  induction shifts as [|s ss IH]; intros [|m ms] g h H Hh; cbn in *; try discriminate; try reflexivity.
  apply andb_true_iff in Hh. destruct Hh as [H1 H2].
  rewrite may_have_glyph_testbit in H1 |- *. rewrite (add_keeps s m g _ H1). cbn.
  apply IH; [lia|exact H2].
Qed.

Theorem d_add_Sound shifts d S g :
  Sound shifts d S -> Sound shifts (d_add shifts d g) (fun x => S x \/ x = g).
Proof.
  intros [Hl HS]. split; [apply d_add_length; exact Hl|].
  intros x [Hx| ->]; [apply d_add_keeps; auto|apply d_add_sound_self; exact Hl].
Qed.

Theorem d_add_array_Sound shifts gs : forall d S,
  Sound shifts d S -> Sound shifts (d_add_array shifts d gs) (fun x => S x \/ In x gs).
Proof.
  unfold d_add_array. induction gs as [|g gs IH]; cbn [fold_left In]; intros d S H.
  - destruct H as [Hl HS]. split; [exact Hl|]. intros x [Hx|[]]. apply HS. exact Hx.
  - apply (d_add_Sound shifts d S g) in H. apply IH in H. destruct H as [Hl HS]. split; [exact Hl|].
    intros x Hx. apply HS. destruct Hx as [Hx|[Hx|Hx]]; [left; left; exact Hx|left; right; symmetry; exact Hx|right; exact Hx].
Qed.

Lemma d_add_range_length shifts : forall d a b, length d = length shifts ->
  length (snd (d_add_range shifts d a b)) = length shifts.
Proof.
  induction shifts as [|s ss IH]; intros [|m ms] a b H; cbn in *; try discriminate; try reflexivity.
  destruct (add_range_rel s m a b) as [r1 m']. specialize (IH ms a b ltac:(lia)).
  destruct (d_add_range ss ms a b) as [r2 ms']. cbn in *. f_equal. exact IH.
Qed.

Lemma d_add_range_in shifts : forall d a b g, length d = length shifts ->
  b < 2 ^ 16 -> a <= g -> g <= b ->
  d_may_have_glyph shifts (snd (d_add_range shifts d a b)) g = true.
Proof.
  induction shifts as [|s ss IH]; intros [|m ms] a b g H Hb Hag Hgb; cbn in *; try discriminate; try reflexivity.
  pose proof (add_range_rel_sound s m a b g Hb Hag Hgb) as H1.
  destruct (add_range_rel s m a b) as [r1 m']. specialize (IH ms a b g ltac:(lia) Hb Hag Hgb).
  destruct (d_add_range ss ms a b) as [r2 ms']. cbn in *. rewrite H1, IH. reflexivity.
Qed.

Lemma d_add_range_keeps shifts : forall d a b h, length d = length shifts ->
  d_may_have_glyph shifts d h = true ->
  d_may_have_glyph shifts (snd (d_add_range shifts d a b)) h = true.
Proof.
  induction shifts as [|s ss IH]; intros [|m ms] a b h H Hh; cbn in *; try discriminate; try reflexivity.
  apply andb_true_iff in Hh. destruct Hh as [H1 H2].
  rewrite may_have_glyph_testbit in H1.
  pose proof (add_range_rel_keeps s m a b _ (bitpos_lt s h) H1) as H1'.
  destruct (add_range_rel s m a b) as [r1 m']. specialize (IH ms a b h ltac:(lia) H2).
  destruct (d_add_range ss ms a b) as [r2 ms']. cbn in *.
  rewrite may_have_glyph_testbit, H1', IH. reflexivity.
Qed.

Theorem d_add_range_Sound shifts d S a b :
  b < 2 ^ 16 -> Sound shifts d S ->
  Sound shifts (snd (d_add_range shifts d a b)) (fun x => S x \/ (a <= x /\ x <= b)).
Proof.
  intros Hb [Hl HS]. split; [apply d_add_range_length; exact Hl|].
  intros x [Hx|[Hax Hxb]]; [apply d_add_range_keeps; auto|apply d_add_range_in; auto].
Qed.

Lemma d_add_range_chk_ok shifts : forall d a b, a < 2 ^ 16 -> b < 2 ^ 16 ->
  d_add_range_chk shifts d a b = Some (d_add_range shifts d a b).
Proof.
  induction shifts as [|s ss IH]; intros [|m ms] a b Hab Hb; cbn; try reflexivity.
  rewrite add_range_chk_ok by assumption. destruct (add_range_rel s m a b) as [r1 m'].
  rewrite IH by assumption. destruct (d_add_range ss ms a b) as [r2 ms']. reflexivity.
Qed.

Theorem d_new_Sound shifts : Sound shifts (d_new shifts) (fun _ => False).
Proof. split; [unfold d_new; apply map_length|]. intros g []. Qed.

(* a glyph in both underlying sets => may_have answers true *)
Theorem d_may_have_sound shifts : forall d o g,
  length d = length shifts -> length o = length shifts ->
  d_may_have_glyph shifts d g = true -> d_may_have_glyph shifts o g = true ->
  d_may_have d o = true.
Proof.
  induction shifts as [|s ss IH]; intros [|m ms] [|x xs] g Hd Ho H1 H2; cbn in *; try discriminate; try reflexivity.
  apply andb_true_iff in H1. destruct H1 as [A1 A2].
  apply andb_true_iff in H2. destruct H2 as [B1 B2].
  rewrite may_have_glyph_testbit in A1, B1.
  rewrite (may_have_sound m x _ A1 B1). cbn. apply (IH ms xs g); auto; lia.
Qed.
