(* Proofs/FeatureP.v — lemmas about Model/Feature.v (property C14). *)
From Coq Require Import List NArith ZArith Bool Lia ZifyBool ZifyN ZifyNat Arith.
From RB Require Import Gen.FeatureConsts Model.Feature.
Import ListNotations.
Local Open Scope N_scope.
Arguments N.add : simpl never.
Arguments N.sub : simpl never.
Arguments N.mul : simpl never.
Arguments N.eqb : simpl never.
Arguments N.ltb : simpl never.
Arguments N.leb : simpl never.
Arguments N.min : simpl never.
Arguments N.max : simpl never.
Arguments N.shiftl : simpl never.
Arguments N.shiftr : simpl never.
Arguments N.land : simpl never.
Arguments N.lor : simpl never.
Arguments N.lxor : simpl never.
Arguments N.modulo : simpl never.
Arguments N.div : simpl never.
Arguments N.pow : simpl never.
Arguments N.testbit : simpl never.
Arguments N.size : simpl never.
Arguments N.log2 : simpl never.

(* ================================================================ Feature::new *)

Lemma as_u32_small x : x < 4294967296 -> as_u32 x = x.
Proof. intros. unfold as_u32. apply N.mod_small. assumption. Qed.

Lemma as_u32_min x : as_u32 (N.min x U32MAX) = N.min x U32MAX.
Proof.
  apply as_u32_small. unfold U32MAX.
  destruct (N.min_spec x 4294967295) as [[? ->]|[? ->]]; lia.
Qed.

Lemma new_end_unbounded : new_end Unbounded = U32MAX.
Proof. reflexivity. Qed.

Lemma is_global_spec s e : is_global s e = (s =? 0) && (e =? U32MAX).
Proof. reflexivity. Qed.

(* forms without a bounded end: the feature acts on exactly the clusters of the range *)
Lemma new_unbounded_ok t v r c :
  bounded_end r = false -> c < U32MAX \/ r = RFull ->
  covers (feature_new t v r) c = in_rangeb r c.
Proof.
  intros Hb Hc. destruct r; try discriminate Hb.
  - (* a.. *)
    destruct Hc as [Hc|Hc]; [|discriminate Hc].
    unfold covers, covers_se, feature_new, feature_new_bounds. cbn [rform_bounds fst snd f_start f_end new_start in_rangeb].
    rewrite new_end_unbounded, as_u32_min, is_global_spec. unfold U32MAX in *.
    destruct (N.min_spec a 4294967295) as [[? ->]|[? ->]]; lia.
  - (* .. *)
    reflexivity.
Qed.

(* forms with a bounded end: the feature acts on c iff both c and c+1 are in the range, i.e. the last
   cluster of the range is left out (known class feature_new_end_bound) *)
Lemma new_bounded_exact t v r c :
  bounded_end r = true -> c < U32MAX ->
  covers (feature_new t v r) c = in_rangeb r c && in_rangeb r (c + 1).
Proof.
  intros Hb Hc. unfold covers, covers_se, feature_new, feature_new_bounds.
  destruct r; try discriminate Hb;
    cbn [rform_bounds fst snd f_start f_end new_start new_end in_rangeb];
    rewrite ?as_u32_min, is_global_spec; unfold U32MAX in *.
  - destruct (N.min_spec a 4294967295) as [[? ->]|[? ->]];
    destruct (N.min_spec (b - 1) 4294967295) as [[? ->]|[? ->]]; lia.
  - destruct (N.min_spec a 4294967295) as [[? ->]|[? ->]];
    destruct (N.min_spec b 4294967295) as [[? ->]|[? ->]]; lia.
  - destruct (N.min_spec (b - 1) 4294967295) as [[? ->]|[? ->]]; lia.
  - destruct (N.min_spec b 4294967295) as [[? ->]|[? ->]]; lia.
Qed.

Lemma new_start_ok t v r c :
  c < U32MAX -> (f_start (feature_new t v r) <=? c) =
  match r with RHalf a _ | RIncl a _ | RFrom a => a <=? c | _ => true end.
Proof.
  intros Hc. unfold feature_new, feature_new_bounds.
  destruct r; cbn [rform_bounds fst snd f_start new_start]; rewrite ?as_u32_min; unfold U32MAX in *;
    try (destruct (N.min_spec a 4294967295) as [[? ->]|[? ->]]); lia.
Qed.

Lemma new_refuted :
  exists r c, bounded_end r = true /\ c < U32MAX /\ covers (feature_new 0 1 r) c <> in_rangeb r c.
Proof. exists (RHalf 0 1), 0. vm_compute. repeat split; discriminate. Qed.

(* the cluster value u32::MAX is only reachable by the global range *)
Lemma new_from_misses_max : covers (feature_new 0 1 (RFrom 2)) U32MAX = false /\ in_rangeb (RFrom 2) U32MAX = true.
Proof. vm_compute. split; reflexivity. Qed.

(* ================================================================ bits *)

Lemma pow2_pos k : 0 < 2 ^ k.
Proof. assert (2 ^ k <> 0) by (apply N.pow_nonzero; lia). lia. Qed.

Lemma U32MAX_ones : U32MAX = N.ones 32.
Proof. reflexivity. Qed.

Lemma testbit_U32MAX n : N.testbit U32MAX n = (n <? 32).
Proof.
  rewrite U32MAX_ones. destruct (n <? 32) eqn:E.
  - apply N.ones_spec_low. lia.
  - apply N.ones_spec_high. lia.
Qed.

Lemma testbit_above a k n : a < 2 ^ k -> k <= n -> N.testbit a n = false.
Proof.
  intros Ha Hn. rewrite <- (N.mod_small a (2 ^ k)) by assumption.
  apply N.mod_pow2_bits_high. assumption.
Qed.

Lemma update_bits m mask value n :
  m < 2 ^ 32 -> mask < 2 ^ 32 ->
  N.testbit (N.lor (N.land m (lnot32 mask)) (N.land value mask)) n =
  if N.testbit mask n then N.testbit value n else N.testbit m n.
Proof.
  intros Hm Hk. unfold lnot32.
  rewrite N.lor_spec, !N.land_spec, N.lxor_spec, testbit_U32MAX.
  destruct (n <? 32) eqn:E.
  - destruct (N.testbit mask n), (N.testbit m n), (N.testbit value n); reflexivity.
  - rewrite (testbit_above mask 32 n), (testbit_above m 32 n) by (assumption || lia).
    destruct (N.testbit value n); reflexivity.
Qed.

Lemma field_mask_shiftl s w : field_mask s w = N.shiftl (N.ones w) s.
Proof.
  unfold field_mask. rewrite !N.shiftl_1_l, N.shiftl_mul_pow2, N.ones_equiv, N.pow_add_r.
  assert (0 < 2 ^ w) by (apply pow2_pos).
  assert (0 < 2 ^ s) by (apply pow2_pos).
  rewrite <- N.sub_1_r, N.mul_sub_distr_r. lia.
Qed.

Lemma testbit_field s w n : N.testbit (field_mask s w) n = (s <=? n) && (n <? s + w).
Proof.
  rewrite field_mask_shiftl. destruct (s <=? n) eqn:E.
  - rewrite N.shiftl_spec_high' by lia. destruct (n <? s + w) eqn:F.
    + apply N.ones_spec_low. lia.
    + apply N.ones_spec_high. lia.
  - apply N.shiftl_spec_low. lia.
Qed.

Lemma field_mask_lt s w : s + w <= 32 -> field_mask s w < 2 ^ 32.
Proof.
  intros H. unfold field_mask. rewrite !N.shiftl_1_l.
  assert (2 ^ (s + w) <= 2 ^ 32) by (apply N.pow_le_mono_r; lia).
  assert (0 < 2 ^ s) by (apply pow2_pos). lia.
Qed.

Lemma field_mask_nonzero s w : 1 <= w -> field_mask s w <> 0.
Proof.
  intros H E. assert (T : N.testbit (field_mask s w) s = true).
  { rewrite testbit_field. lia. }
  rewrite E in T. rewrite N.bits_0 in T. discriminate.
Qed.

Lemma field_masks_disjoint s w s' w' : s + w <= s' -> N.land (field_mask s w) (field_mask s' w') = 0.
Proof.
  intros H. apply N.bits_inj. intros n. rewrite N.land_spec, !testbit_field, N.bits_0. lia.
Qed.

Lemma shl32_small v s w : v < 2 ^ w -> s + w <= 32 -> shl32 v s = N.shiftl v s.
Proof.
  intros Hv Hs. unfold shl32. apply as_u32_small. rewrite N.shiftl_mul_pow2.
  assert (2 ^ w * 2 ^ s <= 2 ^ 32).
  { rewrite <- N.pow_add_r. apply N.pow_le_mono_r; lia. }
  assert (0 < 2 ^ s) by (apply pow2_pos).
  assert (v * 2 ^ s < 2 ^ w * 2 ^ s) by (apply N.mul_lt_mono_pos_r; assumption).
  change 4294967296 with (2 ^ 32). lia.
Qed.

Lemma testbit_shl_in_field v s w n :
  v < 2 ^ w -> N.testbit (N.shiftl v s) n = true -> N.testbit (field_mask s w) n = true.
Proof.
  intros Hv T. rewrite testbit_field.
  destruct (s <=? n) eqn:E.
  - rewrite N.shiftl_spec_high' in T by lia.
    destruct (n <? s + w) eqn:F; [reflexivity|].
    rewrite (testbit_above v w (n - s)) in T by (assumption || lia). discriminate.
  - rewrite N.shiftl_spec_low in T by lia. discriminate.
Qed.

(* ================================================================ set_masks *)

Lemma set_masks_map value mask cs ce l : set_masks value mask cs ce l = map (set_one value mask cs ce) l.
Proof.
  unfold set_masks, set_one, covers_se. rewrite is_global_spec.
  destruct (mask =? 0) eqn:E; cbn [negb andb].
  - symmetry. apply map_id.
  - destruct ((cs =? 0) && (ce =? U32MAX)) eqn:G; cbn [orb]; apply map_ext; intros [c m]; cbn [fst snd].
    + reflexivity.
    + destruct ((cs <=? c) && (c <? ce)); reflexivity.
Qed.

Lemma set_masks_length value mask cs ce l : length (set_masks value mask cs ce l) = length l.
Proof. rewrite set_masks_map. apply map_length. Qed.

Lemma set_one_post value mask cs ce g :
  mask < 2 ^ 32 -> snd g < 2 ^ 32 -> set_masks_post value mask cs ce g (set_one value mask cs ce g).
Proof.
  intros Hk Hm. unfold set_one, set_masks_post.
  destruct (mask =? 0) eqn:E; cbn [negb andb].
  - split; [reflexivity|]. intros n. assert (mask = 0) by lia. subst mask. rewrite N.bits_0. reflexivity.
  - destruct (covers_se cs ce (fst g)) eqn:C; cbn [fst snd].
    + split; [reflexivity|]. intros n. rewrite update_bits by assumption.
      destruct (N.testbit mask n), (N.testbit value n); reflexivity.
    + split; [reflexivity|]. intros n. rewrite andb_false_r. reflexivity.
Qed.

Lemma set_masks_exact value mask cs ce l :
  mask < 2 ^ 32 -> Forall (fun g => snd g < 2 ^ 32) l ->
  Forall2 (set_masks_post value mask cs ce) l (set_masks value mask cs ce l).
Proof.
  intros Hk Hl. rewrite set_masks_map. induction Hl as [|g l Hg Hl IH]; cbn [map]; constructor.
  - apply set_one_post; assumption.
  - exact IH.
Qed.

(* the feature's field after set_masks(value << shift, mask, start, end) *)
Lemma set_one_field s w v cs ce g :
  1 <= w -> s + w <= 32 -> v < 2 ^ w -> snd g < 2 ^ 32 ->
  let g' := set_one (shl32 v s) (field_mask s w) cs ce g in
  if covers_se cs ce (fst g)
  then fst g' = fst g /\ N.land (snd g') (field_mask s w) = N.shiftl v s /\
       N.ldiff (snd g') (field_mask s w) = N.ldiff (snd g) (field_mask s w)
  else g' = g.
Proof.
  intros Hw Hs Hv Hm g'. subst g'. rewrite (shl32_small v s w) by assumption.
  pose proof (set_one_post (N.shiftl v s) (field_mask s w) cs ce g (field_mask_lt s w Hs) Hm) as [Hc Hb].
  destruct (covers_se cs ce (fst g)) eqn:C.
  - split; [exact Hc|]. split.
    + apply N.bits_inj. intros n. rewrite N.land_spec, Hb, andb_true_r.
      destruct (N.testbit (field_mask s w) n) eqn:F.
      * rewrite andb_true_r. reflexivity.
      * rewrite andb_false_r. destruct (N.testbit (N.shiftl v s) n) eqn:T; [|reflexivity].
        rewrite (testbit_shl_in_field v s w n Hv T) in F. discriminate.
    + apply N.bits_inj. intros n. rewrite !N.ldiff_spec, Hb, andb_true_r.
      destruct (N.testbit (field_mask s w) n); [rewrite !andb_false_r|]; reflexivity.
  - unfold set_one. rewrite C, andb_false_r. reflexivity.
Qed.

(* ================================================================ mask-bit allocation *)

(* the fields of the produced list are laid out one after the other from next_bit upwards *)
Fixpoint chain (nb : N) (fs : list fmap) (nb' : N) : Prop :=
  match fs with
  | [] => nb = nb'
  | f :: t => (is_global_map f /\ chain nb t nb') \/
              (exists w, 1 <= w /\ w <= feat_max_bits /\ m_shift f = nb /\ m_mask f = field_mask nb w /\
                         nb + w < feat_global_bit /\ chain (nb + w) t nb')
  end.

Lemma bits_needed_range i :
  uses_global_bit i = false -> fi_max i <> 0 -> 1 <= bits_needed i /\ bits_needed i <= feat_max_bits.
Proof.
  intros Hg Hm. unfold bits_needed, bit_storage. rewrite Hg.
  assert (1 <= N.size (fi_max i)).
  { destruct (fi_max i) as [|p]; [contradiction|]. unfold N.size. lia. }
  assert (1 <= feat_max_bits) by (vm_compute; discriminate).
  destruct (N.min_spec feat_max_bits (N.size (fi_max i))) as [[? ->]|[? ->]]; lia.
Qed.

Lemma alloc_chain infos : forall nb gm,
  chain nb (fst (fst (alloc infos nb gm))) (snd (fst (alloc infos nb gm))).
Proof.
  induction infos as [|i t IH]; intros nb gm; cbn [alloc].
  - reflexivity.
  - destruct ((fi_max i =? 0) || (feat_global_bit <=? nb + bits_needed i)) eqn:D; [apply IH|].
    destruct (negb (fi_found i) && negb (has_flag (fi_flags i) ff_has_fallback)); [apply IH|].
    destruct (uses_global_bit i) eqn:G.
    + specialize (IH nb gm). destruct (alloc t nb gm) as [[r nb'] gm'].
      cbn [fst snd chain] in *. left. split; [split; reflexivity|exact IH].
    + specialize (IH (nb + bits_needed i)
                     (N.lor gm (N.land (shl32 (fi_default i) nb) (field_mask nb (bits_needed i))))).
      destruct (alloc t _ _) as [[r nb'] gm'].
      cbn [fst snd chain] in *. right. exists (bits_needed i).
      destruct (bits_needed_range i G) as [? ?]; [lia|].
      repeat split; try assumption; try reflexivity. lia.
Qed.

Lemma field_within_weaken lo hi lo' hi' f : lo' <= lo -> hi <= hi' -> field_within lo hi f -> field_within lo' hi' f.
Proof.
  intros ? ? [G|[w [? [? [? [? ?]]]]]]; [left; exact G|right; exists w; repeat split; try assumption; lia].
Qed.

Lemma chain_bounds fs : forall nb nb', chain nb fs nb' -> nb <= nb' /\ Forall (field_within nb nb') fs.
Proof.
  induction fs as [|f t IH]; intros nb nb' H; cbn [chain] in H.
  - subst. split; [lia|constructor].
  - destruct H as [[G H]|[w [? [? [Hs [Hm [? H]]]]]]].
    + destruct (IH _ _ H) as [? ?]. split; [assumption|]. constructor; [left; exact G|assumption].
    + destruct (IH _ _ H) as [? F]. split; [lia|]. constructor.
      * right. exists w. rewrite Hs. repeat split; try assumption; lia.
      * eapply Forall_impl; [|exact F]. intros g. apply field_within_weaken; lia.
Qed.

Lemma chain_end_lt fs : forall nb nb', chain nb fs nb' -> nb < feat_global_bit -> nb' < feat_global_bit.
Proof.
  induction fs as [|f t IH]; intros nb nb' H Hn; cbn [chain] in H.
  - subst. assumption.
  - destruct H as [[G H]|[w [? [? [Hs [Hm [? H]]]]]]]; eapply IH; eauto.
Qed.

Lemma global_mask_is_field : GLOBAL_BIT_MASK = field_mask feat_global_bit 1.
Proof. reflexivity. Qed.

Lemma within_compatible_above nb w hi f g :
  m_mask f = field_mask nb w -> nb + w <= hi -> hi <= feat_global_bit ->
  field_within (nb + w) hi g -> masks_compatible f g.
Proof.
  intros Hf ? ? [[? Hg]|[w' [? [? [? [Hg ?]]]]]]; left; rewrite Hf, Hg.
  - rewrite global_mask_is_field. apply field_masks_disjoint. lia.
  - apply field_masks_disjoint. lia.
Qed.

Lemma global_compatible lo hi f g :
  is_global_map f -> hi <= feat_global_bit -> field_within lo hi g -> masks_compatible f g.
Proof.
  intros Gf ? [Gg|[w' [? [? [? [Hg ?]]]]]]; [right; split; assumption|].
  left. destruct Gf as [_ ->]. rewrite Hg, global_mask_is_field, N.land_comm. apply field_masks_disjoint. lia.
Qed.

Lemma chain_disjoint fs : forall nb nb', chain nb fs nb' -> nb < feat_global_bit -> ForallOrdPairs masks_compatible fs.
Proof.
  induction fs as [|f t IH]; intros nb nb' H Hn; [constructor|].
  cbn [chain] in H. destruct H as [[G H]|[w [? [? [Hs [Hm [? H]]]]]]].
  - pose proof (chain_end_lt _ _ _ H Hn). destruct (chain_bounds _ _ _ H) as [? F].
    constructor; [|eapply IH; eauto].
    eapply Forall_impl; [|exact F]. intros g. apply global_compatible; [assumption|lia].
  - assert (Hlt : nb + w < feat_global_bit) by assumption.
    pose proof (chain_end_lt _ _ _ H Hlt). destruct (chain_bounds _ _ _ H) as [? F].
    constructor; [|eapply IH; eauto].
    eapply Forall_impl; [|exact F]. intros g. apply within_compatible_above; [assumption|lia|lia].
Qed.

Lemma first_bit_lt_global : feat_first_bit < feat_global_bit.
Proof. vm_compute. reflexivity. Qed.

(* main allocation facts, for every list of feature infos *)
Lemma alloc_fields_ok infos :
  let fs := fst (fst (alloc infos feat_first_bit GLOBAL_BIT_MASK)) in
  Forall (field_within feat_first_bit (feat_global_bit - 1)) fs /\ ForallOrdPairs masks_compatible fs.
Proof.
  intros fs. subst fs. pose proof (alloc_chain infos feat_first_bit GLOBAL_BIT_MASK) as H.
  pose proof first_bit_lt_global as L.
  pose proof (chain_end_lt _ _ _ H L). destruct (chain_bounds _ _ _ H) as [? F]. split.
  - eapply Forall_impl; [|exact F]. intros g. apply field_within_weaken; lia.
  - eapply chain_disjoint; eauto.
Qed.

Lemma field_within_clear_of_flags f :
  field_within feat_first_bit (feat_global_bit - 1) f -> N.land (m_mask f) glyph_flag_defined = 0.
Proof.
  intros [[_ ->]|[w [? [? [Hs [-> ?]]]]]]; [reflexivity|].
  change glyph_flag_defined with (field_mask 0 feat_flag_bits).
  rewrite N.land_comm. apply field_masks_disjoint.
  assert (feat_flag_bits <= feat_first_bit) by (vm_compute; discriminate). lia.
Qed.

Lemma field_within_clear_of_global f :
  field_within feat_first_bit (feat_global_bit - 1) f -> is_global_map f \/ N.land (m_mask f) GLOBAL_BIT_MASK = 0.
Proof.
  intros [G|[w [? [? [Hs [-> ?]]]]]]; [left; exact G|right].
  rewrite global_mask_is_field. apply field_masks_disjoint.
  assert (1 <= feat_global_bit) by (vm_compute; discriminate). lia.
Qed.

(* every compiled feature comes from an info, with the width that info asks for *)
Lemma alloc_origin infos : forall nb gm f,
  In f (fst (fst (alloc infos nb gm))) ->
  exists i, In i infos /\ m_tag f = fi_tag i /\ fi_max i <> 0 /\
            (fi_found i = true \/ has_flag (fi_flags i) ff_has_fallback = true) /\
            (if uses_global_bit i then is_global_map f
             else m_mask f = field_mask (m_shift f) (bits_needed i) /\
                  m_shift f + bits_needed i < feat_global_bit).
Proof.
  induction infos as [|i t IH]; intros nb gm f; cbn [alloc].
  - intros [].
  - assert (Tl : forall nb gm, In f (fst (fst (alloc t nb gm))) ->
                 exists i0, In i0 (i :: t) /\ m_tag f = fi_tag i0 /\ fi_max i0 <> 0 /\
                   (fi_found i0 = true \/ has_flag (fi_flags i0) ff_has_fallback = true) /\
                   (if uses_global_bit i0 then is_global_map f
                    else m_mask f = field_mask (m_shift f) (bits_needed i0) /\
                         m_shift f + bits_needed i0 < feat_global_bit)).
    { intros nb0 gm0 H. destruct (IH _ _ _ H) as [i0 [? ?]]. exists i0. split; [right; assumption|assumption]. }
    destruct ((fi_max i =? 0) || (feat_global_bit <=? nb + bits_needed i)) eqn:D; [apply Tl|].
    destruct (negb (fi_found i) && negb (has_flag (fi_flags i) ff_has_fallback)) eqn:Fd; [apply Tl|].
    assert (Hfd : fi_found i = true \/ has_flag (fi_flags i) ff_has_fallback = true).
    { destruct (fi_found i); [left; reflexivity|].
      destruct (has_flag (fi_flags i) ff_has_fallback); [right; reflexivity|discriminate Fd]. }
    destruct (uses_global_bit i) eqn:G.
    + pose proof (Tl nb gm) as T. destruct (alloc t nb gm) as [[r nb'] gm']. cbn [fst snd] in *.
      intros [<-|H]; [|apply T; exact H].
      exists i. split; [left; reflexivity|]. cbn [m_tag]. rewrite G.
      repeat split; try assumption; try reflexivity. lia.
    + pose proof (Tl (nb + bits_needed i)
                     (N.lor gm (N.land (shl32 (fi_default i) nb) (field_mask nb (bits_needed i))))) as T.
      destruct (alloc t _ _) as [[r nb'] gm']. cbn [fst snd] in *.
      intros [<-|H]; [|apply T; exact H].
      exists i. split; [left; reflexivity|]. cbn [m_tag m_mask m_shift]. rewrite G.
      repeat split; try assumption; try reflexivity; lia.
Qed.

Lemma value_fits i v :
  uses_global_bit i = false -> v <= fi_max i -> v <= feat_max_value -> v < 2 ^ bits_needed i.
Proof.
  intros G Hv Hm. unfold bits_needed, bit_storage. rewrite G.
  assert (v < 2 ^ N.size (fi_max i)).
  { pose proof (N.size_gt (fi_max i)). lia. }
  assert (v < 2 ^ feat_max_bits).
  { change (2 ^ feat_max_bits) with (feat_max_value + 1). lia. }
  destruct (N.min_spec feat_max_bits (N.size (fi_max i))) as [[? ->]|[? ->]]; assumption.
Qed.

(* a feature with room is kept: nothing is dropped while bits are left *)
Lemma alloc_keeps_when_room i t nb gm :
  fi_max i <> 0 -> nb + bits_needed i < feat_global_bit ->
  fi_found i = true \/ has_flag (fi_flags i) ff_has_fallback = true ->
  exists f r, fst (fst (alloc (i :: t) nb gm)) = f :: r /\ m_tag f = fi_tag i.
Proof.
  intros Hm Hr Hf. cbn [alloc].
  assert ((fi_max i =? 0) || (feat_global_bit <=? nb + bits_needed i) = false) as -> by lia.
  assert (negb (fi_found i) && negb (has_flag (fi_flags i) ff_has_fallback) = false) as ->.
  { destruct Hf as [-> | ->]; [reflexivity|apply andb_false_r]. }
  destruct (uses_global_bit i).
  - destruct (alloc t nb gm) as [[r nb'] gm']. eexists _, r. split; reflexivity.
  - destruct (alloc t _ _) as [[r nb'] gm']. eexists _, r. split; reflexivity.
Qed.

(* ================================================================ value -> lookup / alternate index *)

Lemma ctz32_double y : y <> 0 -> ctz32 (2 * y) = 1 + ctz32 y.
Proof. destruct y as [|p]; [contradiction|]. intros _. reflexivity. Qed.

Lemma ctz32_shiftl x s : x <> 0 -> ctz32 (N.shiftl x s) = s + ctz32 x.
Proof.
  intros Hx. induction s as [|s IH] using N.peano_ind.
  - rewrite N.shiftl_0_r. lia.
  - rewrite N.shiftl_succ_r, ctz32_double, IH; [lia|].
    intros E. apply N.shiftl_eq_0_iff in E. contradiction.
Qed.

Lemma ctz32_odd x : N.testbit x 0 = true -> ctz32 x = 0.
Proof. destruct x as [|[p|p|]]; intros H; try reflexivity; cbv in H; discriminate H. Qed.

Lemma ctz32_field s w : 1 <= w -> ctz32 (field_mask s w) = s.
Proof.
  intros Hw. rewrite field_mask_shiftl, ctz32_shiftl.
  - rewrite ctz32_odd; [lia|]. apply N.ones_spec_low. lia.
  - intros E. assert (T : N.testbit (N.ones w) 0 = true) by (apply N.ones_spec_low; lia).
    rewrite E, N.bits_0 in T. discriminate.
Qed.

Lemma alt_index_field s w v m :
  1 <= w -> N.land m (field_mask s w) = N.shiftl v s -> alt_index m (field_mask s w) = v.
Proof.
  intros Hw H. unfold alt_index. rewrite ctz32_field by assumption.
  rewrite N.land_comm, H, N.shiftr_shiftl_l by lia. rewrite N.sub_diag. apply N.shiftl_0_r.
Qed.

Lemma lookup_applies_field s w v m :
  N.land m (field_mask s w) = N.shiftl v s -> lookup_applies m (field_mask s w) = negb (v =? 0).
Proof.
  intros H. unfold lookup_applies. rewrite H. f_equal.
  destruct (v =? 0) eqn:E.
  - assert (v = 0) by lia. subst. rewrite N.shiftl_0_l. reflexivity.
  - destruct (N.shiftl v s =? 0) eqn:F; [|reflexivity].
    assert (Z : N.shiftl v s = 0) by lia. apply N.shiftl_eq_0_iff in Z. lia.
Qed.

Lemma alternate_apply_field alts s w v m rnd :
  1 <= w -> w <= 16 -> v < 2 ^ w -> alts <> [] ->
  N.land m (field_mask s w) = N.shiftl v s ->
  alternate_apply alts m (field_mask s w) false rnd =
  if v =? 0 then None else nth_error alts (N.to_nat (v - 1)).
Proof.
  intros Hw Hw' Hv Ha H. unfold alternate_apply. destruct alts as [|a alts]; [contradiction|].
  rewrite (alt_index_field s w v m Hw H), andb_false_r.
  assert (2 ^ w <= 2 ^ 16) by (apply N.pow_le_mono_r; lia).
  change (2 ^ 16) with 65536 in *.
  assert ((65536 <=? v) = false) as -> by lia. reflexivity.
Qed.

(* end to end on one glyph: after set_masks with the feature's field the glyph carries the value *)
Lemma set_one_value s w v cs ce g :
  1 <= w -> s + w <= 32 -> v < 2 ^ w -> snd g < 2 ^ 32 -> covers_se cs ce (fst g) = true ->
  let m' := snd (set_one (shl32 v s) (field_mask s w) cs ce g) in
  alt_index m' (field_mask s w) = v /\ lookup_applies m' (field_mask s w) = negb (v =? 0).
Proof.
  intros Hw Hs Hv Hm C m'. subst m'.
  pose proof (set_one_field s w v cs ce g Hw Hs Hv Hm) as F. cbv zeta in F. rewrite C in F.
  destruct F as [_ [F _]]. split.
  - apply alt_index_field; assumption.
  - apply lookup_applies_field; assumption.
Qed.

(* ================================================================ parser: print / parse round trip *)

Definition stops (p : N -> bool) (rest : list N) : Prop :=
  match rest with [] => True | x :: _ => p x = false end.

Lemma span_app_stop p a rest :
  Forall (fun x => p x = true) a -> stops p rest -> span p (a ++ rest) = (a, rest).
Proof.
  intros Ha Hr. induction Ha as [|x a Hx Ha IH]; cbn [app].
  - destruct rest as [|y r]; [reflexivity|]. cbn [span]. cbn [stops] in Hr. rewrite Hr. reflexivity.
  - cbn [span]. rewrite Hx, IH. reflexivity.
Qed.

Definition dstep (a d : N) : N := 10 * a + (d - 48).

Lemma undec_fold ds : undec ds = fold_left dstep ds 0.
Proof. reflexivity. Qed.

Lemma dec_aux_value f : forall n acc, n < 10 ^ N.of_nat f ->
  fold_left dstep (dec_aux f n acc) 0 = fold_left dstep acc n.
Proof.
  induction f as [|f IH]; intros n acc Hn.
  - cbn [dec_aux]. change (10 ^ N.of_nat 0) with 1 in Hn. assert (n = 0) by lia. subst. reflexivity.
  - cbn [dec_aux]. rewrite Nat2N.inj_succ, N.pow_succ_r' in Hn.
    pose proof (N.div_mod n 10 ltac:(lia)) as DM. pose proof (N.mod_lt n 10 ltac:(lia)) as ML.
    destruct (n / 10 =? 0) eqn:E.
    + cbn [fold_left]. unfold dstep at 2. f_equal. lia.
    + rewrite IH by lia. cbn [fold_left]. f_equal. unfold dstep. lia.
Qed.

Lemma dec_aux_digits f : forall n acc,
  Forall (fun x => is_digit x = true) acc -> Forall (fun x => is_digit x = true) (dec_aux f n acc).
Proof.
  induction f as [|f IH]; intros n acc Ha; cbn [dec_aux]; [assumption|].
  pose proof (N.mod_lt n 10 ltac:(lia)) as ML.
  assert (D : is_digit (48 + n mod 10) = true) by (unfold is_digit; lia).
  destruct (n / 10 =? 0); [constructor; assumption|apply IH; constructor; assumption].
Qed.

Lemma dec_aux_nonempty f : forall n acc, acc <> [] -> dec_aux f n acc <> [].
Proof.
  induction f as [|f IH]; intros n acc Ha; cbn [dec_aux]; [assumption|].
  destruct (n / 10 =? 0); [discriminate|apply IH; discriminate].
Qed.

Lemma dec_value n : n < 10 ^ 11 -> undec (dec n) = n.
Proof. intros H. rewrite undec_fold. unfold dec. rewrite dec_aux_value by exact H. reflexivity. Qed.

Lemma dec_digits n : Forall (fun x => is_digit x = true) (dec n).
Proof. apply dec_aux_digits. constructor. Qed.

Lemma dec_aux_S_nonempty f n acc : dec_aux (S f) n acc <> [].
Proof.
  cbn [dec_aux]. destruct (n / 10 =? 0); [discriminate|apply dec_aux_nonempty; discriminate].
Qed.

Lemma dec_nonempty n : dec n <> [].
Proof. unfold dec. apply dec_aux_S_nonempty. Qed.

Lemma consume_i32_dec n rest :
  n <= 2147483647 -> stops is_digit rest -> consume_i32 (dec n ++ rest) = (Some n, rest).
Proof.
  intros Hn Hr. pose proof (dec_digits n) as D. pose proof (dec_nonempty n) as NE.
  assert (V : undec (dec n) = n) by (apply dec_value; change (10 ^ 11) with 100000000000; lia).
  destruct (dec n) as [|d ds] eqn:E; [contradiction|].
  unfold consume_i32. cbn [app].
  assert (Hd : is_digit d = true) by (inversion D; assumption).
  assert ((d =? 45) = false) as -> by (unfold is_digit in Hd; lia).
  assert ((d =? 43) = false) as -> by (unfold is_digit in Hd; lia).
  rewrite app_comm_cons, span_app_stop by assumption.
  unfold parse_i32. rewrite V.
  assert ((n <=? 2147483647) = true) as -> by lia. reflexivity.
Qed.

Lemma consume_i32_nondigit x rest :
  is_digit x = false -> x <> 45 -> x <> 43 -> consume_i32 (x :: rest) = (None, x :: rest).
Proof.
  intros Hd H1 H2. unfold consume_i32.
  assert ((x =? 45) = false) as -> by lia. assert ((x =? 43) = false) as -> by lia.
  cbn [span]. rewrite Hd. reflexivity.
Qed.

Lemma tagch_facts t :
  is_tagch t = true ->
  (t =? 45) = false /\ (t =? 43) = false /\ is_space t = false /\ ((t =? 39) || (t =? 34)) = false /\ t < 256.
Proof. unfold is_tagch, is_alpha, is_upper, is_lower, is_digit, is_space. lia. Qed.

Lemma parse_feature_tagged t0 t1 t2 t3 X :
  is_tagch t0 = true -> is_tagch t1 = true -> is_tagch t2 = true -> is_tagch t3 = true ->
  parse_feature (t0 :: t1 :: t2 :: t3 :: 91 :: X) =
  match parse_indices X with
  | None => None
  | Some (st, en, l7) =>
      match parse_postfix 1 l7 with
      | Some v => Some (mkFeature (tag_of_bytes [t0; t1; t2; t3]) v st en)
      | None => None
      end
  end.
Proof.
  intros H0 H1 H2 H3. destruct (tagch_facts t0 H0) as [A [B [S [Q _]]]].
  unfold parse_feature. rewrite A, B.
  unfold skip_spaces at 1. cbn [span]. rewrite S. cbn [snd].
  unfold consume_quote. rewrite Q.
  unfold consume_tag. cbn [span]. rewrite H0, H1, H2, H3.
  change (is_tagch 91) with false. cbv beta iota zeta.
  change (4 <? N.of_nat (length [t0; t1; t2; t3])) with false. cbv beta iota zeta.
  unfold skip_spaces. cbn [span]. change (is_space 91) with false. cbn [snd].
  unfold consume_byte at 1. change (91 =? 91) with true. cbv beta iota zeta.
  reflexivity.
Qed.

Lemma parse_indices_printed st E en R :
  st <= 2147483647 ->
  (E = [] /\ en = U32MAX) \/ (E = dec en /\ en <= 2147483647) ->
  parse_indices (dec st ++ 58 :: E ++ 93 :: R) = Some (st, en, R).
Proof.
  intros Hs HE. unfold parse_indices.
  rewrite consume_i32_dec; [|assumption|reflexivity].
  cbv beta iota zeta. change ((58 =? 58) || (58 =? 59)) with true. cbv beta iota zeta.
  destruct HE as [[-> ->]|[-> He]].
  - cbn [app]. rewrite consume_i32_nondigit; [|reflexivity|discriminate|discriminate].
    cbv beta iota zeta. unfold consume_byte. change (93 =? 93) with true. reflexivity.
  - rewrite consume_i32_dec; [|assumption|reflexivity].
    cbv beta iota zeta. unfold consume_byte. change (93 =? 93) with true. reflexivity.
Qed.

Lemma parse_postfix_printed v0 v : v <= 2147483647 -> parse_postfix v0 (61 :: dec v) = Some v.
Proof.
  intros Hv. unfold parse_postfix, consume_byte. change (61 =? 61) with true. cbv beta iota zeta.
  rewrite <- (app_nil_r (dec v)), consume_i32_dec; [|assumption|exact I].
  cbv beta iota zeta. reflexivity.
Qed.

Lemma tag_bytes_of_bytes t0 t1 t2 t3 :
  t0 < 256 -> t1 < 256 -> t2 < 256 -> t3 < 256 ->
  tag_bytes (tag_of_bytes [t0; t1; t2; t3]) = [t0; t1; t2; t3].
Proof.
  intros. unfold tag_bytes, tag_of_bytes. cbn [nth].
  repeat f_equal; Zify.zify; Z.div_mod_to_equations; lia.
Qed.

Lemma parse_print t0 t1 t2 t3 f : printable t0 t1 t2 t3 f -> parse_feature (print_feature f) = Some f.
Proof.
  intros [H0 [H1 [H2 [H3 [Ht [Hv [Hs He]]]]]]]. destruct f as [tag v st en]. cbn [f_tag f_value f_start f_end] in *.
  unfold print_feature. cbn [f_tag f_value f_start f_end]. subst tag.
  rewrite tag_bytes_of_bytes by (apply tagch_facts; assumption). cbn [app].
  rewrite parse_feature_tagged by assumption.
  rewrite (parse_indices_printed st _ en).
  - rewrite parse_postfix_printed by assumption. reflexivity.
  - assumption.
  - destruct (en =? U32MAX) eqn:E.
    + left. split; [reflexivity|lia].
    + right. split; [reflexivity|]. destruct He; [assumption|lia].
Qed.

(* indices at or above 2^31 are not read back (from_str reads them as i32): known class from_str_index_i32 *)
Lemma parse_index_refuted :
  exists f, f_start f = 3000000000 /\ f_end f = 3000000001 /\
            parse_feature (print_feature f) = Some (mkFeature (f_tag f) (f_value f) 0 U32MAX).
Proof. exists (mkFeature 1801810542 1 3000000000 3000000001). vm_compute. repeat split; reflexivity. Qed.

Lemma in_rangeb_spec r c : in_rangeb r c = true <-> In_range r c.
Proof. destruct r; cbn [in_rangeb In_range]; lia. Qed.

(* ================================================================ statements in the shape Props/C14.v uses *)

Lemma new_covers_outside_known t v r c :
  bounded_end r = false -> c < U32MAX \/ r = RFull ->
  (covers (feature_new t v r) c = true <-> In_range r c).
Proof. intros Hb Hc. rewrite (new_unbounded_ok t v r c Hb Hc). apply in_rangeb_spec. Qed.

Lemma new_bounded_characterised t v r c :
  bounded_end r = true -> c < U32MAX ->
  (covers (feature_new t v r) c = true <-> In_range r c /\ In_range r (c + 1)).
Proof.
  intros Hb Hc. rewrite (new_bounded_exact t v r c Hb Hc), andb_true_iff, !in_rangeb_spec. reflexivity.
Qed.

Lemma new_refuted_prop :
  exists r c, bounded_end r = true /\ c < U32MAX /\
              ~ (covers (feature_new 0 1 r) c = true <-> In_range r c).
Proof.
  exists (RHalf 0 1), 0. split; [reflexivity|]. split; [reflexivity|].
  intros [_ H]. assert (In_range (RHalf 0 1) 0) as I by (cbn; lia). specialize (H I). vm_compute in H. discriminate H.
Qed.

Lemma insert_map_In x l f : In f (insert_map x l) -> f = x \/ In f l.
Proof.
  induction l as [|y t IH]; cbn [insert_map].
  - intros [<-|[]]. left. reflexivity.
  - destruct (m_tag x <=? m_tag y).
    + intros [<-|H]; [left; reflexivity|right; exact H].
    + intros [<-|H]; [right; left; reflexivity|]. destruct (IH H) as [->|?]; [left; reflexivity|right; right; assumption].
Qed.

Lemma sort_maps_In l f : In f (sort_maps l) -> In f l.
Proof.
  induction l as [|x t IH]; cbn [sort_maps fold_right]; [intros []|].
  intros H. apply insert_map_In in H. destruct H as [->|H]; [left; reflexivity|right; apply IH; exact H].
Qed.

Lemma compile_map_In simple infos f :
  In f (fst (compile_map simple infos)) ->
  In f (fst (fst (alloc (dedup_infos simple infos) feat_first_bit GLOBAL_BIT_MASK))).
Proof.
  unfold compile_map. destruct (alloc _ _ _) as [[r nb] gm]. cbn [fst snd].
  destruct simple; [apply sort_maps_In|exact (fun H => H)].
Qed.

(* every feature of a compiled map: its field lies in bits [first_bit, global_bit - 1), clear of the glyph
   flag bits and of the global bit (unless it is a global-bit feature) *)
Lemma compile_fields simple infos f :
  In f (fst (compile_map simple infos)) ->
  field_within feat_first_bit (feat_global_bit - 1) f /\
  N.land (m_mask f) glyph_flag_defined = 0 /\
  (is_global_map f \/ N.land (m_mask f) GLOBAL_BIT_MASK = 0).
Proof.
  intros H. apply compile_map_In in H.
  destruct (alloc_fields_ok (dedup_infos simple infos)) as [F _].
  rewrite Forall_forall in F. specialize (F f H).
  split; [exact F|]. split; [apply field_within_clear_of_flags|apply field_within_clear_of_global]; exact F.
Qed.

(* the width of a compiled field holds every value up to min(max_value, 255) of its (merged) info *)
Lemma compile_width simple infos f :
  In f (fst (compile_map simple infos)) ->
  exists i, In i (dedup_infos simple infos) /\ m_tag f = fi_tag i /\
            (uses_global_bit i = true /\ is_global_map f \/
             uses_global_bit i = false /\ m_mask f = field_mask (m_shift f) (bits_needed i) /\
             1 <= bits_needed i /\ m_shift f + bits_needed i <= 32 /\
             forall v, v <= fi_max i -> v <= feat_max_value ->
                       v < 2 ^ bits_needed i /\
                       N.land (shl32 v (m_shift f)) (m_mask f) = N.shiftl v (m_shift f) /\
                       alt_index (shl32 v (m_shift f)) (m_mask f) = v).
Proof.
  intros H. apply compile_map_In in H.
  destruct (alloc_origin _ _ _ _ H) as [i [Hi [Ht [Hm [_ Hk]]]]].
  exists i. split; [exact Hi|]. split; [exact Ht|].
  destruct (uses_global_bit i) eqn:G; [left; split; [reflexivity|exact Hk]|right].
  destruct Hk as [Hmask Hlt]. destruct (bits_needed_range i G Hm) as [B1 B2].
  assert (L : m_shift f + bits_needed i <= 32).
  { assert (feat_global_bit <= 32) by (vm_compute; discriminate). lia. }
  repeat split; try assumption.
  - apply value_fits; assumption.
  - pose proof (value_fits i v G H0 H1) as V.
    rewrite (shl32_small v (m_shift f) (bits_needed i)) by assumption. rewrite Hmask.
    apply N.bits_inj. intros n. rewrite N.land_spec.
    destruct (N.testbit (N.shiftl v (m_shift f)) n) eqn:T; [|reflexivity].
    rewrite (testbit_shl_in_field v _ _ n V T). reflexivity.
  - pose proof (value_fits i v G H0 H1) as V. rewrite Hmask. apply alt_index_field; [assumption|].
    rewrite (shl32_small v (m_shift f) (bits_needed i)) by assumption.
    apply N.bits_inj. intros n. rewrite N.land_spec.
    destruct (N.testbit (N.shiftl v (m_shift f)) n) eqn:T; [|reflexivity].
    rewrite (testbit_shl_in_field v _ _ n V T). reflexivity.
Qed.

(* when the infos are not sorted afterwards (the non-simple path, i.e. whenever user features exist) the
   compiled list is the allocation order and its fields are pairwise compatible *)
Lemma compile_pairwise infos :
  ForallOrdPairs masks_compatible (fst (compile_map false infos)).
Proof.
  unfold compile_map. pose proof (alloc_fields_ok (dedup_infos false infos)) as [_ P].
  destruct (alloc _ _ _) as [[r nb] gm]. exact P.
Qed.

(* value semantics on one glyph, for a field of width w at shift s *)
Lemma value_on_glyph s w v cs ce g alts rnd :
  1 <= w -> w <= feat_max_bits -> s + w <= 32 -> v < 2 ^ w -> snd g < 2 ^ 32 -> alts <> [] ->
  let fm := field_mask s w in
  let g' := set_one (shl32 v s) fm cs ce g in
  if covers_se cs ce (fst g)
  then alt_index (snd g') fm = v /\
       lookup_applies (snd g') fm = negb (v =? 0) /\
       alternate_apply alts (snd g') fm false rnd = (if v =? 0 then None else nth_error alts (N.to_nat (v - 1)))
  else g' = g.
Proof.
  intros Hw Hw8 Hs Hv Hm Ha fm g'. subst fm g'.
  pose proof (set_one_field s w v cs ce g Hw Hs Hv Hm) as F. cbv zeta in F.
  destruct (covers_se cs ce (fst g)) eqn:C; [|exact F].
  destruct F as [_ [F _]].
  split; [apply alt_index_field; assumption|].
  split; [apply lookup_applies_field; assumption|].
  apply alternate_apply_field; try assumption.
  assert (feat_max_bits <= 16) by (vm_compute; discriminate). lia.
Qed.
