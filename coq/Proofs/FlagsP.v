(* Proofs/FlagsP.v — lemmas about Model/Flags.v *)
From Coq Require Import List NArith Bool Lia.
From RB Require Import Model.Buffer Model.Flags.
Import ListNotations.
Local Open Scope N_scope.

(* all three-bit masks, for finite case analysis *)
Lemma lt8_cases m : m < 8 -> m = 0 \/ m = 1 \/ m = 2 \/ m = 3 \/ m = 4 \/ m = 5 \/ m = 6 \/ m = 7.
Proof. intros H. destruct m as [|p]; [auto|]. repeat (destruct p as [p|p|]; try lia; auto 10). Qed.

Lemma land7_lt8 x : N.land x 7 < 8.
Proof.
  change 7 with (N.ones 3). rewrite N.land_ones. apply N.mod_lt. discriminate.
Qed.

Lemma lor_lt8 a b : a < 8 -> b < 8 -> N.lor a b < 8.
Proof.
  intros Ha Hb. destruct (lt8_cases a Ha) as [->|[->|[->|[->|[->|[->|[->| ->]]]]]]];
  destruct (lt8_cases b Hb) as [->|[->|[->|[->|[->|[->|[->| ->]]]]]]]; vm_compute; reflexivity.
Qed.

Lemma group_mask_lt8_aux grp : forall a, a < 8 -> fold_left (fun a i => N.lor a (N.land (mask i) GLYPH_FLAGS_DEFINED)) grp a < 8.
Proof.
  induction grp as [|x grp IH]; intros a Ha; cbn; [exact Ha|]. apply IH. apply lor_lt8; [exact Ha|apply land7_lt8].
Qed.

Lemma group_mask_lt8 grp : group_mask grp < 8.
Proof. unfold group_mask. apply group_mask_lt8_aux. reflexivity. Qed.

Lemma adjust_lt8 f c m : m < 8 -> adjust_mask f c m < 8.
Proof.
  intros H. destruct (lt8_cases m H) as [->|[->|[->|[->|[->|[->|[->| ->]]]]]]]; destruct f, c; vm_compute; reflexivity.
Qed.

(* gating and implication facts of the per-cluster adjustment, by finite case analysis on 3-bit masks *)
Lemma adjust_no_concat f m : m < 8 -> N.testbit (adjust_mask f true m) 1 = false.
Proof.
  intros H. destruct (lt8_cases m H) as [->|[->|[->|[->|[->|[->|[->| ->]]]]]]]; destruct f; vm_compute; reflexivity.
Qed.

Lemma adjust_break_concat f m : m < 8 -> (N.testbit m 0 = true -> N.testbit m 1 = true) ->
  N.testbit (adjust_mask f false m) 0 = true -> N.testbit (adjust_mask f false m) 1 = true.
Proof.
  intros H. destruct (lt8_cases m H) as [->|[->|[->|[->|[->|[->|[->| ->]]]]]]]; destruct f; vm_compute; auto.
Qed.

Lemma adjust_no_tatweel c m : m < 8 -> N.testbit m 2 = false -> N.testbit (adjust_mask false c m) 2 = false.
Proof.
  intros H. destruct (lt8_cases m H) as [->|[->|[->|[->|[->|[->|[->| ->]]]]]]]; destruct c; vm_compute; auto.
Qed.

(* the group mask has a bit iff some member has it *)
Lemma fold_bit grp n : forall a,
  N.testbit (fold_left (fun a i => N.lor a (N.land (mask i) GLYPH_FLAGS_DEFINED)) grp a) n =
  (N.testbit a n || existsb (fun i => N.testbit (N.land (mask i) GLYPH_FLAGS_DEFINED) n) grp)%bool.
Proof.
  induction grp as [|x grp IH]; intros a; cbn; [rewrite orb_false_r; reflexivity|].
  rewrite IH, N.lor_spec, orb_assoc. reflexivity.
Qed.

Lemma group_mask_bit grp n :
  N.testbit (group_mask grp) n = existsb (fun i => N.testbit (exposed i) n) grp.
Proof. unfold group_mask. rewrite fold_bit, N.bits_0. reflexivity. Qed.

(* groups partition the list: a member of a group is a member of the list *)
Lemma groups_aux_member y : forall l cur acc g, In g (groups_aux l cur acc) -> In y g ->
  In y l \/ In y cur \/ exists g', In g' acc /\ In y g'.
Proof.
  induction l as [|x l IH]; intros cur acc g Hg Hy; cbn [groups_aux] in Hg.
  - destruct cur as [|c cur'].
    + rewrite <- in_rev in Hg. right; right. exists g. split; assumption.
    + rewrite <- in_rev in Hg. apply in_inv in Hg. destruct Hg as [Hg|Hg].
      * subst g. right; left. rewrite <- in_rev in Hy. exact Hy.
      * right; right. exists g. split; assumption.
  - destruct cur as [|c cur'].
    + destruct (IH _ _ _ Hg Hy) as [H|[H|H]]; [left; right; exact H| |right; right; exact H].
      apply in_inv in H. destruct H as [H|H]; [subst; left; left; reflexivity|destruct H].
    + destruct (cluster c =? cluster x).
      * destruct (IH _ _ _ Hg Hy) as [H|[H|H]]; [left; right; exact H| |right; right; exact H].
        apply in_inv in H. destruct H as [H|H]; [subst; left; left; reflexivity|right; left; exact H].
      * destruct (IH _ _ _ Hg Hy) as [H|[H|H]]; [left; right; exact H| |].
        -- apply in_inv in H. destruct H as [H|H]; [subst; left; left; reflexivity|destruct H].
        -- destruct H as [g' [Hg' Hy']]. apply in_inv in Hg'. destruct Hg' as [Hg'|Hg'].
           ++ subst g'. right; left. rewrite <- in_rev in Hy'. exact Hy'.
           ++ right; right. exists g'. split; assumption.
Qed.

Lemma cluster_groups_member y l g : In g (cluster_groups l) -> In y g -> In y l.
Proof.
  intros Hg Hy. destruct (groups_aux_member y l [] [] g Hg Hy) as [H|[H|[g' [H _]]]]; [exact H|destruct H|destruct H].
Qed.

(* ---- uniformity ---- *)

Definition uniform (grp : list info) : Prop := forall x y, In x grp -> In y grp -> mask x = mask y.

Lemma propagate_group_uniform f c grp : uniform (propagate_group true f c grp).
Proof.
  unfold propagate_group, uniform. cbn [orb]. intros x y Hx Hy.
  apply in_map_iff in Hx. destruct Hx as [x0 [<- _]]. apply in_map_iff in Hy. destruct Hy as [y0 [<- _]]. reflexivity.
Qed.

Lemma propagate_group_exposed f c grp x :
  In x (propagate_group true f c grp) -> mask x = adjust_mask f c (group_mask grp).
Proof. unfold propagate_group. cbn [orb]. intros Hx. apply in_map_iff in Hx. destruct Hx as [x0 [<- _]]. reflexivity. Qed.

Lemma propagate_group_clusters w f c grp : map cluster (propagate_group w f c grp) = map cluster grp.
Proof.
  unfold propagate_group. destruct (w || c)%bool; [|reflexivity]. rewrite map_map. reflexivity.
Qed.

Lemma propagate_group_gids w f c grp : map gid (propagate_group w f c grp) = map gid grp.
Proof.
  unfold propagate_group. destruct (w || c)%bool; [|reflexivity]. rewrite map_map. reflexivity.
Qed.

(* every glyph of the propagated buffer sits in a group that is uniform, bounded and gated *)
Theorem propagate_flags_spec concat_bit tatweel_bit bflags scratch l x :
  N.land scratch SCRATCH_HAS_GLYPH_FLAGS <> 0 ->
  In x (propagate_flags true concat_bit tatweel_bit bflags scratch l) ->
  exists grp, In grp (cluster_groups l) /\
    mask x = adjust_mask (flip_tatweel_of bflags tatweel_bit) (clear_concat_of bflags concat_bit) (group_mask grp).
Proof.
  intros Hs. unfold propagate_flags. destruct (N.land scratch SCRATCH_HAS_GLYPH_FLAGS =? 0) eqn:E; [apply N.eqb_eq in E; contradiction|].
  intros Hx. apply in_concat in Hx. destruct Hx as [g [Hg Hx]]. apply in_map_iff in Hg. destruct Hg as [grp [<- Hgrp]].
  exists grp. split; [exact Hgrp|]. apply propagate_group_exposed in Hx. exact Hx.
Qed.

Corollary propagate_flags_defined_only concat_bit tatweel_bit bflags scratch l x :
  N.land scratch SCRATCH_HAS_GLYPH_FLAGS <> 0 ->
  In x (propagate_flags true concat_bit tatweel_bit bflags scratch l) -> mask x < 8.
Proof.
  intros Hs Hx. destruct (propagate_flags_spec _ _ _ _ _ _ Hs Hx) as [grp [_ ->]]. apply adjust_lt8, group_mask_lt8.
Qed.

Corollary propagate_flags_concat_gated concat_bit tatweel_bit bflags scratch l x :
  N.land scratch SCRATCH_HAS_GLYPH_FLAGS <> 0 -> N.land bflags concat_bit = 0 ->
  In x (propagate_flags true concat_bit tatweel_bit bflags scratch l) -> N.testbit (mask x) 1 = false.
Proof.
  intros Hs Hc Hx. destruct (propagate_flags_spec _ _ _ _ _ _ Hs Hx) as [grp [_ ->]].
  unfold clear_concat_of. rewrite Hc. cbn. apply adjust_no_concat, group_mask_lt8.
Qed.

Corollary propagate_flags_break_implies_concat concat_bit tatweel_bit bflags scratch l x :
  N.land scratch SCRATCH_HAS_GLYPH_FLAGS <> 0 -> N.land bflags concat_bit <> 0 ->
  (forall y, In y l -> N.testbit (exposed y) 0 = true -> N.testbit (exposed y) 1 = true) ->
  In x (propagate_flags true concat_bit tatweel_bit bflags scratch l) ->
  N.testbit (mask x) 0 = true -> N.testbit (mask x) 1 = true.
Proof.
  intros Hs Hc Hin Hx. destruct (propagate_flags_spec _ _ _ _ _ _ Hs Hx) as [grp [Hg ->]].
  unfold clear_concat_of. destruct (N.land bflags concat_bit =? 0) eqn:E; [apply N.eqb_eq in E; contradiction|].
  apply adjust_break_concat; [apply group_mask_lt8|].
  rewrite !group_mask_bit. intros H0. apply existsb_exists in H0. destruct H0 as [y [Hy Hb]].
  apply existsb_exists. exists y. split; [exact Hy|]. apply Hin; [|exact Hb].
  eapply cluster_groups_member; eauto.
Qed.

Corollary propagate_flags_tatweel_gated concat_bit tatweel_bit bflags scratch l x :
  N.land scratch SCRATCH_HAS_GLYPH_FLAGS <> 0 -> N.land bflags tatweel_bit = 0 ->
  (forall y, In y l -> N.testbit (exposed y) 2 = false) ->
  In x (propagate_flags true concat_bit tatweel_bit bflags scratch l) -> N.testbit (mask x) 2 = false.
Proof.
  intros Hs Ht Hin Hx. destruct (propagate_flags_spec _ _ _ _ _ _ Hs Hx) as [grp [Hg ->]].
  unfold flip_tatweel_of. rewrite Ht. cbn. apply adjust_no_tatweel; [apply group_mask_lt8|].
  rewrite group_mask_bit. apply not_true_is_false. intros H0. apply existsb_exists in H0. destruct H0 as [y [Hy Hb]].
  assert (Hyl : In y l) by (eapply cluster_groups_member; eauto).
  rewrite (Hin y Hyl) in Hb. discriminate.
Qed.

(* the defect fixed by fc95bd8, as a statement about the model with writeback_always = false *)
Lemma propagate_not_uniform_without_writeback :
  exists grp, ~ uniform (propagate_group false false false grp).
Proof.
  exists [mkInfo 1 0 5 0 0; mkInfo 2 3 5 0 0]. intros H.
  specialize (H (mkInfo 1 0 5 0 0) (mkInfo 2 3 5 0 0)). cbn in H.
  assert (E : (0 : N) = 3) by (apply H; auto). discriminate.
Qed.
