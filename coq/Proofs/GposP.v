(* Proofs/GposP.v — lemmas about Model/Gpos.v: list update, the skipping iterator, single and pair
   adjustments (C07_value_record, C07_pair), the local effect of mark and cursive attachment. *)
From Coq Require Import List NArith ZArith Bool Arith Lia.
From RB Require Import Model.Buffer Model.Font Model.Gpos.
Import ListNotations.

(* ---------- upd / getp ---------- *)

Lemma length_upd : forall A (l : list A) i x, length (upd l i x) = length l.
Proof. induction l; destruct i; cbn; intros; auto. Qed.

Lemma nth_upd_same : forall A (l : list A) i x d, (i < length l)%nat -> nth i (upd l i x) d = x.
Proof. induction l; destruct i; cbn; intros; try lia; auto. apply IHl. lia. Qed.

Lemma nth_upd_other : forall A (l : list A) i k x d, i <> k -> nth k (upd l i x) d = nth k l d.
Proof.
  induction l; destruct i, k; cbn; intros; try congruence; auto.
Qed.

Lemma upd_out_of_range : forall A (l : list A) i x, (length l <= i)%nat -> upd l i x = l.
Proof. induction l; destruct i; cbn; intros; try lia; auto. f_equal. apply IHl. lia. Qed.

Lemma getp_upd_same : forall ps i p, (i < length ps)%nat -> getp (upd ps i p) i = p.
Proof. intros. apply nth_upd_same. assumption. Qed.

Lemma getp_upd_other : forall ps i k p, i <> k -> getp (upd ps i p) k = getp ps k.
Proof. intros. apply nth_upd_other. assumption. Qed.

(* getp after an update, in general *)
Lemma getp_upd : forall ps i k p,
  getp (upd ps i p) k = if (Nat.eqb i k && Nat.ltb i (length ps))%bool then p else getp ps k.
Proof.
  intros. destruct (Nat.eqb_spec i k) as [->|Hne]; cbn [andb].
  - destruct (Nat.ltb_spec k (length ps)).
    + apply getp_upd_same. assumption.
    + rewrite upd_out_of_range by lia. reflexivity.
  - apply getp_upd_other. assumption.
Qed.

(* ---------- skipping iterator ---------- *)

Lemma find_fwd_spec : forall f mp l base j,
  find_fwd f mp l base = Some j ->
  (base <= j < base + length l)%nat /\
  check_glyph_property f (nth (j - base) l info0) mp = true /\
  (forall k, (base <= k < j)%nat -> check_glyph_property f (nth (k - base) l info0) mp = false).
Proof.
  induction l as [|x t IH]; cbn; intros base j H; [discriminate|].
  destruct (check_glyph_property f x mp) eqn:E.
  - inversion H; subst. rewrite Nat.sub_diag. repeat split; try lia; auto.
  - apply IH in H. destruct H as (Hr & Hc & Hs).
    repeat split; try lia.
    + replace (j - base)%nat with (S (j - S base)) by lia. exact Hc.
    + intros k Hk. destruct (Nat.eq_dec k base) as [->|Hn].
      * rewrite Nat.sub_diag. exact E.
      * replace (k - base)%nat with (S (k - S base)) by lia. apply Hs. lia.
Qed.

Lemma find_fwd_none : forall f mp l base,
  find_fwd f mp l base = None -> forall k, (k < length l)%nat -> check_glyph_property f (nth k l info0) mp = false.
Proof.
  induction l as [|x t IH]; cbn; intros base H k Hk; [lia|].
  destruct (check_glyph_property f x mp) eqn:E; [discriminate|].
  destruct k; [exact E|]. eapply IH; [exact H | lia].
Qed.

Lemma nth_skipn : forall A (l : list A) n k d, nth k (skipn n l) d = nth (n + k) l d.
Proof. induction l; destruct n; cbn; intros; auto. destruct k; auto. Qed.

(* the next glyph selected from i: the first one after i that the lookup does not skip *)
Lemma skip_next_spec : forall f mp infos i j,
  skip_next f mp infos i = Some j ->
  (i < j < length infos)%nat /\
  check_glyph_property f (geti infos j) mp = true /\
  (forall k, (i < k < j)%nat -> check_glyph_property f (geti infos k) mp = false).
Proof.
  unfold skip_next, geti. intros f mp infos i j H.
  apply find_fwd_spec in H. destruct H as (Hr & Hc & Hs).
  rewrite skipn_length in Hr.
  repeat split; try lia.
  - rewrite nth_skipn in Hc. replace (S i + (j - S i))%nat with j in Hc by lia. exact Hc.
  - intros k Hk. specialize (Hs k ltac:(lia)). rewrite nth_skipn in Hs.
    replace (S i + (k - S i))%nat with k in Hs by lia. exact Hs.
Qed.

Lemma skip_next_none : forall f mp infos i,
  skip_next f mp infos i = None ->
  forall k, (i < k < length infos)%nat -> check_glyph_property f (geti infos k) mp = false.
Proof.
  unfold skip_next, geti. intros f mp infos i H k Hk.
  pose proof (find_fwd_none _ _ _ _ H (k - S i)%nat) as P.
  rewrite skipn_length, nth_skipn in P. replace (S i + (k - S i))%nat with k in P by lia.
  apply P. lia.
Qed.

Lemma find_bwd_spec : forall f mp l top j,
  (length l <= S top)%nat ->
  find_bwd f mp l top = Some j ->
  (j <= top /\ top - j < length l)%nat /\
  check_glyph_property f (nth (top - j) l info0) mp = true /\
  (forall k, (j < k <= top)%nat -> check_glyph_property f (nth (top - k) l info0) mp = false).
Proof.
  induction l as [|x t IH]; cbn; intros top j Hl H; [discriminate|].
  destruct (check_glyph_property f x mp) eqn:E.
  - inversion H; subst. rewrite Nat.sub_diag. repeat split; try lia; auto.
  - destruct top as [|top'].
    + destruct t; cbn in *; [discriminate | lia].
    + cbn in H. apply IH in H; [|lia]. destruct H as (Hr & Hc & Hs).
      repeat split; try lia.
      * replace (S top' - j)%nat with (S (top' - j)) by lia. exact Hc.
      * intros k Hk. destruct (Nat.eq_dec k (S top')) as [->|Hn].
        -- rewrite Nat.sub_diag. exact E.
        -- replace (S top' - k)%nat with (S (top' - k)) by lia. apply Hs. lia.
Qed.

(* the previous glyph selected from i: the nearest one before i that the lookup does not skip *)
Lemma skip_prev_spec : forall f mp infos i j,
  (i <= length infos)%nat ->
  skip_prev f mp infos i = Some j ->
  (j < i)%nat /\
  check_glyph_property f (geti infos j) mp = true /\
  (forall k, (j < k < i)%nat -> check_glyph_property f (geti infos k) mp = false).
Proof.
  unfold skip_prev, geti. intros f mp infos i j Hi H.
  destruct i as [|i']; [cbn in H; discriminate|].
  cbn [pred] in H.
  assert (Hlen : length (rev (firstn (S i') infos)) = S i') by (rewrite rev_length, firstn_length; lia).
  apply find_bwd_spec in H; [|lia]. destruct H as (Hr & Hc & Hs).
  assert (Hnth : forall k, (k <= i')%nat -> nth (i' - k) (rev (firstn (S i') infos)) info0 = nth k infos info0).
  { intros k Hk. rewrite rev_nth by (rewrite firstn_length; lia).
    rewrite firstn_length. replace (Nat.min (S i') (length infos)) with (S i') by lia.
    replace (S i' - S (i' - k))%nat with k by lia.
    rewrite <- (firstn_skipn (S i') infos) at 2.
    rewrite app_nth1 by (rewrite firstn_length; lia). reflexivity. }
  repeat split; try lia.
  - rewrite Hnth in Hc by lia. exact Hc.
  - intros k Hk. specialize (Hs k ltac:(lia)). rewrite Hnth in Hs by lia. exact Hs.
Qed.

(* ---------- value records ---------- *)

Local Open Scope Z_scope.

(* what a value record adds, field by field, on the axis of the direction *)
Lemma apply_vr_fields : forall d v p,
  xa (apply_vr d v p) = xa p + (if is_horizontal d then vr_xa v else 0) /\
  ya (apply_vr d v p) = ya p - (if is_horizontal d then 0 else vr_ya v) /\
  xo (apply_vr d v p) = xo p + vr_xp v /\
  yo (apply_vr d v p) = yo p + vr_yp v /\
  chain (apply_vr d v p) = chain p /\ atype (apply_vr d v p) = atype p.
Proof. intros. unfold apply_vr. destruct (is_horizontal d); cbn; repeat split; lia. Qed.

Lemma apply_vr_zero : forall d v p, vr_is_empty v = true -> apply_vr d v p = p.
Proof.
  intros d v p H. unfold vr_is_empty in H.
  repeat (apply andb_prop in H; destruct H as [H ?]).
  apply Z.eqb_eq in H, H0, H1, H2.
  unfold apply_vr. rewrite H, H0, H1, H2. destruct p, (is_horizontal d); cbn; f_equal; lia.
Qed.

(* C07_value_record: a single adjustment that applies adds exactly the record selected by the
   coverage index of the current glyph to the current glyph, advances by one glyph and leaves every
   other position (and the attachment state) untouched *)
Lemma single_apply_exact : forall d st infos s s',
  (g_idx s < length (g_ps s))%nat ->
  apply_single d st infos s = Some s' ->
  exists v, single_record st (gid (geti infos (g_idx s))) = Some v /\
    g_idx s' = S (g_idx s) /\
    getp (g_ps s') (g_idx s) = apply_vr d v (getp (g_ps s) (g_idx s)) /\
    (forall k, k <> g_idx s -> getp (g_ps s') k = getp (g_ps s) k) /\
    length (g_ps s') = length (g_ps s) /\ g_attach s' = g_attach s.
Proof.
  unfold apply_single. intros d st infos s s' Hi H.
  destruct (single_record st (gid (geti infos (g_idx s)))) as [v|] eqn:E; [|discriminate].
  inversion H; subst; clear H. exists v. cbn.
  split; [reflexivity|]. split; [reflexivity|].
  split; [apply getp_upd_same; assumption|].
  split; [intros k Hk; apply getp_upd_other; congruence|].
  split; [apply length_upd | reflexivity].
Qed.

(* when it does not apply nothing changes (the state is returned unchanged by apply_subtable) *)
Lemma single_none_iff : forall d st infos s,
  apply_single d st infos s = None <-> single_record st (gid (geti infos (g_idx s))) = None.
Proof.
  unfold apply_single. intros. destruct (single_record st _); split; intro H; congruence.
Qed.

(* ---------- pair adjustment ---------- *)

Lemma pair_adjust_spec : forall d ps i j v1 v2,
  (i < j < length ps)%nat ->
  getp (pair_adjust d ps i j v1 v2) i = apply_vr d v1 (getp ps i) /\
  getp (pair_adjust d ps i j v1 v2) j = apply_vr d v2 (getp ps j) /\
  (forall k, k <> i -> k <> j -> getp (pair_adjust d ps i j v1 v2) k = getp ps k) /\
  length (pair_adjust d ps i j v1 v2) = length ps.
Proof.
  intros d ps i j v1 v2 Hij. unfold pair_adjust.
  destruct (vr_is_empty v1) eqn:E1; destruct (vr_is_empty v2) eqn:E2.
  - rewrite !apply_vr_zero by assumption. repeat split; auto.
  - rewrite (apply_vr_zero d v1) by assumption.
    rewrite getp_upd_other by lia. rewrite getp_upd_same by lia. rewrite length_upd.
    repeat split; auto. intros. apply getp_upd_other. congruence.
  - rewrite (apply_vr_zero d v2) by assumption.
    rewrite getp_upd_same by lia. rewrite getp_upd_other by lia. rewrite length_upd.
    repeat split; auto. intros. apply getp_upd_other. congruence.
  - rewrite !length_upd.
    rewrite (getp_upd_other (upd ps i (apply_vr d v1 (getp ps i))) j i) by lia.
    rewrite getp_upd_same by lia.
    rewrite getp_upd_same by (rewrite length_upd; lia).
    rewrite getp_upd_other by lia.
    repeat split; auto. intros. rewrite !getp_upd_other by congruence. reflexivity.
Qed.

(* C07_pair: a pair adjustment that applies selects the current glyph i (covered) and the next glyph
   j that the lookup does not skip, adds record 1 to i and record 2 to j (on the axis of the
   direction: apply_vr), leaves every other position untouched, and continues at j, or after j
   when the second record is not empty *)
Lemma pair_apply_exact : forall f mp d st infos s s',
  length (g_ps s) = length infos ->
  apply_pair f mp d st infos s = Some s' ->
  exists j v1 v2,
    (g_idx s < j < length infos)%nat /\
    check_glyph_property f (geti infos j) mp = true /\
    (forall k, (g_idx s < k < j)%nat -> check_glyph_property f (geti infos k) mp = false) /\
    pair_records st (gid (geti infos (g_idx s))) (gid (geti infos j)) = Some (v1, v2) /\
    getp (g_ps s') (g_idx s) = apply_vr d v1 (getp (g_ps s) (g_idx s)) /\
    getp (g_ps s') j = apply_vr d v2 (getp (g_ps s) j) /\
    (forall k, k <> g_idx s -> k <> j -> getp (g_ps s') k = getp (g_ps s) k) /\
    g_idx s' = (if vr_is_empty v2 then j else S j) /\
    length (g_ps s') = length (g_ps s) /\ g_attach s' = g_attach s.
Proof.
  unfold apply_pair. intros f mp d st infos s s' Hlen H.
  destruct (pair_covered st (gid (geti infos (g_idx s)))); cbn [negb] in H; [|discriminate].
  destruct (skip_next f mp infos (g_idx s)) as [j|] eqn:Ej; [|discriminate].
  destruct (pair_records st _ _) as [[v1 v2]|] eqn:Er; [|discriminate].
  inversion H; subst; clear H. cbn.
  apply skip_next_spec in Ej. destruct Ej as (Hr & Hc & Hs).
  destruct (pair_adjust_spec d (g_ps s) (g_idx s) j v1 v2 ltac:(lia)) as (A & B & C & D).
  exists j, v1, v2. repeat split; auto; lia.
Qed.

(* ---------- mark attachment: the local effect ---------- *)

Lemma mark_attach_spec : forall ps idx gp ma ba,
  (idx < length ps)%nat ->
  let ps' := mark_attach ps idx gp ma ba in
  xo (getp ps' idx) = fst ba - fst ma /\ yo (getp ps' idx) = snd ba - snd ma /\
  chain (getp ps' idx) = Z.of_nat gp - Z.of_nat idx /\ atype (getp ps' idx) = ATTACH_MARK /\
  xa (getp ps' idx) = xa (getp ps idx) /\ ya (getp ps' idx) = ya (getp ps idx) /\
  (forall k, k <> idx -> getp ps' k = getp ps k) /\ length ps' = length ps.
Proof.
  intros ps idx gp ma ba Hi ps'. subst ps'. unfold mark_attach.
  rewrite getp_upd_same by assumption. cbn.
  repeat split; auto. - intros; apply getp_upd_other; congruence. - apply length_upd.
Qed.
