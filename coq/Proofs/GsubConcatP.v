(* Proofs/GsubConcatP.v — a contextual lookup that does NOT match flags every glyph it inspected
   UNSAFE_TO_CONCAT (property C04, second sentence: segments free of the flag can be redistributed).

   Statements about Model/Gsub.v's apply_context / apply_chain_context (the GSUB interpreter that the C06
   correspondence runs against the implementation, flags included):
     - a (plain) context rule whose input fails at position `en` leaves UNSAFE_TO_CONCAT on every glyph of
       info[idx..min(en,len)) — all three formats since /repo a48a496 (formats 1/2 returned silently before);
     - a chain context rule whose INPUT fails at `en` does the same since /repo cce4fb5 (before, the range was
       empty: end_index stayed at idx, as in HarfBuzz's chain_context_apply_lookup);
     - when PRODUCE_UNSAFE_TO_CONCAT is not requested the buffer is returned unchanged.
   The statements are what the two fixes are about: reverting either edit in the model makes the
   corresponding theorem unprovable (its witness is the generated-font instance quoted in KNOWN_FINDINGS.txt). *)
From Coq Require Import List NArith Arith Bool Lia.
From RB Require Import Base.Result Model.Buffer Model.Font Model.Skip Model.Gsub.
Import ListNotations.

Definition has_concat (i : info) : bool := negb (N.land (mask i) UNSAFE_TO_CONCAT =? 0)%N.

Lemma or_mask_has_concat : forall i, has_concat (or_mask UNSAFE_TO_CONCAT i) = true.
Proof.
  intro i. unfold has_concat, or_mask, set_mask. cbn [mask].
  rewrite N.land_lor_distr_l. rewrite N.land_diag.
  destruct (N.lor (N.land (mask i) UNSAFE_TO_CONCAT) UNSAFE_TO_CONCAT =? 0)%N eqn:E; [|reflexivity].
  apply N.eqb_eq in E. apply N.lor_eq_0_iff in E. destruct E as [_ E]. discriminate E.
Qed.

Lemma nth_error_map_range' : forall A (f : A -> A) l s e i,
  nth_error (map_range f s e l) i = if (s <=? i)%nat && (i <? e)%nat then option_map f (nth_error l i) else nth_error l i.
Proof.
  induction l as [|x l IH]; intros s e i.
  - destruct s, e, i; cbn; try reflexivity; match goal with |- _ = (if ?c then _ else _) => destruct c end; reflexivity.
  - destruct s as [|s], e as [|e], i as [|i]; cbn; rewrite ?andb_false_r; auto; rewrite IH; reflexivity.
Qed.

(* unsafe_to_concat(s, e) in output mode with s at or after idx: every glyph of info[s..min(e,len)) is flagged *)
Lemma utc_flags_range : forall b s e b',
  out_mode b = true -> produce_concat b = true -> (dead b <= s)%nat ->
  utc b s e = Ok b' ->
  forall k g, (s - dead b <= k < Nat.min e (blen b) - dead b)%nat ->
              nth_error (rest b') k = Some g -> has_concat g = true.
Proof.
  intros b s e b' Hm Hp Hs H k g Hk Hg.
  unfold utc in H. rewrite Hp in H. unfold set_glyph_flags' in H.
  cbn [andb negb] in H.
  replace (out_mode (with_scratch b (N.lor (scratch b) SCRATCH_HAS_GLYPH_FLAGS))) with true in H by (symmetry; exact Hm).
  cbn [negb orb] in H.
  replace (dead (with_scratch b (N.lor (scratch b) SCRATCH_HAS_GLYPH_FLAGS))) with (dead b) in H by reflexivity.
  destruct (s <? dead b)%nat eqn:E; [apply Nat.ltb_lt in E; lia|].
  inversion H; subst b'; clear H. cbn [rest with_pr] in Hg.
  replace (rest (with_scratch b (N.lor (scratch b) SCRATCH_HAS_GLYPH_FLAGS))) with (rest b) in Hg by reflexivity.
  rewrite nth_error_map_range' in Hg.
  replace (s - dead b <=? k)%nat with true in Hg by (symmetry; apply Nat.leb_le; lia).
  replace (k <? Nat.min e (blen b) - dead b)%nat with true in Hg by (symmetry; apply Nat.ltb_lt; lia).
  cbn [andb] in Hg. destruct (nth_error (rest b) k) as [x|]; [|discriminate].
  cbn in Hg. inversion Hg; subst g. apply or_mask_has_concat.
Qed.

Lemma utc_not_requested : forall b s e, produce_concat b = false -> utc b s e = Ok b.
Proof. intros b s e H. unfold utc. rewrite H. reflexivity. Qed.

(* ---- plain context rule (formats 1, 2, 3): input mismatch at `en` ---- *)
Theorem context_mismatch_flags_inspected : forall f e props rec preds recs c c' en,
  out_mode (buf c) = true -> produce_concat (buf c) = true ->
  match_input f e props (buf c) preds = Ok (MIfail (Some en)) ->
  apply_context f e props rec true preds recs c = Ok (false, c') ->
  forall k g, (k < Nat.min en (blen (buf c)) - dead (buf c))%nat ->
              nth_error (rest (buf c')) k = Some g -> has_concat g = true.
Proof.
  intros f e props rec preds recs c c' en Hm Hp Hmi H k g Hk Hg.
  unfold apply_context in H. rewrite Hmi in H. cbn [bind] in H.
  destruct (utc (buf c) (dead (buf c)) en) as [b'|err] eqn:E; cbn [bind] in H; [|discriminate].
  inversion H; subst c'; clear H. cbn [buf with_buf] in Hg.
  eapply utc_flags_range; try eassumption; lia.
Qed.

(* ---- chain context rule: INPUT mismatch at `en` (the lookahead / backtrack paths were flagged already) ---- *)
Theorem chain_input_mismatch_flags_inspected : forall f e props rec back inp ahead recs c c' en,
  out_mode (buf c) = true -> produce_concat (buf c) = true ->
  match_input f e props (buf c) inp = Ok (MIfail (Some en)) ->
  apply_chain_context f e props rec back inp ahead recs c = Ok (false, c') ->
  forall k g, (k < Nat.min en (blen (buf c)) - dead (buf c))%nat ->
              nth_error (rest (buf c')) k = Some g -> has_concat g = true.
Proof.
  intros f e props rec back inp ahead recs c c' en Hm Hp Hmi H k g Hk Hg.
  unfold apply_chain_context in H. rewrite Hmi in H. cbn [bind] in H.
  destruct (dead (buf c) <? en)%nat eqn:Elt.
  - destruct (utc (buf c) (dead (buf c)) en) as [b'|err] eqn:E; cbn [bind] in H; [|discriminate].
    inversion H; subst c'; clear H. cbn [buf with_buf] in Hg.
    eapply utc_flags_range; try eassumption; lia.
  - (* en <= idx: the claimed range is empty *)
    apply Nat.ltb_ge in Elt. lia.
Qed.

(* without PRODUCE_UNSAFE_TO_CONCAT a failed context rule leaves the buffer as it was *)
Theorem context_mismatch_silent_when_not_requested : forall f e props rec preds recs c c' en,
  produce_concat (buf c) = false ->
  match_input f e props (buf c) preds = Ok (MIfail en) ->
  apply_context f e props rec true preds recs c = Ok (false, c') -> c' = c.
Proof.
  intros f e props rec preds recs c c' en Hp Hmi H.
  unfold apply_context in H. rewrite Hmi in H. cbn [bind] in H.
  rewrite utc_not_requested in H by exact Hp. cbn [bind] in H.
  inversion H. destruct c; reflexivity.
Qed.

(* ================================================================== UNSAFE_TO_BREAK on a successful match (C03)
   A contextual rule that matches info[idx..en) flags, before any nested lookup runs, exactly the glyphs of that
   range whose cluster is not the range's minimum (levels 0 and 1, clusters non-decreasing in processing order,
   which is what C02's invariant provides): cutting inside the range is then reported unsafe at every cluster
   start except the first one. *)
From RB Require Import Proofs.BufferMonoP Proofs.BufferFlagsP.

Lemma slice_0 : forall {A} (l : list A) e, slice l 0 e = firstn e l.
Proof. intros. unfold slice. rewrite Nat.sub_0_r. reflexivity. Qed.

Lemma utb_flags_match_range : forall b en first,
  out_mode b = true -> level b <> 2%N -> nd (cls (rest b)) ->
  (dead b + 2 <= en)%nat -> (en <= blen b)%nat ->
  nth_error (rest b) 0 = Some first -> (cluster first <= U32_MAX)%N ->
  exists b', utb b (dead b) en = Ok b'
    /\ rest b' = map (flag_ne (cluster first) BREAK_CONCAT) (firstn (en - dead b) (rest b)) ++ skipn (en - dead b) (rest b)
    /\ pre b' = pre b /\ dead b' = dead b /\ out_mode b' = true.
Proof.
  intros b en first Hm Hl Hnd Hlo Hhi Hf Hc.
  unfold utb, set_glyph_flags'. cbn [andb negb].
  replace (Nat.min en (blen b)) with en by lia.
  destruct (en <? dead b)%nat eqn:E1; [apply Nat.ltb_lt in E1; lia|].
  destruct (en - dead b <? 2)%nat eqn:E2; [apply Nat.ltb_lt in E2; lia|].
  replace (out_mode (with_scratch b (N.lor (scratch b) SCRATCH_HAS_GLYPH_FLAGS))) with true by (symmetry; exact Hm).
  cbn [negb orb].
  replace (dead (with_scratch b (N.lor (scratch b) SCRATCH_HAS_GLYPH_FLAGS))) with (dead b) by reflexivity.
  replace (rest (with_scratch b (N.lor (scratch b) SCRATCH_HAS_GLYPH_FLAGS))) with (rest b) by reflexivity.
  replace (level (with_scratch b (N.lor (scratch b) SCRATCH_HAS_GLYPH_FLAGS))) with (level b) by reflexivity.
  replace (pre (with_scratch b (N.lor (scratch b) SCRATCH_HAS_GLYPH_FLAGS))) with (pre b) by reflexivity.
  destruct (dead b <? dead b)%nat eqn:E3; [apply Nat.ltb_lt in E3; lia|].
  rewrite Nat.sub_diag.
  assert (Hlen : (en - dead b <= length (rest b))%nat) by (unfold blen in Hhi; lia).
  rewrite (find_min_cluster_nd (level b) (rest b) 0 (en - dead b) U32_MAX first Hnd) by (try lia; assumption).
  cbn [bind].
  replace (N.min U32_MAX (cluster first)) with (cluster first) by (symmetry; apply N.min_r; exact Hc).
  destruct (infos_set_glyph_flags_nd (level b) (rest b) 0 (en - dead b) BREAK_CONCAT first Hl Hnd) as [ap Hap]; try lia; try assumption.
  rewrite Hap. cbn [bind fst snd firstn app]. rewrite slice_0.
  eexists. split; [reflexivity|].
  unfold add_scratch. destruct ap; cbn; repeat split; auto.
Qed.

(* the plain context rule: the buffer the nested lookups start from *)
Theorem context_match_flags_range : forall f e props rec cof preds recs c ps en t first,
  out_mode (buf c) = true -> level (buf c) <> 2%N -> nd (cls (rest (buf c))) ->
  (dead (buf c) + 2 <= en)%nat -> (en <= blen (buf c))%nat ->
  nth_error (rest (buf c)) 0 = Some first -> (cluster first <= U32_MAX)%N ->
  match_input f e props (buf c) preds = Ok (MIok ps en t) ->
  exists b', rest b' = map (flag_ne (cluster first) BREAK_CONCAT) (firstn (en - dead (buf c)) (rest (buf c)))
                       ++ skipn (en - dead (buf c)) (rest (buf c))
             /\ pre b' = pre (buf c)
             /\ apply_context f e props rec cof preds recs c
                = (do c' <- apply_lookup rec (with_buf c b') ps en recs; Ok (true, c')).
Proof.
  intros f e props rec cof preds recs c ps en t first Hm Hl Hnd Hlo Hhi Hf Hc Hmi.
  destruct (utb_flags_match_range (buf c) en first Hm Hl Hnd Hlo Hhi Hf Hc) as [b' [Hu [Hr [Hp _]]]].
  exists b'. split; [exact Hr|]. split; [exact Hp|].
  unfold apply_context. rewrite Hmi. cbn [bind]. rewrite Hu. cbn [bind]. reflexivity.
Qed.
