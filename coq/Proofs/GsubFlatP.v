(* Proofs/GsubFlatP.v — contextual lookups whose rules carry no nested lookup records: the forward pass
   changes nothing but glyph masks (flags), and it terminates within `length input` iterations. *)
From Coq Require Import List NArith ZArith Bool Arith Lia.
From RB Require Import Base.Result Model.Buffer Model.Font Model.Skip Model.Gsub Proofs.GsubP Proofs.GsubLigP.
Import ListNotations.
Local Open Scope N_scope.

(* everything of a glyph info except its mask *)
Definition strip (x : info) : N * N * N * N := (gid x, cluster x, var1 x, var2 x).
Definition msame (l l' : list info) : Prop := map strip l' = map strip l.

Lemma msame_refl : forall l, msame l l. Proof. reflexivity. Qed.
Lemma msame_trans : forall a b c, msame a b -> msame b c -> msame a c.
Proof. unfold msame. intros a b c H1 H2. congruence. Qed.
Lemma msame_app : forall a a' b b', msame a a' -> msame b b' -> msame (a ++ b) (a' ++ b').
Proof. unfold msame. intros. rewrite !map_app. congruence. Qed.
Lemma msame_length : forall l l', msame l l' -> length l' = length l.
Proof. unfold msame. intros l l' H. apply (f_equal (@length _)) in H. rewrite !map_length in H. exact H. Qed.
Lemma msame_rev : forall l l', msame l l' -> msame (rev l) (rev l').
Proof. unfold msame. intros. rewrite !map_rev. congruence. Qed.

Lemma strip_or_mask : forall m x, strip (or_mask m x) = strip x. Proof. reflexivity. Qed.

Lemma msame_map_range : forall m l s e, msame l (map_range (or_mask m) s e l).
Proof.
  intros m. induction l as [|x t IH]; intros s e; [reflexivity|]. cbn [map_range].
  destruct e as [|e']; [reflexivity|]. destruct s as [|s']; unfold msame in *; cbn [map]; rewrite IH; reflexivity.
Qed.

Lemma msame_flag_all_ne : forall c m l, msame l (fst (flag_all_ne c m l)).
Proof.
  intros c m l. unfold flag_all_ne, msame. cbn [fst]. rewrite map_map. apply map_ext. intros x.
  destruct (cluster x =? c); reflexivity.
Qed.

Lemma msame_flag_while : forall c stop m l, msame l (fst (flag_while_ne_fwd c stop m l)).
Proof.
  intros c stop m. induction l as [|x t IH]; [reflexivity|]. cbn [flag_while_ne_fwd].
  destruct (cluster x =? stop); [reflexivity|].
  destruct (flag_while_ne_fwd c stop m t) as [t' a] eqn:E. cbn [fst] in IH.
  destruct (cluster x =? c); unfold msame in *; cbn [fst map]; rewrite IH; reflexivity.
Qed.

Lemma split3 : forall {A} (l : list A) s e, (s <= e)%nat -> firstn s l ++ slice l s e ++ skipn e l = l.
Proof.
  intros A. unfold slice. induction l as [|x t IH]; intros s e H.
  - rewrite !firstn_nil, !skipn_nil. rewrite firstn_nil. reflexivity.
  - destruct s as [|s'].
    + cbn [firstn skipn app]. rewrite Nat.sub_0_r. apply firstn_skipn.
    + destruct e as [|e']; [lia|]. cbn [firstn skipn app Nat.sub]. f_equal. apply IH. lia.
Qed.

Lemma msame_infos_set : forall lvl l s e c m r, (s <= e)%nat ->
  infos_set_glyph_flags lvl l s e c m = Ok r -> msame l (fst r).
Proof.
  intros lvl l s e c m r Hse H. unfold infos_set_glyph_flags in H.
  destruct (s =? e)%nat; [inversion H; reflexivity|].
  destruct (nth_error l s) as [first|]; [|discriminate]. destruct (nth_error l (e - 1)) as [last|]; [|discriminate].
  rewrite <- (split3 l s e Hse) at 1.
  destruct ((lvl =? 2) || (negb (c =? cluster first) && negb (c =? cluster last)))%bool.
  - destruct (flag_all_ne c m (slice l s e)) as [mid' ap] eqn:E. inversion H. cbn [fst].
    apply msame_app; [apply msame_refl|]. apply msame_app; [|apply msame_refl].
    pose proof (msame_flag_all_ne c m (slice l s e)) as Hm. rewrite E in Hm. exact Hm.
  - destruct (c =? cluster first).
    + destruct (flag_while_ne_fwd c (cluster first) m (rev (slice l s e))) as [r0 ap] eqn:E. inversion H. cbn [fst].
      apply msame_app; [apply msame_refl|]. apply msame_app; [|apply msame_refl].
      pose proof (msame_flag_while c (cluster first) m (rev (slice l s e))) as Hm. rewrite E in Hm. cbn [fst] in Hm.
      apply msame_rev in Hm. rewrite rev_involutive in Hm. exact Hm.
    + destruct (flag_while_ne_fwd c (cluster last) m (slice l s e)) as [mid' ap] eqn:E. inversion H. cbn [fst].
      apply msame_app; [apply msame_refl|]. apply msame_app; [|apply msame_refl].
      pose proof (msame_flag_while c (cluster last) m (slice l s e)) as Hm. rewrite E in Hm. exact Hm.
Qed.

(* two buffers that differ in masks and the scratch word only *)
Definition fsame (b b' : zbuf) : Prop :=
  msame (pre b) (pre b') /\ msame (rest b) (rest b') /\ dead b' = dead b /\ out_mode b' = out_mode b
  /\ ok b' = ok b /\ max_len b' = max_len b /\ level b' = level b /\ bflags b' = bflags b.

Lemma fsame_refl : forall b, fsame b b.
Proof. intros b. unfold fsame. repeat split; reflexivity. Qed.
Lemma fsame_trans : forall a b c, fsame a b -> fsame b c -> fsame a c.
Proof.
  unfold fsame. intros a b c [A1 [A2 [A3 [A4 [A5 [A6 [A7 A8]]]]]]] [B1 [B2 [B3 [B4 [B5 [B6 [B7 B8]]]]]]].
  repeat split; try congruence; eapply msame_trans; eassumption.
Qed.

Lemma fsame_add_scratch : forall b a, fsame b (add_scratch b a).
Proof. intros b [|]; unfold add_scratch; [|apply fsame_refl]. unfold fsame. repeat split; reflexivity. Qed.

(* set_glyph_flags' in output mode only touches masks *)
Lemma fsame_set_glyph_flags : forall b m s e interior from_out b',
  out_mode b = true -> set_glyph_flags' b m s e interior from_out = Ok b' -> fsame b b'.
Proof.
  intros b m s e interior from_out b' Hm H. unfold set_glyph_flags' in H.
  destruct (interior && negb from_out && (Nat.min e (blen b) <? s)%nat)%bool eqn:E1; [discriminate|].
  destruct (interior && negb from_out && (Nat.min e (blen b) - s <? 2)%nat)%bool eqn:E2; [inversion H; apply fsame_refl|].
  cbn [out_mode with_scratch] in H. rewrite Hm in H. rewrite orb_false_r in H.
  set (e0 := Nat.min e (blen b)) in *.
  destruct (negb from_out) eqn:Efo.
  - cbn [dead with_scratch] in H. destruct (s <? dead b)%nat; [discriminate|].
    destruct (negb interior) eqn:Ei.
    + inversion H. unfold fsame, with_pr, with_scratch. cbn. repeat split; try reflexivity. apply msame_map_range.
    + cbn [level rest with_scratch pre] in H. apply bind_ok in H. destruct H as [c [_ H]].
      apply bind_ok in H. destruct H as [r [Hr H]]. inversion H.
      eapply fsame_trans; [|apply fsame_add_scratch].
      assert (Hse : (s - dead b <= e0 - dead b)%nat).
      { destruct interior; [|discriminate]. destruct from_out; [discriminate|]. cbn in E1. apply Nat.ltb_ge in E1. lia. }
      pose proof (msame_infos_set _ _ _ _ _ _ _ Hse Hr) as Hms.
      unfold fsame, with_pr, with_scratch. cbn. repeat split; try reflexivity. exact Hms.
  - cbn [pre with_scratch dead] in H. destruct (length (pre b) <? s)%nat eqn:Els; [discriminate|].
    destruct (e0 <? dead b)%nat eqn:Eed; [discriminate|].
    destruct (negb interior).
    + inversion H. unfold fsame, with_pr, with_scratch. cbn. repeat split; try reflexivity; apply msame_map_range.
    + cbn [level rest with_scratch pre] in H.
      apply bind_ok in H. destruct H as [c1 [_ H]]. apply bind_ok in H. destruct H as [c [_ H]].
      apply bind_ok in H. destruct H as [r1 [Hr1 H]]. apply bind_ok in H. destruct H as [r2 [Hr2 H]]. inversion H.
      eapply fsame_trans; [|apply fsame_add_scratch]. eapply fsame_trans; [|apply fsame_add_scratch].
      apply Nat.ltb_ge in Els.
      pose proof (msame_infos_set _ _ _ _ _ _ _ Els Hr1) as Hm1.
      pose proof (msame_infos_set _ _ _ _ _ _ _ (Nat.le_0_l _) Hr2) as Hm2.
      unfold fsame, with_pr, with_scratch. cbn. repeat split; try reflexivity; assumption.
Qed.

Lemma fsame_utb : forall b s e b', out_mode b = true -> utb b s e = Ok b' -> fsame b b'.
Proof. intros. eapply fsame_set_glyph_flags; eassumption. Qed.
Lemma fsame_utb_out : forall b s e b', out_mode b = true -> utb_out b s e = Ok b' -> fsame b b'.
Proof. intros. eapply fsame_set_glyph_flags; eassumption. Qed.
Lemma fsame_utc : forall b s e b', out_mode b = true -> utc b s e = Ok b' -> fsame b b'.
Proof.
  intros b s e b' Hm H. unfold utc in H. destruct (produce_concat b); [eapply fsame_set_glyph_flags; eassumption|].
  inversion H. apply fsame_refl.
Qed.
Lemma fsame_utc_out : forall b s e b', out_mode b = true -> utc_out b s e = Ok b' -> fsame b b'.
Proof.
  intros b s e b' Hm H. unfold utc_out in H. destruct (produce_concat b); [eapply fsame_set_glyph_flags; eassumption|].
  inversion H. apply fsame_refl.
Qed.

(* ---------- advancing over a matched input (apply_lookup without records) ---------- *)

(* the string is unchanged up to masks, and the lookahead got shorter (or the buffer has failed) *)
Definition adv (b b' : zbuf) : Prop :=
  map strip (pre b' ++ rest b') = map strip (pre b ++ rest b) /\ out_mode b' = out_mode b
  /\ ((length (rest b') < length (rest b))%nat \/ ok b' = false).

Lemma fsame_content : forall b b', fsame b b' -> map strip (pre b' ++ rest b') = map strip (pre b ++ rest b).
Proof. intros b b' [H1 [H2 _]]. unfold msame in *. rewrite !map_app. congruence. Qed.

Lemma fsame_adv : forall a b c, fsame a b -> adv b c -> adv a c.
Proof.
  intros a b c Hf [H1 [H2 H3]]. pose proof (fsame_content _ _ Hf) as Hc.
  destruct Hf as [F1 [F2 [F3 [F4 _]]]]. unfold adv. split; [congruence|]. split; [congruence|].
  rewrite <- (msame_length _ _ F2). exact H3.
Qed.

Lemma iter_next_ge : forall f cfg pred l i pos, iter_next f cfg pred l i = inl pos -> (i <= pos)%nat.
Proof.
  intros f cfg pred. induction l as [|x t IH]; intros i pos H; cbn [iter_next] in H; [discriminate|].
  destruct (iter_match f cfg pred x); [inversion H; lia|discriminate|]. apply IH in H. lia.
Qed.

Lemma match_input_go_end : forall f cfg out_rev first preds l i lb total acc ps en t,
  match_input_go f cfg out_rev first preds l i lb total acc = MIok ps en t -> (i <= en)%nat.
Proof.
  intros f cfg out_rev first. induction preds as [|p ps IH]; intros l i lb total acc ps' en t H; cbn [match_input_go] in H.
  - inversion H. lia.
  - destruct (iter_next f cfg (Some p) l i) as [pos|u] eqn:E; [|discriminate].
    apply iter_next_ge in E.
    destruct (nth_error l (pos - i)) as [this|]; [|discriminate].
    repeat match type of H with
           | (if ?c then _ else _) = _ => destruct c
           | (let _ := _ in _) = _ => cbv zeta in H
           end; try discriminate; apply IH in H; lia.
Qed.

Lemma match_input_end : forall f e props b preds ps en t,
  match_input f e props b preds = Ok (MIok ps en t) -> (S (dead b) <= en)%nat.
Proof.
  intros f e props b preds ps en t H. unfold match_input in H.
  destruct (MAX_CONTEXT_LENGTH <? S (length preds))%nat; [discriminate|].
  destruct (rest b) as [|first l]; [discriminate|]. inversion H as [H1]. clear H.
  destruct (match_input_go f (input_cfg e props (if le_per_syllable e then syllable first else 0)) (rev (pre b)) first preds l
              (S (dead b)) None 0 [dead b]) as [ps0 en0 t0|] eqn:E; [|discriminate].
  inversion H1; subst. eapply match_input_go_end. exact E.
Qed.

Lemma move_to_advance : forall b en r b',
  out_mode b = true -> (dead b < en)%nat ->
  move_to_z b (Z.of_nat (backtrack_len b) + Z.of_nat en - Z.of_nat (dead b))%Z = Ok (r, b') -> adv b b'.
Proof.
  intros b en r b' Hm Hen H. unfold backtrack_len in H. rewrite Hm in H.
  assert (Hself : ok b = false -> adv b b).
  { intros Hok. unfold adv. repeat split; try reflexivity. right; exact Hok. }
  unfold move_to_z in H. rewrite Hm in H.
  destruct (Z.of_nat (length (pre b) + length (rest b)) <? Z.of_nat (length (pre b)) + Z.of_nat en - Z.of_nat (dead b))%Z eqn:Ebig.
  - destruct (ok b) eqn:Eok; [discriminate|]. inversion H. subst. apply Hself. reflexivity.
  - apply Z.ltb_ge in Ebig.
    replace (Z.to_nat (Z.of_nat (length (pre b)) + Z.of_nat en - Z.of_nat (dead b))) with (length (pre b) + (en - dead b))%nat in H by lia.
    unfold move_to in H. rewrite Hm in H. cbn [negb] in H.
    destruct (ok b) eqn:Eok; cbn [negb] in H; [|inversion H; subst; apply Hself; reflexivity].
    destruct (length (pre b) + length (rest b) <? length (pre b) + (en - dead b))%nat eqn:E1; [discriminate|].
    apply Nat.ltb_ge in E1.
    destruct (length (pre b) <? length (pre b) + (en - dead b))%nat eqn:E2; [|apply Nat.ltb_ge in E2; lia].
    replace (length (pre b) + (en - dead b) - length (pre b))%nat with (en - dead b)%nat in H by lia.
    unfold make_room_for in H. destruct (ensure b (out_len b + (en - dead b))) as [okk b2] eqn:Ee.
    destruct okk; cbn [negb] in H; inversion H; subst.
    + unfold adv, with_pr. cbn [pre rest out_mode ok]. split; [|split; [reflexivity|]].
      * rewrite <- app_assoc. rewrite firstn_skipn. reflexivity.
      * left. rewrite skipn_length. lia.
    + unfold ensure in Ee. destruct (out_len b + (en - dead b) <? blen b)%nat; [inversion Ee|].
      destruct (max_len b <? N.of_nat (out_len b + (en - dead b))); inversion Ee. subst.
      unfold adv, with_ok. cbn [pre rest out_mode ok]. repeat split; try reflexivity. right; reflexivity.
Qed.

Lemma apply_lookup_nil : forall rec c ps en c',
  out_mode (buf c) = true -> (dead (buf c) < en)%nat ->
  apply_lookup rec c ps en [] = Ok c' -> adv (buf c) (buf c').
Proof.
  intros rec c ps en c' Hm Hen H. unfold apply_lookup in H. cbn [apply_lookup_records bind] in H.
  apply bind_ok in H. destruct H as [[r b'] [Hmv H]]. inversion H. cbn [snd buf with_buf].
  eapply move_to_advance; eassumption.
Qed.

(* ---------- contextual rules without nested records ---------- *)

Lemma apply_context_flat : forall f e props rec cof preds c applied c',
  out_mode (buf c) = true ->
  apply_context f e props rec cof preds [] c = Ok (applied, c') ->
  (applied = false -> fsame (buf c) (buf c')) /\ (applied = true -> adv (buf c) (buf c')).
Proof.
  intros f e props rec cof preds c applied c' Hm H. unfold apply_context in H.
  apply bind_ok in H. destruct H as [m [Hmi H]]. destruct m as [ps en t|en].
  - apply bind_ok in H. destruct H as [b [Hb H]]. apply bind_ok in H. destruct H as [c2 [Hc2 H]].
    inversion H; subst. split; [discriminate|]. intros _.
    pose proof (fsame_utb _ _ _ _ Hm Hb) as Hf.
    eapply fsame_adv; [exact Hf|].
    assert (Hm2 : out_mode (buf (with_buf c b)) = true) by (destruct c; cbn; destruct Hf as [_ [_ [_ [H4 _]]]]; congruence).
    assert (Hd : dead (buf (with_buf c b)) = dead (buf c)) by (destruct c; cbn; destruct Hf as [_ [_ [H3 _]]]; exact H3).
    replace b with (buf (with_buf c b)) by (destruct c; reflexivity).
    eapply apply_lookup_nil; [exact Hm2| |exact Hc2]. rewrite Hd. apply match_input_end in Hmi. lia.
  - destruct cof.
    + apply bind_ok in H. destruct H as [b [Hb H]]. inversion H; subst. split; [|discriminate]. intros _.
      destruct c; cbn. eapply fsame_utc; [exact Hm|exact Hb].
    + inversion H; subst. split; [intros _; apply fsame_refl|discriminate].
Qed.

Lemma apply_chain_context_flat : forall f e props rec back inp ahead c applied c',
  out_mode (buf c) = true ->
  apply_chain_context f e props rec back inp ahead [] c = Ok (applied, c') ->
  (applied = false -> fsame (buf c) (buf c')) /\ (applied = true -> adv (buf c) (buf c')).
Proof.
  intros f e props rec back inp ahead c applied c' Hm H. unfold apply_chain_context in H.
  apply bind_ok in H. destruct H as [m [Hmi H]].
  assert (Hfail : forall end_index, (do b' <- utc (buf c) (dead (buf c)) end_index; Ok (false, with_buf c b')) = Ok (applied, c') ->
                  (applied = false -> fsame (buf c) (buf c')) /\ (applied = true -> adv (buf c) (buf c'))).
  { intros ei H0. apply bind_ok in H0. destruct H0 as [b [Hb H0]]. inversion H0; subst. split; [|discriminate]. intros _.
    destruct c; cbn. eapply fsame_utc; [exact Hm|exact Hb]. }
  destruct m as [ps match_end t|en]; [|apply (Hfail _ H)].
  destruct (match_lookahead f e props (buf c) ahead match_end) as [end_index|end_index]; [|apply (Hfail _ H)].
  destruct (match_backtrack f e props (buf c) back) as [start_index|start_index].
  - apply bind_ok in H. destruct H as [b [Hb H]]. apply bind_ok in H. destruct H as [c2 [Hc2 H]].
    inversion H; subst. split; [discriminate|]. intros _.
    pose proof (fsame_utb_out _ _ _ _ Hm Hb) as Hf.
    eapply fsame_adv; [exact Hf|].
    assert (Hm2 : out_mode (buf (with_buf c b)) = true) by (destruct c; cbn; destruct Hf as [_ [_ [_ [H4 _]]]]; congruence).
    assert (Hd : dead (buf (with_buf c b)) = dead (buf c)) by (destruct c; cbn; destruct Hf as [_ [_ [H3 _]]]; exact H3).
    replace b with (buf (with_buf c b)) by (destruct c; reflexivity).
    eapply apply_lookup_nil; [exact Hm2| |exact Hc2]. rewrite Hd. apply match_input_end in Hmi. lia.
  - apply bind_ok in H. destruct H as [b [Hb H]]. inversion H; subst. split; [|discriminate]. intros _.
    destruct c; cbn. eapply fsame_utc_out; [exact Hm|exact Hb].
Qed.

(* first_apply over rules that each satisfy the flat step property *)
Lemma first_apply_flat : forall {A} (ap : A -> actx -> result (bool * actx)) (rules : list A),
  (forall r c applied c', In r rules -> out_mode (buf c) = true -> ap r c = Ok (applied, c') ->
     (applied = false -> fsame (buf c) (buf c')) /\ (applied = true -> adv (buf c) (buf c'))) ->
  forall c applied c', out_mode (buf c) = true -> first_apply ap rules c = Ok (applied, c') ->
     (applied = false -> fsame (buf c) (buf c')) /\ (applied = true -> adv (buf c) (buf c')).
Proof.
  intros A ap. induction rules as [|r t IH]; intros Hstep c applied c' Hm H; cbn [first_apply] in H.
  - inversion H; subst. split; [intros _; apply fsame_refl|discriminate].
  - apply bind_ok in H. destruct H as [[a1 c1] [H1 H]]. cbn [fst snd] in H.
    destruct (Hstep r c a1 c1 (or_introl eq_refl) Hm H1) as [Hf Ha].
    destruct a1.
    + inversion H; subst. split; [discriminate|]. intros _. apply Ha. reflexivity.
    + specialize (Hf eq_refl).
      assert (Hm1 : out_mode (buf c1) = true) by (destruct Hf as [_ [_ [_ [H4 _]]]]; congruence).
      destruct (IH (fun r0 c0 a0 c0' Hin => Hstep r0 c0 a0 c0' (or_intror Hin)) c1 applied c' Hm1 H) as [Hf2 Ha2].
      split.
      * intros E. eapply fsame_trans; [exact Hf|apply Hf2; exact E].
      * intros E. eapply fsame_adv; [exact Hf|apply Ha2; exact E].
Qed.

(* a contextual subtable all of whose rules have an empty list of lookup records *)
Definition flat_ctx (st : subst_subtable) : bool :=
  match st with
  | SContext1 _ rule_sets => forallb (forallb (fun r => match sr_lookups r with [] => true | _ => false end)) rule_sets
  | SContext2 _ _ rule_sets => forallb (fun o => match o with
                                                 | Some rs => forallb (fun r => match sr_lookups r with [] => true | _ => false end) rs
                                                 | None => true end) rule_sets
  | SContext3 _ recs => match recs with [] => true | _ => false end
  | SChain1 _ rule_sets => forallb (forallb (fun r => match cr_lookups r with [] => true | _ => false end)) rule_sets
  | SChain2 _ _ _ _ rule_sets => forallb (fun o => match o with
                                                   | Some rs => forallb (fun r => match cr_lookups r with [] => true | _ => false end) rs
                                                   | None => true end) rule_sets
  | SChain3 _ _ _ recs => match recs with [] => true | _ => false end
  | _ => false
  end.

Lemma nth_error_forallb : forall {A} (p : A -> bool) l n x, forallb p l = true -> nth_error l n = Some x -> p x = true.
Proof.
  intros A p l n x H E. apply nth_error_In in E. rewrite forallb_forall in H. apply H. exact E.
Qed.

Lemma subtable_apply_flat : forall f e props nest rec st c applied c',
  flat_ctx st = true -> out_mode (buf c) = true ->
  subtable_apply f e props nest rec st c = Ok (applied, c') ->
  (applied = false -> fsame (buf c) (buf c')) /\ (applied = true -> adv (buf c) (buf c')).
Proof.
  intros f e props nest rec st c applied c' Hflat Hm H.
  assert (Hnone : Ok (false, c) = Ok (applied, c') ->
          (applied = false -> fsame (buf c) (buf c')) /\ (applied = true -> adv (buf c) (buf c'))).
  { intros H0. inversion H0; subst. split; [intros _; apply fsame_refl|discriminate]. }
  destruct st; try discriminate Hflat; cbn [subtable_apply flat_ctx] in *.
  - (* Context1 *)
    apply bind_ok in H. destruct H as [x [_ H]]. destruct (coverage_index cov (gid x)) as [k|]; [|apply Hnone; exact H].
    eapply first_apply_flat; [|exact Hm|exact H].
    intros r c0 a0 c0' Hin Hm0 H0.
    assert (Er : sr_lookups r = []).
    { destruct (nth_error rule_sets (N.to_nat k)) as [rs|] eqn:En; [|destruct Hin].
      pose proof (nth_error_forallb _ _ _ _ Hflat En) as Hrs. rewrite forallb_forall in Hrs. specialize (Hrs r Hin).
      destruct (sr_lookups r); [reflexivity|discriminate]. }
    cbv beta in H0. rewrite Er in H0. eapply apply_context_flat; eassumption.
  - (* Context2 *)
    apply bind_ok in H. destruct H as [x [_ H]]. destruct (coverage_index cov (gid x)) as [k|]; [|apply Hnone; exact H].
    eapply first_apply_flat; [|exact Hm|exact H].
    intros r c0 a0 c0' Hin Hm0 H0.
    assert (Er : sr_lookups r = []).
    { unfold opt_rules in Hin. destruct (nth_error rule_sets (N.to_nat (class_of cd (gid x)))) as [[rs|]|] eqn:En; try destruct Hin.
      pose proof (nth_error_forallb _ _ _ _ Hflat En) as Hrs. cbn in Hrs. rewrite forallb_forall in Hrs. specialize (Hrs r Hin).
      destruct (sr_lookups r); [reflexivity|discriminate]. }
    cbv beta in H0. rewrite Er in H0. eapply apply_context_flat; eassumption.
  - (* Context3 *)
    destruct lookups; [|discriminate]. destruct covs as [|cov more]; [apply Hnone; exact H|].
    apply bind_ok in H. destruct H as [x [_ H]]. destruct (coverage_index cov (gid x)); [|apply Hnone; exact H].
    eapply apply_context_flat; eassumption.
  - (* Chain1 *)
    apply bind_ok in H. destruct H as [x [_ H]]. destruct (coverage_index cov (gid x)) as [k|]; [|apply Hnone; exact H].
    eapply first_apply_flat; [|exact Hm|exact H].
    intros r c0 a0 c0' Hin Hm0 H0.
    assert (Er : cr_lookups r = []).
    { destruct (nth_error rule_sets (N.to_nat k)) as [rs|] eqn:En; [|destruct Hin].
      pose proof (nth_error_forallb _ _ _ _ Hflat En) as Hrs. rewrite forallb_forall in Hrs. specialize (Hrs r Hin).
      destruct (cr_lookups r); [reflexivity|discriminate]. }
    cbv beta in H0. rewrite Er in H0. eapply apply_chain_context_flat; eassumption.
  - (* Chain2 *)
    apply bind_ok in H. destruct H as [x [_ H]]. destruct (coverage_index cov (gid x)) as [k|]; [|apply Hnone; exact H].
    eapply first_apply_flat; [|exact Hm|exact H].
    intros r c0 a0 c0' Hin Hm0 H0.
    assert (Er : cr_lookups r = []).
    { unfold opt_rules in Hin. destruct (nth_error rule_sets (N.to_nat (class_of icd (gid x)))) as [[rs|]|] eqn:En; try destruct Hin.
      pose proof (nth_error_forallb _ _ _ _ Hflat En) as Hrs. cbn in Hrs. rewrite forallb_forall in Hrs. specialize (Hrs r Hin).
      destruct (cr_lookups r); [reflexivity|discriminate]. }
    cbv beta in H0. rewrite Er in H0. eapply apply_chain_context_flat; eassumption.
  - (* Chain3 *)
    destruct lookups; [|discriminate]. destruct input as [|cov more]; [apply Hnone; exact H|].
    apply bind_ok in H. destruct H as [x [_ H]]. destruct (coverage_index cov (gid x)); [|apply Hnone; exact H].
    eapply apply_chain_context_flat; eassumption.
Qed.

(* ---------- the forward pass of a flat contextual lookup ---------- *)

Definition flat_lookup (lk : lookup subst_subtable) : bool := forallb flat_ctx (lk_subtables lk).

Lemma top_apply_flat : forall f e lk c applied c',
  flat_lookup lk = true -> out_mode (buf c) = true -> top_apply f e lk c = Ok (applied, c') ->
  (applied = false -> fsame (buf c) (buf c')) /\ (applied = true -> adv (buf c) (buf c')).
Proof.
  intros f e lk c applied c' Hflat Hm H. unfold top_apply, lookup_apply in H.
  eapply first_apply_flat; [|exact Hm|exact H].
  intros st c0 a0 c0' Hin Hm0 H0. unfold flat_lookup in Hflat. rewrite forallb_forall in Hflat.
  eapply subtable_apply_flat; [apply Hflat; exact Hin|exact Hm0|exact H0].
Qed.

Lemma next_glyph_content : forall b b', next_glyph b = Ok b' ->
  pre b' ++ rest b' = pre b ++ rest b /\ out_mode b' = out_mode b
  /\ ((length (rest b') < length (rest b))%nat \/ ok b' = false).
Proof.
  intros b b' H. unfold next_glyph in H. destruct (rest b) as [|x t] eqn:Er; [discriminate|].
  destruct (out_mode b) eqn:Em.
  - unfold make_room_for in H. destruct (ensure b (out_len b + 1)) as [okk b2] eqn:E.
    unfold ensure in E. destruct okk; inversion H; subst.
    + unfold with_pr. cbn [pre rest out_mode]. rewrite <- app_assoc. cbn [app length].
      assert (out_mode b2 = out_mode b /\ True) as [Hm2 _].
      { destruct (out_len b + 1 <? blen b)%nat; [inversion E; subst; split; auto|].
        destruct (max_len b <? N.of_nat (out_len b + 1)); inversion E; subst; split; auto. }
      rewrite Hm2, Em. repeat split; auto.
    + destruct (out_len b + 1 <? blen b)%nat; [inversion E|].
      destruct (max_len b <? N.of_nat (out_len b + 1)); inversion E. subst.
      unfold with_ok. cbn [pre rest out_mode ok]. rewrite Er, Em. repeat split; auto.
  - inversion H. unfold with_pr. cbn [pre rest out_mode]. rewrite <- app_assoc. cbn [app length]. rewrite Em. repeat split; auto.
Qed.

Theorem flat_forward_identity : forall f e lk, flat_lookup lk = true ->
  forall fuel c c', out_mode (buf c) = true -> apply_forward fuel f e lk c = Ok c' ->
  map strip (pre (buf c') ++ rest (buf c')) = map strip (pre (buf c) ++ rest (buf c)) /\ out_mode (buf c') = true.
Proof.
  intros f e lk Hflat. induction fuel as [|k IH]; intros c c' Hm H; cbn [apply_forward] in H.
  - destruct (rest (buf c)) eqn:Er; [inversion H; subst; rewrite Er; split; [reflexivity|exact Hm]|].
    destruct (negb (ok (buf c))); [inversion H; subst; rewrite Er; split; [reflexivity|exact Hm]|discriminate].
  - destruct (rest (buf c)) as [|x t] eqn:Er; [inversion H; subst; rewrite Er; split; [reflexivity|exact Hm]|].
    destruct (negb (ok (buf c))); [inversion H; subst; rewrite Er; split; [reflexivity|exact Hm]|].
    apply bind_ok in H. destruct H as [[applied c1] [H1 H]].
    assert (Hstep : (applied = false -> fsame (buf c) (buf c1)) /\ (applied = true -> adv (buf c) (buf c1))).
    { destruct (glyph_enabled f e (lookup_props_of lk) x).
      - eapply top_apply_flat; eassumption.
      - inversion H1; subst. split; [intros _; apply fsame_refl|discriminate]. }
    destruct Hstep as [Hf Ha]. destruct applied.
    + destruct (Ha eq_refl) as [A1 [A2 _]]. assert (Hm1 : out_mode (buf c1) = true) by congruence.
      destruct (IH c1 c' Hm1 H) as [I1 I2]. split; [congruence|exact I2].
    + specialize (Hf eq_refl). apply bind_ok in H. destruct H as [b [Hn H]].
      destruct (next_glyph_content _ _ Hn) as [N1 [N2 _]].
      assert (Hm1 : out_mode (buf (with_buf c1 b)) = true).
      { destruct c1; cbn in *. destruct Hf as [_ [_ [_ [H4 _]]]]. congruence. }
      destruct (IH _ c' Hm1 H) as [I1 I2]. split; [|exact I2].
      rewrite I1. destruct c1 as [bb mo se rs fa]; cbn [with_buf buf] in *. rewrite N1. rewrite <- Er. apply fsame_content. exact Hf.
Qed.

Lemma flat_not_reverse : forall lk, flat_lookup lk = true -> lookup_is_reverse lk = false.
Proof.
  intros lk H. unfold lookup_is_reverse, flat_lookup in *. destruct (lk_subtables lk) as [|st ts]; [reflexivity|].
  cbn [forallb] in *. apply andb_true_iff in H. destruct H as [H _]. destruct st; try discriminate H; reflexivity.
Qed.

(* the whole pass (apply_string) of a contextual lookup without nested records: glyph ids, clusters and
   glyph properties are unchanged; only masks (glyph flags) may differ *)
Theorem flat_apply_string_identity : forall f e lk c c' l,
  flat_lookup lk = true -> at_rest (buf c) l -> apply_string f e lk c = Ok (Some c') ->
  map strip (arr (buf c')) = map strip l.
Proof.
  intros f e lk c c' l Hflat [Hp [Hd [Hr [Hm Hok]]]] H. unfold apply_string in H.
  destruct ((blen (buf c) =? 0)%nat || (le_mask e =? 0))%bool.
  - inversion H; subst c'. unfold arr. rewrite Hp, Hr. reflexivity.
  - rewrite (flat_not_reverse lk Hflat) in H. cbn [negb] in H. rewrite Hm in H.
    apply bind_ok in H. destruct H as [c1 [Hfw H]]. apply bind_ok in H. destruct H as [s [Hs H]].
    destruct s as [b2|]; [|discriminate]. inversion H; subst c'. clear H.
    assert (Hm0 : out_mode (buf (with_buf c (clear_output (buf c)))) = true).
    { destruct c as [bb mo se rs fa]; cbn [with_buf buf]. unfold clear_output. cbn in Hm. rewrite Hm. reflexivity. }
    destruct (flat_forward_identity f e lk Hflat _ _ _ Hm0 Hfw) as [Hc Hm1].
    assert (Hstart : pre (buf (with_buf c (clear_output (buf c)))) ++ rest (buf (with_buf c (clear_output (buf c)))) = l).
    { destruct c as [bb mo se rs fa]; cbn [with_buf buf] in *. unfold clear_output. rewrite Hm. cbn [pre rest app]. rewrite Hp, Hr. reflexivity. }
    rewrite Hstart in Hc. rewrite <- Hc.
    unfold sync in Hs. rewrite Hm1 in Hs. cbn [negb] in Hs.
    destruct (ok (buf c1)) eqn:Eok1; cbn [negb] in Hs; [|discriminate].
    apply bind_ok in Hs. destruct Hs as [b1 [Hng Hs]].
    destruct (ok b1) eqn:Eokb1; cbn [negb] in Hs; [|discriminate]. inversion Hs. subst b2.
    destruct c1 as [bb mo se rs fa]. cbn [with_buf buf arr pre rest app] in *.
    unfold next_glyphs in Hng. rewrite Nat.ltb_irrefl in Hng. rewrite Hm1 in Hng.
    unfold make_room_for in Hng. destruct (ensure bb (out_len bb + length (rest bb))) as [okk b3] eqn:Ee.
    destruct okk.
    + inversion Hng. subst b1. cbn [with_pr pre]. rewrite firstn_all. reflexivity.
    + inversion Hng. subst b1. unfold ensure in Ee.
      destruct (out_len bb + length (rest bb) <? blen bb)%nat; [inversion Ee|].
      destruct (max_len bb <? N.of_nat (out_len bb + length (rest bb))); inversion Ee. subst b3.
      cbn [with_ok ok] in Eokb1. discriminate.
Qed.

(* ---------- termination ---------- *)

Definition noOOF {A} (r : result A) : Prop := r <> Error OutOfFuel.

Lemma noOOF_bind : forall {A B} (r : result A) (k : A -> result B),
  noOOF r -> (forall a, r = Ok a -> noOOF (k a)) -> noOOF (bind r k).
Proof.
  intros A B [a|e] k H1 H2; cbn [bind]; [apply H2; reflexivity|]. intros E. apply H1. inversion E. reflexivity.
Qed.

Lemma noOOF_ok : forall {A} (a : A), noOOF (Ok a). Proof. intros A a E. discriminate E. Qed.

(* a lookup whose application never runs out of fuel by itself and always makes progress *)
Section Total.
  Variable f : font.
  Variable e : lenv.
  Variable lk : lookup subst_subtable.
  Hypothesis Hno : forall c, out_mode (buf c) = true -> noOOF (top_apply f e lk c).
  Hypothesis Hstep : forall c applied c', out_mode (buf c) = true -> top_apply f e lk c = Ok (applied, c') ->
    out_mode (buf c') = true
    /\ (applied = true -> (length (rest (buf c')) < length (rest (buf c)))%nat \/ ok (buf c') = false)
    /\ (applied = false -> length (rest (buf c')) = length (rest (buf c))).

  Lemma forward_total_gen : forall fuel c, out_mode (buf c) = true ->
    (ok (buf c) = false \/ (length (rest (buf c)) <= fuel)%nat) -> noOOF (apply_forward fuel f e lk c).
  Proof.
    induction fuel as [|k IH]; intros c Hm Hfuel; cbn [apply_forward].
    - destruct (rest (buf c)) as [|x t] eqn:Er; [apply noOOF_ok|].
      destruct Hfuel as [Hk|Hl]; [rewrite Hk; apply noOOF_ok|cbn [length] in Hl; lia].
    - destruct (rest (buf c)) as [|x t] eqn:Er; [apply noOOF_ok|].
      destruct (ok (buf c)) eqn:Eok; cbn [negb]; [|apply noOOF_ok].
      destruct Hfuel as [Hk|Hl]; [discriminate|]. cbn [length] in Hl.
      apply noOOF_bind.
      + destruct (glyph_enabled f e (lookup_props_of lk) x); [apply Hno; exact Hm|apply noOOF_ok].
      + intros [applied c1] H1.
        assert (Hs : out_mode (buf c1) = true
                     /\ (applied = true -> (length (rest (buf c1)) < length (rest (buf c)))%nat \/ ok (buf c1) = false)
                     /\ (applied = false -> length (rest (buf c1)) = length (rest (buf c)))).
        { destruct (glyph_enabled f e (lookup_props_of lk) x); [eapply Hstep; eassumption|].
          inversion H1; subst. split; [exact Hm|split; [discriminate|reflexivity]]. }
        destruct Hs as [Hm1 [Ht Hf]]. rewrite Er in *. cbn [length] in *. destruct applied.
        * apply IH; [exact Hm1|]. destruct (Ht eq_refl) as [Hlt|Hk]; [right; lia|left; exact Hk].
        * apply noOOF_bind.
          -- unfold next_glyph. destruct (rest (buf c1)); [intros E; discriminate E|].
             destruct (out_mode (buf c1)); [destruct (make_room_for (buf c1) 1) as [[|] ?]|]; apply noOOF_ok.
          -- intros b Hn. destruct (next_glyph_content _ _ Hn) as [_ [N2 N3]].
             apply IH; [destruct c1; cbn in *; congruence|].
             destruct c1 as [bb mo se rs fa]; cbn [with_buf buf] in *. specialize (Hf eq_refl).
             destruct N3 as [Hlt|Hk]; [right; lia|left; exact Hk].
  Qed.
End Total.

(* ---------- no primitive on the flat path reports OutOfFuel ---------- *)

Ltac case_noOOF :=
  unfold noOOF; repeat (match goal with
    | |- context [match ?x with _ => _ end] => destruct x eqn:?
    end); try (intros Eoof; discriminate Eoof).

Lemma noOOF_find_min : forall lvl l s e init, noOOF (find_min_cluster lvl l s e init).
Proof. intros. unfold find_min_cluster. case_noOOF. Qed.

Lemma noOOF_infos_set : forall lvl l s e c m, noOOF (infos_set_glyph_flags lvl l s e c m).
Proof. intros. unfold infos_set_glyph_flags. case_noOOF. Qed.

Lemma noOOF_sgf : forall b m s e i fo, noOOF (set_glyph_flags' b m s e i fo).
Proof.
  intros. unfold set_glyph_flags'.
  repeat (match goal with
          | |- noOOF (if ?x then _ else _) => destruct x
          | |- noOOF (Ok _) => apply noOOF_ok
          | |- noOOF (Error _) => intros Eoof; discriminate Eoof
          | |- noOOF (bind _ _) => apply noOOF_bind; [first [apply noOOF_find_min|apply noOOF_infos_set]|intros ? ?]
          | |- noOOF (let _ := _ in _) => cbv zeta
          end).
Qed.

Lemma noOOF_utb : forall b s e, noOOF (utb b s e). Proof. intros. apply noOOF_sgf. Qed.
Lemma noOOF_utb_out : forall b s e, noOOF (utb_out b s e). Proof. intros. apply noOOF_sgf. Qed.
Lemma noOOF_utc : forall b s e, noOOF (utc b s e).
Proof. intros. unfold utc. destruct (produce_concat b); [apply noOOF_sgf|apply noOOF_ok]. Qed.
Lemma noOOF_utc_out : forall b s e, noOOF (utc_out b s e).
Proof. intros. unfold utc_out. destruct (produce_concat b); [apply noOOF_sgf|apply noOOF_ok]. Qed.

Lemma noOOF_move_to : forall b i, noOOF (move_to b i).
Proof. intros. unfold move_to. case_noOOF. Qed.

Lemma noOOF_move_to_z : forall b z, noOOF (move_to_z b z).
Proof.
  intros. unfold move_to_z.
  destruct (Z.of_nat (length (pre b) + length (rest b)) <? z)%Z; [|apply noOOF_move_to].
  destruct (out_mode b); [destruct (ok b)|]; intros E; discriminate E.
Qed.

Lemma noOOF_match_input : forall f e props b preds, noOOF (match_input f e props b preds).
Proof.
  intros. unfold match_input. destruct (MAX_CONTEXT_LENGTH <? S (length preds))%nat; [apply noOOF_ok|].
  destruct (rest b); [intros E; discriminate E|apply noOOF_ok].
Qed.

Lemma noOOF_cur : forall b, noOOF (cur b).
Proof. intros. unfold cur. destruct (rest b); [intros E; discriminate E|apply noOOF_ok]. Qed.

Lemma noOOF_apply_lookup_nil : forall rec c ps en, noOOF (apply_lookup rec c ps en []).
Proof.
  intros. unfold apply_lookup. cbn [apply_lookup_records bind]. apply noOOF_bind; [apply noOOF_move_to_z|].
  intros [r b'] _. apply noOOF_ok.
Qed.

Lemma noOOF_apply_context_flat : forall f e props rec cof preds c, noOOF (apply_context f e props rec cof preds [] c).
Proof.
  intros. unfold apply_context. apply noOOF_bind; [apply noOOF_match_input|]. intros [ps en t|en] _.
  - apply noOOF_bind; [apply noOOF_utb|]. intros b _. apply noOOF_bind; [apply noOOF_apply_lookup_nil|]. intros; apply noOOF_ok.
  - destruct cof; [|apply noOOF_ok]. apply noOOF_bind; [apply noOOF_utc|]. intros; apply noOOF_ok.
Qed.

Lemma noOOF_apply_chain_flat : forall f e props rec back inp ahead c,
  noOOF (apply_chain_context f e props rec back inp ahead [] c).
Proof.
  intros. unfold apply_chain_context. apply noOOF_bind; [apply noOOF_match_input|]. intros m _.
  assert (Hfail : forall ei, noOOF (do b' <- utc (buf c) (dead (buf c)) ei; Ok (false, with_buf c b'))).
  { intros ei. apply noOOF_bind; [apply noOOF_utc|]. intros; apply noOOF_ok. }
  destruct m as [ps me t|en]; [|apply Hfail].
  destruct (match_lookahead f e props (buf c) ahead me); [|apply Hfail].
  destruct (match_backtrack f e props (buf c) back).
  - apply noOOF_bind; [apply noOOF_utb_out|]. intros b _. apply noOOF_bind; [apply noOOF_apply_lookup_nil|]. intros; apply noOOF_ok.
  - apply noOOF_bind; [apply noOOF_utc_out|]. intros; apply noOOF_ok.
Qed.

Lemma noOOF_first_apply : forall {A} (ap : A -> actx -> result (bool * actx)) (rules : list A),
  (forall r c, In r rules -> noOOF (ap r c)) -> forall c, noOOF (first_apply ap rules c).
Proof.
  intros A ap. induction rules as [|r t IH]; intros H c; cbn [first_apply]; [apply noOOF_ok|].
  apply noOOF_bind; [apply H; left; reflexivity|]. intros [a c1] _. cbn [fst snd].
  destruct a; [apply noOOF_ok|]. apply IH. intros r0 c0 Hin. apply H. right; exact Hin.
Qed.

Lemma noOOF_subtable_flat : forall f e props nest rec st c,
  flat_ctx st = true -> noOOF (subtable_apply f e props nest rec st c).
Proof.
  intros f e props nest rec st c Hflat.
  destruct st; try discriminate Hflat; cbn [subtable_apply flat_ctx] in *.
  - apply noOOF_bind; [apply noOOF_cur|]. intros x _. destruct (coverage_index cov (gid x)) as [k|]; [|apply noOOF_ok].
    apply noOOF_first_apply. intros r c0 Hin.
    assert (Er : sr_lookups r = []).
    { destruct (nth_error rule_sets (N.to_nat k)) as [rs|] eqn:En; [|destruct Hin].
      pose proof (nth_error_forallb _ _ _ _ Hflat En) as Hrs. rewrite forallb_forall in Hrs. specialize (Hrs r Hin).
      destruct (sr_lookups r); [reflexivity|discriminate]. }
    rewrite Er. apply noOOF_apply_context_flat.
  - apply noOOF_bind; [apply noOOF_cur|]. intros x _. destruct (coverage_index cov (gid x)) as [k|]; [|apply noOOF_ok].
    apply noOOF_first_apply. intros r c0 Hin.
    assert (Er : sr_lookups r = []).
    { unfold opt_rules in Hin. destruct (nth_error rule_sets (N.to_nat (class_of cd (gid x)))) as [[rs|]|] eqn:En; try destruct Hin.
      pose proof (nth_error_forallb _ _ _ _ Hflat En) as Hrs. cbn in Hrs. rewrite forallb_forall in Hrs. specialize (Hrs r Hin).
      destruct (sr_lookups r); [reflexivity|discriminate]. }
    rewrite Er. apply noOOF_apply_context_flat.
  - destruct lookups; [|discriminate]. destruct covs as [|cov more]; [apply noOOF_ok|].
    apply noOOF_bind; [apply noOOF_cur|]. intros x _. destruct (coverage_index cov (gid x)); [|apply noOOF_ok].
    apply noOOF_apply_context_flat.
  - apply noOOF_bind; [apply noOOF_cur|]. intros x _. destruct (coverage_index cov (gid x)) as [k|]; [|apply noOOF_ok].
    apply noOOF_first_apply. intros r c0 Hin.
    assert (Er : cr_lookups r = []).
    { destruct (nth_error rule_sets (N.to_nat k)) as [rs|] eqn:En; [|destruct Hin].
      pose proof (nth_error_forallb _ _ _ _ Hflat En) as Hrs. rewrite forallb_forall in Hrs. specialize (Hrs r Hin).
      destruct (cr_lookups r); [reflexivity|discriminate]. }
    rewrite Er. apply noOOF_apply_chain_flat.
  - apply noOOF_bind; [apply noOOF_cur|]. intros x _. destruct (coverage_index cov (gid x)) as [k|]; [|apply noOOF_ok].
    apply noOOF_first_apply. intros r c0 Hin.
    assert (Er : cr_lookups r = []).
    { unfold opt_rules in Hin. destruct (nth_error rule_sets (N.to_nat (class_of icd (gid x)))) as [[rs|]|] eqn:En; try destruct Hin.
      pose proof (nth_error_forallb _ _ _ _ Hflat En) as Hrs. cbn in Hrs. rewrite forallb_forall in Hrs. specialize (Hrs r Hin).
      destruct (cr_lookups r); [reflexivity|discriminate]. }
    rewrite Er. apply noOOF_apply_chain_flat.
  - destruct lookups; [|discriminate]. destruct input as [|cov more]; [apply noOOF_ok|].
    apply noOOF_bind; [apply noOOF_cur|]. intros x _. destruct (coverage_index cov (gid x)); [|apply noOOF_ok].
    apply noOOF_apply_chain_flat.
Qed.

(* the forward pass of a contextual lookup without nested records terminates within `length input` iterations:
   with at least that much fuel apply_forward never reports OutOfFuel *)
Theorem flat_forward_total : forall f e lk fuel c,
  flat_lookup lk = true -> out_mode (buf c) = true -> (length (rest (buf c)) <= fuel)%nat ->
  apply_forward fuel f e lk c <> Error OutOfFuel.
Proof.
  intros f e lk fuel c Hflat Hm Hfuel.
  apply (forward_total_gen f e lk); [| |exact Hm|right; exact Hfuel].
  - intros c0 _. unfold top_apply, lookup_apply. apply noOOF_first_apply. intros st c1 Hin.
    unfold flat_lookup in Hflat. rewrite forallb_forall in Hflat. apply noOOF_subtable_flat. apply Hflat; exact Hin.
  - intros c0 applied c0' Hm0 H0. destruct (top_apply_flat f e lk c0 applied c0' Hflat Hm0 H0) as [Hf Ha].
    destruct applied.
    + destruct (Ha eq_refl) as [_ [A2 A3]]. split; [congruence|]. split; [intros _; exact A3|discriminate].
    + destruct (Hf eq_refl) as [_ [F2 [_ [F4 _]]]]. split; [congruence|]. split; [discriminate|].
      intros _. apply msame_length. exact F2.
Qed.

(* the fuel apply_string supplies is enough *)
Lemma forward_fuel_enough : forall b, (length (rest b) <= forward_fuel b)%nat.
Proof. intros b. unfold forward_fuel. rewrite app_length. lia. Qed.
