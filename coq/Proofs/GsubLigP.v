(* Proofs/GsubLigP.v — ligate_input (Model/Gsub.v): at cluster levels 0 and 1 the ligature glyph carries the
   minimum of the clusters of the matched range info[idx .. match_end), which contains every component. *)
From Coq Require Import List NArith ZArith Bool Arith Lia.
From RB Require Import Base.Result Model.Buffer Model.Font Model.Skip Model.Gsub Proofs.GsubP.
Import ListNotations.
Local Open Scope N_scope.

Lemma bind_ok : forall {A B} (r : result A) (k : A -> result B) y,
  bind r k = Ok y -> exists a, r = Ok a /\ k a = Ok y.
Proof. intros A B [a|e] k y H; [exists a; split; [reflexivity|exact H]|discriminate H]. Qed.

(* ---------- min_cluster_list is a minimum ---------- *)

Lemma min_cluster_list_le_init : forall l init, min_cluster_list l init <= init.
Proof.
  unfold min_cluster_list. induction l as [|x t IH]; intros init; cbn [fold_left]; [lia|].
  specialize (IH (N.min init (cluster x))). lia.
Qed.

Lemma min_cluster_list_le : forall l init x, In x l -> min_cluster_list l init <= cluster x.
Proof.
  unfold min_cluster_list. induction l as [|y t IH]; intros init x Hin; [destruct Hin|].
  cbn [fold_left]. destruct Hin as [E|Hin].
  - subst y. pose proof (min_cluster_list_le_init t (N.min init (cluster x))) as H. unfold min_cluster_list in H. lia.
  - apply IH. exact Hin.
Qed.

Lemma min_cluster_list_attained : forall l init,
  min_cluster_list l init = init \/ exists x, In x l /\ min_cluster_list l init = cluster x.
Proof.
  unfold min_cluster_list. induction l as [|y t IH]; intros init; cbn [fold_left]; [left; reflexivity|].
  destruct (IH (N.min init (cluster y))) as [E|[x [Hin E]]].
  - rewrite E. destruct (N.min_spec init (cluster y)) as [[_ Em]|[_ Em]]; rewrite Em.
    + left; reflexivity.
    + right. exists y. split; [left; reflexivity|reflexivity].
  - right. exists x. split; [right; exact Hin|exact E].
Qed.

(* ---------- lengths ---------- *)

Lemma map_range_length : forall {A} (fn : A -> A) l s e, length (map_range fn s e l) = length l.
Proof.
  intros A fn. induction l as [|x t IH]; intros s e; [reflexivity|]. cbn [map_range].
  destruct e as [|e']; [reflexivity|]. destruct s as [|s']; cbn [length]; rewrite IH; reflexivity.
Qed.

Lemma map_range_head : forall {A} (fn : A -> A) x t e, map_range fn 0 (S e) (x :: t) = fn x :: map_range fn 0 e t.
Proof. reflexivity. Qed.

Lemma map_suffix_run_length : forall fn c l, length (map_suffix_run fn c l) = length l.
Proof.
  intros fn c l. unfold map_suffix_run. rewrite app_length, map_length.
  rewrite <- app_length. rewrite firstn_skipn. reflexivity.
Qed.

Lemma set_cluster_cluster : forall i c m, cluster (set_cluster i c m) = c.
Proof.
  intros i c m. unfold set_cluster. destruct (N.eqb_spec (cluster i) c) as [E|E]; [exact E|reflexivity].
Qed.

(* ---------- the out-buffer only grows by appending during ligate_input's loops ---------- *)

Definition pre_ext (b b' : zbuf) : Prop := exists ext, pre b' = pre b ++ ext.

Lemma pre_ext_refl : forall b, pre_ext b b.
Proof. intros b. exists []. rewrite app_nil_r. reflexivity. Qed.

Lemma pre_ext_trans : forall a b c, pre_ext a b -> pre_ext b c -> pre_ext a c.
Proof. intros a b c [e1 H1] [e2 H2]. exists (e1 ++ e2). rewrite H2, H1, app_assoc. reflexivity. Qed.

Lemma pre_ext_same : forall a b, pre b = pre a -> pre_ext a b.
Proof. intros a b H. exists []. rewrite H, app_nil_r. reflexivity. Qed.

Lemma map_cur_pre : forall fn b b', map_cur fn b = Ok b' -> pre b' = pre b.
Proof. intros fn b b' H. unfold map_cur in H. destruct (rest b); [discriminate|]. inversion H. reflexivity. Qed.

Lemma ensure_pre : forall b n okk b', ensure b n = (okk, b') -> pre b' = pre b.
Proof.
  intros b n okk b' H. unfold ensure in H. destruct (n <? blen b)%nat; [inversion H; reflexivity|].
  destruct (max_len b <? N.of_nat n); inversion H; reflexivity.
Qed.

Lemma next_glyph_pre_ext : forall b b', next_glyph b = Ok b' -> pre_ext b b'.
Proof.
  intros b b' H. unfold next_glyph in H. destruct (rest b) as [|x t]; [discriminate|].
  destruct (out_mode b).
  - unfold make_room_for in H. destruct (ensure b (out_len b + 1)) as [okk b2] eqn:E.
    destruct okk; inversion H; subst.
    + exists [x]. reflexivity.
    + apply pre_ext_same. eapply ensure_pre; eassumption.
  - inversion H. exists [x]. reflexivity.
Qed.

Lemma skip_glyph_pre_ext : forall b b', skip_glyph b = Ok b' -> pre_ext b b'.
Proof.
  intros b b' H. unfold skip_glyph in H. destruct (rest b) as [|x t]; [discriminate|]. inversion H.
  destruct (out_mode b); [apply pre_ext_same; reflexivity|exists [x]; reflexivity].
Qed.

Lemma lig_advance_pre_ext : forall n b p is_lig lid last_num comps b',
  lig_advance n b p is_lig lid last_num comps = Ok b' -> pre_ext b b'.
Proof.
  induction n as [|k IH]; intros b p is_lig lid last_num comps b' H; cbn [lig_advance] in H.
  - inversion H. apply pre_ext_refl.
  - destruct ((dead b <? p)%nat && ok b)%bool; [|inversion H; apply pre_ext_refl].
    apply bind_ok in H. destruct H as [b1 [H1 H]]. apply bind_ok in H. destruct H as [b2 [H2 H]].
    eapply pre_ext_trans; [|eapply pre_ext_trans; [eapply next_glyph_pre_ext; exact H2|eapply IH; exact H]].
    destruct is_lig; [apply pre_ext_same; eapply map_cur_pre; exact H1|inversion H1; apply pre_ext_refl].
Qed.

Lemma ligate_components_pre_ext : forall ps b is_lig lid st b' st',
  ligate_components b ps is_lig lid st = Ok (b', st') -> pre_ext b b'.
Proof.
  induction ps as [|p t IH]; intros b is_lig lid st b' st' H; cbn [ligate_components] in H.
  - inversion H. apply pre_ext_refl.
  - destruct st as [[a last_num] comps].
    apply bind_ok in H. destruct H as [b1 [H1 H]]. apply bind_ok in H. destruct H as [x [Hx H]].
    apply bind_ok in H. destruct H as [b2 [H2 H]].
    eapply pre_ext_trans; [eapply lig_advance_pre_ext; exact H1|].
    eapply pre_ext_trans; [eapply skip_glyph_pre_ext; exact H2|]. eapply IH; exact H.
Qed.

(* ---------- the theorem ---------- *)

Definition is_min_of (c : N) (l : list info) : Prop :=
  (forall x, In x l -> c <= cluster x) /\ (exists x, In x l /\ c = cluster x).

Lemma merge_head_min : forall l n first t,
  l = first :: t -> (2 <= n)%nat -> (n <= length l)%nat ->
  is_min_of (min_cluster_list (slice l 1 n) (cluster first)) (firstn n l).
Proof.
  intros l n first t E Hn Hlen. subst l. destruct n as [|n']; [lia|].
  unfold slice. cbn [skipn firstn]. replace (S n' - 1)%nat with n' by lia.
  split.
  - intros x [Hx|Hx].
    + subst x. apply min_cluster_list_le_init.
    + apply min_cluster_list_le. exact Hx.
  - destruct (min_cluster_list_attained (firstn n' t) (cluster first)) as [E|[x [Hin E]]].
    + exists first. split; [left; reflexivity|exact E].
    + exists x. split; [right; exact Hin|exact E].
Qed.

Theorem ligate_input_cluster_min : forall f c mps match_end total g c',
  level (buf c) <> 2 -> out_mode (buf c) = true ->
  (dead (buf c) + 2 <= match_end)%nat -> (match_end <= dead (buf c) + length (rest (buf c)))%nat ->
  N.of_nat (length (pre (buf c)) + length (rest (buf c))) <= max_len (buf c) ->
  ligate_input f c mps match_end total g = Ok c' ->
  exists lig, nth_error (pre (buf c')) (length (pre (buf c))) = Some lig /\ gid lig = g
              /\ is_min_of (cluster lig) (firstn (match_end - dead (buf c)) (rest (buf c))).
Proof.
  intros f c mps match_end total g c' Hlvl Hmode Hn Hlen Hroom H.
  unfold ligate_input in H. apply bind_ok in H. destruct H as [b1 [Hmerge H]].
  (* the merge *)
  set (b := buf c) in *. set (n := (match_end - dead b)%nat).
  assert (Hb1 : exists first t pre1 rest1,
            rest b = first :: t /\ b1 = with_pr b pre1 (set_cluster first (min_cluster_list (slice (rest b) 1 n) (cluster first)) 0 :: rest1) (dead b)
            /\ length pre1 = length (pre b) /\ length rest1 = length t).
  { unfold merge_clusters_full in Hmerge.
    destruct (Nat.ltb_spec (match_end - dead b) 2) as [Hlt|_]; [lia|].
    destruct (N.eqb_spec (level b) 2) as [E2|_]; [contradiction|].
    unfold merge_clusters in Hmerge.
    destruct (Nat.ltb_spec (match_end - dead b) 2) as [Hlt|_]; [lia|].
    destruct (N.eqb_spec (level b) 2) as [E2|_]; [contradiction|].
    rewrite Hmode in Hmerge. rewrite Nat.ltb_irrefl in Hmerge.
    apply bind_ok in Hmerge. destruct Hmerge as [[[rest' c0] cm] [Hma Hmerge]].
    unfold merge_array in Hma. rewrite Nat.sub_diag in Hma.
    destruct (rest b) as [|first t] eqn:Er; [cbn in Hlen; lia|]. cbn [nth_error] in Hma.
    fold n in Hma. destruct (nth_error (first :: t) (n - 1)) as [last|] eqn:El; [|discriminate].
    inversion Hma; subst rest' c0 cm. clear Hma.
    set (cm := min_cluster_list (slice (first :: t) 1 n) (cluster first)) in *.
    set (e' := if cm =? cluster last then n else (n + run_len (cluster last) (skipn n (first :: t)))%nat) in *.
    assert (He' : exists k, e' = S k).
    { subst e'. destruct (cm =? cluster last); [exists (n - 1)%nat; lia|].
      exists (n - 1 + run_len (cluster last) (skipn n (first :: t)))%nat. lia. }
    destruct He' as [k Ek]. rewrite Ek in Hmerge. try rewrite map_range_head in Hmerge.
    inversion Hmerge. exists first, t. eexists. eexists. split; [reflexivity|]. split; [reflexivity|]. split.
    - destruct ((dead b =? dead b)%nat && negb (cluster first =? cm))%bool; [apply map_suffix_run_length|reflexivity].
    - apply map_range_length. }
  destruct Hb1 as [first [t [pre1 [rest1 [Er [Eb1 [Lp Lr]]]]]]].
  set (cm := min_cluster_list (slice (rest b) 1 n) (cluster first)) in *.
  destruct mps as [|p0 ps]; [discriminate|].
  apply bind_ok in H. destruct H as [first0 [_ H]]. apply bind_ok in H. destruct H as [others [_ H]].
  cbv zeta in H.
  destruct (if negb (is_base_glyph first0 && forallb is_mark others) && negb (is_mark first0 && forallb is_mark others)
            then allocate_lig_id 3 (serial c) else (serial c, 0)) as [ser lid] eqn:Ealloc.
  apply bind_ok in H. destruct H as [firstc [Hcur H]].
  apply bind_ok in H. destruct H as [b2 [Hb2 H]].
  apply bind_ok in H. destruct H as [b3 [Hb3 H]].
  apply bind_ok in H. destruct H as [[b4 [[last_id last_num] comps]] [Hb4 H]].
  (* b2: only var1/var2 of the current glyph change *)
  assert (Hb2' : exists x2, rest b2 = x2 :: rest1 /\ cluster x2 = cm /\ pre b2 = pre1
                            /\ out_mode b2 = true /\ ok b2 = ok b /\ max_len b2 = max_len b /\ dead b2 = dead b).
  { subst b1. destruct (negb (is_base_glyph first0 && forallb is_mark others) && negb (is_mark first0 && forallb is_mark others)).
    - unfold map_cur in Hb2. cbn [with_pr rest pre dead] in Hb2. inversion Hb2. eexists. split; [reflexivity|].
      cbn [with_pr pre out_mode ok max_len dead]. split; [|repeat split; try reflexivity; exact Hmode].
      match goal with |- cluster (if ?c then _ else _) = _ => destruct c end; cbn; apply set_cluster_cluster.
    - inversion Hb2. eexists. split; [reflexivity|]. cbn [with_pr pre out_mode ok max_len dead].
      split; [apply set_cluster_cluster|repeat split; try reflexivity; exact Hmode]. }
  destruct Hb2' as [x2 [Er2 [Ec2 [Ep2 [Em2 [Eo2 [Eml2 Ed2]]]]]]].
  (* b3: the ligature glyph is appended to the out-buffer *)
  assert (Hb3' : pre b3 = pre1 ++ [set_gid (set_glyph_class f x2 g (if negb (is_base_glyph first0 && forallb is_mark others) && negb (is_mark first0 && forallb is_mark others) then GP_LIGATURE else 0) true false) g]).
  { unfold ctx_replace_glyph_with_ligature in Hb3. apply bind_ok in Hb3. destruct Hb3 as [b2' [Hm2 Hb3]].
    unfold map_cur in Hm2. rewrite Er2 in Hm2. inversion Hm2. subst b2'. clear Hm2.
    unfold replace_glyph in Hb3. cbn [with_pr rest] in Hb3. unfold make_room_for, out_len in Hb3.
    cbn [with_pr out_mode pre] in Hb3. rewrite Em2 in Hb3.
    rewrite ensure_room in Hb3.
    - inversion Hb3. cbn [with_pr pre]. rewrite Ep2. reflexivity.
    - cbn [with_pr max_len]. rewrite Eml2, Ep2, Lp. rewrite Er in Hroom. cbn [length] in Hroom. lia. }
  (* the rest only appends *)
  pose proof (ligate_components_pre_ext _ _ _ _ _ _ _ Hb4) as [ext Hext].
  inversion H. subst c'. cbn [buf].
  set (lig := set_gid (set_glyph_class f x2 g (if negb (is_base_glyph first0 && forallb is_mark others) && negb (is_mark first0 && forallb is_mark others) then GP_LIGATURE else 0) true false) g) in *.
  exists lig. split.
  - assert (Hpre : pre (if negb (is_mark first0 && forallb is_mark others) && negb (last_id =? 0)
                        then with_pr b4 (pre b4) (lig_trailing (rest b4) last_id lid last_num comps) (dead b4) else b4) = pre b4).
    { destruct (negb (is_mark first0 && forallb is_mark others) && negb (last_id =? 0)); reflexivity. }
    rewrite Hpre, Hext, Hb3'. rewrite <- Lp. rewrite <- app_assoc. rewrite nth_error_app2 by lia.
    rewrite Nat.sub_diag. reflexivity.
  - split.
    + subst lig. reflexivity.
    + assert (Ecl : cluster lig = cm).
      { subst lig. unfold set_glyph_class. rewrite <- Ec2.
        destruct (has_glyph_classes f); [reflexivity|].
        match goal with |- context [negb (?z =? 0)] => destruct (negb (z =? 0)) end; reflexivity. }
      rewrite Ecl. subst cm. apply (merge_head_min (rest b) n first t Er); subst n; lia.
Qed.
