(* Proofs/GsubMapP.v — the compiled plan (Model/OtMap.v): within a stage the lookups are listed in strictly
   ascending lookup-index order (no duplicates), every collected lookup index is present, and the mask of an
   entry is the OR of the masks of all collected entries with that index. *)
From Coq Require Import List NArith Bool Arith Lia Sorting.Permutation Sorting.Sorted.
From RB Require Import Model.Font Model.OtMap.
Import ListNotations.
Local Open Scope N_scope.

(* ---------- the order ---------- *)

Lemma lex_le_total : forall a b, lex_le a b = true \/ lex_le b a = true.
Proof.
  induction a as [|x a IH]; intros b; [left; reflexivity|].
  destruct b as [|y b]; [left; reflexivity|]. cbn [lex_le].
  destruct (N.ltb_spec x y) as [Hxy|Hxy]; [left; reflexivity|].
  destruct (N.ltb_spec y x) as [Hyx|Hyx]; [right; reflexivity|].
  assert (x = y) by lia. subst y. rewrite N.eqb_refl. cbn [orb andb].
  apply IH.
Qed.

Lemma lm_le_total : forall a b, lm_le a b = true \/ lm_le b a = true.
Proof. intros a b. apply lex_le_total. Qed.

Lemma lm_le_index : forall a b, lm_le a b = true -> lm_index a <= lm_index b.
Proof.
  intros a b H. unfold lm_le, lm_key in H. cbn [lex_le] in H.
  apply orb_true_iff in H. destruct H as [H|H].
  - apply N.ltb_lt in H. lia.
  - apply andb_true_iff in H. destruct H as [H _]. apply N.eqb_eq in H. lia.
Qed.

(* ---------- insertion sort ---------- *)

Lemma insert_lm_perm : forall x l, Permutation (x :: l) (insert_lm x l).
Proof.
  intros x l. induction l as [|y t IH]; cbn [insert_lm]; [apply Permutation_refl|].
  destruct (lm_le x y); [apply Permutation_refl|].
  eapply Permutation_trans; [apply perm_swap|]. apply perm_skip. exact IH.
Qed.

Lemma sort_lms_perm : forall l, Permutation l (sort_lms l).
Proof.
  induction l as [|x t IH]; [apply Permutation_refl|].
  unfold sort_lms. cbn [fold_right]. fold (sort_lms t).
  eapply Permutation_trans; [apply perm_skip; exact IH|]. apply insert_lm_perm.
Qed.

Definition idx_le (a b : lookup_map) : Prop := lm_index a <= lm_index b.

Lemma insert_lm_sorted : forall x l,
  StronglySorted idx_le l -> StronglySorted idx_le (insert_lm x l).
Proof.
  intros x l H. induction H as [|y t Ht IH Hall]; cbn [insert_lm].
  - constructor; [constructor|constructor].
  - destruct (lm_le x y) eqn:Hxy.
    + constructor; [constructor; assumption|].
      constructor; [apply lm_le_index; exact Hxy|].
      apply lm_le_index in Hxy. eapply Forall_impl; [|exact Hall].
      intros z Hz. unfold idx_le in *. lia.
    + constructor; [exact IH|].
      assert (Hyx : lm_index y <= lm_index x).
      { destruct (lm_le_total x y) as [H1|H1]; [congruence|]. apply lm_le_index; exact H1. }
      eapply Permutation_Forall; [apply insert_lm_perm|].
      constructor; [exact Hyx|exact Hall].
Qed.

Lemma sort_lms_sorted : forall l, StronglySorted idx_le (sort_lms l).
Proof.
  induction l as [|x t IH]; [constructor|].
  unfold sort_lms. cbn [fold_right]. fold (sort_lms t). apply insert_lm_sorted. exact IH.
Qed.

(* ---------- dedup on an index-sorted list ---------- *)

Definition or_masks (l : list lookup_map) : N := fold_right (fun x a => N.lor (lm_mask x) a) 0 l.
Definition same_index (i : N) (x : lookup_map) : bool := lm_index x =? i.

Lemma or_masks_perm : forall l l', Permutation l l' -> or_masks l = or_masks l'.
Proof.
  intros l l' H. induction H; cbn [or_masks fold_right] in *.
  - reflexivity.
  - fold (or_masks l). fold (or_masks l'). rewrite IHPermutation. reflexivity.
  - fold (or_masks l). rewrite !N.lor_assoc. f_equal. apply N.lor_comm.
  - congruence.
Qed.

Lemma filter_perm {A} (p : A -> bool) : forall l l', Permutation l l' -> Permutation (filter p l) (filter p l').
Proof.
  intros l l' H. induction H; cbn [filter].
  - apply Permutation_refl.
  - destruct (p x); [apply perm_skip|]; assumption.
  - destruct (p x), (p y); try apply Permutation_refl. apply perm_swap.
  - eapply Permutation_trans; eassumption.
Qed.

Lemma merge_lm_index : forall j i, lm_index (merge_lm j i) = lm_index j.
Proof. reflexivity. Qed.
Lemma merge_lm_mask : forall j i, lm_mask (merge_lm j i) = N.lor (lm_mask j) (lm_mask i).
Proof. reflexivity. Qed.

Lemma filter_same_eq : forall k i t, lm_index i = k ->
  filter (same_index k) (i :: t) = i :: filter (same_index k) t.
Proof. intros k i t H. cbn [filter]. unfold same_index at 1. rewrite H, N.eqb_refl. reflexivity. Qed.
Lemma filter_same_ne : forall k i t, lm_index i <> k ->
  filter (same_index k) (i :: t) = filter (same_index k) t.
Proof. intros k i t H. cbn [filter]. unfold same_index at 1. destruct (N.eqb_spec (lm_index i) k); [contradiction|reflexivity]. Qed.
Lemma or_masks_cons : forall x l, or_masks (x :: l) = N.lor (lm_mask x) (or_masks l).
Proof. reflexivity. Qed.

(* strictly ascending lookup indices *)
Definition idx_lt (a b : lookup_map) : Prop := lm_index a < lm_index b.

(* the generalised statement: `cur` carries mask m0 (an accumulated OR), its index is <= every index of rest *)
Lemma dedup_go_spec : forall rest cur,
  StronglySorted idx_le (cur :: rest) ->
  let out := dedup_lms_go cur rest in
  StronglySorted idx_lt out
  /\ (forall i, In i (map lm_index out) <-> In i (map lm_index (cur :: rest)))
  /\ (exists h t, out = h :: t /\ lm_index h = lm_index cur
                  /\ lm_mask h = N.lor (lm_mask cur) (or_masks (filter (same_index (lm_index cur)) rest))
                  /\ forall m, In m t -> lm_index cur < lm_index m
                               /\ lm_mask m = or_masks (filter (same_index (lm_index m)) rest)).
Proof.
  induction rest as [|i t IH]; intros cur Hs; cbn [dedup_lms_go].
  - cbn zeta. split; [constructor; constructor|]. split; [intros; reflexivity|].
    exists cur, []. cbn [filter or_masks fold_right]. rewrite N.lor_0_r.
    split; [reflexivity|]. split; [reflexivity|]. split; [reflexivity|]. intros m Hm. destruct Hm.
  - inversion Hs as [|? ? Hs' Hall]; subst. inversion Hall as [|? ? Hci Hall']; subst.
    unfold idx_le in Hci.
    destruct (N.eqb_spec (lm_index i) (lm_index cur)) as [He|Hne].
    + (* merged *)
      assert (Hs2 : StronglySorted idx_le (merge_lm cur i :: t)).
      { inversion Hs' as [|? ? Hs'' Hall'']; subst. constructor; [exact Hs''|].
        eapply Forall_impl; [|exact Hall']. intros z Hz. unfold idx_le in *. rewrite merge_lm_index. exact Hz. }
      specialize (IH (merge_lm cur i) Hs2). cbn zeta in IH. destruct IH as [I1 [I2 [h [tl [Eo [Hi [Hm Ht]]]]]]].
      cbn zeta. split; [exact I1|]. split.
      * intros k. rewrite I2. cbn [map In]. rewrite merge_lm_index. rewrite He. tauto.
      * exists h, tl. split; [exact Eo|]. rewrite merge_lm_index in Hi. split; [exact Hi|]. split.
        -- rewrite Hm. rewrite merge_lm_index, merge_lm_mask. rewrite (filter_same_eq _ i t He).
           rewrite or_masks_cons. rewrite N.lor_assoc. reflexivity.
        -- intros m Hm'. destruct (Ht m Hm') as [H1 H2]. rewrite merge_lm_index in H1. split; [exact H1|].
           rewrite H2. rewrite filter_same_ne; [reflexivity|lia].
    + (* cur is emitted *)
      specialize (IH i Hs'). cbn zeta in IH. destruct IH as [I1 [I2 [h [tl [Eo [Hi [Hm Ht]]]]]]].
      assert (Hlt : lm_index cur < lm_index i) by lia.
      assert (Hall3 : forall w, In w t -> lm_index i <= lm_index w).
      { inversion Hs' as [|? ? _ Hall3]; subst. rewrite Forall_forall in Hall3. exact Hall3. }
      cbn zeta. split.
      * constructor; [exact I1|]. rewrite Forall_forall. intros z Hz.
        assert (Hz' : In (lm_index z) (map lm_index (dedup_lms_go i t))) by (apply in_map; exact Hz).
        apply I2 in Hz'. cbn [map In] in Hz'. destruct Hz' as [Hz'|Hz'].
        -- unfold idx_lt. lia.
        -- apply in_map_iff in Hz'. destruct Hz' as [w [Hw Hin]]. specialize (Hall3 w Hin).
           unfold idx_lt. lia.
      * split.
        -- intros k. cbn [map In]. rewrite I2. cbn [map In]. tauto.
        -- exists cur, (dedup_lms_go i t). split; [reflexivity|]. split; [reflexivity|]. split.
           ++ rewrite filter_same_ne by exact Hne.
              assert (Hnone : filter (same_index (lm_index cur)) t = []).
              { clear - Hall3 Hlt. induction t as [|z t IHt]; [reflexivity|].
                assert (Hz : lm_index i <= lm_index z) by (apply Hall3; left; reflexivity).
                rewrite filter_same_ne by lia. apply IHt. intros w Hw. apply Hall3. right; exact Hw. }
              rewrite Hnone. cbn [or_masks fold_right]. rewrite N.lor_0_r. reflexivity.
           ++ intros m Hm'. rewrite Eo in Hm'. destruct Hm' as [Hm'|Hm'].
              ** subst m. split; [lia|]. rewrite Hm. rewrite Hi. rewrite (filter_same_eq _ i t eq_refl).
                 rewrite or_masks_cons. reflexivity.
              ** destruct (Ht m Hm') as [H1 H2]. split; [lia|]. rewrite H2. rewrite filter_same_ne; [reflexivity|lia].
Qed.

(* ---------- sort_dedup ---------- *)

Lemma sort_dedup_cases : forall l,
  (sort_lms l = [] /\ l = [] /\ sort_dedup l = [])
  \/ (exists x t, sort_lms l = x :: t /\ sort_dedup l = dedup_lms_go x t /\ StronglySorted idx_le (x :: t)
                  /\ Permutation l (x :: t)).
Proof.
  intros l. unfold sort_dedup. pose proof (sort_lms_perm l) as Hp. pose proof (sort_lms_sorted l) as Hs.
  destruct (sort_lms l) as [|x t] eqn:E.
  - left. split; [reflexivity|]. split; [|reflexivity]. apply Permutation_sym in Hp. apply Permutation_nil in Hp. exact Hp.
  - right. exists x, t. repeat split; assumption.
Qed.

Theorem sort_dedup_ascending : forall l, StronglySorted idx_lt (sort_dedup l).
Proof.
  intros l. destruct (sort_dedup_cases l) as [[_ [_ E]]|[x [t [_ [E [Hs _]]]]]]; rewrite E; [constructor|].
  apply (dedup_go_spec t x Hs).
Qed.

Theorem sort_dedup_indices : forall l i, In i (map lm_index (sort_dedup l)) <-> In i (map lm_index l).
Proof.
  intros l i. destruct (sort_dedup_cases l) as [[_ [El E]]|[x [t [_ [E [Hs Hp]]]]]]; rewrite E.
  - subst l. reflexivity.
  - destruct (dedup_go_spec t x Hs) as [_ [H _]]. rewrite H.
    split; intros Hin; eapply Permutation_in; try exact Hin; apply Permutation_map; [apply Permutation_sym|]; exact Hp.
Qed.

Theorem sort_dedup_masks : forall l m, In m (sort_dedup l) ->
  lm_mask m = or_masks (filter (same_index (lm_index m)) l).
Proof.
  intros l m Hin. destruct (sort_dedup_cases l) as [[_ [_ E]]|[x [t [_ [E [Hs Hp]]]]]]; rewrite E in Hin; [destruct Hin|].
  rewrite (or_masks_perm _ _ (filter_perm (same_index (lm_index m)) _ _ Hp)).
  destruct (dedup_go_spec t x Hs) as [_ [_ [h [tl [Eo [Hi [Hm Ht]]]]]]]. cbn zeta in Eo. rewrite Eo in Hin.
  destruct Hin as [Hin|Hin].
  - subst m. rewrite Hi. rewrite (filter_same_eq _ x t eq_refl). rewrite or_masks_cons. exact Hm.
  - destruct (Ht m Hin) as [H1 H2]. rewrite filter_same_ne by lia. exact H2.
Qed.

(* ---------- the compiled plan ---------- *)

Theorem plan_stage_ascending : forall f rtl user st,
  In st (pl_stages (compile_plan f rtl user)) -> StronglySorted idx_lt st.
Proof.
  intros f rtl user st. unfold compile_plan.
  destruct (collect_features rtl user) as [infos nstages].
  destruct (alloc (f_gsub f) (f_gpos f) (dedup_infos match user with [] => true | _ :: _ => false end infos) FIRST_BIT GLOBAL_BIT_MASK 0)
    as [[feats gmask] rstage].
  cbn [pl_stages]. destruct (f_gsub f) as [l|]; intros Hin; apply in_map_iff in Hin; destruct Hin as [s [Hs _]]; subst st.
  - unfold stage_lookups. apply sort_dedup_ascending.
  - constructor.
Qed.

(* every stage of the plan is the sorted, merged list of the lookups collected for that stage *)
Theorem plan_stage_is_sort_dedup : forall f rtl user st,
  In st (pl_stages (compile_plan f rtl user)) -> exists collected, st = sort_dedup collected.
Proof.
  intros f rtl user st. unfold compile_plan.
  destruct (collect_features rtl user) as [infos nstages].
  destruct (alloc (f_gsub f) (f_gpos f) (dedup_infos match user with [] => true | _ :: _ => false end infos) FIRST_BIT GLOBAL_BIT_MASK 0)
    as [[feats gmask] rstage].
  cbn [pl_stages]. destruct (f_gsub f) as [l|]; intros Hin; apply in_map_iff in Hin; destruct Hin as [s [Hs _]]; subst st.
  - unfold stage_lookups. eexists. reflexivity.
  - exists []. reflexivity.
Qed.
