(* Proofs/GsubMultP.v — multiple substitution (Model/Gsub.v apply_multiple): the forward pass of a lookup made of
   multiple-substitution subtables without empty sequences is `flat_map`: a covered, enabled glyph is replaced by
   the glyphs of its sequence, each inheriting the cluster and the mask of the original. *)
From Coq Require Import List NArith ZArith Bool Arith Lia.
From RB Require Import Base.Result Model.Buffer Model.Font Model.Skip Model.Gsub Proofs.GsubP.
Import ListNotations.
Local Open Scope N_scope.

(* ---------- a forward pass that rewrites each glyph independently (1 -> k) ---------- *)

Section Pointwise.
  Variable f : font.
  Variable e : lenv.
  Variable lk : lookup subst_subtable.
  Variable K : nat.                               (* bound on the length of an output *)
  Variable out : info -> option (list info).      (* None: the lookup does not apply to this glyph *)

  Definition ginv (b : zbuf) : Prop :=
    out_mode b = true /\ ok b = true /\ N.of_nat (length (pre b) + K * length (rest b)) <= max_len b.

  Hypothesis HK : (1 <= K)%nat.
  Hypothesis Hlen : forall x o, out x = Some o -> (length o <= K)%nat.
  Hypothesis Htop : forall c x t, rest (buf c) = x :: t -> ginv (buf c) ->
    top_apply f e lk c = match out x with
                         | Some o => Ok (true, with_buf c (with_pr (buf c) (pre (buf c) ++ o) t (S (dead (buf c)))))
                         | None => Ok (false, c)
                         end.

  Definition outp (x : info) : list info :=
    if glyph_enabled f e (lookup_props_of lk) x then match out x with Some o => o | None => [x] end else [x].

  Lemma ginv_next : forall b x t o, ginv b -> rest b = x :: t -> (length o <= K)%nat ->
    ginv (with_pr b (pre b ++ o) t (S (dead b))).
  Proof.
    intros b x t o [Hm [Hok Hr]] E Ho. unfold ginv, with_pr. cbn [out_mode ok pre rest max_len].
    repeat split; try assumption. rewrite E in Hr. rewrite app_length. cbn [length] in Hr. nia.
  Qed.

  Lemma next_glyph_ginv : forall b x t, ginv b -> rest b = x :: t ->
    next_glyph b = Ok (with_pr b (pre b ++ [x]) t (S (dead b))).
  Proof.
    intros b x t [Hm [Hok Hr]] E. unfold next_glyph. rewrite E, Hm. unfold make_room_for, out_len. rewrite Hm.
    rewrite ensure_room; [reflexivity|]. rewrite E in Hr. cbn [length] in Hr. nia.
  Qed.

  Lemma apply_forward_pointwise : forall l fuel c,
    rest (buf c) = l -> ginv (buf c) -> (length l <= fuel)%nat ->
    apply_forward fuel f e lk c
    = Ok (with_buf c (with_pr (buf c) (pre (buf c) ++ flat_map outp l) [] (dead (buf c) + length l))).
  Proof.
    induction l as [|x t IH]; intros fuel c E Hinv Hf.
    - destruct fuel; cbn [apply_forward]; rewrite E; cbn [flat_map length]; rewrite app_nil_r, Nat.add_0_r;
        destruct c as [b mo se rs fa]; destruct b; cbn in *; subst; reflexivity.
    - destruct fuel as [|k]; [cbn [length] in Hf; lia|]. cbn [apply_forward]. rewrite E.
      pose proof Hinv as [Hm [Hok Hr]]. rewrite Hok. cbn [negb].
      assert (Hnext : forall o, (length o <= K)%nat ->
                let c1 := with_buf c (with_pr (buf c) (pre (buf c) ++ o) t (S (dead (buf c)))) in
                apply_forward k f e lk c1
                = Ok (with_buf c (with_pr (buf c) (pre (buf c) ++ o ++ flat_map outp t) [] (dead (buf c) + S (length t))))).
      { intros o Ho c1. rewrite (IH k c1).
        - subst c1. destruct c as [b mo se rs fa]; destruct b. cbn. rewrite <- app_assoc.
          rewrite Nat.add_succ_r. reflexivity.
        - subst c1. destruct c as [b mo se rs fa]; destruct b. reflexivity.
        - subst c1. destruct c as [b mo se rs fa]. cbn [with_buf buf]. eapply ginv_next; eassumption.
        - cbn [length] in Hf. lia. }
      cbn [flat_map length]. unfold outp at 1.
      destruct (glyph_enabled f e (lookup_props_of lk) x) eqn:Hen.
      + rewrite (Htop c x t E Hinv). destruct (out x) as [o|] eqn:Ho.
        * cbn [bind]. apply Hnext. eapply Hlen; exact Ho.
        * cbn [bind]. rewrite (next_glyph_ginv (buf c) x t Hinv E). cbn [bind]. apply (Hnext [x]). cbn [length]. exact HK.
      + cbn [bind]. rewrite (next_glyph_ginv (buf c) x t Hinv E). cbn [bind]. apply (Hnext [x]). cbn [length]. exact HK.
  Qed.
End Pointwise.

(* ---------- what Sequence::apply produces ---------- *)

(* the general arm (two or more glyphs): component i gets lig_comp i unless the glyph is attached to a ligature;
   every component goes through set_glyph_class(component = true) on the evolving current glyph *)
Fixpoint comp_outs (f : font) (lid class : N) (x : info) (gs : list N) (i : N) : list info :=
  match gs with
  | [] => []
  | g :: t =>
    let x' := set_glyph_class f (if lid =? 0 then set_lig_props_for_component x (N.land i 255) else x) g class false true in
    set_gid x' g :: comp_outs f lid class x' t (i + 1)
  end.

Definition seq_outs (f : font) (x : info) (gs : list N) : list info :=
  match gs with
  | [] => []                                  (* deletion: not covered by this theorem *)
  | [g] => [replaced f x g]
  | _ => comp_outs f (lig_id x) (if is_ligature x then GP_BASE else 0) x gs 0
  end.

Lemma comp_outs_length : forall f lid class gs x i, length (comp_outs f lid class x gs i) = length gs.
Proof. intros f lid class. induction gs as [|g t IH]; intros x i; [reflexivity|]. cbn [comp_outs length]. rewrite IH. reflexivity. Qed.

Lemma seq_outs_length : forall f x gs, length (seq_outs f x gs) = length gs.
Proof.
  intros f x [|g [|g2 t]]; try reflexivity. unfold seq_outs. apply comp_outs_length.
Qed.

(* cluster and mask of every produced glyph are those of the original *)
Lemma set_glyph_class_cm : forall f x g cl a b, cluster (set_glyph_class f x g cl a b) = cluster x /\ mask (set_glyph_class f x g cl a b) = mask x.
Proof.
  intros. unfold set_glyph_class. destruct (has_glyph_classes f); [split; reflexivity|].
  destruct (negb (cl =? 0)); split; reflexivity.
Qed.

Lemma comp_outs_cm : forall f lid class gs x i y, In y (comp_outs f lid class x gs i) -> cluster y = cluster x /\ mask y = mask x.
Proof.
  intros f lid class. induction gs as [|g t IH]; intros x i y Hin; [destruct Hin|].
  cbn [comp_outs] in Hin.
  set (x0 := if lid =? 0 then set_lig_props_for_component x (N.land i 255) else x) in *.
  assert (H0 : cluster x0 = cluster x /\ mask x0 = mask x) by (subst x0; destruct (lid =? 0); split; reflexivity).
  destruct (set_glyph_class_cm f x0 g class false true) as [C1 C2].
  destruct Hin as [E|Hin].
  - subst y. cbn [set_gid cluster mask]. destruct H0. split; congruence.
  - destruct (IH _ _ _ Hin) as [I1 I2]. destruct H0. split; congruence.
Qed.

Lemma seq_outs_cm : forall f x gs y, In y (seq_outs f x gs) -> cluster y = cluster x /\ mask y = mask x.
Proof.
  intros f x [|g [|g2 t]] y Hin.
  - destruct Hin.
  - destruct Hin as [E|[]]. subst y. destruct (replaced_fields f x g) as [_ [H2 [H3 _]]]. split; assumption.
  - unfold seq_outs in Hin. eapply comp_outs_cm. exact Hin.
Qed.

Lemma comp_outs_gids : forall f lid class gs x i, map gid (comp_outs f lid class x gs i) = gs.
Proof. intros f lid class. induction gs as [|g t IH]; intros x i; [reflexivity|]. cbn [comp_outs map set_gid gid]. rewrite IH. reflexivity. Qed.

Lemma seq_outs_gids : forall f x gs, map gid (seq_outs f x gs) = gs.
Proof.
  intros f x [|g [|g2 t]]; try reflexivity.
  unfold seq_outs. apply comp_outs_gids.
Qed.

(* ---------- output_components under the room invariant ---------- *)

Lemma output_components_ok : forall f lid class gs b x t i,
  out_mode b = true -> rest b = x :: t -> N.of_nat (length (pre b) + length gs) <= max_len b ->
  exists x', output_components f b lid class gs i
             = Ok (with_pr b (pre b ++ comp_outs f lid class x gs i) (x' :: t) (dead b)).
Proof.
  intros f lid class. induction gs as [|g gs IH]; intros b x t i Hm E Hroom.
  - exists x. cbn [output_components comp_outs]. rewrite app_nil_r. destruct b; cbn in *; subst; reflexivity.
  - cbn [output_components comp_outs].
    set (x0 := if lid =? 0 then set_lig_props_for_component x (N.land i 255) else x).
    assert (H1 : (if lid =? 0 then map_cur (fun x1 => set_lig_props_for_component x1 (N.land i 255)) b else Ok b)
                 = Ok (with_pr b (pre b) (x0 :: t) (dead b))).
    { subst x0. destruct (lid =? 0); [unfold map_cur; rewrite E; reflexivity|]. destruct b; cbn in *; subst; reflexivity. }
    rewrite H1. cbn [bind]. unfold ctx_output_glyph_for_component, map_cur. cbn [with_pr rest pre dead bind].
    unfold output_glyph, make_room_for, out_len. cbn [with_pr out_mode pre rest]. rewrite Hm.
    rewrite ensure_room; [|unfold with_pr; cbn [max_len]; cbn [length] in Hroom; lia].
    cbn [negb].
    set (x1 := set_glyph_class f x0 g class false true).
    set (b1 := mkZ (pre b ++ [set_gid x1 g]) (x1 :: t) (dead b) (out_mode b) (level b) (bflags b) (ok b) (max_len b) (scratch b)).
    destruct (IH b1 x1 t (i + 1)) as [x' Hx'].
    + subst b1. cbn. exact Hm.
    + reflexivity.
    + subst b1. cbn [pre max_len]. rewrite app_length. cbn [length] in *. lia.
    + exists x'. 
      match goal with |- bind ?r _ = _ => replace r with (Ok b1) end.
      * cbn [bind]. rewrite Hx'. subst b1. unfold with_pr. cbn [pre rest dead out_mode level bflags ok max_len scratch].
        rewrite <- app_assoc. reflexivity.
      * subst b1 x1. unfold with_pr. cbn. reflexivity.
Qed.

(* ---------- the lookup ---------- *)

Definition multiple_one (st : subst_subtable) (g : N) : option (list N) :=
  match st with
  | SMultiple cov seqs => match coverage_index cov g with Some k => nth_error seqs (N.to_nat k) | None => None end
  | _ => None
  end.

Fixpoint multiple_sub (sts : list subst_subtable) (g : N) : option (list N) :=
  match sts with
  | [] => None
  | st :: t => match multiple_one st g with Some y => Some y | None => multiple_sub t g end
  end.

(* multiple-substitution subtables none of whose sequences is empty or longer than K *)
Definition is_multiple_nodel (K : nat) (st : subst_subtable) : bool :=
  match st with
  | SMultiple _ seqs => forallb (fun s => match s with [] => false | _ => (length s <=? K)%nat end) seqs
  | _ => false
  end.

Lemma multiple_sub_props : forall K sts g gs,
  forallb (is_multiple_nodel K) sts = true -> multiple_sub sts g = Some gs -> gs <> [] /\ (length gs <= K)%nat.
Proof.
  intros K. induction sts as [|st ts IH]; intros g gs Hall H; [discriminate|].
  cbn [forallb] in Hall. apply andb_true_iff in Hall. destruct Hall as [Hst Hts].
  cbn [multiple_sub] in H. destruct (multiple_one st g) as [y|] eqn:E; [|eapply IH; eassumption].
  inversion H; subst y. destruct st; try discriminate Hst. cbn [multiple_one is_multiple_nodel] in *.
  destruct (coverage_index cov g) as [k|]; [|discriminate].
  apply nth_error_In in E. rewrite forallb_forall in Hst. specialize (Hst gs E).
  destruct gs; [discriminate|]. split; [discriminate|]. apply Nat.leb_le. exact Hst.
Qed.

Definition multiple_out (f : font) (lk : lookup subst_subtable) (x : info) : option (list info) :=
  match multiple_sub (lk_subtables lk) (gid x) with Some gs => Some (seq_outs f x gs) | None => None end.

Lemma apply_sequence_ok : forall f K gs b x t,
  gs <> [] -> (length gs <= K)%nat -> rest b = x :: t -> ginv K b ->
  apply_sequence f gs b = Ok (with_pr b (pre b ++ seq_outs f x gs) t (S (dead b))).
Proof.
  intros f K gs b x t Hne Hlen E [Hm [Hok Hr]]. destruct gs as [|g [|g2 gt]]; [contradiction| |].
  - cbn [apply_sequence seq_outs]. apply ctx_replace_glyph_fwd; [|exact E].
    unfold fwd_inv. repeat split; try assumption. rewrite E in *. cbn [length] in *. nia.
  - cbn [apply_sequence seq_outs]. unfold cur. rewrite E. cbn [bind].
    destruct (output_components_ok f (lig_id x) (if is_ligature x then GP_BASE else 0) (g :: g2 :: gt) b x t 0 Hm E) as [x' Hx'].
    + rewrite E in Hr. cbn [length] in *. nia.
    + rewrite Hx'. cbn [bind]. unfold skip_glyph. cbn [with_pr rest out_mode pre dead]. rewrite Hm. reflexivity.
Qed.

Lemma first_apply_multiple : forall f e props nest rec K sts c x t,
  forallb (is_multiple_nodel K) sts = true -> rest (buf c) = x :: t -> ginv K (buf c) ->
  first_apply (subtable_apply f e props nest rec) sts c
  = match multiple_sub sts (gid x) with
    | Some gs => Ok (true, with_buf c (with_pr (buf c) (pre (buf c) ++ seq_outs f x gs) t (S (dead (buf c)))))
    | None => Ok (false, c)
    end.
Proof.
  intros f e props nest rec K sts c x t. induction sts as [|st ts IH]; intros Hall E Hinv; [reflexivity|].
  pose proof Hall as Hall0. cbn [forallb] in Hall. apply andb_true_iff in Hall. destruct Hall as [Hst Hts].
  cbn [first_apply]. destruct st; try discriminate Hst. cbn [subtable_apply].
  unfold apply_multiple, cur. rewrite E. cbn [bind multiple_sub multiple_one].
  destruct (coverage_index cov (gid x)) as [k|].
  - destruct (nth_error sequences (N.to_nat k)) as [gs|] eqn:En.
    + assert (Hp : gs <> [] /\ (length gs <= K)%nat).
      { cbn [is_multiple_nodel] in Hst. apply nth_error_In in En. rewrite forallb_forall in Hst. specialize (Hst gs En).
        destruct gs; [discriminate|]. split; [discriminate|]. apply Nat.leb_le. exact Hst. }
      destruct Hp as [Hne Hl]. rewrite (apply_sequence_ok f K gs (buf c) x t Hne Hl E Hinv). reflexivity.
    + cbn [bind fst snd]. apply IH; assumption.
  - cbn [bind fst snd]. apply IH; assumption.
Qed.

Definition multiple_map (f : font) (e : lenv) (lk : lookup subst_subtable) (x : info) : list info :=
  outp f e lk (multiple_out f lk) x.

Theorem multiple_forward : forall f e lk K l fuel c,
  (1 <= K)%nat -> forallb (is_multiple_nodel K) (lk_subtables lk) = true ->
  rest (buf c) = l -> ginv K (buf c) -> (length l <= fuel)%nat ->
  apply_forward fuel f e lk c
  = Ok (with_buf c (with_pr (buf c) (pre (buf c) ++ flat_map (multiple_map f e lk) l) [] (dead (buf c) + length l))).
Proof.
  intros f e lk K l fuel c HK Hall E Hinv Hf.
  apply (apply_forward_pointwise f e lk K (multiple_out f lk)); try assumption.
  - intros x o Ho. unfold multiple_out in Ho. destruct (multiple_sub (lk_subtables lk) (gid x)) as [gs|] eqn:Es; [|discriminate].
    inversion Ho. rewrite seq_outs_length. eapply multiple_sub_props; eassumption.
  - intros c0 x t E0 Hinv0. unfold top_apply, lookup_apply, multiple_out.
    rewrite (first_apply_multiple f e _ _ _ K _ c0 x t Hall E0 Hinv0).
    destruct (multiple_sub (lk_subtables lk) (gid x)); reflexivity.
Qed.

(* the produced glyphs: ids are the sequence, cluster and mask those of the replaced glyph *)
Theorem multiple_map_fields : forall f e lk x,
  (forall y, In y (multiple_map f e lk x) -> cluster y = cluster x /\ mask y = mask x)
  /\ map gid (multiple_map f e lk x)
     = (if glyph_enabled f e (lookup_props_of lk) x
        then match multiple_sub (lk_subtables lk) (gid x) with Some gs => gs | None => [gid x] end else [gid x]).
Proof.
  intros f e lk x. unfold multiple_map, outp, multiple_out. split.
  - intros y Hin. destruct (glyph_enabled f e (lookup_props_of lk) x); [|destruct Hin as [E|[]]; subst; split; reflexivity].
    destruct (multiple_sub (lk_subtables lk) (gid x)) as [gs|]; [eapply seq_outs_cm; exact Hin|].
    destruct Hin as [E|[]]; subst; split; reflexivity.
  - destruct (glyph_enabled f e (lookup_props_of lk) x); [|reflexivity].
    destruct (multiple_sub (lk_subtables lk) (gid x)) as [gs|]; [apply seq_outs_gids|reflexivity].
Qed.

(* ---------- the whole pass (apply_string) ---------- *)

Lemma flat_map_length_le : forall {A B} (g : A -> list B) K l,
  (forall x, length (g x) <= K)%nat -> (length (flat_map g l) <= K * length l)%nat.
Proof.
  intros A B g K l H. induction l as [|x t IH]; cbn [flat_map length]; [lia|]. rewrite app_length. specialize (H x). nia.
Qed.

Lemma multiple_not_reverse : forall K lk, forallb (is_multiple_nodel K) (lk_subtables lk) = true -> lookup_is_reverse lk = false.
Proof.
  intros K lk H. unfold lookup_is_reverse. destruct (lk_subtables lk) as [|st ts]; [reflexivity|].
  cbn [forallb] in *. apply andb_true_iff in H. destruct H as [H _]. destruct st; try discriminate H; reflexivity.
Qed.

Lemma multiple_map_length : forall f e lk K x, (1 <= K)%nat ->
  forallb (is_multiple_nodel K) (lk_subtables lk) = true -> (length (multiple_map f e lk x) <= K)%nat.
Proof.
  intros f e lk K x HK Hall. unfold multiple_map, outp, multiple_out.
  destruct (glyph_enabled f e (lookup_props_of lk) x); [|exact HK].
  destruct (multiple_sub (lk_subtables lk) (gid x)) as [gs|] eqn:E; [|exact HK].
  rewrite seq_outs_length. eapply multiple_sub_props; eassumption.
Qed.

Theorem multiple_apply_string : forall f e lk K c l,
  (1 <= K)%nat -> forallb (is_multiple_nodel K) (lk_subtables lk) = true ->
  at_rest (buf c) l -> l <> [] -> le_mask e <> 0 -> N.of_nat (K * length l) <= max_len (buf c) ->
  exists b', apply_string f e lk c = Ok (Some (with_buf c b'))
             /\ at_rest b' (flat_map (multiple_map f e lk) l)
             /\ level b' = level (buf c) /\ bflags b' = bflags (buf c) /\ max_len b' = max_len (buf c)
             /\ scratch b' = scratch (buf c).
Proof.
  intros f e lk K c l HK Hall [Hp [Hd [Hr [Hm Hok]]]] Hne Hmask Hroom.
  unfold apply_string. unfold blen. rewrite Hd, Hr.
  destruct l as [|x t]; [contradiction|]. cbn [length Nat.add Nat.eqb orb].
  destruct (N.eqb_spec (le_mask e) 0) as [E0|_]; [contradiction|].
  rewrite (multiple_not_reverse K lk Hall). cbn [negb]. rewrite Hm.
  unfold clear_output. rewrite Hm, Hp, Hr. cbn [app].
  set (b0 := mkZ [] (x :: t) 0 true (level (buf c)) (bflags (buf c)) (ok (buf c)) (max_len (buf c)) (scratch (buf c))).
  rewrite (multiple_forward f e lk K (x :: t) (forward_fuel b0) (with_buf c b0) HK Hall).
  - cbn [bind]. destruct c as [b mo se rs fa]. cbn [with_buf buf] in *.
    subst b0. unfold with_pr. cbn [pre rest dead out_mode level bflags ok max_len scratch app Nat.add].
    unfold sync. cbn [out_mode negb ok]. rewrite Hok. cbn [negb].
    unfold next_glyphs. cbn [rest length Nat.ltb Nat.leb out_mode]. unfold make_room_for, out_len. cbn [out_mode pre].
    rewrite ensure_room.
    + unfold with_pr. cbn [bind ok pre rest firstn skipn app level bflags max_len scratch dead negb].
      eexists. split; [reflexivity|]. unfold at_rest. cbn [pre dead rest out_mode ok level bflags max_len scratch].
      rewrite app_nil_r. repeat split; reflexivity.
    + cbn [max_len]. rewrite Nat.add_0_r.
      pose proof (flat_map_length_le (multiple_map f e lk) K (x :: t) (fun y => multiple_map_length f e lk K y HK Hall)) as Hl.
      lia.
  - destruct c; reflexivity.
  - destruct c as [b mo se rs fa]. cbn [with_buf buf] in *. subst b0. unfold ginv. cbn [out_mode ok pre rest max_len length Nat.add].
    repeat split; [exact Hok|exact Hroom].
  - destruct c as [b mo se rs fa]. cbn [with_buf buf] in *. subst b0. unfold forward_fuel. cbn [pre rest app]. lia.
Qed.
