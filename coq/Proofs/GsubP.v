(* Proofs/GsubP.v — lemmas about the GSUB interpreter (Model/Gsub.v): the forward pass of a lookup that
   replaces glyphs one for one (single and alternate substitution) is `map`. *)
From Coq Require Import List NArith ZArith Bool Arith Lia.
From RB Require Import Base.Result Model.Buffer Model.Font Model.Skip Model.Gsub.
Import ListNotations.
Local Open Scope N_scope.

(* ---------- the forward-pass invariant: output mode, no failure so far, room for the whole string ---------- *)

Definition fwd_inv (b : zbuf) : Prop :=
  out_mode b = true /\ ok b = true /\ N.of_nat (length (pre b) + length (rest b)) <= max_len b.

Lemma ensure_room : forall b size, N.of_nat size <= max_len b -> ensure b size = (true, b).
Proof.
  intros b size H. unfold ensure. destruct (size <? blen b)%nat; [reflexivity|].
  destruct (N.ltb_spec (max_len b) (N.of_nat size)); [lia|reflexivity].
Qed.

Lemma next_glyph_fwd : forall b x t, fwd_inv b -> rest b = x :: t ->
  next_glyph b = Ok (with_pr b (pre b ++ [x]) t (S (dead b))).
Proof.
  intros b x t [Hm [Hok Hr]] E. unfold next_glyph. rewrite E, Hm. unfold make_room_for, out_len. rewrite Hm.
  rewrite ensure_room; [reflexivity|]. rewrite E in Hr. cbn [length] in Hr. lia.
Qed.

Lemma replace_glyph_fwd : forall b x t g, fwd_inv b -> rest b = x :: t ->
  replace_glyph b g = Ok (with_pr b (pre b ++ [set_gid x g]) t (S (dead b))).
Proof.
  intros b x t g [Hm [Hok Hr]] E. unfold replace_glyph. rewrite E. unfold make_room_for, out_len. rewrite Hm.
  rewrite ensure_room; [reflexivity|]. rewrite E in Hr. cbn [length] in Hr. lia.
Qed.

Lemma fwd_inv_step : forall b x t y, fwd_inv b -> rest b = x :: t ->
  fwd_inv (with_pr b (pre b ++ [y]) t (S (dead b))).
Proof.
  intros b x t y [Hm [Hok Hr]] E. unfold fwd_inv, with_pr. cbn [out_mode ok pre rest max_len].
  repeat split; try assumption. rewrite E in Hr. rewrite app_length. cbn [length] in *. lia.
Qed.

Lemma fwd_inv_map_cur : forall b x t fn, fwd_inv b -> rest b = x :: t ->
  map_cur fn b = Ok (with_pr b (pre b) (fn x :: t) (dead b)) /\ fwd_inv (with_pr b (pre b) (fn x :: t) (dead b)).
Proof.
  intros b x t fn [Hm [Hok Hr]] E. unfold map_cur. rewrite E. split; [reflexivity|].
  unfold fwd_inv, with_pr. cbn [out_mode ok pre rest max_len]. rewrite E in Hr. cbn [length] in *. repeat split; assumption.
Qed.

(* ctx.replace_glyph on a non-empty input under the invariant *)
Definition replaced (f : font) (x : info) (g : N) : info := set_gid (set_glyph_class f x g 0 false false) g.

Lemma ctx_replace_glyph_fwd : forall f b x t g, fwd_inv b -> rest b = x :: t ->
  ctx_replace_glyph f b g = Ok (with_pr b (pre b ++ [replaced f x g]) t (S (dead b))).
Proof.
  intros f b x t g Hinv E. unfold ctx_replace_glyph.
  destruct (fwd_inv_map_cur b x t (fun i => set_glyph_class f i g 0 false false) Hinv E) as [H1 H2].
  rewrite H1. cbn [bind]. rewrite (replace_glyph_fwd _ (set_glyph_class f x g 0 false false) t g H2 eq_refl).
  reflexivity.
Qed.

(* ---------- a lookup that replaces the current glyph, depending on that glyph only ---------- *)

Section Replace.
  Variable f : font.
  Variable e : lenv.
  Variable lk : lookup subst_subtable.
  Variable sub : info -> option N.

  Hypothesis Htop : forall c x t, rest (buf c) = x :: t ->
    top_apply f e lk c = match sub x with
                         | Some g => do b <- ctx_replace_glyph f (buf c) g; Ok (true, with_buf c b)
                         | None => Ok (false, c)
                         end.

  Definition repl (x : info) : info :=
    if glyph_enabled f e (lookup_props_of lk) x
    then match sub x with Some g => replaced f x g | None => x end
    else x.

  Lemma apply_forward_replace : forall l fuel c,
    rest (buf c) = l -> fwd_inv (buf c) -> (length l <= fuel)%nat ->
    apply_forward fuel f e lk c
    = Ok (with_buf c (with_pr (buf c) (pre (buf c) ++ map repl l) [] (dead (buf c) + length l))).
  Proof.
    induction l as [|x t IH]; intros fuel c E Hinv Hf.
    - destruct fuel; cbn [apply_forward]; rewrite E; cbn [map length]; rewrite app_nil_r, Nat.add_0_r;
        destruct c as [b mo se rs fa]; destruct b; cbn in *; subst; reflexivity.
    - destruct fuel as [|k]; [cbn [length] in Hf; lia|]. cbn [apply_forward]. rewrite E.
      destruct Hinv as [Hm [Hok Hr]]. rewrite Hok. cbn [negb].
      assert (Hinv : fwd_inv (buf c)) by (repeat split; assumption).
      assert (Hnext : forall y, let c1 := with_buf c (with_pr (buf c) (pre (buf c) ++ [y]) t (S (dead (buf c)))) in
                apply_forward k f e lk c1
                = Ok (with_buf c (with_pr (buf c) (pre (buf c) ++ y :: map repl t) [] (dead (buf c) + S (length t))))).
      { intros y c1. rewrite (IH k c1).
        - subst c1. destruct c as [b mo se rs fa]; destruct b. cbn. rewrite <- app_assoc. cbn [app].
          rewrite Nat.add_succ_r. reflexivity.
        - subst c1. destruct c as [b mo se rs fa]; destruct b. reflexivity.
        - subst c1. destruct c as [b mo se rs fa]. cbn [with_buf buf]. eapply fwd_inv_step; eassumption.
        - cbn [length] in Hf. lia. }
      cbn [map length]. unfold repl at 1.
      destruct (glyph_enabled f e (lookup_props_of lk) x) eqn:Hen.
      + rewrite (Htop c x t E). destruct (sub x) as [g|] eqn:Hs.
        * rewrite (ctx_replace_glyph_fwd f (buf c) x t g Hinv E). cbn [bind]. apply Hnext.
        * cbn [bind]. rewrite (next_glyph_fwd (buf c) x t Hinv E). cbn [bind]. apply Hnext.
      + cbn [bind]. rewrite (next_glyph_fwd (buf c) x t Hinv E). cbn [bind]. apply Hnext.
  Qed.
End Replace.

(* ---------- single substitution ---------- *)

Definition single_one (st : subst_subtable) (g : N) : option N :=
  match st with
  | SSingle1 cov d => match coverage_index cov g with Some _ => Some (u16_add g d) | None => None end
  | SSingle2 cov subs => match coverage_index cov g with Some k => nth_error subs (N.to_nat k) | None => None end
  | _ => None
  end.

(* "applies the first matching subtable" *)
Fixpoint single_sub (sts : list subst_subtable) (g : N) : option N :=
  match sts with
  | [] => None
  | st :: t => match single_one st g with Some y => Some y | None => single_sub t g end
  end.

Definition is_single (st : subst_subtable) : bool :=
  match st with SSingle1 _ _ | SSingle2 _ _ => true | _ => false end.

Lemma first_apply_single : forall f e props nest rec sts c x t,
  forallb is_single sts = true -> rest (buf c) = x :: t ->
  first_apply (subtable_apply f e props nest rec) sts c
  = match single_sub sts (gid x) with
    | Some g => do b <- ctx_replace_glyph f (buf c) g; Ok (true, with_buf c b)
    | None => Ok (false, c)
    end.
Proof.
  intros f e props nest rec sts c x t. induction sts as [|st ts IH]; intros Hall E; [reflexivity|].
  cbn [forallb] in Hall. apply andb_true_iff in Hall. destruct Hall as [Hst Hts].
  cbn [first_apply single_sub]. destruct st; try discriminate Hst; cbn [subtable_apply single_one].
  - unfold apply_single1, cur. rewrite E. cbn [bind]. destruct (coverage_index cov (gid x)).
    + destruct (ctx_replace_glyph f (buf c) (u16_add (gid x) delta)); reflexivity.
    + cbn [bind fst snd]. apply IH; assumption.
  - unfold apply_single2, cur. rewrite E. cbn [bind]. destruct (coverage_index cov (gid x)) as [k|].
    + destruct (nth_error substitutes (N.to_nat k)) as [g|].
      * destruct (ctx_replace_glyph f (buf c) g); reflexivity.
      * cbn [bind fst snd]. apply IH; assumption.
    + cbn [bind fst snd]. apply IH; assumption.
Qed.

Definition single_map (f : font) (e : lenv) (lk : lookup subst_subtable) (x : info) : info :=
  repl f e lk (fun y => single_sub (lk_subtables lk) (gid y)) x.

Theorem single_forward : forall f e lk l fuel c,
  forallb is_single (lk_subtables lk) = true ->
  rest (buf c) = l -> fwd_inv (buf c) -> (length l <= fuel)%nat ->
  apply_forward fuel f e lk c
  = Ok (with_buf c (with_pr (buf c) (pre (buf c) ++ map (single_map f e lk) l) [] (dead (buf c) + length l))).
Proof.
  intros f e lk l fuel c Hall E Hinv Hf.
  apply (apply_forward_replace f e lk (fun y => single_sub (lk_subtables lk) (gid y))); try assumption.
  intros c0 x t E0. unfold top_apply, lookup_apply. apply (first_apply_single _ _ _ _ _ _ _ x t Hall E0).
Qed.

(* everything except the glyph id and var1 (glyph props) is untouched *)
Lemma replaced_fields : forall f x g,
  gid (replaced f x g) = g /\ cluster (replaced f x g) = cluster x /\ mask (replaced f x g) = mask x
  /\ var2 (replaced f x g) = var2 x.
Proof.
  intros f x g. unfold replaced, set_glyph_class.
  destruct (has_glyph_classes f); [|destruct (negb (0 =? 0))]; repeat split; reflexivity.
Qed.

Lemma repl_fields : forall f e lk sub x,
  cluster (repl f e lk sub x) = cluster x /\ mask (repl f e lk sub x) = mask x /\ var2 (repl f e lk sub x) = var2 x
  /\ gid (repl f e lk sub x) = (if glyph_enabled f e (lookup_props_of lk) x
                                then match sub x with Some g => g | None => gid x end else gid x).
Proof.
  intros f e lk sub x. unfold repl. destruct (glyph_enabled f e (lookup_props_of lk) x); [|repeat split; reflexivity].
  destruct (sub x) as [g|]; [|repeat split; reflexivity].
  destruct (replaced_fields f x g) as [H1 [H2 [H3 H4]]]. repeat split; assumption.
Qed.

(* ---------- alternate substitution (not the `rand` feature) ---------- *)

Definition alt_index (e : lenv) (x : info) : N := N.shiftr (N.land (le_mask e) (mask x)) (ctz32 (le_mask e)).

Definition alternate_one (e : lenv) (st : subst_subtable) (x : info) : option N :=
  match st with
  | SAlternate cov sets =>
    match coverage_index cov (gid x) with
    | Some k => match nth_error sets (N.to_nat k) with
                | Some alts => let ai := alt_index e x in
                               if (65536 <=? ai) || (ai =? 0) then None else nth_error alts (N.to_nat (ai - 1))
                | None => None
                end
    | None => None
    end
  | _ => None
  end.

Fixpoint alternate_sub (e : lenv) (sts : list subst_subtable) (x : info) : option N :=
  match sts with
  | [] => None
  | st :: t => match alternate_one e st x with Some y => Some y | None => alternate_sub e t x end
  end.

Definition is_alternate (st : subst_subtable) : bool := match st with SAlternate _ _ => true | _ => false end.

Lemma first_apply_alternate : forall f e props nest rec sts c x t,
  le_random e = false ->
  forallb is_alternate sts = true -> rest (buf c) = x :: t ->
  first_apply (subtable_apply f e props nest rec) sts c
  = match alternate_sub e sts x with
    | Some g => do b <- ctx_replace_glyph f (buf c) g; Ok (true, with_buf c b)
    | None => Ok (false, c)
    end.
Proof.
  intros f e props nest rec sts c x t Hr. induction sts as [|st ts IH]; intros Hall E; [reflexivity|].
  cbn [forallb] in Hall. apply andb_true_iff in Hall. destruct Hall as [Hst Hts].
  cbn [first_apply alternate_sub]. destruct st; try discriminate Hst; cbn [subtable_apply alternate_one].
  unfold apply_alternate, cur. rewrite E. cbn [bind]. destruct (coverage_index cov (gid x)) as [k|].
  - destruct (nth_error alternates (N.to_nat k)) as [alts|].
    + rewrite Hr, andb_false_r. cbn [bind]. fold (alt_index e x). cbv zeta.
      destruct alts as [|a0 alts'].
      * cbn [bind fst snd]. destruct ((65536 <=? alt_index e x) || (alt_index e x =? 0)).
        -- apply IH; assumption.
        -- destruct (N.to_nat (alt_index e x - 1)); cbn [nth_error]; apply IH; assumption.
      * destruct ((65536 <=? alt_index e x) || (alt_index e x =? 0)).
        -- cbn [bind fst snd]. apply IH; assumption.
        -- destruct (nth_error (a0 :: alts') (N.to_nat (alt_index e x - 1))) as [g|].
           ++ destruct (ctx_replace_glyph f (buf c) g); reflexivity.
           ++ cbn [bind fst snd]. apply IH; assumption.
    + cbn [bind fst snd]. apply IH; assumption.
  - cbn [bind fst snd]. apply IH; assumption.
Qed.

Definition alternate_map (f : font) (e : lenv) (lk : lookup subst_subtable) (x : info) : info :=
  repl f e lk (alternate_sub e (lk_subtables lk)) x.

Theorem alternate_forward : forall f e lk l fuel c,
  le_random e = false ->
  forallb is_alternate (lk_subtables lk) = true ->
  rest (buf c) = l -> fwd_inv (buf c) -> (length l <= fuel)%nat ->
  apply_forward fuel f e lk c
  = Ok (with_buf c (with_pr (buf c) (pre (buf c) ++ map (alternate_map f e lk) l) [] (dead (buf c) + length l))).
Proof.
  intros f e lk l fuel c Hr Hall E Hinv Hf.
  apply (apply_forward_replace f e lk (alternate_sub e (lk_subtables lk))); try assumption.
  intros c0 x t E0. unfold top_apply, lookup_apply. apply (first_apply_alternate _ _ _ _ _ _ _ x t Hr Hall E0).
Qed.

(* ---------- the whole pass of one lookup (apply_string) for the one-for-one lookups ---------- *)

(* a buffer between lookups: in-place mode, idx = 0 *)
Definition at_rest (b : zbuf) (l : list info) : Prop :=
  pre b = [] /\ dead b = O /\ rest b = l /\ out_mode b = false /\ ok b = true.

Lemma not_reverse_single : forall lk, forallb is_single (lk_subtables lk) = true -> lookup_is_reverse lk = false.
Proof.
  intros lk H. unfold lookup_is_reverse. destruct (lk_subtables lk) as [|st ts]; [reflexivity|].
  cbn [forallb] in *. apply andb_true_iff in H. destruct H as [H _].
  destruct st; try discriminate H; reflexivity.
Qed.
Lemma not_reverse_alternate : forall lk, forallb is_alternate (lk_subtables lk) = true -> lookup_is_reverse lk = false.
Proof.
  intros lk H. unfold lookup_is_reverse. destruct (lk_subtables lk) as [|st ts]; [reflexivity|].
  cbn [forallb] in *. apply andb_true_iff in H. destruct H as [H _].
  destruct st; try discriminate H; reflexivity.
Qed.

Lemma apply_string_map : forall f e lk (g : info -> info) c l,
  lookup_is_reverse lk = false ->
  (forall fuel c0, rest (buf c0) = l -> fwd_inv (buf c0) -> (length l <= fuel)%nat ->
     apply_forward fuel f e lk c0
     = Ok (with_buf c0 (with_pr (buf c0) (pre (buf c0) ++ map g l) [] (dead (buf c0) + length l)))) ->
  at_rest (buf c) l -> l <> [] -> le_mask e <> 0 -> N.of_nat (length l) <= max_len (buf c) ->
  exists b', apply_string f e lk c = Ok (Some (with_buf c b'))
             /\ at_rest b' (map g l)
             /\ level b' = level (buf c) /\ bflags b' = bflags (buf c) /\ max_len b' = max_len (buf c)
             /\ scratch b' = scratch (buf c).
Proof.
  intros f e lk g c l Hrev Hfwd [Hp [Hd [Hr [Hm Hok]]]] Hne Hmask Hroom.
  unfold apply_string. unfold blen. rewrite Hd, Hr.
  destruct l as [|x t]; [contradiction|]. cbn [length Nat.add Nat.eqb orb].
  destruct (N.eqb_spec (le_mask e) 0) as [E0|_]; [contradiction|].
  rewrite Hrev. cbn [negb]. rewrite Hm.
  unfold clear_output. rewrite Hm, Hp, Hr. cbn [app].
  set (b0 := mkZ [] (x :: t) 0 true (level (buf c)) (bflags (buf c)) (ok (buf c)) (max_len (buf c)) (scratch (buf c))).
  rewrite (Hfwd (forward_fuel b0) (with_buf c b0)).
  - cbn [bind]. destruct c as [b mo se rs fa]. cbn [with_buf buf] in *.
    subst b0. unfold with_pr. cbn [pre rest dead out_mode level bflags ok max_len scratch app Nat.add].
    unfold sync. cbn [out_mode negb ok]. rewrite Hok. cbn [negb].
    unfold next_glyphs. cbn [rest length Nat.ltb Nat.leb out_mode]. unfold make_room_for, out_len. cbn [out_mode pre].
    rewrite ensure_room.
    + unfold with_pr. cbn [bind ok pre rest firstn skipn app level bflags max_len scratch dead negb].
      eexists. split; [reflexivity|]. unfold at_rest. cbn [pre dead rest out_mode ok level bflags max_len scratch].
      rewrite app_nil_r. repeat split; reflexivity.
    + cbn [max_len]. rewrite Nat.add_0_r. rewrite map_length. exact Hroom.
  - destruct c; reflexivity.
  - destruct c as [b mo se rs fa]. cbn [with_buf buf] in *. subst b0. unfold fwd_inv. cbn [out_mode ok pre rest max_len length Nat.add].
    repeat split; [exact Hok|exact Hroom].
  - destruct c as [b mo se rs fa]. cbn [with_buf buf] in *. subst b0. unfold forward_fuel. cbn [pre rest app]. lia.
Qed.

Theorem single_apply_string : forall f e lk c l,
  forallb is_single (lk_subtables lk) = true ->
  at_rest (buf c) l -> l <> [] -> le_mask e <> 0 -> N.of_nat (length l) <= max_len (buf c) ->
  exists b', apply_string f e lk c = Ok (Some (with_buf c b'))
             /\ at_rest b' (map (single_map f e lk) l)
             /\ level b' = level (buf c) /\ bflags b' = bflags (buf c) /\ max_len b' = max_len (buf c)
             /\ scratch b' = scratch (buf c).
Proof.
  intros f e lk c l Hall. apply apply_string_map.
  - apply not_reverse_single. exact Hall.
  - intros fuel c0 E Hinv Hf. apply single_forward; assumption.
Qed.

Theorem alternate_apply_string : forall f e lk c l,
  le_random e = false ->
  forallb is_alternate (lk_subtables lk) = true ->
  at_rest (buf c) l -> l <> [] -> le_mask e <> 0 -> N.of_nat (length l) <= max_len (buf c) ->
  exists b', apply_string f e lk c = Ok (Some (with_buf c b'))
             /\ at_rest b' (map (alternate_map f e lk) l)
             /\ level b' = level (buf c) /\ bflags b' = bflags (buf c) /\ max_len b' = max_len (buf c)
             /\ scratch b' = scratch (buf c).
Proof.
  intros f e lk c l Hr Hall. apply apply_string_map.
  - apply not_reverse_alternate. exact Hall.
  - intros fuel c0 E Hinv Hf. apply alternate_forward; assumption.
Qed.
